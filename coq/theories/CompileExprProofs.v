(* C05 — proofs about ExprSem / CompileExpr / FragVM / Decompile. *)
From Coq Require Import Strings.String.
From Coq Require Import List NArith ZArith Bool Arith Lia.
From Coq Require Import Strings.Byte Floats.SpecFloat.
From YV Require Import Ast Num NumText Bytecode ExprSem CompileExpr FragVM Decompile.
Import ListNotations.
Local Open Scope nat_scope.
Local Open Scope list_scope.

(* ================================================================== *)
(* 0. Generalities                                                     *)

Lemma byte_eqb_eq : forall a b : byte, Byte.eqb a b = true <-> a = b.
Proof.
  intros a b; split; intro H.
  - apply Byte.byte_dec_bl; exact H.
  - subst; apply Byte.byte_dec_lb; reflexivity.
Qed.

Lemma cbytes_eqb_eq : forall a b, CompileExpr.bytes_eqb a b = true <-> a = b.
Proof.
  induction a as [|x a IH]; destruct b as [|y b]; simpl; split; intro H; try easy.
  - apply andb_true_iff in H; destruct H as [H1 H2].
    apply byte_eqb_eq in H1; apply IH in H2; congruence.
  - inversion H; subst. apply andb_true_iff; split; [apply byte_eqb_eq|apply IH]; reflexivity.
Qed.

Lemma ebytes_eqb_eq : forall a b, ExprSem.bytes_eqb a b = true <-> a = b.
Proof.
  induction a as [|x a IH]; destruct b as [|y b]; simpl; split; intro H; try easy.
  - apply andb_true_iff in H; destruct H as [H1 H2].
    apply byte_eqb_eq in H1; apply IH in H2; congruence.
  - inversion H; subst. apply andb_true_iff; split; [apply byte_eqb_eq|apply IH]; reflexivity.
Qed.

Lemma bytes_eqb_agree : forall a b, ExprSem.bytes_eqb a b = CompileExpr.bytes_eqb a b.
Proof.
  intros a b. destruct (CompileExpr.bytes_eqb a b) eqn:E.
  - apply cbytes_eqb_eq in E; subst; apply ebytes_eqb_eq; reflexivity.
  - destruct (ExprSem.bytes_eqb a b) eqn:F; [|reflexivity].
    apply ebytes_eqb_eq in F; subst.
    assert (CompileExpr.bytes_eqb b b = true) by (apply cbytes_eqb_eq; reflexivity). congruence.
Qed.

(* the head constructors of the fragment *)
Definition frag_head (e : expr) : bool :=
  match e with
  | ENil | ETrue | EFalse | ENum _ | EStr _ | EInterp _ | EVar _ | EAssign _ _
  | ECompound _ _ _ | EUnary _ _ | EBinary _ _ _ | EAnd _ _ | EOr _ _ | ERange _ _
  | ECall _ _ | EIndex _ _ | ESetIndex _ _ _ | ETuple _ | EVec _ => true
  | _ => false
  end.

(* induction principle with hypotheses for list-carrying constructors *)
Section ExprInd.
  Variable P : expr -> Prop.
  Definition Ppart (p : interp_part) : Prop :=
    match p with IPStr _ => True | IPExpr e => P e end.
  Hypothesis Hnil : P ENil.
  Hypothesis Htrue : P ETrue.
  Hypothesis Hfalse : P EFalse.
  Hypothesis Hnum : forall x, P (ENum x).
  Hypothesis Hstr : forall str, P (EStr str).
  Hypothesis Hinterp : forall ps, Forall Ppart ps -> P (EInterp ps).
  Hypothesis Hvar : forall x, P (EVar x).
  Hypothesis Hassign : forall x e, P e -> P (EAssign x e).
  Hypothesis Hcompound : forall x op e, P e -> P (ECompound x op e).
  Hypothesis Hunary : forall op e, P e -> P (EUnary op e).
  Hypothesis Hbinary : forall op a b, P a -> P b -> P (EBinary op a b).
  Hypothesis Hand : forall a b, P a -> P b -> P (EAnd a b).
  Hypothesis Hor : forall a b, P a -> P b -> P (EOr a b).
  Hypothesis Hrange : forall a b, P a -> P b -> P (ERange a b).
  Hypothesis Hcall : forall f args, P f -> Forall P args -> P (ECall f args).
  Hypothesis Hindex : forall o i, P o -> P i -> P (EIndex o i).
  Hypothesis Hsetindex : forall o i e, P o -> P i -> P e -> P (ESetIndex o i e).
  Hypothesis Htuple : forall es, Forall P es -> P (ETuple es).
  Hypothesis Hvec : forall es, Forall P es -> P (EVec es).
  Hypothesis Hother : forall e, frag_head e = false -> P e.

  Fixpoint expr_ind2 (e : expr) : P e :=
    let list_ind2 := fix go (l : list expr) : Forall P l :=
      match l with
      | [] => Forall_nil _
      | x :: r => Forall_cons _ (expr_ind2 x) (go r)
      end in
    match e with
    | ENil => Hnil | ETrue => Htrue | EFalse => Hfalse
    | ENum x => Hnum x | EStr s => Hstr s
    | EInterp ps =>
      Hinterp ps ((fix go (l : list interp_part) : Forall Ppart l :=
                     match l with
                     | [] => Forall_nil _
                     | p :: r =>
                       Forall_cons _ (match p as p0 return Ppart p0 with
                                      | IPStr _ => I
                                      | IPExpr e1 => expr_ind2 e1
                                      end) (go r)
                     end) ps)
    | EVar x => Hvar x
    | EAssign x e1 => Hassign x e1 (expr_ind2 e1)
    | ECompound x op e1 => Hcompound x op e1 (expr_ind2 e1)
    | EUnary op e1 => Hunary op e1 (expr_ind2 e1)
    | EBinary op a b => Hbinary op a b (expr_ind2 a) (expr_ind2 b)
    | EAnd a b => Hand a b (expr_ind2 a) (expr_ind2 b)
    | EOr a b => Hor a b (expr_ind2 a) (expr_ind2 b)
    | ERange a b => Hrange a b (expr_ind2 a) (expr_ind2 b)
    | ECall f args => Hcall f args (expr_ind2 f) (list_ind2 args)
    | EIndex o i => Hindex o i (expr_ind2 o) (expr_ind2 i)
    | ESetIndex o i e1 => Hsetindex o i e1 (expr_ind2 o) (expr_ind2 i) (expr_ind2 e1)
    | ETuple es => Htuple es (list_ind2 es)
    | EVec es => Hvec es (list_ind2 es)
    | ESelf => Hother ESelf eq_refl
    | ECapSelf => Hother ECapSelf eq_refl
    | ESuperGet m => Hother (ESuperGet m) eq_refl
    | ESuperCall m a => Hother (ESuperCall m a) eq_refl
    | EGet o m => Hother (EGet o m) eq_refl
    | ESet o m e1 => Hother (ESet o m e1) eq_refl
    | ESetCompound o m op e1 => Hother (ESetCompound o m op e1) eq_refl
    | EInvoke o m a => Hother (EInvoke o m a) eq_refl
    | EMap kvs => Hother (EMap kvs) eq_refl
    | ELambda ps b => Hother (ELambda ps b) eq_refl
    end.
End ExprInd.

(* the code of the parts of an interpolation (the inner fix of cexpr, named) *)
Fixpoint cparts (env : cenv) (ps : list interp_part) : list instr :=
  match ps with
  | [] => []
  | IPStr s :: r => IConst (CStr s) :: cparts env r
  | IPExpr e1 :: r => cexpr env e1 ++ IOp OpFormatString :: cparts env r
  end.

Lemma cexpr_interp : forall env ps,
  cexpr env (EInterp ps) = cparts env ps ++ [IOp8 OpBuildString (nlen ps)].
Proof.
  intros env ps. cbn [cexpr]. f_equal.
  induction ps as [|p r IH]; [reflexivity|].
  destruct p; cbn [cparts]; rewrite <- IH; reflexivity.
Qed.

Lemma nlen_to_nat : forall A (l : list A), N.to_nat (nlen l) = length l.
Proof. intros; unfold nlen; apply Nat2N.id. Qed.
(* ================================================================== *)
(* 1. operands_once_in_order                                           *)

(* direct subexpressions, in source order *)
Definition subexprs (e : expr) : list expr :=
  match e with
  | EInterp ps => flat_map (fun p => match p with IPExpr e1 => [e1] | IPStr _ => [] end) ps
  | EAssign _ e1 | ECompound _ _ e1 | EUnary _ e1 => [e1]
  | EBinary _ a b | EAnd a b | EOr a b | ERange a b | EIndex a b => [a; b]
  | ECall f args => f :: args
  | ESetIndex o i e1 => [o; i; e1]
  | ETuple es | EVec es => es
  | _ => []
  end.

(* g0 ++ c1 ++ g1 ++ c2 ++ ... ++ cn ++ gn *)
Fixpoint interleave (gs cs : list (list instr)) : list instr :=
  match gs, cs with
  | g :: gs', c :: cs' => g ++ c ++ interleave gs' cs'
  | g :: _, [] => g
  | [], _ => []
  end.

Definition is_jump (i : instr) : bool :=
  match i with IJump _ _ | ILoop _ => true | _ => false end.
Definition jump_free (c : list instr) : bool := forallb (fun i => negb (is_jump i)) c.

(* glue of a list of operands compiled back to back: [[]; []; ...; last] *)
Definition glue_seq (n : nat) (last : list instr) : list (list instr) := repeat [] n ++ [last].

Lemma interleave_seq : forall (cs : list (list instr)) last,
  interleave (glue_seq (length cs) last) cs = concat cs ++ last.
Proof.
  induction cs as [|c cs IH]; intros last; [reflexivity|].
  cbn. unfold glue_seq in IH. rewrite IH. rewrite app_assoc. reflexivity.
Qed.

Lemma interleave_seq_map : forall A (f : A -> list instr) (l : list A) last,
  interleave (glue_seq (length l) last) (map f l) = flat_map f l ++ last.
Proof.
  intros. rewrite <- (map_length f l). rewrite interleave_seq, flat_map_concat_map. reflexivity.
Qed.

Lemma glue_seq_length : forall n last, length (glue_seq n last) = S n.
Proof. intros. unfold glue_seq. rewrite app_length, repeat_length. simpl. lia. Qed.

Lemma glue_seq_jump_free : forall n last,
  jump_free last = true -> forallb jump_free (glue_seq n last) = true.
Proof.
  intros n last H. unfold glue_seq. rewrite forallb_app. apply andb_true_iff; split.
  - induction n; simpl; auto.
  - simpl. rewrite H. reflexivity.
Qed.

Lemma flat_map_concat_map' : forall A B (f : A -> list B) l, flat_map f l = concat (map f l).
Proof. intros. apply flat_map_concat_map. Qed.

(* glue for an interpolation: before each IPExpr sit the string constants since the previous
   one (and that one's FormatString) *)
Fixpoint interp_glue (ps : list interp_part) (cur : list instr) (n : N) : list (list instr) :=
  match ps with
  | [] => [cur ++ [IOp8 OpBuildString n]]
  | IPStr s :: r => interp_glue r (cur ++ [IConst (CStr s)]) n
  | IPExpr _ :: r => cur :: interp_glue r [IOp OpFormatString] n
  end.

Lemma interp_glue_spec : forall env ps cur n,
  interleave (interp_glue ps cur n)
             (map (cexpr env) (flat_map (fun p => match p with IPExpr e1 => [e1] | IPStr _ => [] end) ps))
  = cur ++ cparts env ps ++ [IOp8 OpBuildString n]
  /\ length (interp_glue ps cur n)
     = S (length (flat_map (fun p => match p with IPExpr e1 => [e1] | IPStr _ => [] end) ps))
  /\ (jump_free cur = true -> forallb jump_free (interp_glue ps cur n) = true).
Proof.
  intros env ps; induction ps as [|p r IH]; intros cur n.
  - cbn. repeat split; auto. intro H. unfold jump_free in *. rewrite forallb_app, H. reflexivity.
  - destruct p as [s|e1].
    + cbn [interp_glue flat_map cparts app]. destruct (IH (cur ++ [IConst (CStr s)]) n) as (A & B & C).
      repeat split.
      * rewrite A. rewrite <- app_assoc. reflexivity.
      * exact B.
      * intro H. apply C. unfold jump_free in *. rewrite forallb_app, H. reflexivity.
    + cbn [interp_glue flat_map cparts app map interleave].
      destruct (IH [IOp OpFormatString] n) as (A & B & C). repeat split.
      * rewrite A. cbn. rewrite <- app_assoc. reflexivity.
      * cbn. rewrite B. reflexivity.
      * intro H. cbn [forallb]. rewrite H, C; auto.
Qed.

Definition short_circuit (e : expr) : bool :=
  match e with EAnd _ _ | EOr _ _ => true | _ => false end.

(* In [cexpr env e] the code of every direct subexpression occurs once, contiguously, in source
   order (the decomposition [interleave gs ...]); the glue between the operands holds no jump
   unless e is && or ||, whose glue is exactly the short-circuit test: the only skipped code is
   the right operand (and the Pop of the left value before it). *)
Theorem operands_once_in_order : forall env e,
  exists gs : list (list instr),
    length gs = S (length (subexprs e)) /\
    cexpr env e = interleave gs (map (cexpr env) (subexprs e)) /\
    (short_circuit e = false -> forallb jump_free gs = true) /\
    (forall a b, e = EAnd a b ->
       gs = [[]; [IJump OpJumpIfFalse (S (length (cexpr env b))); IOp OpPop]; []]) /\
    (forall a b, e = EOr a b ->
       gs = [[]; [IJump OpJumpIfFalse 1; IJump OpJump (S (length (cexpr env b))); IOp OpPop]; []]).
Proof.
  intros env e.
  Local Ltac fin := repeat split; try reflexivity; try (intros; discriminate).
  destruct e; cbn [subexprs map length].
  all: try solve [ eexists [_]; cbn; fin ].
  - (* EInterp *)
    destruct (interp_glue_spec env parts [] (nlen parts)) as (A & B & C).
    exists (interp_glue parts [] (nlen parts)). rewrite cexpr_interp.
    fin; auto.
  - (* EVar *)
    cbn. destruct (resolve env x); eexists [_]; cbn; fin.
  - (* EAssign *)
    cbn. destruct (resolve env x).
    + exists [[]; [IOp8 OpSetLocal n]]. cbn. fin.
    + exists [[ITouch (CStr x)]; [IGlobal OpSetGlobal x]]. cbn. fin.
  - (* ECompound *)
    cbn. destruct (resolve env x).
    + exists [[IOp8 OpGetLocal n]; compound_code op ++ [IOp8 OpSetLocal n]]. cbn. fin.
      intros _. destruct op; reflexivity.
    + exists [[IGlobal OpGetGlobal x]; compound_code op ++ [IGlobal OpSetGlobal x]]. cbn. fin.
      intros _. destruct op; reflexivity.
  - (* EUnary *)
    exists [[]; unop_code op]. cbn. fin. intros _; destruct op; reflexivity.
  - (* EBinary *)
    exists [[]; []; binop_code op]. cbn. fin. intros _; destruct op; reflexivity.
  - (* EAnd *)
    exists [[]; [IJump OpJumpIfFalse (S (length (cexpr env e2))); IOp OpPop]; []].
    cbn. fin.
    + rewrite app_nil_r. reflexivity.
    + intros a b H; inversion H; subst; reflexivity.
  - (* EOr *)
    exists [[]; [IJump OpJumpIfFalse 1; IJump OpJump (S (length (cexpr env e2))); IOp OpPop]; []].
    cbn. fin.
    + rewrite app_nil_r. reflexivity.
    + intros a b H; inversion H; subst; reflexivity.
  - (* ERange *)
    exists [[]; []; [IOp OpBuildRange]]. cbn. fin.
  - (* ECall *)
    exists ([] :: glue_seq (length args) [IOp8 OpCall (nlen args)]).
    cbn [interleave cexpr app].
    rewrite interleave_seq_map.
    cbn [length]. rewrite glue_seq_length. fin.
    intros _. cbn [forallb]. rewrite glue_seq_jump_free; reflexivity.
  - (* EIndex *)
    exists [[]; []; [IOp OpGetItem]]. cbn. fin.
  - (* ESetIndex *)
    exists [[]; []; []; [IOp OpSetItem]]. cbn. fin.
  - (* ETuple *)
    exists (glue_seq (length es) [IOp8 OpBuildTuple (nlen es)]).
    cbn [cexpr].
    rewrite interleave_seq_map, glue_seq_length. fin.
    intros _. rewrite glue_seq_jump_free; reflexivity.
  - (* EVec *)
    exists (glue_seq (length es) [IOp8 OpBuildVec (nlen es)]).
    cbn [cexpr].
    rewrite interleave_seq_map, glue_seq_length. fin.
    intros _. rewrite glue_seq_jump_free; reflexivity.
Qed.
Print Assumptions operands_once_in_order.
(* ================================================================== *)
(* 2. decompile_compile                                                *)

Lemma find_local_lt : forall l x k, find_local l x = Some k -> k < length l.
Proof.
  induction l as [|[y d] r IH]; intros x k H; cbn in H; [discriminate|].
  destruct (CompileExpr.bytes_eqb x y).
  - inversion H; subst; cbn; lia.
  - apply IH in H. cbn; lia.
Qed.

Lemma find_local_name : forall l x k,
  find_local l x = Some k -> nth_error (rev (map fst l)) k = Some x.
Proof.
  induction l as [|[y d] r IH]; intros x k H; cbn in H; [discriminate|].
  cbn [map fst rev]. destruct (CompileExpr.bytes_eqb x y) eqn:E.
  - inversion H; subst. apply cbytes_eqb_eq in E; subst.
    rewrite nth_error_app2; rewrite rev_length, map_length; [|lia].
    rewrite Nat.sub_diag. reflexivity.
  - pose proof (find_local_lt _ _ _ H) as Hlt.
    rewrite nth_error_app1; [|rewrite rev_length, map_length; exact Hlt].
    apply IH; exact H.
Qed.

Lemma resolve_name : forall env x k, resolve env x = Some k -> name_of_slot env k = Some x.
Proof.
  intros env x k H. unfold resolve, resolve_local in H. unfold name_of_slot.
  destruct (cpending env) as [p|].
  - destruct (CompileExpr.bytes_eqb x p); [discriminate|].
    destruct (find_local (clocals env) x) eqn:F; [|discriminate].
    inversion H; subst. rewrite Nat2N.id. eapply find_local_name; eauto.
  - destruct (find_local (clocals env) x) eqn:F; [|discriminate].
    inversion H; subst. rewrite Nat2N.id. eapply find_local_name; eauto.
Qed.

Lemma decomp_app : forall env c1 c2 stk,
  decomp env (c1 ++ c2) stk =
  match decomp env c1 stk with Some stk' => decomp env c2 stk' | None => None end.
Proof.
  induction c1 as [|i c1 IH]; intros c2 stk; cbn; [reflexivity|].
  destruct (dstep env i stk); [apply IH|reflexivity].
Qed.

Lemma take_exprs_spec : forall es acc stk,
  take_exprs (length es) (rev (map DE es) ++ stk) acc = Some (es ++ acc, stk).
Proof.
  intros es. induction es as [|e es IH] using rev_ind; intros acc stk; [reflexivity|].
  rewrite map_app, rev_app_distr, app_length. cbn [map rev app length].
  rewrite Nat.add_comm. cbn [Nat.add take_exprs]. rewrite IH. rewrite <- app_assoc. reflexivity.
Qed.

Definition ditem_of_part (p : interp_part) : ditem :=
  match p with IPStr s => DE (EStr s) | IPExpr e => DF e end.

Lemma take_parts_spec : forall ps acc stk,
  take_parts (length ps) (rev (map ditem_of_part ps) ++ stk) acc = Some (ps ++ acc, stk).
Proof.
  intros ps. induction ps as [|p ps IH] using rev_ind; intros acc stk; [reflexivity|].
  rewrite map_app, rev_app_distr, app_length. cbn [map rev app length].
  rewrite Nat.add_comm. cbn [Nat.add take_parts].
  destruct p; cbn [ditem_of_part]; rewrite IH; rewrite <- app_assoc; reflexivity.
Qed.

Definition decomp_ok (env : cenv) (e : expr) : Prop :=
  decompilable e = true ->
  forall rest stk, decomp env (cexpr env e ++ rest) stk = decomp env rest (DE e :: stk).

Lemma decomp_list : forall env es,
  Forall (decomp_ok env) es -> forallb decompilable es = true ->
  forall rest stk,
    decomp env (flat_map (cexpr env) es ++ rest) stk = decomp env rest (rev (map DE es) ++ stk).
Proof.
  intros env es HF. induction HF as [|e es He HF IH]; intros Hd rest stk; [reflexivity|].
  cbn in Hd. apply andb_true_iff in Hd; destruct Hd as [Hd1 Hd2].
  cbn [flat_map map rev]. rewrite <- app_assoc. rewrite He by exact Hd1.
  rewrite IH by exact Hd2. rewrite <- app_assoc. reflexivity.
Qed.

Definition decompilable_parts : list interp_part -> bool :=
  fix go (ps : list interp_part) : bool :=
    match ps with
    | [] => true
    | IPStr _ :: r => go r
    | IPExpr e1 :: r => decompilable e1 && go r
    end.

Lemma decomp_parts : forall env ps,
  Forall (Ppart (decomp_ok env)) ps -> decompilable_parts ps = true ->
  forall rest stk,
    decomp env (cparts env ps ++ rest) stk
    = decomp env rest (rev (map ditem_of_part ps) ++ stk).
Proof.
  intros env ps HF. induction HF as [|p ps Hp HF IH]; intros Hd rest stk; [reflexivity|].
  destruct p as [s|e1]; cbn [cparts map rev ditem_of_part].
  - cbn in Hd. cbn [app decomp dstep]. rewrite IH by exact Hd. rewrite <- app_assoc. reflexivity.
  - cbn in Hd. apply andb_true_iff in Hd; destruct Hd as [Hd1 Hd2]. cbn in Hp.
    rewrite <- app_assoc. rewrite Hp by exact Hd1. cbn [app decomp dstep].
    rewrite IH by exact Hd2. rewrite <- app_assoc. reflexivity.
Qed.

Lemma dnot_unary : forall e, not_ambiguous e = true -> dnot e = EUnary UNot e.
Proof. intros e H. destruct e; try reflexivity. destruct op; try reflexivity; discriminate. Qed.

Lemma decomp_binop : forall env op a b rest stk,
  decomp env (binop_code op ++ rest) (DE b :: DE a :: stk)
  = decomp env rest (DE (EBinary op a b) :: stk).
Proof. intros. destruct op; reflexivity. Qed.

Lemma decomp_expr : forall env e, decomp_ok env e.
Proof.
  intros env e. induction e using expr_ind2; unfold decomp_ok; intros Hd rest stk;
    try reflexivity; try discriminate.
  - (* EInterp *)
    rewrite cexpr_interp, <- app_assoc.
    rewrite decomp_parts; [|assumption|exact Hd].
    cbn [app decomp dstep]. rewrite nlen_to_nat, take_parts_spec, app_nil_r. reflexivity.
  - (* EVar *)
    cbn [cexpr]. destruct (resolve env x) eqn:R; cbn [app decomp dstep].
    + rewrite (resolve_name _ _ _ R). reflexivity.
    + reflexivity.
  - (* EAssign *)
    cbn in Hd. cbn [cexpr]. destruct (resolve env x) eqn:R.
    + rewrite <- app_assoc, IHe by exact Hd. cbn [app decomp dstep].
      rewrite (resolve_name _ _ _ R). reflexivity.
    + cbn [app decomp dstep]. rewrite <- app_assoc, IHe by exact Hd. reflexivity.
  - (* EUnary *)
    cbn [cexpr]. rewrite <- app_assoc.
    destruct op; cbn in Hd.
    + rewrite IHe by exact Hd. reflexivity.
    + apply andb_true_iff in Hd; destruct Hd as [H1 H2]. rewrite IHe by exact H2.
      cbn [unop_code app decomp dstep]. rewrite dnot_unary by exact H1. reflexivity.
    + rewrite IHe by exact Hd. reflexivity.
  - (* EBinary *)
    cbn in Hd. apply andb_true_iff in Hd; destruct Hd as [H1 H2].
    cbn [cexpr]. rewrite <- !app_assoc. rewrite IHe1, IHe2 by assumption.
    apply decomp_binop.
  - (* ERange *)
    cbn in Hd. apply andb_true_iff in Hd; destruct Hd as [H1 H2].
    cbn [cexpr]. rewrite <- !app_assoc. rewrite IHe1, IHe2 by assumption. reflexivity.
  - (* ECall *)
    cbn in Hd. apply andb_true_iff in Hd; destruct Hd as [H1 H2].
    cbn [cexpr]. rewrite <- !app_assoc. rewrite IHe by exact H1.
    rewrite decomp_list by assumption.
    cbn [app decomp dstep]. rewrite nlen_to_nat, take_exprs_spec, app_nil_r. reflexivity.
  - (* EIndex *)
    cbn in Hd. apply andb_true_iff in Hd; destruct Hd as [H1 H2].
    cbn [cexpr]. rewrite <- !app_assoc. rewrite IHe1, IHe2 by assumption. reflexivity.
  - (* ESetIndex *)
    cbn in Hd. apply andb_true_iff in Hd; destruct Hd as [H12 H3].
    apply andb_true_iff in H12; destruct H12 as [H1 H2].
    cbn [cexpr]. rewrite <- !app_assoc. rewrite IHe1, IHe2, IHe3 by assumption. reflexivity.
  - (* ETuple *)
    cbn in Hd. cbn [cexpr]. rewrite <- app_assoc. rewrite decomp_list by assumption.
    cbn [app decomp dstep]. rewrite nlen_to_nat, take_exprs_spec, app_nil_r. reflexivity.
  - (* EVec *)
    cbn in Hd. cbn [cexpr]. rewrite <- app_assoc. rewrite decomp_list by assumption.
    cbn [app decomp dstep]. rewrite nlen_to_nat, take_exprs_spec, app_nil_r. reflexivity.
  - (* outside the fragment *)
    destruct e; try discriminate H; discriminate Hd.
Qed.

(* postfix code back to the tree, for every tree of the jump-free fragment that is not one of
   the documented ambiguous spellings *)
Theorem decompile_compile : forall env e,
  decompilable e = true -> decompile env (cexpr env e) = Some e.
Proof.
  intros env e Hd. unfold decompile.
  pose proof (decomp_expr env e Hd [] []) as H. rewrite app_nil_r in H. rewrite H. reflexivity.
Qed.
Print Assumptions decompile_compile.

(* the hypothesis is satisfiable by a non-trivial tree *)
Example decompile_compile_ex :
  let e := EAssign (B "x") (EBinary BLe (EIndex (EVec [ENum f64_one; EVar (B "y")]) (EUnary UNeg (ENum f64_one)))
                                        (EInterp [IPStr (B "a"); IPExpr (ETuple [ENil])])) in
  decompilable e = true /\
  decompile (add_local cenv0 (B "x")) (cexpr (add_local cenv0 (B "x")) e) = Some e.
Proof. split; reflexivity. Qed.

(* the excluded spellings really collide *)
Example decompile_ambiguous :
  cexpr cenv0 (EUnary UNot (EBinary BEq ENil ETrue)) = cexpr cenv0 (EBinary BNe ENil ETrue) /\
  (forall k, cexpr (add_local cenv0 (B "x")) (ECompound (B "x") BAdd k)
             = cexpr (add_local cenv0 (B "x")) (EAssign (B "x") (EBinary BAdd (EVar (B "x")) k))).
Proof. split; [reflexivity|]. intro k. cbn. rewrite <- app_assoc. reflexivity. Qed.
(* ================================================================== *)
(* 3. ops_total, ops_table                                             *)

Inductive kind := KNil | KBool | KNum | KStr | KRange | KTuple | KVec | KFn.

Definition kind_of (v : val) : kind :=
  match v with
  | VNil => KNil | VBool _ => KBool | VNum _ => KNum | VStr _ => KStr
  | VRange _ _ => KRange | VTuple _ _ => KTuple | VVecRef _ => KVec | VPrint | VClosure _ _ => KFn
  end.

Definition three_kinds {A} (r : res A) : Prop :=
  match r with
  | Ok _ | Er (TypeError _) | Er (ValueError _) | Er (IndexError _) => True
  | _ => False
  end.

Lemma binop_total : forall st op a b, three_kinds (binop_sem st op a b).
Proof. intros st op a b. destruct op, a, b; exact I. Qed.
Lemma unop_total : forall op a, three_kinds (unop_sem op a).
Proof. intros op a. destruct op, a; exact I. Qed.
Lemma range_total : forall w a b, three_kinds (range_sem w a b).
Proof.
  intros w a b. unfold range_sem, validate_integer.
  destruct b as [| | y | | | | | |]; try exact I.
  destruct (is_integral y); [|exact I].
  destruct a as [| | x | | | | | |]; try exact I.
  destruct (is_integral x); exact I.
Qed.
Lemma call_total : forall w f args, three_kinds (call_sem w f args).
Proof.
  intros w f args. destruct f; try exact I.
  set (x := call_sem w VPrint args). unfold call_sem in x.
  destruct args as [|a [|b r]]; subst x; exact I.
Qed.

(* every operator, on operands of every kind, gives a value or one of the three error kinds *)
Theorem ops_total :
  (forall st op a b, three_kinds (binop_sem st op a b)) /\
  (forall op a, three_kinds (unop_sem op a)) /\
  (forall w a b, three_kinds (range_sem w a b)) /\
  (forall w f args, three_kinds (call_sem w f args)).
Proof. exact (conj binop_total (conj unop_total (conj range_total call_total))). Qed.
Print Assumptions ops_total.

(* indexing: total on worlds without dangling vector references *)
Lemma bounded_index_lt : forall w v bound kind k,
  bounded_index w v bound kind = Ok k -> (Z.of_nat k < bound)%Z.
Proof.
  intros w v bound kd k H. unfold bounded_index in H.
  destruct (validate_integer w v) as [i|]; [|discriminate].
  destruct (((if (i <? 0)%Z then (i + bound)%Z else i) <? 0)%Z ||
            (bound <=? (if (i <? 0)%Z then (i + bound)%Z else i))%Z) eqn:E; [discriminate|].
  inversion H; subst. apply orb_false_iff in E. destruct E as [E1 E2].
  apply Z.ltb_ge in E1. apply Z.leb_gt in E2. rewrite Z2Nat.id; lia.
Qed.

Lemma three_kinds_bounded_index : forall w v bound kd, three_kinds (bounded_index w v bound kd).
Proof.
  intros. unfold bounded_index, validate_integer.
  destruct v as [| | x | | | | | |]; try exact I.
  destruct (is_integral x); [|exact I].
  match goal with |- context [if ?c then _ else _] => destruct c end; exact I.
Qed.

Theorem index_total : forall w o i,
  (forall id, o = VVecRef id -> vec_get w id <> None) ->
  three_kinds (get_item w o i) /\ forall v, three_kinds (set_item w o i v).
Proof.
  intros w o i Hwf. split.
  - destruct o; try exact I.
    + (* string *)
      unfold get_item; unfold str_get_item. destruct i; try exact I.
      * pose proof (three_kinds_bounded_index w (VNum x) (Z.of_nat (length s)) "String") as T.
        destruct (bounded_index w (VNum x) (Z.of_nat (length s)) "String") as [k|e] eqn:E; [|exact T].
        apply bounded_index_lt in E.
        destruct (is_char_boundary s k); [|exact I].
        destruct (skipn k s) eqn:S; [|exact I].
        exfalso. assert (length (skipn k s) = 0) by (rewrite S; reflexivity).
        rewrite skipn_length in H. lia.
      * unfold bounded_range.
        repeat match goal with |- context [if ?c then _ else _] => destruct c end; exact I.
    + (* tuple *)
      unfold get_item; unfold seq_get_item. destruct i; try exact I.
      * pose proof (three_kinds_bounded_index w (VNum x) (Z.of_nat (length l)) "Tuple") as T.
        destruct (bounded_index w (VNum x) (Z.of_nat (length l)) "Tuple") as [k|e] eqn:E; [|exact T].
        apply bounded_index_lt in E.
        destruct (nth_error l k) eqn:N; [exact I|]. apply nth_error_None in N. lia.
      * unfold bounded_range.
        repeat match goal with |- context [if ?c then _ else _] => destruct c end; exact I.
    + (* vec *)
      unfold get_item. specialize (Hwf id eq_refl). destruct (vec_get w id) as [l|]; [|congruence].
      unfold seq_get_item. destruct i; try exact I.
      * pose proof (three_kinds_bounded_index w (VNum x) (Z.of_nat (length l)) "Vec") as T.
        destruct (bounded_index w (VNum x) (Z.of_nat (length l)) "Vec") as [k|e] eqn:E; [|exact T].
        apply bounded_index_lt in E.
        destruct (nth_error l k) eqn:N; [exact I|]. apply nth_error_None in N. lia.
      * unfold bounded_range.
        repeat match goal with |- context [if ?c then _ else _] => destruct c end; exact I.
  - intros v. destruct o; try exact I. unfold set_item.
    specialize (Hwf id eq_refl). destruct (vec_get w id) as [l|]; [|congruence].
    pose proof (three_kinds_bounded_index w i (Z.of_nat (length l)) "Vec") as T.
    destruct (bounded_index w i (Z.of_nat (length l)) "Vec"); [exact I|exact T].
Qed.
Print Assumptions index_total.

(* The finite kind x kind table: which pairs succeed, the kind of the result, and the exact
   error otherwise; values universally quantified. *)
Definition binop_table (op : binop) (ka kb : kind) : option kind :=
  match op with
  | BEq | BNe => Some KBool
  | BAdd => match ka, kb with KNum, KNum => Some KNum | KStr, KStr => Some KStr | _, _ => None end
  | BLt | BLe | BGt | BGe => match ka, kb with KNum, KNum => Some KBool | _, _ => None end
  | _ => match ka, kb with KNum, KNum => Some KNum | _, _ => None end
  end.

Definition binop_error (op : binop) : err :=
  match op with BAdd => TypeError msg_add | _ => TypeError msg_binary end.

Theorem ops_table : forall st op a b,
  match binop_table op (kind_of a) (kind_of b) with
  | Some k => exists v, binop_sem st op a b = Ok v /\ kind_of v = k
  | None => binop_sem st op a b = Er (binop_error op)
  end.
Proof.
  intros st op a b. destruct op, a, b; cbn [binop_table kind_of]; try reflexivity; eexists; split; reflexivity.
Qed.
Print Assumptions ops_table.

Definition unop_table (op : unop) (k : kind) : option kind :=
  match op with
  | UNot => Some KBool
  | UNeg | UBitNot => match k with KNum => Some KNum | _ => None end
  end.

Theorem unop_table_ok : forall op a,
  match unop_table op (kind_of a) with
  | Some k => exists v, unop_sem op a = Ok v /\ kind_of v = k
  | None => unop_sem op a = Er (TypeError msg_unary)
  end.
Proof. intros op a. destruct op, a; cbn [unop_table kind_of]; try reflexivity; eexists; split; reflexivity. Qed.

(* definitional consequences recorded by the property text *)
Example nan_le_one_is_true : forall st,
  binop_sem st BLe (VNum f64_nan) (VNum f64_one) = Ok (VBool true) /\
  binop_sem st BGe (VNum f64_nan) (VNum f64_one) = Ok (VBool true) /\
  binop_sem st BLt (VNum f64_nan) (VNum f64_one) = Ok (VBool false) /\
  binop_sem st BNe (VNum f64_nan) (VNum f64_nan) = Ok (VBool true).
Proof. intro st. repeat split; reflexivity. Qed.
(* ================================================================== *)
(* 4. stack_discipline: a height certificate for every path            *)

(* (operands popped, results pushed) *)
Definition effect (i : instr) : option (nat * nat) :=
  match i with
  | IConst _ => Some (0, 1)
  | ITouch _ => Some (0, 0)
  | IOp o =>
    match o with
    | OpNil | OpTrue | OpFalse => Some (0, 1)
    | OpPop => Some (1, 0)
    | OpCopyTop => Some (1, 2)
    | OpGetItem | OpBuildRange => Some (2, 1)
    | OpSetItem => Some (3, 1)
    | OpFormatString | OpLogicalNot | OpBitwiseNot | OpNegate => Some (1, 1)
    | OpReturn => Some (0, 0)
    | _ => match binop_of_opcode o with Some _ => Some (2, 1) | None => None end
    end
  | IOp8 o n =>
    match o with
    | OpGetLocal => Some (0, 1)
    | OpSetLocal => Some (1, 1)
    | OpBuildString | OpBuildTuple | OpBuildVec => Some (N.to_nat n, 1)
    | OpCall => Some (S (N.to_nat n), 1)
    | _ => None
    end
  | IGlobal o _ =>
    match o with
    | OpGetGlobal => Some (0, 1)
    | OpDefineGlobal => Some (1, 0)
    | OpSetGlobal => Some (1, 1)
    | _ => None
    end
  | IJump OpJump _ => Some (0, 0)
  | IJump OpJumpIfFalse _ => Some (1, 1)
  | IJump _ _ => None
  | ILoop _ => Some (0, 0)
  end.

(* control successors of the instruction at position p (positions are integers so that a
   segment can be placed anywhere and a Loop may leave it backwards) *)
Definition succs (p : Z) (i : instr) : list Z :=
  match i with
  | IJump OpJump n => [p + 1 + Z.of_nat n]%Z
  | IJump OpJumpIfFalse n => [p + 1; p + 1 + Z.of_nat n]%Z
  | IJump _ _ => []
  | ILoop n => [p + 1 - Z.of_nat n]%Z
  | IOp OpReturn => []
  | _ => [p + 1]%Z
  end.

(* [effect] and [succs] are what the machine does *)
Lemma effect_sound : forall i pc stk w s',
  step_instr i pc stk w = SNext s' ->
  exists a b, effect i = Some (a, b) /\ a <= length stk /\
              length (vstack s') = length stk - a + b /\
              In (Z.of_nat (vpc s')) (succs (Z.of_nat pc) i).
Proof.
  intros i pc stk w s' H.
  assert (Hn : forall stk' w', next pc stk' w' = SNext s' ->
               vstack s' = stk' /\ Z.of_nat (vpc s') = (Z.of_nat pc + 1)%Z).
  { intros stk' w' E. unfold next in E. inversion E; subst; cbn. split; [reflexivity|lia]. }
  destruct i as [c|o|o n|o x|o n|n|c]; cbn [step_instr] in H.
  - apply Hn in H. destruct H as [H1 H2]. exists 0, 1. cbn [effect succs]. rewrite H1, H2. cbn. repeat split; auto; lia.
  - (* IOp *)
    destruct o; cbn [step_op binop_of_opcode unop_of_opcode] in H; try discriminate;
      repeat match type of H with
             | match ?x with _ => _ end = _ => destruct x eqn:?; try discriminate
             | (let (_, _) := ?x in _) = _ => destruct x eqn:?
             end;
      apply Hn in H; destruct H as [H1 H2]; cbn [effect succs binop_of_opcode];
      eexists _, _; (split; [reflexivity|]); rewrite H1, H2; cbn [length In]; repeat split; auto; lia.
  - (* IOp8 *)
    destruct o; cbn [step_op8] in H; try discriminate.
    + destruct (slot_get stk n); [|discriminate]. apply Hn in H. destruct H as [H1 H2].
      exists 0, 1. cbn [effect succs]. rewrite H1, H2. cbn. repeat split; auto; lia.
    + destruct stk as [|v r]; [discriminate|]. destruct (slot_set (v :: r) n v) as [stk'|] eqn:S; [|discriminate].
      apply Hn in H. destruct H as [H1 H2]. exists 1, 1. cbn [effect succs]. rewrite H1, H2.
      unfold slot_set in S. destruct (N.to_nat n <? length (v :: r)); [|discriminate]. inversion S; subst.
      assert (L : forall A k (x : A) l, length (set_nth k x l) = length l).
      { intros A k x l. revert k. induction l; intros [|k]; cbn; auto. }
      rewrite L. cbn. repeat split; auto; lia.
    + destruct (length stk <? N.to_nat n) eqn:Lt; [discriminate|]. apply Nat.ltb_ge in Lt.
      destruct (all_strs (rev (firstn (N.to_nat n) stk))); [|discriminate].
      apply Hn in H. destruct H as [H1 H2]. eexists _, _. cbn [effect succs]. split; [reflexivity|].
      rewrite H1, H2. cbn [length]. rewrite skipn_length. cbn. repeat split; auto; lia.
    + destruct (length stk <? N.to_nat n) eqn:Lt; [discriminate|]. apply Nat.ltb_ge in Lt.
      unfold alloc_tuple in H. apply Hn in H. destruct H as [H1 H2]. eexists _, _. cbn [effect succs].
      split; [reflexivity|]. rewrite H1, H2. cbn [length]. rewrite skipn_length. cbn. repeat split; auto; lia.
    + destruct (length stk <? N.to_nat n) eqn:Lt; [discriminate|]. apply Nat.ltb_ge in Lt.
      unfold alloc_vec in H. apply Hn in H. destruct H as [H1 H2]. eexists _, _. cbn [effect succs].
      split; [reflexivity|]. rewrite H1, H2. cbn [length]. rewrite skipn_length. cbn. repeat split; auto; lia.
    + destruct (length stk <? S (N.to_nat n)) eqn:Lt; [discriminate|]. apply Nat.ltb_ge in Lt.
      destruct (skipn (N.to_nat n) stk) as [|f r] eqn:Sk; [discriminate|].
      destruct (call_sem w f (rev (firstn (N.to_nat n) stk))) as [[v w']|]; [|discriminate].
      apply Hn in H. destruct H as [H1 H2]. eexists _, _. cbn [effect succs]. split; [reflexivity|].
      rewrite H1, H2. cbn [length].
      assert (length (skipn (N.to_nat n) stk) = S (length r)) by (rewrite Sk; reflexivity).
      rewrite skipn_length in H. cbn. repeat split; auto; lia.
  - (* IGlobal *)
    destruct o; cbn [step_global] in H; try discriminate.
    + destruct (lookup (globals w) x); [|discriminate]. apply Hn in H. destruct H as [H1 H2].
      exists 0, 1. cbn [effect succs]. rewrite H1, H2. cbn. repeat split; auto; lia.
    + destruct stk as [|v r]; [discriminate|]. apply Hn in H. destruct H as [H1 H2].
      exists 1, 0. cbn [effect succs]. rewrite H1, H2. cbn. repeat split; auto; lia.
    + destruct stk as [|v r]; [discriminate|]. destruct (lookup (globals w) x); [|discriminate].
      apply Hn in H. destruct H as [H1 H2].
      exists 1, 1. cbn [effect succs]. rewrite H1, H2. cbn. repeat split; auto; lia.
  - (* IJump *)
    destruct o; try discriminate.
    + inversion H; subst; cbn [vpc vstack effect succs In length]. exists 0, 0. repeat split; auto; try lia.
    + destruct stk as [|v r]; [discriminate|]. destruct (truthy v).
      * apply Hn in H. destruct H as [H1 H2]. exists 1, 1. cbn [effect succs]. rewrite H1, H2. cbn.
        repeat split; auto; lia.
      * inversion H; subst; cbn [vpc vstack effect succs In length]. exists 1, 1. repeat split; auto; try lia.
  - (* ILoop *)
    destruct (S pc <? n) eqn:Lt; [discriminate|]. apply Nat.ltb_ge in Lt.
    assert (E : s' = mkVS (S pc - n) stk w) by congruence. rewrite E.
    exists 0, 0. cbn [vpc vstack effect succs In length]. repeat split; auto; try lia.
  - apply Hn in H. destruct H as [H1 H2]. exists 0, 0. cbn [effect succs]. rewrite H1, H2. cbn. repeat split; auto; lia.
Qed.

Lemma succs_shift : forall p d i, succs (p + d)%Z i = map (fun q => (q + d)%Z) (succs p i).
Proof.
  intros p d i. destruct i as [c|o|o n|o x|o n|n|c]; try destruct o; cbn [succs map]; try reflexivity;
    repeat (f_equal; try lia).
Qed.

(* H: height before each position of the segment; X: allowed targets OUTSIDE the segment with
   the height required there *)
Definition wt_instr (H : Z -> nat) (len : nat) (X : Z -> nat -> Prop) (p : Z) (i : instr) : Prop :=
  exists a b, effect i = Some (a, b) /\ a <= H p /\
    forall q, In q (succs p i) ->
      ((0 <= q <= Z.of_nat len)%Z /\ H q = H p - a + b) \/ X q (H p - a + b).

Definition wt (H : Z -> nat) (X : Z -> nat -> Prop) (c : list instr) : Prop :=
  forall k i, nth_error c k = Some i -> wt_instr H (length c) X (Z.of_nat k) i.

(* every path through [c] entered at its start with height h stays inside [c], except for the
   jumps [X] allows, and reaches its end with height h' *)
Definition heights (c : list instr) (X : Z -> nat -> Prop) (h h' : nat) : Prop :=
  exists H, H 0%Z = h /\ H (Z.of_nat (length c)) = h' /\ wt H X c.

Definition noX : Z -> nat -> Prop := fun _ _ => False.
Definition shiftX (X : Z -> nat -> Prop) (d : Z) : Z -> nat -> Prop := fun q h => X (q + d)%Z h.

Lemma heights_mono : forall c (X X' : Z -> nat -> Prop) h h',
  (forall q hh, X q hh -> X' q hh) -> heights c X h h' -> heights c X' h h'.
Proof.
  intros c X X' h h' HX (H & H0 & H1 & W). exists H. repeat split; auto.
  intros k i Hk. destruct (W k i Hk) as (a & b & E & Le & S). exists a, b. repeat split; auto.
  intros q Hq. destruct (S q Hq) as [?|?]; auto.
Qed.

Lemma heights_nil : forall X h, heights [] X h h.
Proof.
  intros X h. exists (fun _ => h). repeat split. intros k i Hk. destruct k; discriminate.
Qed.

(* sequencing; c1 may jump to the END of c2, c2 may jump back to the START of c1 *)
Lemma heights_app_gen : forall c1 c2 (X X1 X2 : Z -> nat -> Prop) h h1 h2,
  heights c1 X1 h h1 -> heights c2 X2 h1 h2 ->
  (forall q hh, X1 q hh -> X q hh \/ (q = Z.of_nat (length c1 + length c2) /\ hh = h2)) ->
  (forall q hh, X2 q hh -> X (q + Z.of_nat (length c1))%Z hh \/ (q = (- Z.of_nat (length c1))%Z /\ hh = h)) ->
  heights (c1 ++ c2) X h h2.
Proof.
  intros c1 c2 X X1 X2 h h1 h2 (H1 & A0 & A1 & W1) (H2 & B0 & B1 & W2) HX1 HX2.
  set (n := Z.of_nat (length c1)).
  set (H := fun p => if (p <? n)%Z then H1 p else H2 (p - n)%Z).
  assert (Hstart : H 0%Z = h).
  { unfold H. destruct (0 <? n)%Z eqn:E; [exact A0|]. apply Z.ltb_ge in E.
    assert (n = 0%Z) by (unfold n in *; lia). rewrite H0 in *.
    replace (0 - 0)%Z with 0%Z by lia. unfold n in H0. rewrite H0 in A1. congruence. }
  assert (Hend : H (Z.of_nat (length (c1 ++ c2))) = h2).
  { unfold H. rewrite app_length. destruct (Z.of_nat (length c1 + length c2) <? n)%Z eqn:E.
    - apply Z.ltb_lt in E. unfold n in E. lia.
    - replace (Z.of_nat (length c1 + length c2) - n)%Z with (Z.of_nat (length c2)) by (unfold n; lia).
      exact B1. }
  exists H. repeat split; auto.
  intros k i Hk. rewrite app_length.
  destruct (Nat.lt_ge_cases k (length c1)) as [Lt|Ge].
  - rewrite nth_error_app1 in Hk by exact Lt.
    destruct (W1 k i Hk) as (a & b & E & Le & S).
    assert (Hk1 : H (Z.of_nat k) = H1 (Z.of_nat k)).
    { unfold H. destruct (Z.of_nat k <? n)%Z eqn:E'; [reflexivity|]. apply Z.ltb_ge in E'. unfold n in E'. lia. }
    exists a, b. rewrite Hk1. repeat split; auto.
    intros q Hq. destruct (S q Hq) as [[R Hq1]|Xq].
    + left. split; [lia|]. unfold H. destruct (q <? n)%Z eqn:E'; [exact Hq1|].
      apply Z.ltb_ge in E'. assert (q = n) by (unfold n in *; lia). subst q.
      replace (n - n)%Z with 0%Z by lia. rewrite B0. rewrite <- Hq1. unfold n. exact (eq_sym A1).
    + destruct (HX1 _ _ Xq) as [?|[Eq Eh]]; [right; assumption|].
      left. split; [lia|]. rewrite Eh. rewrite <- Hend. rewrite app_length. rewrite Eq. reflexivity.
  - rewrite nth_error_app2 in Hk by exact Ge.
    destruct (W2 _ i Hk) as (a & b & E & Le & S).
    assert (Hk2 : H (Z.of_nat k) = H2 (Z.of_nat (k - length c1))).
    { unfold H. destruct (Z.of_nat k <? n)%Z eqn:E'.
      - apply Z.ltb_lt in E'. unfold n in E'. lia.
      - f_equal. unfold n. lia. }
    exists a, b. rewrite Hk2. repeat split; auto.
    intros q Hq.
    replace (Z.of_nat k) with (Z.of_nat (k - length c1) + n)%Z in Hq by (unfold n; lia).
    rewrite succs_shift in Hq. apply in_map_iff in Hq. destruct Hq as (q' & Eq & Hq'). subst q.
    destruct (S q' Hq') as [[R Hq2]|Xq].
    + left. split; [unfold n; lia|]. unfold H. destruct (q' + n <? n)%Z eqn:E'.
      * apply Z.ltb_lt in E'. lia.
      * replace (q' + n - n)%Z with q' by lia. exact Hq2.
    + destruct (HX2 _ _ Xq) as [?|[Eq Eh]]; [right; assumption|].
      left. assert (E0 : (q' + n = 0)%Z) by (unfold n; lia). rewrite E0. split; [lia|]. rewrite Hstart. exact (eq_sym Eh).
Qed.

Lemma heights_app : forall c1 c2 X h h1 h2,
  heights c1 X h h1 -> heights c2 (shiftX X (Z.of_nat (length c1))) h1 h2 ->
  heights (c1 ++ c2) X h h2.
Proof.
  intros. eapply heights_app_gen; eauto.
Qed.

(* one instruction; [h2] is free when the instruction does not fall through *)
Lemma heights_one : forall i (X : Z -> nat -> Prop) h h2 a b,
  effect i = Some (a, b) -> a <= h ->
  (forall q, In q (succs 0%Z i) -> (q = 1%Z /\ h2 = h - a + b) \/ X q (h - a + b)) ->
  heights [i] X h h2.
Proof.
  intros i X h h2 a b E Le S.
  exists (fun p => if (p <=? 0)%Z then h else h2). repeat split.
  intros k j Hk. destruct k as [|k]; [|destruct k; discriminate]. inversion Hk; subst j.
  exists a, b. cbn [Z.of_nat Z.leb]. repeat split; auto.
  intros q Hq. destruct (S q Hq) as [[Eq Eh]|Xq]; [|right; exact Xq].
  left. subst q. cbn. split; [lia|exact Eh].
Qed.

Definition straight (i : instr) : bool :=
  match i with
  | IJump _ _ | ILoop _ | IOp OpReturn => false
  | _ => true
  end.

Lemma heights_straight : forall i X h a b,
  straight i = true -> effect i = Some (a, b) -> a <= h -> heights [i] X h (h - a + b).
Proof.
  intros i X h a b St E Le. eapply heights_one; eauto.
  intros q Hq. left. split; [|reflexivity].
  destruct i as [c|o|o n|o x|o n|n|c]; try discriminate; cbn in Hq; try (destruct Hq as [<-|[]]; reflexivity).
  destruct o; try discriminate; cbn in Hq; destruct Hq as [<-|[]]; reflexivity.
Qed.

Lemma heights_straight' : forall i X h h' a b,
  straight i = true -> effect i = Some (a, b) -> a <= h -> h' = h - a + b -> heights [i] X h h'.
Proof. intros; subst; eapply heights_straight; eauto. Qed.

Lemma heights_cons : forall i c X h h1 a b h2,
  straight i = true -> effect i = Some (a, b) -> a <= h -> h1 = h - a + b ->
  heights c (shiftX X 1) h1 h2 -> heights (i :: c) X h h2.
Proof.
  intros. subst. change (i :: c) with ([i] ++ c). eapply heights_app; [eapply heights_straight; eauto|assumption].
Qed.

Lemma heights_pops : forall n X h, heights (pops n) X (n + h) h.
Proof.
  induction n as [|n IH]; intros X h; [apply heights_nil|].
  change (pops (S n)) with (IOp OpPop :: pops n).
  eapply heights_cons with (a := 1) (b := 0) (h1 := n + h); try reflexivity; [lia|lia|apply IH].
Qed.

(* ---------------- expressions ---------------- *)

Definition heights_e (env : cenv) (e : expr) : Prop :=
  expr_ok env e = true -> forall h, heights (cexpr env e) noX h (S h).

Lemma heights_noX : forall c X h h', heights c noX h h' -> heights c X h h'.
Proof. intros c X h h' H. eapply heights_mono; [|exact H]. intros q hh []. Qed.

Lemma heights_app0 : forall c1 c2 h h1 h2,
  heights c1 noX h h1 -> heights c2 noX h1 h2 -> heights (c1 ++ c2) noX h h2.
Proof. intros. eapply heights_app_gen; eauto; intros q hh []. Qed.

Lemma heights_snoc0 : forall c i h h1 h2 a b,
  heights c noX h h1 -> straight i = true -> effect i = Some (a, b) -> a <= h1 -> h2 = h1 - a + b ->
  heights (c ++ [i]) noX h h2.
Proof. intros. subst. eapply heights_app0; eauto. eapply heights_straight; eauto. Qed.

Lemma heights_list : forall env es,
  Forall (heights_e env) es -> forallb (expr_ok env) es = true ->
  forall h, heights (flat_map (cexpr env) es) noX h (length es + h).
Proof.
  intros env es HF. induction HF as [|e es He HF IH]; intros Hok h; [apply heights_nil|].
  cbn in Hok. apply andb_true_iff in Hok. destruct Hok as [H1 H2].
  cbn [flat_map length]. eapply heights_app0; [apply He; exact H1|].
  replace (S (length es) + h) with (length es + S h) by lia. apply IH; exact H2.
Qed.

Definition parts_ok (env : cenv) : list interp_part -> bool :=
  fix go (ps : list interp_part) : bool :=
    match ps with
    | [] => true
    | IPStr s :: r => nonempty s && go r
    | IPExpr e1 :: r => expr_ok env e1 && go r
    end.

Lemma heights_parts : forall env ps,
  Forall (Ppart (heights_e env)) ps -> parts_ok env ps = true ->
  forall h, heights (cparts env ps) noX h (length ps + h).
Proof.
  intros env ps HF. induction HF as [|p ps Hp HF IH]; intros Hok h; [apply heights_nil|].
  destruct p as [s|e1]; cbn in Hok; apply andb_true_iff in Hok; destruct Hok as [H1 H2];
    cbn [cparts length].
  - eapply heights_cons with (a := 0) (b := 1) (h1 := S h); try reflexivity; [lia|lia|].
    apply heights_noX.
    replace (S (length ps) + h) with (length ps + S h) by lia. apply IH; exact H2.
  - eapply heights_app0; [apply Hp; exact H1|].
    eapply heights_cons with (a := 1) (b := 1) (h1 := S h); try reflexivity; [lia|lia|].
    apply heights_noX.
    replace (S (length ps) + h) with (length ps + S h) by lia. apply IH; exact H2.
Qed.

Ltac one a' b' := eapply heights_straight' with (a := a') (b := b'); [reflexivity|reflexivity|lia|lia].

Lemma heights_binop : forall op h, heights (binop_code op) noX (S (S h)) (S h).
Proof.
  intros op h.
  destruct op; cbn [binop_code]; try one 2 1.
  all: change [IOp ?x; IOp OpLogicalNot] with ([IOp x] ++ [IOp OpLogicalNot]);
    eapply heights_app0 with (h1 := S h); [one 2 1|one 1 1].
Qed.

Ltac ok2 H H1 H2 := cbn [expr_ok] in H; apply andb_true_iff in H; destruct H as [H1 H2].

Lemma heights_expr : forall env e, heights_e env e.
Proof.
  intros env e. induction e using expr_ind2; unfold heights_e; intros Hok h;
    try (cbn [cexpr]; one 0 1).
  - (* EInterp *)
    rewrite cexpr_interp. ok2 Hok H1 H2.
    eapply heights_snoc0 with (a := length ps) (b := 1);
      [apply heights_parts; assumption|reflexivity| |lia|lia].
    cbn [effect]. rewrite nlen_to_nat. reflexivity.
  - (* EVar *)
    cbn [cexpr]. destruct (resolve env x); one 0 1.
  - (* EAssign *)
    ok2 Hok H1 H2. cbn [cexpr]. destruct (resolve env x).
    + eapply heights_snoc0 with (a := 1) (b := 1); [apply IHe; exact H2|reflexivity|reflexivity|lia|lia].
    + eapply heights_cons with (a := 0) (b := 0) (h1 := h); try reflexivity; [lia|lia|].
      apply heights_noX.
      eapply heights_snoc0 with (a := 1) (b := 1); [apply IHe; exact H2|reflexivity|reflexivity|lia|lia].
  - (* ECompound *)
    ok2 Hok H12 H3. apply andb_true_iff in H12. destruct H12 as [H1 H2].
    assert (Hc : heights (compound_code op) noX (S (S h)) (S h)).
    { destruct op; try discriminate H2; apply heights_binop. }
    cbn [cexpr]. destruct (resolve env x).
    + eapply heights_cons with (a := 0) (b := 1) (h1 := S h); try reflexivity; [lia|lia|].
      apply heights_noX.
      eapply heights_app0; [apply IHe; exact H3|]. eapply heights_app0; [exact Hc|]. one 1 1.
    + eapply heights_cons with (a := 0) (b := 1) (h1 := S h); try reflexivity; [lia|lia|].
      apply heights_noX.
      eapply heights_app0; [apply IHe; exact H3|]. eapply heights_app0; [exact Hc|]. one 1 1.
  - (* EUnary *)
    cbn [expr_ok] in Hok. cbn [cexpr]. eapply heights_app0; [apply IHe; exact Hok|].
    destruct op; one 1 1.
  - (* EBinary *)
    ok2 Hok H1 H2.
    cbn [cexpr]. eapply heights_app0; [apply IHe1; exact H1|].
    eapply heights_app0; [apply IHe2; exact H2|]. apply heights_binop.
  - (* EAnd *)
    ok2 Hok H1 H2.
    cbn [cexpr]. eapply heights_app0; [apply IHe1; exact H1|].
    change (IJump OpJumpIfFalse ?n :: ?r) with ([IJump OpJumpIfFalse n] ++ r).
    eapply heights_app_gen with (h1 := S h) (h2 := S h)
      (X1 := fun q hh => q = Z.of_nat (2 + length (cexpr env e2)) /\ hh = S h) (X2 := noX).
    + eapply heights_one with (a := 1) (b := 1); [reflexivity|lia|].
      intros q [<-|[<-|[]]]; [left; split; [reflexivity|lia]|right; split; lia].
    + eapply heights_cons with (a := 1) (b := 0) (h1 := h); try reflexivity; [lia|lia|].
      apply heights_noX. apply IHe2; exact H2.
    + intros q hh [Eq Eh]. right. cbn [length]. split; [lia|exact Eh].
    + intros q hh [].
  - (* EOr *)
    ok2 Hok H1 H2.
    cbn [cexpr]. eapply heights_app0; [apply IHe1; exact H1|].
    change (IJump OpJumpIfFalse 1 :: IJump OpJump ?n :: ?r)
      with (([IJump OpJumpIfFalse 1] ++ [IJump OpJump n]) ++ r).
    eapply heights_app_gen with (h1 := S h) (h2 := S h)
      (X1 := fun q hh => q = Z.of_nat (3 + length (cexpr env e2)) /\ hh = S h) (X2 := noX).
    + eapply heights_app_gen with (h1 := S h) (h2 := S h)
        (X1 := fun q hh => q = 2%Z /\ hh = S h)
        (X2 := fun q hh => q = Z.of_nat (2 + length (cexpr env e2)) /\ hh = S h).
      * eapply heights_one with (a := 1) (b := 1); [reflexivity|lia|].
        intros q [<-|[<-|[]]]; [left; split; [reflexivity|lia]|right; split; lia].
      * eapply heights_one with (a := 0) (b := 0); [reflexivity|lia|].
        intros q [<-|[]]. right. split; lia.
      * intros q hh [Eq Eh]. right. cbn [length]. split; [lia|exact Eh].
      * intros q hh [Eq Eh]. left. cbn [length]. split; [lia|exact Eh].
    + eapply heights_cons with (a := 1) (b := 0) (h1 := h); try reflexivity; [lia|lia|].
      apply heights_noX. apply IHe2; exact H2.
    + intros q hh [Eq Eh]. right. cbn [length app]. split; [lia|exact Eh].
    + intros q hh [].
  - (* ERange *)
    ok2 Hok H1 H2.
    cbn [cexpr]. eapply heights_app0; [apply IHe1; exact H1|].
    eapply heights_app0; [apply IHe2; exact H2|]. one 2 1.
  - (* ECall *)
    ok2 Hok H12 H3. apply andb_true_iff in H12. destruct H12 as [H1 H2].
    cbn [cexpr]. eapply heights_app0; [apply IHe; exact H1|].
    eapply heights_app0; [apply heights_list; eassumption|].
    eapply heights_straight' with (a := S (length args)) (b := 1); [reflexivity| |lia|lia].
    cbn [effect]. rewrite nlen_to_nat. reflexivity.
  - (* EIndex *)
    ok2 Hok H1 H2.
    cbn [cexpr]. eapply heights_app0; [apply IHe1; exact H1|].
    eapply heights_app0; [apply IHe2; exact H2|]. one 2 1.
  - (* ESetIndex *)
    ok2 Hok H12 H3. apply andb_true_iff in H12. destruct H12 as [H1 H2].
    cbn [cexpr]. eapply heights_app0; [apply IHe1; exact H1|].
    eapply heights_app0; [apply IHe2; exact H2|].
    eapply heights_app0; [apply IHe3; exact H3|]. one 3 1.
  - (* ETuple *)
    ok2 Hok H1 H2. cbn [cexpr].
    eapply heights_snoc0 with (a := length es) (b := 1);
      [apply heights_list; assumption|reflexivity| |lia|lia].
    cbn [effect]. rewrite nlen_to_nat. reflexivity.
  - (* EVec *)
    ok2 Hok H1 H2. cbn [cexpr].
    eapply heights_snoc0 with (a := length es) (b := 1);
      [apply heights_list; assumption|reflexivity| |lia|lia].
    cbn [effect]. rewrite nlen_to_nat. reflexivity.
  - (* outside the fragment *)
    destruct e; try discriminate H; discriminate Hok.
Qed.
(* ---------------- statements ---------------- *)

Definition stmt_head (s : stmt) : bool :=
  match s with
  | SExpr _ _ | SVar _ _ _ | SBlock _ _ | SIf _ _ _ _ | SWhile _ _ _ | SBreak _ | SContinue _ => true
  | _ => false
  end.

Definition Popt (P : stmt -> Prop) (e : option stmt) : Prop :=
  match e with Some s' => P s' | None => True end.

Section StmtInd.
  Variable P : stmt -> Prop.
  Hypothesis Hexpr : forall l e, P (SExpr l e).
  Hypothesis Hvar : forall l x i, P (SVar l x i).
  Hypothesis Hblock : forall l b, Forall P b -> P (SBlock l b).
  Hypothesis Hif : forall l c t e, Forall P t -> Popt P e -> P (SIf l c t e).
  Hypothesis Hwhile : forall l c b, Forall P b -> P (SWhile l c b).
  Hypothesis Hbreak : forall l, P (SBreak l).
  Hypothesis Hcontinue : forall l, P (SContinue l).
  Hypothesis Hother : forall s, stmt_head s = false -> P s.

  Fixpoint stmt_ind2 (s : stmt) : P s :=
    let list_ind2 := fix go (l : list stmt) : Forall P l :=
      match l with
      | [] => Forall_nil _
      | x :: r => Forall_cons _ (stmt_ind2 x) (go r)
      end in
    match s with
    | SExpr l e => Hexpr l e
    | SVar l x i => Hvar l x i
    | SBlock l b => Hblock l b (list_ind2 b)
    | SIf l c t e =>
      Hif l c t e (list_ind2 t)
          (match e as e0 return Popt P e0 with
           | Some s' => stmt_ind2 s'
           | None => I
           end)
    | SWhile l c b => Hwhile l c b (list_ind2 b)
    | SBreak l => Hbreak l
    | SContinue l => Hcontinue l
    | SFn l f ps b => Hother (SFn l f ps b) eq_refl
    | SClass l c => Hother (SClass l c) eq_refl
    | SFor l x it b => Hother (SFor l x it b) eq_refl
    | SReturn l e => Hother (SReturn l e) eq_refl
    | SThrow l e => Hother (SThrow l e) eq_refl
    | STry l b c f => Hother (STry l b c f) eq_refl
    | SImport l p a => Hother (SImport l p a) eq_refl
    end.
End StmtInd.

(* the local fixes inside slen / cstmt / stmt_ok are the top-level functions *)
Lemma slen_block : forall env l b, slen env (SBlock l b) = blen env b.
Proof. reflexivity. Qed.
Lemma slen_if : forall env l c t e,
  slen env (SIf l c t e) =
  length (cexpr env c) + 2 + blen env t + 2 + match e with Some s' => slen env s' | None => 0 end.
Proof. reflexivity. Qed.
Lemma slen_while : forall env l c b,
  slen env (SWhile l c b) = length (cexpr env c) + 2 + blen (push_loop env) b + 2.
Proof. reflexivity. Qed.

Lemma cstmt_block : forall bpf env brk cont l b,
  cstmt bpf env brk cont (SBlock l b) = cblock bpf env brk cont b.
Proof.
  intros. unfold cblock. cbn [cstmt]. f_equal.
  generalize (begin_scope env) (count_decls b + brk) cont.
  induction b as [|x r IH]; intros e k c; [reflexivity|].
  cbn [cstmts]. rewrite <- IH. reflexivity.
Qed.

Lemma cstmt_if : forall bpf env brk cont l c t e,
  cstmt bpf env brk cont (SIf l c t e) =
  cexpr env c ++ IJump OpJumpIfFalse (blen env t + 2) :: IOp OpPop ::
     cblock bpf env (2 + match e with Some s' => slen env s' | None => 0 end + brk)
            (cont + length (cexpr env c) + 2) t ++
     IJump OpJump (S match e with Some s' => slen env s' | None => 0 end) :: IOp OpPop ::
     match e with
     | Some s' => cstmt bpf env brk (cont + length (cexpr env c) + 2 + blen env t + 2) s'
     | None => []
     end.
Proof.
  intros. rewrite <- cstmt_block with (l := l). reflexivity.
Qed.

Lemma cstmt_while : forall bpf env brk cont l c b,
  cstmt bpf env brk cont (SWhile l c b) =
  cexpr env c ++ IJump OpJumpIfFalse (blen (push_loop env) b + 2) :: IOp OpPop ::
     cblock bpf (push_loop env) 2 (length (cexpr env c) + 2) b ++
     [ILoop (length (cexpr env c) + 2 + blen (push_loop env) b + 1); IOp OpPop].
Proof.
  intros. rewrite <- cstmt_block with (l := l). reflexivity.
Qed.

Lemma stmt_ok_block : forall env l b, stmt_ok env (SBlock l b) = stmts_ok (begin_scope env) b.
Proof. reflexivity. Qed.
Lemma stmt_ok_if : forall env l c t e,
  stmt_ok env (SIf l c t e) =
  expr_ok env c && stmts_ok (begin_scope env) t &&
  match e with
  | Some s' => match s' with SBlock _ _ | SIf _ _ _ _ => stmt_ok env s' | _ => false end
  | None => true
  end.
Proof. reflexivity. Qed.
Lemma stmt_ok_while : forall env l c b,
  stmt_ok env (SWhile l c b) = expr_ok env c && stmts_ok (begin_scope (push_loop env)) b.
Proof. reflexivity. Qed.

(* ---- lengths ---- *)
Definition len_ok (s : stmt) : Prop :=
  forall bpf env brk cont, length (cstmt bpf env brk cont s) = slen env s.

Lemma pops_length : forall n, length (pops n) = n.
Proof. intro n. unfold pops. apply repeat_length. Qed.

Lemma cstmts_length : forall b, Forall len_ok b ->
  forall bpf env brk cont, length (cstmts bpf env brk cont b) = slens env b.
Proof.
  intros b HF. induction HF as [|x r Hx HF IH]; intros bpf env brk cont; [reflexivity|].
  cbn [cstmts slens]. rewrite app_length, Hx, IH. reflexivity.
Qed.

Lemma cblock_length : forall b, Forall len_ok b ->
  forall bpf env brk cont, length (cblock bpf env brk cont b) = blen env b.
Proof.
  intros b HF bpf env brk cont. unfold cblock, blen.
  rewrite app_length, cstmts_length, pops_length by exact HF. reflexivity.
Qed.

Lemma cstmt_length : forall s, len_ok s.
Proof.
  intro s. induction s using stmt_ind2; unfold len_ok; intros bpf env brk cont.
  - cbn [cstmt slen]. rewrite app_length. cbn [length]. lia.
  - cbn [cstmt slen]. destruct (cdepth env); destruct i; cbn [length]; rewrite ?app_length; cbn [length]; lia.
  - rewrite cstmt_block, slen_block. apply cblock_length; assumption.
  - rewrite cstmt_if, slen_if. rewrite app_length. cbn [length]. rewrite app_length. cbn [length].
    rewrite cblock_length by assumption.
    destruct e as [s'|]; [rewrite H0|cbn [length]]; lia.
  - rewrite cstmt_while, slen_while. rewrite app_length. cbn [length]. rewrite app_length. cbn [length].
    rewrite cblock_length by assumption. lia.
  - cbn [cstmt slen]. destruct bpf; [rewrite app_length|]; cbn [length]; rewrite pops_length; lia.
  - cbn [cstmt slen]. rewrite app_length; cbn [length]; rewrite pops_length; lia.
  - destruct s; try discriminate H; reflexivity.
Qed.

Lemma Forall_all : forall A (P : A -> Prop), (forall x, P x) -> forall l, Forall P l.
Proof. intros A P H l. induction l; constructor; auto. Qed.

Lemma cstmts_len : forall bpf env brk cont b, length (cstmts bpf env brk cont b) = slens env b.
Proof. intros. apply cstmts_length. apply Forall_all. exact cstmt_length. Qed.
Lemma cblock_len : forall bpf env brk cont b, length (cblock bpf env brk cont b) = blen env b.
Proof. intros. apply cblock_length. apply Forall_all. exact cstmt_length. Qed.

(* ---- the compiler's environment invariant ---- *)
Definition env_inv (env : cenv) : Prop :=
  Forall (fun l => snd l <= cdepth env) (clocals env) /\
  match cloop env with
  | Some (d, nl) => d < cdepth env /\ count_above d (clocals env) + nl = length (clocals env)
  | None => True
  end.

Lemma env_inv0 : env_inv cenv0.
Proof. split; [repeat constructor|exact I]. Qed.

Lemma env_inv_begin : forall env, env_inv env -> env_inv (begin_scope env).
Proof.
  intros env [I1 I2]. split; cbn [begin_scope clocals cdepth cloop].
  - eapply Forall_impl; [|exact I1]. cbn. intros; lia.
  - destruct (cloop env) as [[d nl]|]; [|exact I]. destruct I2; split; [lia|assumption].
Qed.

Lemma count_above_le : forall d l, Forall (fun x : name * nat => snd x <= d) l -> count_above d l = 0.
Proof.
  intros d l H. destruct H as [|[y k] r Hk _]; [reflexivity|]. cbn [count_above snd] in *.
  destruct (d <? k) eqn:E; [apply Nat.ltb_lt in E; lia|reflexivity].
Qed.

Lemma env_inv_loop : forall env, env_inv env -> env_inv (begin_scope (push_loop env)).
Proof.
  intros env [I1 _]. split; cbn [begin_scope push_loop clocals cdepth cloop].
  - eapply Forall_impl; [|exact I1]. cbn. intros; lia.
  - split; [lia|]. rewrite count_above_le by exact I1. reflexivity.
Qed.

Lemma env_inv_after : forall env s, env_inv env -> env_inv (env_after env s).
Proof.
  intros env s [I1 I2]. destruct s; try (split; assumption).
  destruct env as [cl cd cp clp]. cbn [env_after add_local clocals cdepth cpending cloop] in *.
  destruct cd as [|n]; [split; assumption|].
  split; cbn [add_local clocals cdepth cloop].
  - constructor; [cbn [snd]; lia|]. exact I1.
  - destruct clp as [[d nl]|]; [|exact I]. destruct I2 as [Lt Eq]. split; [lia|].
    cbn [count_above length]. destruct (d <? S n) eqn:E; [lia|apply Nat.ltb_ge in E; lia].
Qed.

Definition envs_after (env : cenv) (b : list stmt) : cenv := fold_left env_after b env.

Lemma envs_after_locals : forall b env, cdepth env <> 0 ->
  length (clocals (envs_after env b)) = length (clocals env) + count_decls b
  /\ cloop (envs_after env b) = cloop env /\ cdepth (envs_after env b) = cdepth env.
Proof.
  induction b as [|x r IH]; intros env D; [cbn; repeat split; lia|].
  unfold envs_after. cbn [fold_left]. fold (envs_after (env_after env x) r).
  assert (D' : cdepth (env_after env x) <> 0).
  { destruct x; try exact D. cbn [env_after]. destruct (cdepth env) eqn:E; [congruence|cbn; congruence]. }
  destruct (IH _ D') as (A & B & C). rewrite A, B, C.
  destruct x; cbn [env_after count_decls]; try (repeat split; lia).
  destruct (cdepth env) eqn:E; [congruence|]. cbn [add_local clocals cloop cdepth length]. repeat split; lia.
Qed.

(* ---- heights of statements (the repaired compiler: pops before the break's Jump) ---- *)

(* the jumps a statement may make out of its own code: break / continue of the innermost loop,
   to be met at the height the stack had when the loop was entered *)
Definition LX (env : cenv) (len brk cont : nat) : Z -> nat -> Prop :=
  fun q hh =>
    match cloop env with
    | Some (_, nl) => (q = Z.of_nat (len + brk) \/ q = (- Z.of_nat cont)%Z) /\ hh = nl
    | None => False
    end.

Definition hs_ok (s : stmt) : Prop :=
  forall env brk cont, env_inv env -> stmt_ok env s = true ->
    heights (cstmt true env brk cont s) (LX env (slen env s) brk cont)
            (length (clocals env)) (length (clocals (env_after env s))).

Lemma heights_stmts : forall b, Forall hs_ok b ->
  forall env brk cont, env_inv env -> stmts_ok env b = true ->
    heights (cstmts true env brk cont b) (LX env (slens env b) brk cont)
            (length (clocals env)) (length (clocals (envs_after env b))).
Proof.
  intros b HF. induction HF as [|x r Hx HF IH]; intros env brk cont Inv Ok; [apply heights_nil|].
  cbn [stmts_ok] in Ok. apply andb_true_iff in Ok. destruct Ok as [Ok1 Ok2].
  cbn [cstmts slens]. unfold envs_after. cbn [fold_left]. fold (envs_after (env_after env x) r).
  eapply heights_app_gen.
  - apply Hx; assumption.
  - apply IH; [apply env_inv_after; exact Inv|exact Ok2].
  - intros q hh Hq. left. unfold LX in *. destruct (cloop env) as [[d nl]|]; [|exact Hq].
    destruct Hq as [[Eq|Eq] Eh]; (split; [|exact Eh]); [left|right]; lia.
  - intros q hh Hq. left. unfold LX in *.
    assert (E : cloop (env_after env x) = cloop env).
    { destruct x; try reflexivity. cbn [env_after]. destruct (cdepth env); reflexivity. }
    rewrite E in Hq. destruct (cloop env) as [[d nl]|]; [|exact Hq].
    rewrite (cstmt_length x). destruct Hq as [[Eq|Eq] Eh]; (split; [|exact Eh]); [left|right]; lia.
Qed.

Lemma heights_block : forall b, Forall hs_ok b ->
  forall env brk cont, env_inv (begin_scope env) -> stmts_ok (begin_scope env) b = true ->
    heights (cblock true env brk cont b) (LX env (blen env b) brk cont)
            (length (clocals env)) (length (clocals env)).
Proof.
  intros b HF env brk cont Inv Ok. unfold cblock.
  destruct (envs_after_locals b (begin_scope env)) as (A & B & C); [cbn; congruence|].
  eapply heights_app_gen with (X2 := noX)
    (X1 := LX (begin_scope env) (slens (begin_scope env) b) (count_decls b + brk) cont)
    (h1 := length (clocals (envs_after (begin_scope env) b))).
  - exact (heights_stmts b HF (begin_scope env) _ _ Inv Ok).
  - rewrite A. cbn [begin_scope clocals]. rewrite Nat.add_comm. apply heights_pops.
  - intros q hh Hq. left. unfold LX, blen in *. cbn [begin_scope cloop] in Hq.
    destruct (cloop env) as [[d nl]|]; [|exact Hq].
    destruct Hq as [[Eq|Eq] Eh]; (split; [|exact Eh]); [left|right]; lia.
  - intros q hh [].
Qed.

Lemma heights_stmt : forall s, hs_ok s.
Proof.
  intro s. induction s using stmt_ind2; unfold hs_ok; intros env brk cont Inv Ok.
  - (* SExpr *)
    cbn [stmt_ok] in Ok. cbn [cstmt env_after]. apply heights_noX.
    eapply heights_snoc0 with (a := 1) (b := 0);
      [apply heights_expr; exact Ok|reflexivity|reflexivity|lia|lia].
  - (* SVar *)
    cbn [stmt_ok] in Ok. cbn [cstmt env_after]. destruct (cdepth env) eqn:D.
    + apply heights_noX.
      eapply heights_cons with (a := 0) (b := 0) (h1 := length (clocals env)); try reflexivity; [lia|lia|].
      apply heights_noX.
      eapply heights_snoc0 with (a := 1) (b := 0) (h1 := S (length (clocals env)));
        [|reflexivity|reflexivity|lia|lia].
      destruct i as [e|]; [apply heights_expr; exact Ok|].
      eapply heights_straight' with (a := 0) (b := 1); [reflexivity|reflexivity|lia|lia].
    + apply heights_noX. cbn [add_local clocals length].
      destruct i as [e|].
      * apply andb_true_iff in Ok. destruct Ok as [_ Ok]. apply heights_expr; exact Ok.
      * eapply heights_straight' with (a := 0) (b := 1); [reflexivity|reflexivity|lia|lia].
  - (* SBlock *)
    rewrite stmt_ok_block in Ok. rewrite cstmt_block, slen_block. cbn [env_after].
    apply heights_block; [assumption|apply env_inv_begin; exact Inv|exact Ok].
  - (* SIf *)
    rewrite stmt_ok_if in Ok. apply andb_true_iff in Ok. destruct Ok as [Ok12 Ok3].
    apply andb_true_iff in Ok12. destruct Ok12 as [Ok1 Ok2].
    rewrite cstmt_if, slen_if. cbn [env_after].
    set (L := length (clocals env)). set (cc := cexpr env c). set (tl := blen env t).
    set (el := match e with Some s' => slen env s' | None => 0 end).
    set (ct := cblock true env (2 + el + brk) (cont + length cc + 2) t).
    set (ce := match e with Some s' => cstmt true env brk (cont + length cc + 2 + tl + 2) s' | None => [] end).
    assert (Lct : length ct = tl) by apply cblock_len.
    assert (Lce : length ce = el).
    { unfold ce, el. destruct e; [apply cstmt_length|reflexivity]. }
    assert (Hct : heights ct (LX env tl (2 + el + brk) (cont + length cc + 2)) L L).
    { apply heights_block; [assumption|apply env_inv_begin; exact Inv|exact Ok2]. }
    assert (Hce : heights ce (LX env el brk (cont + length cc + 2 + tl + 2)) L L).
    { unfold ce, el. destruct e as [s'|]; [|apply heights_nil].
      cbn [Popt] in H0. destruct s'; try discriminate Ok3; exact (H0 env _ _ Inv Ok3). }
    set (X := LX env (length cc + 2 + tl + 2 + el) brk cont).
    replace (cc ++ IJump OpJumpIfFalse (tl + 2) :: IOp OpPop :: ct ++ IJump OpJump (S el) :: IOp OpPop :: ce)
      with (cc ++ (([IJump OpJumpIfFalse (tl + 2)] ++ ((IOp OpPop :: ct) ++ [IJump OpJump (S el)])) ++ (IOp OpPop :: ce)))
      by (cbn [app]; rewrite <- app_assoc; reflexivity).
    eapply heights_app; [apply heights_noX; apply heights_expr; exact Ok1|].
    set (XG := shiftX X (Z.of_nat (length cc))).
    eapply heights_app_gen with (h1 := S L)
      (X1 := fun q hh => XG q hh \/ (q = Z.of_nat (tl + 4 + el) /\ hh = L))
      (X2 := shiftX XG (Z.of_nat (tl + 3))).
    + (* [JIF] ++ (C ++ D) *)
      eapply heights_app_gen with (h1 := S L)
        (X1 := fun q hh => q = Z.of_nat (tl + 3) /\ hh = S L)
        (X2 := fun q hh => XG (q + 1)%Z hh \/ (q = Z.of_nat (tl + 3 + el) /\ hh = L)).
      * eapply heights_one with (a := 1) (b := 1); [reflexivity|lia|].
        intros q [<-|[<-|[]]]; [left; split; [reflexivity|lia]|right; split; lia].
      * eapply heights_app_gen with (h1 := L)
          (X1 := fun q hh => XG (q + 1)%Z hh) (X2 := fun q hh => q = Z.of_nat (2 + el) /\ hh = L).
        -- eapply heights_cons with (a := 1) (b := 0) (h1 := L); try reflexivity; [lia|lia|].
           eapply heights_mono; [|exact Hct].
           intros q hh Hq. unfold shiftX, XG, X, LX in *.
           destruct (cloop env) as [[d nl]|]; [|exact Hq].
           destruct Hq as [[Eq|Eq] Eh]; (split; [|exact Eh]); [left|right]; lia.
        -- eapply heights_one with (a := 0) (b := 0); [reflexivity|lia|].
           intros q [<-|[]]. right. split; lia.
        -- intros q hh Hq. left. left. exact Hq.
        -- intros q hh [Eq Eh]. left. right. cbn [length]. rewrite Lct. split; [lia|exact Eh].
      * intros q hh [Eq Eh]. right. cbn [length]. rewrite app_length. cbn [length]. rewrite Lct.
        split; [lia|exact Eh].
      * intros q hh [Hq|[Eq Eh]]; left; [left|right].
        -- cbn [length]. replace (q + Z.of_nat 1)%Z with (q + 1)%Z by lia. exact Hq.
        -- cbn [length]. split; [lia|exact Eh].
    + (* Pop :: ce *)
      eapply heights_cons with (a := 1) (b := 0) (h1 := L); try reflexivity; [lia|lia|].
      eapply heights_mono; [|exact Hce].
      intros q hh Hq. unfold shiftX, XG, X, LX in *.
      destruct (cloop env) as [[d nl]|]; [|exact Hq].
      destruct Hq as [[Eq|Eq] Eh]; (split; [|exact Eh]); [left|right]; lia.
    + intros q hh [Hq|[Eq Eh]]; [left; exact Hq|right].
      cbn [length]. rewrite app_length. cbn [length]. rewrite app_length. cbn [length]. rewrite Lct, Lce.
      split; [lia|exact Eh].
    + intros q hh Hq. left. unfold shiftX in *. cbn [length]. rewrite app_length. cbn [length].
      rewrite app_length. cbn [length]. rewrite Lct.
      replace (q + Z.of_nat (1 + (S tl + 1)))%Z with (q + Z.of_nat (tl + 3))%Z by lia. exact Hq.
  - (* SWhile *)
    rewrite stmt_ok_while in Ok. apply andb_true_iff in Ok. destruct Ok as [Ok1 Ok2].
    rewrite cstmt_while, slen_while. cbn [env_after].
    set (L := length (clocals env)). set (cc := cexpr env c). set (bl := blen (push_loop env) b).
    set (cb := cblock true (push_loop env) 2 (length cc + 2) b).
    assert (Lcb : length cb = bl) by apply cblock_len.
    assert (Hcb : heights cb (LX (push_loop env) bl 2 (length cc + 2)) L L).
    { apply heights_block; [assumption|apply env_inv_loop; exact Inv|exact Ok2]. }
    set (n := length cc + 2 + bl + 1).
    replace (cc ++ IJump OpJumpIfFalse (bl + 2) :: IOp OpPop :: cb ++ [ILoop n; IOp OpPop])
      with ((cc ++ ([IJump OpJumpIfFalse (bl + 2)] ++ ((IOp OpPop :: cb) ++ [ILoop n]))) ++ [IOp OpPop])
      by (cbn [app]; rewrite <- !app_assoc; cbn [app]; rewrite <- app_assoc; reflexivity).
    apply heights_noX.
    set (XM := fun (q : Z) (hh : nat) => q = Z.of_nat (length cc + bl + 4) /\ hh = L).
    eapply heights_app_gen with (h1 := S L) (X1 := XM) (X2 := noX).
    + set (XN := fun (q : Z) (hh : nat) => XM (q + Z.of_nat (length cc))%Z hh \/ (q = (- Z.of_nat (length cc))%Z /\ hh = L)).
      eapply heights_app_gen with (h1 := S L) (X1 := noX) (X2 := XN).
      * apply heights_expr; exact Ok1.
      * eapply heights_app_gen with (h1 := S L)
          (X1 := fun q hh => q = Z.of_nat (bl + 3) /\ hh = S L) (X2 := fun q hh => XN (q + 1)%Z hh).
        -- eapply heights_one with (a := 1) (b := 1); [reflexivity|lia|].
           intros q [<-|[<-|[]]]; [left; split; [reflexivity|lia]|right; split; lia].
        -- eapply heights_app_gen with (h1 := L)
             (X1 := fun q hh => XN (q + 1)%Z hh)
             (X2 := fun q hh => q = (1 - Z.of_nat n)%Z /\ hh = L).
           ++ eapply heights_cons with (a := 1) (b := 0) (h1 := L); try reflexivity; [lia|lia|].
              eapply heights_mono; [|exact Hcb].
              intros q hh Hq. unfold shiftX, XN, XM, LX in *. cbn [push_loop cloop] in Hq.
              destruct Hq as [[Eq|Eq] Eh]; [left|right]; split; auto; fold L in Eh; lia.
           ++ eapply heights_one with (a := 0) (b := 0); [reflexivity|lia|].
              intros q [<-|[]]. right. split; lia.
           ++ intros q hh Hq. left. exact Hq.
           ++ intros q hh [Eq Eh]. left. unfold XN. right. cbn [length]. rewrite Lcb. unfold n in Eq.
              split; [lia|exact Eh].
        -- intros q hh [Eq Eh]. right. cbn [length]. rewrite app_length. cbn [length]. rewrite Lcb.
           split; [lia|exact Eh].
        -- intros q hh Hq. left. cbn [length]. replace (q + Z.of_nat 1)%Z with (q + 1)%Z by lia. exact Hq.
      * intros q hh [].
      * intros q hh Hq. exact Hq.
    + eapply heights_straight' with (a := 1) (b := 0); [reflexivity|reflexivity|lia|lia].
    + intros q hh [Eq Eh]. right. rewrite !app_length. cbn [length]. rewrite Lcb. split; [lia|exact Eh].
    + intros q hh [].
  - (* SBreak *)
    cbn [stmt_ok] in Ok. cbn [cstmt slen env_after]. unfold loop_pops.
    destruct Inv as [I1 I2]. unfold LX. destruct (cloop env) as [[d nl]|] eqn:CL; [|discriminate].
    destruct I2 as [Lt Eq]. set (k := count_above d (clocals env)) in *.
    eapply heights_app_gen with (h1 := nl) (X1 := noX)
      (X2 := fun q hh => q = Z.of_nat (1 + brk) /\ hh = nl).
    + rewrite <- Eq. apply heights_pops.
    + eapply heights_one with (a := 0) (b := 0); [reflexivity|lia|].
      intros q [<-|[]]. right. split; lia.
    + intros q hh [].
    + intros q hh [Eq' Eh]. left. rewrite pops_length. split; [left; lia|exact Eh].
  - (* SContinue *)
    cbn [stmt_ok] in Ok. cbn [cstmt slen env_after]. unfold loop_pops.
    destruct Inv as [I1 I2]. unfold LX. destruct (cloop env) as [[d nl]|] eqn:CL; [|discriminate].
    destruct I2 as [Lt Eq]. set (k := count_above d (clocals env)) in *.
    eapply heights_app_gen with (h1 := nl) (X1 := noX)
      (X2 := fun q hh => q = (1 - Z.of_nat (cont + k + 1))%Z /\ hh = nl).
    + rewrite <- Eq. apply heights_pops.
    + eapply heights_one with (a := 0) (b := 0); [reflexivity|lia|].
      intros q [<-|[]]. right. split; lia.
    + intros q hh [].
    + intros q hh [Eq' Eh]. left. rewrite pops_length. split; [right; lia|exact Eh].
  - (* outside the fragment *)
    destruct s; try discriminate H; discriminate Ok.
Qed.

(* the abstract heights are the machine's stack heights: one step of FragVM from a state whose
   stack height is the certified one reaches a certified position, or one the segment is
   allowed to jump to, with the certified height *)
Lemma heights_step : forall H X c i pc stk w s',
  wt H X c -> nth_error c pc = Some i -> step_instr i pc stk w = SNext s' ->
  length stk = H (Z.of_nat pc) ->
  ((0 <= Z.of_nat (vpc s') <= Z.of_nat (length c))%Z /\ length (vstack s') = H (Z.of_nat (vpc s')))
  \/ X (Z.of_nat (vpc s')) (length (vstack s')).
Proof.
  intros H X c i pc stk w s' W Hn St Hl.
  destruct (effect_sound _ _ _ _ _ St) as (a & b & E & Le & Ls & Hs).
  destruct (W pc i Hn) as (a' & b' & E' & Le' & S). rewrite E in E'. inversion E'; subst a' b'.
  rewrite Ls, Hl. destruct (S _ Hs) as [[R Hq]|Xq]; [left; split; [exact R|exact (eq_sym Hq)]|right; exact Xq].
Qed.

Definition decl_count (env : cenv) (s : stmt) : nat :=
  match s with
  | SVar _ _ _ => match cdepth env with O => 0 | S _ => 1 end
  | _ => 0
  end.

Lemma env_after_decl : forall env s,
  length (clocals (env_after env s)) = length (clocals env) + decl_count env s.
Proof.
  intros env s. destruct s; cbn [env_after decl_count]; try lia.
  destruct (cdepth env); cbn [add_local clocals length]; lia.
Qed.

Lemma envs_after_top : forall p env, cdepth env = 0 -> envs_after env p = env.
Proof.
  induction p as [|x r IH]; intros env D; [reflexivity|].
  unfold envs_after. cbn [fold_left]. fold (envs_after (env_after env x) r).
  assert (E : env_after env x = env) by (destruct x; try reflexivity; cbn [env_after]; rewrite D; reflexivity).
  rewrite E. apply IH; exact D.
Qed.

(* [cexpr e] leaves the height +1; [cstmt s] leaves it + the number of locals s declares at this
   scope level; a whole script leaves it unchanged - on every path, the only jumps out of a
   statement's code being break / continue of the enclosing loop, which arrive with the height
   the loop was entered with. *)
Theorem stack_discipline :
  (forall env e h, expr_ok env e = true -> heights (cexpr env e) noX h (S h)) /\
  (forall env s brk cont, env_inv env -> stmt_ok env s = true ->
     heights (cstmt true env brk cont s) (LX env (slen env s) brk cont)
             (length (clocals env)) (length (clocals env) + decl_count env s)) /\
  (forall p, program_ok p = true -> heights (cstmts true cenv0 0 0 p) noX 1 1).
Proof.
  split; [|split].
  - intros env e h Hok. apply heights_expr; exact Hok.
  - intros env s brk cont Inv Ok. rewrite <- env_after_decl. apply heights_stmt; assumption.
  - intros p Ok.
    pose proof (heights_stmts p (Forall_all _ _ heights_stmt p) cenv0 0 0 env_inv0 Ok) as H.
    rewrite envs_after_top in H by reflexivity.
    eapply heights_mono; [|exact H]. intros q hh Hq. exact Hq.
Qed.
Print Assumptions stack_discipline.

(* the hypotheses are satisfiable by a program with locals, a loop, break and continue *)
Example stack_discipline_ex :
  program_ok [SWhile 1%N ETrue [SVar 1%N (B "k") None;
                                SIf 1%N (EVar (B "k")) [SVar 1%N (B "j") None; SContinue 1%N] None;
                                SBreak 1%N]] = true.
Proof. reflexivity. Qed.

(* compiler.rs before the repair (Jump first, pops unreachable): no certificate exists as soon
   as the loop body declares a local before the break *)
Theorem stack_discipline_unrepaired_refuted :
  exists p, program_ok p = true /\ forall h h', ~ heights (cstmts false cenv0 0 0 p) noX h h'.
Proof.
  exists [SWhile 1%N ETrue [SVar 1%N (B "k") None; SBreak 1%N]]. split; [reflexivity|].
  intros h h' (H & H0 & Hend & W).
  change (cstmts false cenv0 0 0 [SWhile 1%N ETrue [SVar 1%N (B "k") None; SBreak 1%N]])
    with [IOp OpTrue; IJump OpJumpIfFalse 6; IOp OpPop; IOp OpNil; IJump OpJump 4; IOp OpPop;
          IOp OpPop; ILoop 8; IOp OpPop] in W.
  Local Ltac use W k :=
    let a := fresh "a" in let b := fresh "b" in let E := fresh "E" in
    let Le := fresh "Le" in let S := fresh "S" in
    destruct (W k _ eq_refl) as (a & b & E & Le & S); cbn [effect binop_of_opcode] in E;
    inversion E; subst a b; clear E; cbn [succs Z.of_nat length] in S.
  use W 0. use W 1. use W 2. use W 3. use W 4. use W 8.
  destruct (S 1%Z (or_introl eq_refl)) as [[_ A1]|[]].
  destruct (S0 2%Z (or_introl eq_refl)) as [[_ A2]|[]].
  destruct (S0 8%Z (or_intror (or_introl eq_refl))) as [[_ A8]|[]].
  destruct (S1 3%Z (or_introl eq_refl)) as [[_ A3]|[]].
  destruct (S2 4%Z (or_introl eq_refl)) as [[_ A4]|[]].
  destruct (S3 9%Z (or_introl eq_refl)) as [[_ A9]|[]].
  destruct (S4 9%Z (or_introl eq_refl)) as [[_ B9]|[]].
  cbn [Z.of_nat Pos.of_succ_nat Pos.succ] in *. lia.
Qed.
Print Assumptions stack_discipline_unrepaired_refuted.
(* ================================================================== *)
(* 5. compile_expr_correct                                             *)

Inductive star (c : code) : vstate -> vstate -> Prop :=
| star_refl : forall s, star c s s
| star_step : forall s s' s'', step c s = SNext s' -> star c s' s'' -> star c s s''.

(* the run ends with the unhandled error e, the world being w *)
Definition raises (c : code) (s : vstate) (e : err) (w : world) : Prop :=
  exists s', star c s s' /\ step c s' = SErr e w.

Lemma star_trans : forall c s1 s2 s3, star c s1 s2 -> star c s2 s3 -> star c s1 s3.
Proof. intros c s1 s2 s3 H. induction H; intros; eauto using star. Qed.

Lemma star_raises : forall c s1 s2 e w, star c s1 s2 -> raises c s2 e w -> raises c s1 e w.
Proof. intros c s1 s2 e w H (s' & A & B). exists s'. split; [eapply star_trans; eauto|exact B]. Qed.

Lemma star_one : forall c s s', step c s = SNext s' -> star c s s'.
Proof. intros. eapply star_step; eauto using star. Qed.

(* run_vm follows star *)
Lemma star_run : forall c s s', star c s s' ->
  forall k o, run_vm k c s' = o -> exists k', run_vm (k' + k) c s = o.
Proof.
  intros c s s' H. induction H as [s|s s1 s2 St _ IH]; intros k o R.
  - exists 0. exact R.
  - destruct (IH k o R) as (k' & E). exists (S k'). cbn [Nat.add run_vm]. rewrite St. exact E.
Qed.

Definition code_at (c : code) (pc : nat) (l : list instr) : Prop :=
  exists pre post, c = pre ++ l ++ post /\ length pre = pc.

Lemma code_at_app : forall c pc l1 l2,
  code_at c pc (l1 ++ l2) -> code_at c pc l1 /\ code_at c (pc + length l1) l2.
Proof.
  intros c pc l1 l2 (pre & post & E & L). split.
  - exists pre, (l2 ++ post). rewrite E, <- app_assoc. auto.
  - exists (pre ++ l1), post. rewrite E, <- !app_assoc. rewrite app_length. split; [reflexivity|lia].
Qed.

Lemma code_at_cons : forall c pc i l,
  code_at c pc (i :: l) -> nth_error c pc = Some i /\ code_at c (S pc) l.
Proof.
  intros c pc i l (pre & post & E & L). split.
  - rewrite E, nth_error_app2 by lia. rewrite L, Nat.sub_diag. reflexivity.
  - exists (pre ++ [i]), post. rewrite E, <- app_assoc, app_length. cbn. split; [reflexivity|lia].
Qed.

Lemma step_at : forall c pc i stk w,
  nth_error c pc = Some i -> step c (mkVS pc stk w) = step_instr i pc stk w.
Proof. intros c pc i stk w H. unfold step. cbn [vpc vstack vwd]. rewrite H. reflexivity. Qed.

Lemma star_eq : forall c s s1 s2, star c s s1 -> s1 = s2 -> star c s s2.
Proof. intros; subst; assumption. Qed.

(* ---- locals: names <-> slots ---- *)
Definition vals (l : lenv) : list val := map snd l.
Definition names (l : lenv) : list name := map fst l.
Definition env_match (env : cenv) (l : lenv) : Prop := map fst (clocals env) = names l.

Lemma set_nth_app : forall A (t : list A) x y r, set_nth (length t) y (t ++ x :: r) = t ++ y :: r.
Proof. intros A t. induction t as [|a t IH]; intros x y r; cbn [length set_nth app]; [reflexivity|rewrite IH; reflexivity]. Qed.

Lemma find_lookup : forall (cl : list (name * nat)) (l : lenv) x,
  map fst cl = names l ->
  match find_local cl x with
  | Some k =>
    exists v, lookup l x = Some v /\
      forall t, slot_get (t ++ vals l) (N.of_nat k) = Some v /\
        forall v', slot_set (t ++ vals l) (N.of_nat k) v' = Some (t ++ vals (update l x v'))
  | None => lookup l x = None
  end.
Proof.
  induction cl as [|[y d] cl IH]; intros l x E; destruct l as [|[y' u] l]; try discriminate E.
  - reflexivity.
  - cbn in E. inversion E; subst y'. cbn [find_local lookup update].
    unfold name_eqb. change (ExprSem.bytes_eqb x y) with (CompileExpr.bytes_eqb x y).
    destruct (CompileExpr.bytes_eqb x y) eqn:B.
    + exists u. split; [reflexivity|]. intros t.
      assert (Hl : length cl = length l).
      { apply (f_equal (@length _)) in H1. unfold names in H1. rewrite !map_length in H1. exact H1. }
      split.
      * unfold slot_get. rewrite Nat2N.id. unfold vals. cbn [map]. rewrite rev_app_distr. cbn [rev].
        rewrite <- app_assoc. rewrite nth_error_app2; rewrite rev_length, map_length; [|lia].
        rewrite Hl, Nat.sub_diag. reflexivity.
      * intros v'. unfold slot_set. rewrite Nat2N.id. unfold vals. cbn [map snd].
        rewrite app_length. cbn [length]. rewrite map_length.
        destruct (length cl <? length t + S (length l)) eqn:Lt; [|apply Nat.ltb_ge in Lt; lia].
        replace (length t + S (length l) - 1 - length cl) with (length t) by lia.
        rewrite set_nth_app. reflexivity.
    + specialize (IH l x H1). destruct (find_local cl x) as [k|].
      * destruct IH as (v & Lk & Sl). exists v. split; [exact Lk|]. intros t.
        destruct (Sl (t ++ [u])) as [G S]. unfold vals in *. cbn [map snd].
        rewrite <- app_assoc in G. cbn [app] in G. split; [exact G|].
        intros v'. specialize (S v'). rewrite <- !app_assoc in S. cbn [app] in S. exact S.
      * exact IH.
Qed.

Lemma update_names : forall l x v, names (update l x v) = names l.
Proof.
  induction l as [|[y u] l IH]; intros x v; [reflexivity|]. cbn [update].
  destruct (name_eqb x y); cbn; [reflexivity|]. unfold names in IH. rewrite IH. reflexivity.
Qed.

(* what the machine does for the evaluator's result [r] of an expression started in state s
   with temporaries t above the locals *)
Definition vm_after (c : code) (pc : nat) (t : list val) (s : st) (pc' : nat) (r : st * res val) : Prop :=
  match r with
  | (s', Ok v) =>
    star c (mkVS pc (t ++ vals (locals s)) (wd s)) (mkVS pc' (v :: t ++ vals (locals s')) (wd s')) /\
    names (locals s') = names (locals s)
  | (s', Er x) => raises c (mkVS pc (t ++ vals (locals s)) (wd s)) x (wd s')
  end.

Definition expr_correct (env : cenv) (e : expr) : Prop :=
  forall c pc t s,
    expr_ok env e = true -> env_match env (locals s) -> code_at c pc (cexpr env e) ->
    vm_after c pc t s (pc + length (cexpr env e)) (eval_expr e s).

(* ---- single instructions ---- *)
Ltac one_step Hn := eapply star_step; [rewrite (step_at _ _ _ _ _ Hn); reflexivity|].

Lemma run_push : forall c pc i v stk w,
  nth_error c pc = Some i -> step_instr i pc stk w = SNext (mkVS (S pc) (v :: stk) w) ->
  star c (mkVS pc stk w) (mkVS (pc + 1) (v :: stk) w).
Proof.
  intros c pc i v stk w Hn Hs. replace (pc + 1) with (S pc) by lia.
  apply star_one. rewrite (step_at _ _ _ _ _ Hn). exact Hs.
Qed.

Lemma binop_le : forall st a b, binop_sem st BLe a b = then_not (binop_sem st BGt a b).
Proof. reflexivity. Qed.
Lemma binop_ge : forall st a b, binop_sem st BGe a b = then_not (binop_sem st BLt a b).
Proof. reflexivity. Qed.
Lemma binop_ne : forall st a b, binop_sem st BNe a b = then_not (binop_sem st BEq a b).
Proof. reflexivity. Qed.

Lemma run_binop1 : forall c pc o op a b stk w,
  nth_error c pc = Some (IOp o) -> binop_of_opcode o = Some op ->
  match binop_sem (store w) op a b with
  | Ok v => star c (mkVS pc (b :: a :: stk) w) (mkVS (S pc) (v :: stk) w)
  | Er x => raises c (mkVS pc (b :: a :: stk) w) x w
  end.
Proof.
  intros c pc o op a b stk w Hn Hb.
  assert (St : step c (mkVS pc (b :: a :: stk) w) =
               match binop_sem (store w) op a b with
               | Ok v => next pc (v :: stk) w
               | Er e => SErr e w
               end).
  { rewrite (step_at _ _ _ _ _ Hn). cbn [step_instr].
    destruct o; try discriminate Hb; cbn [step_op binop_of_opcode]; inversion Hb; reflexivity. }
  destruct (binop_sem (store w) op a b) as [v|x].
  - apply star_one. exact St.
  - exists (mkVS pc (b :: a :: stk) w). split; [apply star_refl|exact St].
Qed.

Lemma run_not : forall c pc v stk w,
  nth_error c pc = Some (IOp OpLogicalNot) ->
  star c (mkVS pc (v :: stk) w) (mkVS (S pc) (not_val v :: stk) w).
Proof. intros c pc v stk w Hn. apply star_one. rewrite (step_at _ _ _ _ _ Hn). reflexivity. Qed.

Lemma run_binop : forall c pc op a b stk w,
  code_at c pc (binop_code op) ->
  match binop_sem (store w) op a b with
  | Ok v => star c (mkVS pc (b :: a :: stk) w) (mkVS (pc + length (binop_code op)) (v :: stk) w)
  | Er x => raises c (mkVS pc (b :: a :: stk) w) x w
  end.
Proof.
  intros c pc op a b stk w Hc.
  assert (One : forall o, binop_code op = [IOp o] -> binop_of_opcode o = Some op ->
    match binop_sem (store w) op a b with
    | Ok v => star c (mkVS pc (b :: a :: stk) w) (mkVS (pc + length (binop_code op)) (v :: stk) w)
    | Er x => raises c (mkVS pc (b :: a :: stk) w) x w
    end).
  { intros o E Hb. rewrite E in *. apply code_at_cons in Hc. destruct Hc as [Hn _].
    pose proof (run_binop1 c pc o op a b stk w Hn Hb) as R.
    cbn [length]. replace (pc + 1) with (S pc) by lia. exact R. }
  assert (Two : forall o op1, binop_code op = [IOp o; IOp OpLogicalNot] -> binop_of_opcode o = Some op1 ->
    binop_sem (store w) op a b = then_not (binop_sem (store w) op1 a b) ->
    match binop_sem (store w) op a b with
    | Ok v => star c (mkVS pc (b :: a :: stk) w) (mkVS (pc + length (binop_code op)) (v :: stk) w)
    | Er x => raises c (mkVS pc (b :: a :: stk) w) x w
    end).
  { intros o op1 E Hb Eq. rewrite E in *. apply code_at_cons in Hc. destruct Hc as [Hn Hc].
    apply code_at_cons in Hc. destruct Hc as [Hn2 _].
    pose proof (run_binop1 c pc o op1 a b stk w Hn Hb) as R. rewrite Eq.
    destruct (binop_sem (store w) op1 a b) as [v|x]; cbn [then_not]; [|exact R].
    cbn [length]. replace (pc + 2) with (S (S pc)) by lia.
    eapply star_trans; [exact R|]. apply run_not; exact Hn2. }
  destruct op; try (eapply One; reflexivity).
  - eapply Two; [reflexivity|reflexivity|apply binop_ne].
  - eapply Two; [reflexivity|reflexivity|apply binop_le].
  - eapply Two; [reflexivity|reflexivity|apply binop_ge].
Qed.

Lemma run_unop : forall c pc op a stk w,
  code_at c pc (unop_code op) ->
  match unop_sem op a with
  | Ok v => star c (mkVS pc (a :: stk) w) (mkVS (pc + 1) (v :: stk) w)
  | Er x => raises c (mkVS pc (a :: stk) w) x w
  end.
Proof.
  intros c pc op a stk w Hc.
  assert (St : exists o, nth_error c pc = Some (IOp o) /\ unop_of_opcode o = Some op /\ binop_of_opcode o = None
                         /\ step_op o pc (a :: stk) w =
                            match unop_sem op a with Ok v => next pc (v :: stk) w | Er e => SErr e w end).
  { destruct op; cbn [unop_code] in Hc; apply code_at_cons in Hc; destruct Hc as [Hn _];
      eexists; (split; [exact Hn|]); repeat split; reflexivity. }
  destruct St as (o & Hn & _ & _ & St).
  assert (St' : step c (mkVS pc (a :: stk) w) =
                match unop_sem op a with Ok v => next pc (v :: stk) w | Er e => SErr e w end).
  { rewrite (step_at _ _ _ _ _ Hn). exact St. }
  destruct (unop_sem op a) as [v|x].
  - replace (pc + 1) with (S pc) by lia. apply star_one. exact St'.
  - exists (mkVS pc (a :: stk) w). split; [apply star_refl|exact St'].
Qed.

Lemma resolve_cases : forall env x,
  not_pending env x = true ->
  (exists k, resolve env x = Some (N.of_nat k) /\ find_local (clocals env) x = Some k) \/
  (resolve env x = None /\ find_local (clocals env) x = None).
Proof.
  intros env x H. unfold not_pending, resolve, resolve_local in *.
  destruct (cpending env) as [p|].
  - destruct (CompileExpr.bytes_eqb x p); [discriminate|].
    destruct (find_local (clocals env) x) as [k|]; [left; exists k; auto|right; auto].
  - destruct (find_local (clocals env) x) as [k|]; [left; exists k; auto|right; auto].
Qed.

Lemma firstn_len_app : forall A (a b : list A), firstn (length a) (a ++ b) = a.
Proof. intros. rewrite firstn_app, Nat.sub_diag, firstn_all. cbn. apply app_nil_r. Qed.
Lemma skipn_len_app : forall A (a b : list A), skipn (length a) (a ++ b) = b.
Proof. intros. rewrite skipn_app, Nat.sub_diag, skipn_all. reflexivity. Qed.

Lemma format_val_str : forall w v, exists b, format_val w v = VStr b.
Proof. intros w v. destruct v; eexists; reflexivity. Qed.

(* ---- expression lists ---- *)
Definition list_after (c : code) (pc : nat) (t : list val) (s : st) (pc' n : nat)
           (r : st * res (list val)) : Prop :=
  match r with
  | (s', Ok vs) =>
    star c (mkVS pc (t ++ vals (locals s)) (wd s)) (mkVS pc' (rev vs ++ t ++ vals (locals s')) (wd s')) /\
    names (locals s') = names (locals s) /\ length vs = n
  | (s', Er x) => raises c (mkVS pc (t ++ vals (locals s)) (wd s)) x (wd s')
  end.

Lemma env_match_names : forall env l l', env_match env l -> names l' = names l -> env_match env l'.
Proof. unfold env_match. intros. congruence. Qed.

Lemma eval_list_correct : forall env es,
  Forall (expr_correct env) es -> forallb (expr_ok env) es = true ->
  forall c pc t s, env_match env (locals s) -> code_at c pc (flat_map (cexpr env) es) ->
    list_after c pc t s (pc + length (flat_map (cexpr env) es)) (length es) (eval_list eval_expr es s).
Proof.
  intros env es HF. induction HF as [|e es He HF IH]; intros Hok c pc t s Em Hc.
  - cbn [eval_list flat_map length list_after rev app]. rewrite Nat.add_0_r. repeat split. apply star_refl.
  - cbn in Hok. apply andb_true_iff in Hok. destruct Hok as [Ok1 Ok2].
    cbn [flat_map] in Hc. apply code_at_app in Hc. destruct Hc as [Hc1 Hc2].
    pose proof (He c pc t s Ok1 Em Hc1) as R1. cbn [eval_list].
    destruct (eval_expr e s) as [s1 [v|x]]; cbn [vm_after] in R1; [|exact R1].
    destruct R1 as [R1 N1].
    pose proof (IH Ok2 c (pc + length (cexpr env e)) (v :: t) s1 (env_match_names _ _ _ Em N1) Hc2) as R2.
    destruct (eval_list eval_expr es s1) as [s2 [vs|x]]; cbn [list_after] in *.
    + destruct R2 as (R2 & N2 & L2). cbn [flat_map]. rewrite app_length. repeat split.
      * eapply star_trans; [exact R1|]. eapply star_eq; [exact R2|].
        f_equal; [lia|]. cbn [rev]. rewrite <- app_assoc. reflexivity.
      * congruence.
      * cbn [length]. lia.
    + eapply star_raises; [exact R1|exact R2].
Qed.

(* ---- interpolation ---- *)
Fixpoint eval_parts (ps : list interp_part) (s : st) : st * res (list byte) :=
  match ps with
  | [] => (s, Ok [])
  | IPStr b :: r =>
    match eval_parts r s with
    | (s2, Ok bs) => (s2, Ok (b ++ bs))
    | (s2, Er x) => (s2, Er x)
    end
  | IPExpr e1 :: r =>
    match eval_expr e1 s with
    | (s1, Ok v) =>
      let piece := match format_val (wd s1) v with VStr b => b | _ => [] end in
      match eval_parts r s1 with
      | (s2, Ok bs) => (s2, Ok (piece ++ bs))
      | (s2, Er x) => (s2, Er x)
      end
    | (s1, Er x) => (s1, Er x)
    end
  end.

Lemma eval_interp : forall ps s,
  eval_expr (EInterp ps) s =
  match eval_parts ps s with
  | (s1, Ok bs) => (s1, Ok (VStr bs))
  | (s1, Er x) => (s1, Er x)
  end.
Proof.
  intros ps s. reflexivity.
Qed.

Lemma all_strs_map : forall pieces, all_strs (map VStr pieces) = Some (concat pieces).
Proof. induction pieces as [|p r IH]; [reflexivity|]. cbn [map all_strs concat]. rewrite IH. reflexivity. Qed.

Definition parts_after (c : code) (pc : nat) (t : list val) (s : st) (pc' n : nat)
           (r : st * res (list byte)) : Prop :=
  match r with
  | (s', Ok bs) =>
    exists pieces,
      star c (mkVS pc (t ++ vals (locals s)) (wd s))
             (mkVS pc' (rev (map VStr pieces) ++ t ++ vals (locals s')) (wd s')) /\
      names (locals s') = names (locals s) /\ concat pieces = bs /\ length pieces = n
  | (s', Er x) => raises c (mkVS pc (t ++ vals (locals s)) (wd s)) x (wd s')
  end.

Lemma eval_parts_correct : forall env ps,
  Forall (Ppart (expr_correct env)) ps -> parts_ok env ps = true ->
  forall c pc t s, env_match env (locals s) -> code_at c pc (cparts env ps) ->
    parts_after c pc t s (pc + length (cparts env ps)) (length ps) (eval_parts ps s).
Proof.
  intros env ps HF. induction HF as [|p ps Hp HF IH]; intros Hok c pc t s Em Hc.
  - cbn [eval_parts cparts length parts_after]. exists []. rewrite Nat.add_0_r. repeat split. apply star_refl.
  - destruct p as [b|e1]; cbn in Hok; apply andb_true_iff in Hok; destruct Hok as [Ok1 Ok2];
      cbn [cparts eval_parts] in *.
    + apply code_at_cons in Hc. destruct Hc as [Hn Hc].
      pose proof (IH Ok2 c (S pc) (VStr b :: t) s Em Hc) as R.
      destruct (eval_parts ps s) as [s2 [bs|x]]; cbn [parts_after] in *.
      * destruct R as (pieces & R & N & Cc & L). exists (b :: pieces). repeat split.
        -- eapply star_step; [rewrite (step_at _ _ _ _ _ Hn); reflexivity|].
           eapply star_eq; [exact R|]. f_equal; [cbn [length]; lia|].
           cbn [map rev]. rewrite <- app_assoc. reflexivity.
        -- exact N.
        -- cbn [concat]. rewrite Cc. reflexivity.
        -- cbn [length]. lia.
      * eapply star_raises; [|exact R]. apply star_one. rewrite (step_at _ _ _ _ _ Hn). reflexivity.
    + apply code_at_app in Hc. destruct Hc as [Hc1 Hc2]. apply code_at_cons in Hc2. destruct Hc2 as [Hn Hc2].
      cbn in Hp. pose proof (Hp c pc t s Ok1 Em Hc1) as R1.
      destruct (eval_expr e1 s) as [s1 [v|x]]; cbn [vm_after] in R1; [|exact R1].
      destruct R1 as [R1 N1]. destruct (format_val_str (wd s1) v) as (piece & Fv). rewrite Fv.
      pose proof (IH Ok2 c (S (pc + length (cexpr env e1))) (VStr piece :: t) s1
                     (env_match_names _ _ _ Em N1) Hc2) as R2.
      destruct (eval_parts ps s1) as [s2 [bs|x]]; cbn [parts_after] in *.
      * destruct R2 as (pieces & R2 & N2 & Cc & L). exists (piece :: pieces). repeat split.
        -- eapply star_trans; [exact R1|].
           eapply star_step; [rewrite (step_at _ _ _ _ _ Hn); cbn [step_instr step_op]; rewrite Fv; reflexivity|].
           eapply star_eq; [exact R2|]. f_equal; [rewrite app_length; cbn [length]; lia|].
           cbn [map rev]. rewrite <- app_assoc. reflexivity.
        -- congruence.
        -- cbn [concat]. rewrite Cc. reflexivity.
        -- cbn [length]. lia.
      * eapply star_raises; [exact R1|]. eapply star_raises; [|exact R2].
        apply star_one. rewrite (step_at _ _ _ _ _ Hn). cbn [step_instr step_op]. rewrite Fv. reflexivity.
Qed.

Lemma take_rev : forall (vs : list val) rest,
  (length (rev vs ++ rest) <? length vs) = false /\
  rev (firstn (length vs) (rev vs ++ rest)) = vs /\
  skipn (length vs) (rev vs ++ rest) = rest.
Proof.
  intros vs rest. repeat split.
  - apply Nat.ltb_ge. rewrite app_length, rev_length. lia.
  - replace (length vs) with (length (rev vs)) by apply rev_length.
    rewrite firstn_len_app. apply rev_involutive.
  - replace (length vs) with (length (rev vs)) by apply rev_length. apply skipn_len_app.
Qed.

Lemma raises_here : forall c s e w, step c s = SErr e w -> raises c s e w.
Proof. intros. exists s. split; [apply star_refl|assumption]. Qed.

Ltac ok2 H H1 H2 ::= cbn [expr_ok] in H; apply andb_true_iff in H; destruct H as [H1 H2].

Lemma compile_expr_all : forall env e, expr_correct env e.
Proof.
  intros env e. induction e using expr_ind2; unfold expr_correct; intros c pc t s Hok Em Hc.
  - (* ENil *) cbn [cexpr] in *. apply code_at_cons in Hc. destruct Hc as [Hn _].
    cbn [eval_expr vm_after length]. split; [|reflexivity]. eapply run_push; [exact Hn|reflexivity].
  - cbn [cexpr] in *. apply code_at_cons in Hc. destruct Hc as [Hn _].
    cbn [eval_expr vm_after length]. split; [|reflexivity]. eapply run_push; [exact Hn|reflexivity].
  - cbn [cexpr] in *. apply code_at_cons in Hc. destruct Hc as [Hn _].
    cbn [eval_expr vm_after length]. split; [|reflexivity]. eapply run_push; [exact Hn|reflexivity].
  - cbn [cexpr] in *. apply code_at_cons in Hc. destruct Hc as [Hn _].
    cbn [eval_expr vm_after length]. split; [|reflexivity]. eapply run_push; [exact Hn|reflexivity].
  - cbn [cexpr] in *. apply code_at_cons in Hc. destruct Hc as [Hn _].
    cbn [eval_expr vm_after length]. split; [|reflexivity]. eapply run_push; [exact Hn|reflexivity].
  - (* EInterp *)
    rewrite cexpr_interp in *. ok2 Hok Ok1 Ok2. apply code_at_app in Hc. destruct Hc as [Hc1 Hc2].
    apply code_at_cons in Hc2. destruct Hc2 as [Hn _].
    pose proof (eval_parts_correct env ps H Ok1 c pc t s Em Hc1) as R.
    rewrite eval_interp. destruct (eval_parts ps s) as [s1 [bs|x]]; cbn [parts_after vm_after] in *; [|exact R].
    destruct R as (pieces & R & N & Cc & L). split; [|exact N].
    eapply star_trans; [exact R|]. rewrite app_length. cbn [length].
    replace (pc + (length (cparts env ps) + 1)) with (S (pc + length (cparts env ps))) by lia.
    apply star_one. rewrite (step_at _ _ _ _ _ Hn). cbn [step_instr step_op8]. rewrite nlen_to_nat.
    rewrite <- L. rewrite <- (map_length VStr pieces).
    destruct (take_rev (map VStr pieces) (t ++ vals (locals s1))) as (T1 & T2 & T3).
    rewrite T1, T2, T3, all_strs_map, Cc. reflexivity.
  - (* EVar *)
    cbn [expr_ok] in Hok. cbn [eval_expr]. unfold get_var.
    destruct (resolve_cases env x Hok) as [(k & R & F)|[R F]]; cbn [cexpr] in *; rewrite R in *;
      apply code_at_cons in Hc; destruct Hc as [Hn _]; cbn [length];
      pose proof (find_lookup (clocals env) (locals s) x Em) as FL; rewrite F in FL.
    + destruct FL as (v & Lk & Sl). rewrite Lk. cbn [vm_after]. split; [|reflexivity].
      eapply run_push; [exact Hn|]. cbn [step_instr step_op8]. rewrite (proj1 (Sl t)). reflexivity.
    + rewrite FL. destruct (lookup (globals (wd s)) x) as [v|] eqn:G; cbn [vm_after].
      * split; [|reflexivity]. eapply run_push; [exact Hn|]. cbn [step_instr step_global]. rewrite G. reflexivity.
      * apply raises_here. rewrite (step_at _ _ _ _ _ Hn). cbn [step_instr step_global]. rewrite G. reflexivity.
  - (* EAssign *)
    ok2 Hok Ok1 Ok2. cbn [eval_expr].
    destruct (resolve_cases env x Ok1) as [(k & R & F)|[R F]]; cbn [cexpr] in *; rewrite R in *.
    + apply code_at_app in Hc. destruct Hc as [Hc1 Hc2]. apply code_at_cons in Hc2. destruct Hc2 as [Hn _].
      pose proof (IHe c pc t s Ok2 Em Hc1) as R1.
      destruct (eval_expr e s) as [s1 [v|err]]; cbn [vm_after] in R1; [|exact R1].
      destruct R1 as [R1 N1]. pose proof (env_match_names _ _ _ Em N1) as Em1.
      pose proof (find_lookup (clocals env) (locals s1) x Em1) as FL. rewrite F in FL.
      destruct FL as (u & Lk & Sl). unfold set_var. rewrite Lk. cbn [vm_after locals wd]. split.
      * eapply star_trans; [exact R1|]. rewrite app_length. cbn [length].
        replace (pc + (length (cexpr env e) + 1)) with (S (pc + length (cexpr env e))) by lia.
        apply star_one. rewrite (step_at _ _ _ _ _ Hn). cbn [step_instr step_op8].
        change (v :: t ++ vals (locals s1)) with ((v :: t) ++ vals (locals s1)).
        rewrite (proj2 (Sl (v :: t)) v). reflexivity.
      * rewrite update_names. exact N1.
    + apply code_at_cons in Hc. destruct Hc as [Hn0 Hc].
      apply code_at_app in Hc. destruct Hc as [Hc1 Hc2]. apply code_at_cons in Hc2. destruct Hc2 as [Hn _].
      pose proof (IHe c (S pc) t s Ok2 Em Hc1) as R1.
      assert (T0 : star c (mkVS pc (t ++ vals (locals s)) (wd s)) (mkVS (S pc) (t ++ vals (locals s)) (wd s))).
      { apply star_one. rewrite (step_at _ _ _ _ _ Hn0). reflexivity. }
      destruct (eval_expr e s) as [s1 [v|err]]; cbn [vm_after] in R1;
        [|cbn [vm_after]; eapply star_raises; [exact T0|exact R1]].
      destruct R1 as [R1 N1]. pose proof (env_match_names _ _ _ Em N1) as Em1.
      pose proof (find_lookup (clocals env) (locals s1) x Em1) as FL. rewrite F in FL.
      unfold set_var. rewrite FL.
      assert (T1 : star c (mkVS pc (t ++ vals (locals s)) (wd s))
                          (mkVS (S pc + length (cexpr env e)) (v :: t ++ vals (locals s1)) (wd s1)))
        by (eapply star_trans; [exact T0|exact R1]).
      destruct (lookup (globals (wd s1)) x) as [u|] eqn:G; cbn [vm_after locals wd].
      * split; [|exact N1]. eapply star_trans; [exact T1|]. cbn [length]. rewrite app_length. cbn [length].
        replace (pc + S (length (cexpr env e) + 1)) with (S (S pc + length (cexpr env e))) by lia.
        apply star_one. rewrite (step_at _ _ _ _ _ Hn). cbn [step_instr step_global]. rewrite G. reflexivity.
      * eapply star_raises; [exact T1|]. apply raises_here.
        rewrite (step_at _ _ _ _ _ Hn). cbn [step_instr step_global]. rewrite G. reflexivity.
  - (* ECompound *)
    ok2 Hok Ok12 Ok3. apply andb_true_iff in Ok12. destruct Ok12 as [Ok1 Ok2].
    cbn [eval_expr]. assert (Cp : compound_ok op = true) by (destruct op; try discriminate Ok2; reflexivity).
    rewrite Cp. assert (Cc : compound_code op = binop_code op) by (destruct op; try discriminate Ok2; reflexivity).
    unfold get_var.
    destruct (resolve_cases env x Ok1) as [(k & R & F)|[R F]]; cbn [cexpr] in *; rewrite R, Cc in *;
      apply code_at_cons in Hc; destruct Hc as [Hn0 Hc];
      apply code_at_app in Hc; destruct Hc as [Hc1 Hc2];
      apply code_at_app in Hc2; destruct Hc2 as [Hc2 Hc3]; apply code_at_cons in Hc3; destruct Hc3 as [Hn _];
      pose proof (find_lookup (clocals env) (locals s) x Em) as FL; rewrite F in FL.
    + destruct FL as (a & Lk & Sl). rewrite Lk.
      assert (T0 : star c (mkVS pc (t ++ vals (locals s)) (wd s)) (mkVS (S pc) (a :: t ++ vals (locals s)) (wd s))).
      { apply star_one. rewrite (step_at _ _ _ _ _ Hn0). cbn [step_instr step_op8]. rewrite (proj1 (Sl t)). reflexivity. }
      pose proof (IHe c (S pc) (a :: t) s Ok3 Em Hc1) as R1.
      destruct (eval_expr e s) as [s1 [b|err]]; cbn [vm_after] in R1;
        [|cbn [vm_after]; eapply star_raises; [exact T0|exact R1]].
      destruct R1 as [R1 N1]. pose proof (env_match_names _ _ _ Em N1) as Em1.
      pose proof (run_binop c (S pc + length (cexpr env e)) op a b (t ++ vals (locals s1)) (wd s1) Hc2) as R2.
      destruct (binop_sem (store (wd s1)) op a b) as [v|err].
      * pose proof (find_lookup (clocals env) (locals s1) x Em1) as FL1. rewrite F in FL1.
        destruct FL1 as (u & Lk1 & Sl1). unfold set_var. rewrite Lk1. cbn [vm_after locals wd]. split.
        -- eapply star_trans; [exact T0|]. eapply star_trans; [exact R1|]. eapply star_trans; [exact R2|].
           cbn [length]. rewrite !app_length. cbn [length].
           replace (pc + S (length (cexpr env e) + (length (binop_code op) + 1)))
             with (S (S pc + length (cexpr env e) + length (binop_code op))) by lia.
           apply star_one. rewrite (step_at _ _ _ _ _ Hn). cbn [step_instr step_op8].
           change (v :: t ++ vals (locals s1)) with ((v :: t) ++ vals (locals s1)).
           rewrite (proj2 (Sl1 (v :: t)) v). reflexivity.
        -- rewrite update_names. exact N1.
      * cbn [vm_after]. eapply star_raises; [exact T0|]. eapply star_raises; [exact R1|exact R2].
    + rewrite FL. destruct (lookup (globals (wd s)) x) as [a|] eqn:G.
      2:{ cbn [vm_after]. apply raises_here. rewrite (step_at _ _ _ _ _ Hn0). cbn [step_instr step_global].
          rewrite G. reflexivity. }
      assert (T0 : star c (mkVS pc (t ++ vals (locals s)) (wd s)) (mkVS (S pc) (a :: t ++ vals (locals s)) (wd s))).
      { apply star_one. rewrite (step_at _ _ _ _ _ Hn0). cbn [step_instr step_global]. rewrite G. reflexivity. }
      pose proof (IHe c (S pc) (a :: t) s Ok3 Em Hc1) as R1.
      destruct (eval_expr e s) as [s1 [b|err]]; cbn [vm_after] in R1;
        [|cbn [vm_after]; eapply star_raises; [exact T0|exact R1]].
      destruct R1 as [R1 N1]. pose proof (env_match_names _ _ _ Em N1) as Em1.
      pose proof (run_binop c (S pc + length (cexpr env e)) op a b (t ++ vals (locals s1)) (wd s1) Hc2) as R2.
      destruct (binop_sem (store (wd s1)) op a b) as [v|err].
      * pose proof (find_lookup (clocals env) (locals s1) x Em1) as FL1. rewrite F in FL1.
        unfold set_var. rewrite FL1.
        assert (T2 : star c (mkVS pc (t ++ vals (locals s)) (wd s))
                      (mkVS (S pc + length (cexpr env e) + length (binop_code op)) (v :: t ++ vals (locals s1)) (wd s1))).
        { eapply star_trans; [exact T0|]. eapply star_trans; [exact R1|exact R2]. }
        destruct (lookup (globals (wd s1)) x) as [u|] eqn:G1; cbn [vm_after locals wd].
        -- split; [|exact N1]. eapply star_trans; [exact T2|].
           cbn [length]. rewrite !app_length. cbn [length].
           replace (pc + S (length (cexpr env e) + (length (binop_code op) + 1)))
             with (S (S pc + length (cexpr env e) + length (binop_code op))) by lia.
           apply star_one. rewrite (step_at _ _ _ _ _ Hn). cbn [step_instr step_global]. rewrite G1. reflexivity.
        -- eapply star_raises; [exact T2|]. apply raises_here.
           rewrite (step_at _ _ _ _ _ Hn). cbn [step_instr step_global]. rewrite G1. reflexivity.
      * cbn [vm_after]. eapply star_raises; [exact T0|]. eapply star_raises; [exact R1|exact R2].
  - (* EUnary *)
    cbn [expr_ok] in Hok. cbn [cexpr eval_expr] in *. apply code_at_app in Hc. destruct Hc as [Hc1 Hc2].
    pose proof (IHe c pc t s Hok Em Hc1) as R1.
    destruct (eval_expr e s) as [s1 [a|err]]; cbn [vm_after] in R1; [|exact R1].
    destruct R1 as [R1 N1].
    pose proof (run_unop c (pc + length (cexpr env e)) op a (t ++ vals (locals s1)) (wd s1) Hc2) as R2.
    assert (Lu : length (unop_code op) = 1) by (destruct op; reflexivity).
    rewrite app_length, Lu. destruct (unop_sem op a) as [v|err]; cbn [vm_after].
    + split; [|exact N1]. eapply star_trans; [exact R1|]. eapply star_eq; [exact R2|]. f_equal. lia.
    + eapply star_raises; [exact R1|exact R2].
  - (* EBinary *)
    ok2 Hok Ok1 Ok2. cbn [cexpr eval_expr] in *. apply code_at_app in Hc. destruct Hc as [Hc1 Hc2].
    apply code_at_app in Hc2. destruct Hc2 as [Hc2 Hc3].
    pose proof (IHe1 c pc t s Ok1 Em Hc1) as R1.
    destruct (eval_expr e1 s) as [s1 [a|err]]; cbn [vm_after] in R1; [|exact R1].
    destruct R1 as [R1 N1].
    pose proof (IHe2 c (pc + length (cexpr env e1)) (a :: t) s1 Ok2 (env_match_names _ _ _ Em N1) Hc2) as R2.
    destruct (eval_expr e2 s1) as [s2 [b|err]]; cbn [vm_after] in R2;
      [|cbn [vm_after]; eapply star_raises; [exact R1|exact R2]].
    destruct R2 as [R2 N2].
    pose proof (run_binop c (pc + length (cexpr env e1) + length (cexpr env e2)) op a b
                          (t ++ vals (locals s2)) (wd s2) Hc3) as R3.
    rewrite !app_length. destruct (binop_sem (store (wd s2)) op a b) as [v|err]; cbn [vm_after].
    + split; [|congruence]. eapply star_trans; [exact R1|]. eapply star_trans; [exact R2|].
      eapply star_eq; [exact R3|]. f_equal. lia.
    + eapply star_raises; [exact R1|]. eapply star_raises; [exact R2|exact R3].
  - (* EAnd *)
    ok2 Hok Ok1 Ok2. cbn [cexpr eval_expr] in *. apply code_at_app in Hc. destruct Hc as [Hc1 Hc2].
    apply code_at_cons in Hc2. destruct Hc2 as [Hj Hc2]. apply code_at_cons in Hc2. destruct Hc2 as [Hp Hc2].
    pose proof (IHe1 c pc t s Ok1 Em Hc1) as R1.
    destruct (eval_expr e1 s) as [s1 [a|err]]; cbn [vm_after] in R1; [|exact R1].
    destruct R1 as [R1 N1]. rewrite app_length. cbn [length].
    destruct (truthy a) eqn:Ta.
    + pose proof (IHe2 c (S (S (pc + length (cexpr env e1)))) t s1 Ok2 (env_match_names _ _ _ Em N1) Hc2) as R2.
      assert (T : star c (mkVS pc (t ++ vals (locals s)) (wd s))
                    (mkVS (S (S (pc + length (cexpr env e1)))) (t ++ vals (locals s1)) (wd s1))).
      { eapply star_trans; [exact R1|].
        eapply star_step; [rewrite (step_at _ _ _ _ _ Hj); cbn [step_instr]; rewrite Ta; reflexivity|].
        apply star_one. rewrite (step_at _ _ _ _ _ Hp). reflexivity. }
      destruct (eval_expr e2 s1) as [s2 [b|err]]; cbn [vm_after] in *.
      * destruct R2 as [R2 N2]. split; [|congruence]. eapply star_trans; [exact T|].
        eapply star_eq; [exact R2|]. f_equal. lia.
      * eapply star_raises; [exact T|exact R2].
    + cbn [vm_after]. split; [|exact N1]. eapply star_trans; [exact R1|].
      apply star_one. rewrite (step_at _ _ _ _ _ Hj). cbn [step_instr]. rewrite Ta. f_equal. f_equal. lia.
  - (* EOr *)
    ok2 Hok Ok1 Ok2. cbn [cexpr eval_expr] in *. apply code_at_app in Hc. destruct Hc as [Hc1 Hc2].
    apply code_at_cons in Hc2. destruct Hc2 as [Hj Hc2]. apply code_at_cons in Hc2. destruct Hc2 as [Hj2 Hc2].
    apply code_at_cons in Hc2. destruct Hc2 as [Hp Hc2].
    pose proof (IHe1 c pc t s Ok1 Em Hc1) as R1.
    destruct (eval_expr e1 s) as [s1 [a|err]]; cbn [vm_after] in R1; [|exact R1].
    destruct R1 as [R1 N1]. rewrite app_length. cbn [length].
    destruct (truthy a) eqn:Ta.
    + cbn [vm_after]. split; [|exact N1]. eapply star_trans; [exact R1|].
      eapply star_step; [rewrite (step_at _ _ _ _ _ Hj); cbn [step_instr]; rewrite Ta; reflexivity|].
      apply star_one. rewrite (step_at _ _ _ _ _ Hj2). cbn [step_instr]. f_equal. f_equal. lia.
    + pose proof (IHe2 c (S (S (S (pc + length (cexpr env e1))))) t s1 Ok2 (env_match_names _ _ _ Em N1) Hc2) as R2.
      assert (T : star c (mkVS pc (t ++ vals (locals s)) (wd s))
                    (mkVS (S (S (S (pc + length (cexpr env e1))))) (t ++ vals (locals s1)) (wd s1))).
      { eapply star_trans; [exact R1|].
        eapply star_step; [rewrite (step_at _ _ _ _ _ Hj); cbn [step_instr]; rewrite Ta; reflexivity|].
        apply star_one. replace (S (pc + length (cexpr env e1)) + 1) with (S (S (pc + length (cexpr env e1)))) by lia.
        rewrite (step_at _ _ _ _ _ Hp). reflexivity. }
      destruct (eval_expr e2 s1) as [s2 [b|err]]; cbn [vm_after] in *.
      * destruct R2 as [R2 N2]. split; [|congruence]. eapply star_trans; [exact T|].
        eapply star_eq; [exact R2|]. f_equal. lia.
      * eapply star_raises; [exact T|exact R2].
  - (* ERange *)
    ok2 Hok Ok1 Ok2. cbn [cexpr eval_expr] in *. apply code_at_app in Hc. destruct Hc as [Hc1 Hc2].
    apply code_at_app in Hc2. destruct Hc2 as [Hc2 Hc3]. apply code_at_cons in Hc3. destruct Hc3 as [Hn _].
    pose proof (IHe1 c pc t s Ok1 Em Hc1) as R1.
    destruct (eval_expr e1 s) as [s1 [a|err]]; cbn [vm_after] in R1; [|exact R1].
    destruct R1 as [R1 N1].
    pose proof (IHe2 c (pc + length (cexpr env e1)) (a :: t) s1 Ok2 (env_match_names _ _ _ Em N1) Hc2) as R2.
    destruct (eval_expr e2 s1) as [s2 [b|err]]; cbn [vm_after] in R2;
      [|cbn [vm_after]; eapply star_raises; [exact R1|exact R2]].
    destruct R2 as [R2 N2]. rewrite !app_length. cbn [length].
    assert (St : step c (mkVS (pc + length (cexpr env e1) + length (cexpr env e2)) (b :: (a :: t) ++ vals (locals s2)) (wd s2))
                 = match range_sem (wd s2) a b with
                   | Ok v => next (pc + length (cexpr env e1) + length (cexpr env e2)) (v :: t ++ vals (locals s2)) (wd s2)
                   | Er x => SErr x (wd s2)
                   end).
    { rewrite (step_at _ _ _ _ _ Hn). reflexivity. }
    destruct (range_sem (wd s2) a b) as [v|err]; cbn [vm_after].
    + split; [|congruence]. eapply star_trans; [exact R1|]. eapply star_trans; [exact R2|].
      eapply star_eq; [apply star_one; exact St|]. f_equal. lia.
    + eapply star_raises; [exact R1|]. eapply star_raises; [exact R2|]. apply raises_here. exact St.
  - (* ECall *)
    ok2 Hok Ok12 Ok3. apply andb_true_iff in Ok12. destruct Ok12 as [Ok1 Ok2].
    cbn [cexpr eval_expr] in *. apply code_at_app in Hc. destruct Hc as [Hc1 Hc2].
    apply code_at_app in Hc2. destruct Hc2 as [Hc2 Hc3]. apply code_at_cons in Hc3. destruct Hc3 as [Hn _].
    pose proof (IHe c pc t s Ok1 Em Hc1) as R1.
    destruct (eval_expr e s) as [s1 [vf|err]]; cbn [vm_after] in R1; [|exact R1].
    destruct R1 as [R1 N1].
    pose proof (eval_list_correct env args H Ok2 c (pc + length (cexpr env e)) (vf :: t) s1
                                  (env_match_names _ _ _ Em N1) Hc2) as R2.
    destruct (eval_list eval_expr args s1) as [s2 [vs|err]]; cbn [list_after] in R2;
      [|cbn [vm_after]; eapply star_raises; [exact R1|exact R2]].
    destruct R2 as (R2 & N2 & L2). rewrite !app_length. cbn [length].
    set (pc2 := pc + length (cexpr env e) + length (flat_map (cexpr env) args)) in *.
    assert (St : step c (mkVS pc2 (rev vs ++ (vf :: t) ++ vals (locals s2)) (wd s2))
                 = match call_sem (wd s2) vf vs with
                   | Ok (v, w') => next pc2 (v :: t ++ vals (locals s2)) w'
                   | Er x => SErr x (wd s2)
                   end).
    { rewrite (step_at _ _ _ _ _ Hn). cbn [step_instr step_op8]. rewrite nlen_to_nat, <- L2.
      destruct (take_rev vs ((vf :: t) ++ vals (locals s2))) as (T1 & T2 & T3). rewrite T2, T3.
      destruct (length (rev vs ++ (vf :: t) ++ vals (locals s2)) <? S (length vs)) eqn:Lt;
        [apply Nat.ltb_lt in Lt; rewrite app_length, rev_length in Lt; cbn [app length] in Lt; lia|reflexivity]. }
    destruct (call_sem (wd s2) vf vs) as [[v w']|err]; cbn [vm_after set_wd locals wd].
    + split; [|congruence]. eapply star_trans; [exact R1|]. eapply star_trans; [exact R2|].
      eapply star_eq; [apply star_one; exact St|]. f_equal. unfold pc2. lia.
    + eapply star_raises; [exact R1|]. eapply star_raises; [exact R2|]. apply raises_here. exact St.
  - (* EIndex *)
    ok2 Hok Ok1 Ok2. cbn [cexpr eval_expr] in *. apply code_at_app in Hc. destruct Hc as [Hc1 Hc2].
    apply code_at_app in Hc2. destruct Hc2 as [Hc2 Hc3]. apply code_at_cons in Hc3. destruct Hc3 as [Hn _].
    pose proof (IHe1 c pc t s Ok1 Em Hc1) as R1.
    destruct (eval_expr e1 s) as [s1 [a|err]]; cbn [vm_after] in R1; [|exact R1].
    destruct R1 as [R1 N1].
    pose proof (IHe2 c (pc + length (cexpr env e1)) (a :: t) s1 Ok2 (env_match_names _ _ _ Em N1) Hc2) as R2.
    destruct (eval_expr e2 s1) as [s2 [b|err]]; cbn [vm_after] in R2;
      [|cbn [vm_after]; eapply star_raises; [exact R1|exact R2]].
    destruct R2 as [R2 N2]. rewrite !app_length. cbn [length].
    assert (St : step c (mkVS (pc + length (cexpr env e1) + length (cexpr env e2)) (b :: (a :: t) ++ vals (locals s2)) (wd s2))
                 = match get_item (wd s2) a b with
                   | Ok (v, w') => next (pc + length (cexpr env e1) + length (cexpr env e2)) (v :: t ++ vals (locals s2)) w'
                   | Er x => SErr x (wd s2)
                   end).
    { rewrite (step_at _ _ _ _ _ Hn). reflexivity. }
    destruct (get_item (wd s2) a b) as [[v w']|err]; cbn [vm_after set_wd locals wd].
    + split; [|congruence]. eapply star_trans; [exact R1|]. eapply star_trans; [exact R2|].
      eapply star_eq; [apply star_one; exact St|]. f_equal. lia.
    + eapply star_raises; [exact R1|]. eapply star_raises; [exact R2|]. apply raises_here. exact St.
  - (* ESetIndex *)
    ok2 Hok Ok12 Ok3. apply andb_true_iff in Ok12. destruct Ok12 as [Ok1 Ok2].
    cbn [cexpr eval_expr] in *. apply code_at_app in Hc. destruct Hc as [Hc1 Hc2].
    apply code_at_app in Hc2. destruct Hc2 as [Hc2 Hc3]. apply code_at_app in Hc3. destruct Hc3 as [Hc3 Hc4].
    apply code_at_cons in Hc4. destruct Hc4 as [Hn _].
    pose proof (IHe1 c pc t s Ok1 Em Hc1) as R1.
    destruct (eval_expr e1 s) as [s1 [a|err]]; cbn [vm_after] in R1; [|exact R1].
    destruct R1 as [R1 N1].
    pose proof (IHe2 c (pc + length (cexpr env e1)) (a :: t) s1 Ok2 (env_match_names _ _ _ Em N1) Hc2) as R2.
    destruct (eval_expr e2 s1) as [s2 [b|err]]; cbn [vm_after] in R2;
      [|cbn [vm_after]; eapply star_raises; [exact R1|exact R2]].
    destruct R2 as [R2 N2].
    assert (Em2 : env_match env (locals s2)) by (eapply env_match_names; [exact Em|congruence]).
    pose proof (IHe3 c (pc + length (cexpr env e1) + length (cexpr env e2)) (b :: a :: t) s2 Ok3 Em2 Hc3) as R3.
    destruct (eval_expr e3 s2) as [s3 [v3|err]]; cbn [vm_after] in R3;
      [|cbn [vm_after]; eapply star_raises; [exact R1|]; eapply star_raises; [exact R2|exact R3]].
    destruct R3 as [R3 N3]. rewrite !app_length. cbn [length].
    set (pc3 := pc + length (cexpr env e1) + length (cexpr env e2) + length (cexpr env e3)) in *.
    assert (St : step c (mkVS pc3 (v3 :: (b :: a :: t) ++ vals (locals s3)) (wd s3))
                 = match set_item (wd s3) a b v3 with
                   | Ok (v, w') => next pc3 (v :: t ++ vals (locals s3)) w'
                   | Er x => SErr x (wd s3)
                   end).
    { rewrite (step_at _ _ _ _ _ Hn). reflexivity. }
    destruct (set_item (wd s3) a b v3) as [[v w']|err]; cbn [vm_after set_wd locals wd].
    + split; [|congruence]. eapply star_trans; [exact R1|]. eapply star_trans; [exact R2|].
      eapply star_trans; [exact R3|]. eapply star_eq; [apply star_one; exact St|]. f_equal. unfold pc3. lia.
    + eapply star_raises; [exact R1|]. eapply star_raises; [exact R2|]. eapply star_raises; [exact R3|].
      apply raises_here. exact St.
  - (* ETuple *)
    ok2 Hok Ok1 Ok2. cbn [cexpr eval_expr] in *. apply code_at_app in Hc. destruct Hc as [Hc1 Hc2].
    apply code_at_cons in Hc2. destruct Hc2 as [Hn _].
    pose proof (eval_list_correct env es H Ok1 c pc t s Em Hc1) as R.
    destruct (eval_list eval_expr es s) as [s1 [vs|err]]; cbn [list_after] in R; [|exact R].
    destruct R as (R & N & L). unfold alloc_tuple. cbn [vm_after set_wd locals wd]. split; [|exact N].
    eapply star_trans; [exact R|]. rewrite app_length. cbn [length].
    replace (pc + (length (flat_map (cexpr env) es) + 1)) with (S (pc + length (flat_map (cexpr env) es))) by lia.
    apply star_one. rewrite (step_at _ _ _ _ _ Hn). cbn [step_instr step_op8]. rewrite nlen_to_nat, <- L.
    destruct (take_rev vs (t ++ vals (locals s1))) as (T1 & T2 & T3). rewrite T1, T2, T3. reflexivity.
  - (* EVec *)
    ok2 Hok Ok1 Ok2. cbn [cexpr eval_expr] in *. apply code_at_app in Hc. destruct Hc as [Hc1 Hc2].
    apply code_at_cons in Hc2. destruct Hc2 as [Hn _].
    pose proof (eval_list_correct env es H Ok1 c pc t s Em Hc1) as R.
    destruct (eval_list eval_expr es s) as [s1 [vs|err]]; cbn [list_after] in R; [|exact R].
    destruct R as (R & N & L). unfold alloc_vec. cbn [vm_after set_wd locals wd]. split; [|exact N].
    eapply star_trans; [exact R|]. rewrite app_length. cbn [length].
    replace (pc + (length (flat_map (cexpr env) es) + 1)) with (S (pc + length (flat_map (cexpr env) es))) by lia.
    apply star_one. rewrite (step_at _ _ _ _ _ Hn). cbn [step_instr step_op8]. rewrite nlen_to_nat, <- L.
    destruct (take_rev vs (t ++ vals (locals s1))) as (T1 & T2 & T3). rewrite T1, T2, T3. reflexivity.
  - (* outside the fragment *)
    destruct e; try discriminate H; discriminate Hok.
Qed.

(* Every expression of the fragment: if the reference evaluator gives value v (resp. error x),
   the machine running [cexpr env e] - placed anywhere in a code c - from a stack  t ++ locals
   ends right after that code with  v :: t ++ locals'  (resp. stops with x), same globals,
   vector store, tuple counter and output. *)
Theorem compile_expr_correct : forall env e c pc t s,
  expr_ok env e = true -> env_match env (locals s) -> code_at c pc (cexpr env e) ->
  match eval_expr e s with
  | (s', Ok v) =>
    star c (mkVS pc (t ++ vals (locals s)) (wd s))
           (mkVS (pc + length (cexpr env e)) (v :: t ++ vals (locals s')) (wd s')) /\
    names (locals s') = names (locals s)
  | (s', Er x) => raises c (mkVS pc (t ++ vals (locals s)) (wd s)) x (wd s')
  end.
Proof. intros env e c pc t s. apply compile_expr_all. Qed.
Print Assumptions compile_expr_correct.

Lemma raises_run : forall c s e w, raises c s e w -> exists k, run_vm k c s = VErr e w.
Proof.
  intros c s e w (s' & St & Er). destruct (star_run c s s' St 1 (VErr e w)) as (k & R).
  - cbn [run_vm]. rewrite Er. reflexivity.
  - exists (k + 1). exact R.
Qed.

(* the same, for [run_vm] on the expression's code alone *)
Corollary compile_expr_run : forall env e t s,
  expr_ok env e = true -> env_match env (locals s) ->
  match eval_expr e s with
  | (s', Ok v) =>
    exists k, run_vm k (cexpr env e) (mkVS 0 (t ++ vals (locals s)) (wd s))
              = VDone (mkVS (length (cexpr env e)) (v :: t ++ vals (locals s')) (wd s'))
  | (s', Er x) =>
    exists k, run_vm k (cexpr env e) (mkVS 0 (t ++ vals (locals s)) (wd s)) = VErr x (wd s')
  end.
Proof.
  intros env e t s Hok Em.
  assert (Hc : code_at (cexpr env e) 0 (cexpr env e)).
  { exists [], []. rewrite app_nil_r. auto. }
  pose proof (compile_expr_correct env e _ 0 t s Hok Em Hc) as R.
  destruct (eval_expr e s) as [s' [v|x]].
  - destruct R as [R _]. cbn [Nat.add] in R.
    destruct (star_run _ _ _ R 1 (VDone (mkVS (length (cexpr env e)) (v :: t ++ vals (locals s')) (wd s')))) as (k & E).
    + assert (N : nth_error (cexpr env e) (length (cexpr env e)) = None) by (apply nth_error_None; lia).
      cbn [run_vm]. unfold step. cbn [vpc vstack vwd]. rewrite N. reflexivity.
    + exists (k + 1). exact E.
  - apply raises_run. exact R.
Qed.

(* hypotheses satisfiable: a short-circuit, an assignment to a local, an index, a failing add *)
Example compile_expr_correct_ex :
  let env := add_local cenv0 (B "x") in
  let s := mkSt ((B "x", VNum f64_one) :: lenv0) world0 in
  let e := EOr (EAnd (EVar (B "x")) ENil)
               (EBinary BAdd (EAssign (B "x") (EIndex (EVec [EStr (B "a")]) (ENum f64_zero))) (ENum f64_one)) in
  expr_ok env e = true /\ env_match env (locals s) /\
  snd (eval_expr e s) = Er (TypeError msg_add) /\
  run_vm 100 (cexpr env e) (mkVS 0 (vals (locals s)) (wd s))
  = VErr (TypeError msg_add) (wd (fst (eval_expr e s))).
Proof. repeat split; vm_compute; reflexivity. Qed.
(* ================================================================== *)
(* 6. compile_stmt_correct                                             *)

Definition exec_block (f depth : nat) (b : list stmt) (s : st) : st * outcome :=
  let n := length (locals s) in
  let (s1, o) := exec_stmts f (S depth) b s in (leave_scope n s1, o).

Lemma exec_stmt_block : forall f d l b s, exec_stmt (S f) d (SBlock l b) s = exec_block f d b s.
Proof.
  intros. cbn [exec_stmt]. unfold exec_block.
  match goal with |- (let (_, _) := ?g _ _ _ in _) = _ =>
    assert (E : forall l d s, g d l s = exec_stmts f d l s) end.
  { clear. induction l as [|x r IH]; intros d s; [reflexivity|].
    cbn [exec_stmts]. destruct (exec_stmt f d x s) as [s1 o]. destruct o; try reflexivity. apply IH. }
  rewrite E. reflexivity.
Qed.

Lemma exec_stmt_if : forall f d l c t e s,
  exec_stmt (S f) d (SIf l c t e) s =
  match eval_expr c s with
  | (s1, Ok v) =>
    if truthy v then exec_block f d t s1
    else match e with Some s' => exec_stmt f d s' s1 | None => (s1, ONormal) end
  | (s1, Er x) => (s1, OErr x)
  end.
Proof.
  intros. destruct (eval_expr c s) as [s1 [v|x]] eqn:E.
  - destruct (truthy v) eqn:T.
    + rewrite <- exec_stmt_block with (l := l). cbn [exec_stmt]. rewrite E, T. reflexivity.
    + cbn [exec_stmt]. rewrite E, T. reflexivity.
  - cbn [exec_stmt]. rewrite E. reflexivity.
Qed.

Lemma exec_stmt_while : forall f d l c b s,
  exec_stmt (S f) d (SWhile l c b) s =
  match eval_expr c s with
  | (s1, Ok v) =>
    if truthy v then
      match exec_block f d b s1 with
      | (s2, ONormal) | (s2, OContinue) => exec_stmt f d (SWhile l c b) s2
      | (s2, OBreak) => (s2, ONormal)
      | (s2, o) => (s2, o)
      end
    else (s1, ONormal)
  | (s1, Er x) => (s1, OErr x)
  end.
Proof.
  intros. destruct (eval_expr c s) as [s1 [v|x]] eqn:E.
  - destruct (truthy v) eqn:T.
    + rewrite <- exec_stmt_block with (l := l). cbn [exec_stmt]. rewrite E, T. reflexivity.
    + cbn [exec_stmt]. rewrite E, T. reflexivity.
  - cbn [exec_stmt]. rewrite E. reflexivity.
Qed.

(* ---- locals only grow at the front ---- *)
Definition grows (l l' : lenv) : Prop := exists front, names l' = front ++ names l.

Lemma grows_refl : forall l l', names l' = names l -> grows l l'.
Proof. intros l l' H. exists []. exact H. Qed.

Lemma grows_trans : forall a b c, grows a b -> grows b c -> grows a c.
Proof. intros a b c (f1 & H1) (f2 & H2). exists (f2 ++ f1). rewrite H2, H1, app_assoc. reflexivity. Qed.

Lemma names_length : forall l, length (names l) = length l.
Proof. intro l. unfold names. apply map_length. Qed.

Lemma grows_length : forall l l', grows l l' -> length l <= length l'.
Proof.
  intros l l' (f & H). apply (f_equal (@length _)) in H. rewrite app_length, !names_length in H. lia.
Qed.

Lemma names_keep_last : forall n l, names (keep_last n l) = skipn (length l - n) (names l).
Proof. intros. unfold keep_last, names. rewrite skipn_map. reflexivity. Qed.

Lemma vals_keep_last : forall n l, vals (keep_last n l) = skipn (length l - n) (vals l).
Proof. intros. unfold keep_last, vals. rewrite skipn_map. reflexivity. Qed.

Lemma grows_keep : forall l l', grows l l' -> names (keep_last (length l) l') = names l.
Proof.
  intros l l' (f & H). rewrite names_keep_last, H.
  assert (L : length l' = length f + length l).
  { apply (f_equal (@length _)) in H. rewrite app_length, !names_length in H. exact H. }
  replace (length l' - length l) with (length f) by lia. apply skipn_len_app.
Qed.

Lemma skipn_skipn' : forall A a b (l : list A), skipn a (skipn b l) = skipn (b + a) l.
Proof.
  intros A a b. induction b as [|b IH]; intros l; [reflexivity|].
  destruct l as [|x l]; [cbn; apply skipn_nil|]. cbn [skipn Nat.add]. apply IH.
Qed.

Lemma keep_last_keep_last : forall A a b (l : list A),
  a <= b -> b <= length l -> keep_last a (keep_last b l) = keep_last a l.
Proof.
  intros A a b l H1 H2. unfold keep_last. rewrite skipn_length, skipn_skipn'. f_equal. lia.
Qed.

Lemma keep_last_all : forall A (l : list A), keep_last (length l) l = l.
Proof. intros. unfold keep_last. rewrite Nat.sub_diag. reflexivity. Qed.

Lemma env_match_length : forall env l, env_match env l -> length (clocals env) = length l.
Proof.
  intros env l H. unfold env_match in H. apply (f_equal (@length _)) in H.
  rewrite map_length, names_length in H. exact H.
Qed.

Lemma run_pops : forall c k pc stk w,
  code_at c pc (pops k) -> k <= length stk ->
  star c (mkVS pc stk w) (mkVS (pc + k) (skipn k stk) w).
Proof.
  intros c k. induction k as [|k IH]; intros pc stk w Hc Le.
  - rewrite Nat.add_0_r. apply star_refl.
  - change (pops (S k)) with (IOp OpPop :: pops k) in Hc. apply code_at_cons in Hc. destruct Hc as [Hn Hc].
    destruct stk as [|v stk]; [cbn in Le; lia|].
    eapply star_step; [rewrite (step_at _ _ _ _ _ Hn); reflexivity|].
    replace (pc + S k) with (S pc + k) by lia. cbn [skipn]. apply IH; [exact Hc|cbn in Le; lia].
Qed.

Lemma envs_after_cons : forall env x r, envs_after env (x :: r) = envs_after (env_after env x) r.
Proof. reflexivity. Qed.

Lemma env_after_keeps : forall env x,
  cloop (env_after env x) = cloop env /\ cdepth (env_after env x) = cdepth env.
Proof.
  intros env x. destruct x; try (split; reflexivity). cbn [env_after].
  destruct (cdepth env) eqn:D; [split; [reflexivity|exact D]|split; [reflexivity|cbn; exact D]].
Qed.

(* ---- what the machine does for each outcome of a statement ---- *)
Definition outcome_ok (c : code) (pc : nat) (s s' : st) (o : outcome)
           (env : cenv) (len brk cont : nat) (env' : cenv) : Prop :=
  let start := mkVS pc (vals (locals s)) (wd s) in
  match o with
  | ONormal =>
    star c start (mkVS (pc + len) (vals (locals s')) (wd s')) /\
    env_match env' (locals s') /\ grows (locals s) (locals s')
  | OBreak =>
    exists d nl, cloop env = Some (d, nl) /\
      star c start (mkVS (pc + len + brk) (vals (keep_last nl (locals s'))) (wd s')) /\
      grows (locals s) (locals s')
  | OContinue =>
    exists d nl, cloop env = Some (d, nl) /\
      star c start (mkVS (pc - cont) (vals (keep_last nl (locals s'))) (wd s')) /\
      grows (locals s) (locals s')
  | OErr e => raises c start e (wd s')
  | OFuel => True
  end.

Definition stmt_correct (f : nat) : Prop :=
  forall stm depth s s' o env brk cont c pc,
    exec_stmt f depth stm s = (s', o) -> stmt_ok env stm = true -> env_inv env ->
    cdepth env = depth -> env_match env (locals s) ->
    code_at c pc (cstmt true env brk cont stm) ->
    (forall d nl, cloop env = Some (d, nl) -> cont <= pc) ->
    outcome_ok c pc s s' o env (slen env stm) brk cont (env_after env stm).

Definition stmts_correct (f : nat) : Prop :=
  forall b depth s s' o env brk cont c pc,
    exec_stmts f depth b s = (s', o) -> stmts_ok env b = true -> env_inv env ->
    cdepth env = depth -> env_match env (locals s) ->
    code_at c pc (cstmts true env brk cont b) ->
    (forall d nl, cloop env = Some (d, nl) -> cont <= pc) ->
    outcome_ok c pc s s' o env (slens env b) brk cont (envs_after env b).

Definition block_correct (f : nat) : Prop :=
  forall b depth s s' o env brk cont c pc,
    exec_block f depth b s = (s', o) -> stmts_ok (begin_scope env) b = true ->
    env_inv (begin_scope env) -> cdepth env = depth -> env_match env (locals s) ->
    code_at c pc (cblock true env brk cont b) ->
    (forall d nl, cloop env = Some (d, nl) -> cont <= pc) ->
    outcome_ok c pc s s' o env (blen env b) brk cont env.

Lemma stmts_from_stmt : forall f, stmt_correct f -> stmts_correct f.
Proof.
  intros f HS b. induction b as [|x r IH];
    intros depth s s' o env brk cont c pc Ex Ok Inv Dp Em Hc Hcont.
  - cbn [exec_stmts] in Ex. inversion Ex; subst s' o. cbn [outcome_ok slens]. rewrite Nat.add_0_r.
    repeat split; [apply star_refl|exact Em|apply grows_refl; reflexivity].
  - cbn [stmts_ok] in Ok. apply andb_true_iff in Ok. destruct Ok as [Ok1 Ok2].
    cbn [cstmts] in Hc. apply code_at_app in Hc. destruct Hc as [Hc1 Hc2].
    rewrite (cstmt_length x) in Hc2. cbn [exec_stmts] in Ex.
    destruct (exec_stmt f depth x s) as [s1 o1] eqn:E1.
    pose proof (HS x depth s s1 o1 env _ cont c pc E1 Ok1 Inv Dp Em Hc1 Hcont) as R1.
    destruct (env_after_keeps env x) as [KL KD].
    destruct o1; try (inversion Ex; subst s' o); cbn [outcome_ok slens] in *.
    + (* Normal: continue with the rest *)
      destruct R1 as (R1 & Em1 & G1).
      assert (Hcont' : forall d nl, cloop (env_after env x) = Some (d, nl) -> cont + slen env x <= pc + slen env x).
      { intros d nl Hl. rewrite KL in Hl. specialize (Hcont d nl Hl). lia. }
      pose proof (IH depth s1 s' o (env_after env x) brk (cont + slen env x) c (pc + slen env x)
                     Ex Ok2 (env_inv_after _ _ Inv) (eq_trans KD Dp) Em1 Hc2 Hcont') as R2.
      rewrite envs_after_cons.
      destruct o; cbn [outcome_ok] in *.
      * destruct R2 as (R2 & Em2 & G2). repeat split.
        -- eapply star_trans; [exact R1|]. eapply star_eq; [exact R2|]. f_equal. lia.
        -- exact Em2.
        -- eapply grows_trans; eassumption.
      * destruct R2 as (d & nl & CL & R2 & G2). exists d, nl. rewrite <- KL. repeat split; [exact CL| |].
        -- eapply star_trans; [exact R1|]. eapply star_eq; [exact R2|]. f_equal. lia.
        -- eapply grows_trans; eassumption.
      * destruct R2 as (d & nl & CL & R2 & G2). exists d, nl. rewrite <- KL. repeat split; [exact CL| |].
        -- eapply star_trans; [exact R1|]. eapply star_eq; [exact R2|]. f_equal. lia.
        -- eapply grows_trans; eassumption.
      * eapply star_raises; [exact R1|exact R2].
      * exact I.
    + destruct R1 as (d & nl & CL & R1 & G1). exists d, nl. repeat split; [exact CL| |exact G1].
      eapply star_eq; [exact R1|]. f_equal. lia.
    + exact R1.
    + exact R1.
    + exact I.
Qed.

Lemma block_from_stmts : forall f, stmts_correct f -> block_correct f.
Proof.
  intros f HL b depth s s' o env brk cont c pc Ex Ok Inv Dp Em Hc Hcont.
  unfold exec_block in Ex. destruct (exec_stmts f (S depth) b s) as [s1 o1] eqn:E1.
  inversion Ex; subst s' o. clear Ex.
  unfold cblock in Hc. apply code_at_app in Hc. destruct Hc as [Hc1 Hc2]. rewrite cstmts_len in Hc2.
  assert (Dp' : cdepth (begin_scope env) = S depth) by (cbn; congruence).
  pose proof (HL b (S depth) s s1 o1 (begin_scope env) _ cont c pc E1 Ok Inv Dp' Em Hc1 Hcont) as R1.
  destruct (envs_after_locals b (begin_scope env)) as (A & B & C); [cbn; congruence|].
  cbn [begin_scope clocals cloop] in A, B.
  pose proof (env_match_length _ _ Em) as LEm.
  destruct o1; cbn [outcome_ok leave_scope locals wd] in *.
  - destruct R1 as (R1 & Em1 & G1). pose proof (env_match_length _ _ Em1) as L1. rewrite A in L1.
    repeat split.
    + eapply star_trans; [exact R1|]. unfold blen. rewrite vals_keep_last.
      replace (length (locals s1) - length (locals s)) with (count_decls b) by lia.
      eapply star_eq; [apply run_pops; [exact Hc2|unfold vals; rewrite map_length; lia]|]. f_equal. lia.
    + unfold env_match. rewrite (grows_keep _ _ G1). exact Em.
    + apply grows_refl. apply grows_keep. exact G1.
  - destruct R1 as (d & nl & CL & R1 & G1). exists d, nl. cbn [begin_scope cloop] in CL.
    destruct Inv as [_ I2]. cbn [begin_scope cloop clocals cdepth] in I2. rewrite CL in I2. destruct I2 as [_ I2].
    pose proof (grows_length _ _ G1) as GL.
    repeat split; [exact CL| |apply grows_refl; apply grows_keep; exact G1].
    rewrite keep_last_keep_last by lia.
    eapply star_eq; [exact R1|]. f_equal. unfold blen. lia.
  - destruct R1 as (d & nl & CL & R1 & G1). exists d, nl. cbn [begin_scope cloop] in CL.
    destruct Inv as [_ I2]. cbn [begin_scope cloop clocals cdepth] in I2. rewrite CL in I2. destruct I2 as [_ I2].
    pose proof (grows_length _ _ G1) as GL.
    repeat split; [exact CL| |apply grows_refl; apply grows_keep; exact G1].
    rewrite keep_last_keep_last by lia. exact R1.
  - exact R1.
  - exact I.
Qed.

Lemma SNext_eq : forall pc pc' stk w, pc = pc' -> SNext (mkVS pc stk w) = SNext (mkVS pc' stk w).
Proof. intros; subst; reflexivity. Qed.

Lemma block_result_names : forall f d b s1 s2 o,
  exec_block f d b s1 = (s2, o) -> grows (locals s1) (locals s2) ->
  names (locals s2) = names (locals s1) /\ length (locals s2) = length (locals s1).
Proof.
  intros f d b s1 s2 o E G. pose proof (grows_length _ _ G) as GL.
  assert (LE : length (locals s2) <= length (locals s1)).
  { unfold exec_block in E. destruct (exec_stmts f (S d) b s1) as [s2' o']. inversion E; subst s2 o'.
    cbn [leave_scope locals]. unfold keep_last. rewrite skipn_length. lia. }
  destruct G as (fr & HG).
  assert (L : length (names (locals s2)) = length fr + length (names (locals s1))) by (rewrite HG, app_length; reflexivity).
  rewrite !names_length in L. destruct fr; [|cbn [length] in L; lia]. split; [exact HG|lia].
Qed.

Lemma loop_counts : forall env l d nl,
  env_inv env -> env_match env l -> cloop env = Some (d, nl) ->
  count_above d (clocals env) + nl = length l.
Proof.
  intros env l d nl [_ I2] Em CL. rewrite CL in I2. destruct I2 as [_ I2].
  rewrite <- (env_match_length _ _ Em). exact I2.
Qed.

Lemma stmt_correct_all : forall f, stmt_correct f.
Proof.
  induction f as [|f IHf].
  { intros stm depth s s' o env brk cont c pc Ex. cbn [exec_stmt] in Ex. inversion Ex. exact (fun _ _ _ _ _ _ => I). }
  pose proof (stmts_from_stmt f IHf) as IHl. pose proof (block_from_stmts f IHl) as IHb.
  intros stm depth s s' o env brk cont c pc Ex Hok Inv Dp Em Hc Hcont.
  destruct stm; try discriminate Hok.
  - (* SExpr *)
    cbn [stmt_ok] in Hok. cbn [cstmt] in Hc. apply code_at_app in Hc. destruct Hc as [Hc1 Hc2].
    apply code_at_cons in Hc2. destruct Hc2 as [Hn _].
    pose proof (compile_expr_correct env e c pc [] s Hok Em Hc1) as R. cbn [exec_stmt] in Ex.
    destruct (eval_expr e s) as [s1 [v|x]]; inversion Ex; subst s' o; cbn [outcome_ok slen env_after app] in *.
    + destruct R as [R N]. repeat split.
      * eapply star_trans; [exact R|]. replace (pc + S (length (cexpr env e))) with (S (pc + length (cexpr env e))) by lia.
        apply star_one. rewrite (step_at _ _ _ _ _ Hn). reflexivity.
      * eapply env_match_names; eassumption.
      * apply grows_refl. exact N.
    + exact R.
  - (* SVar *)
    cbn [stmt_ok] in Hok. cbn [cstmt slen env_after] in *. cbn [exec_stmt] in Ex.
    destruct depth as [|depth']; rewrite Dp in *.
    + (* global *)
      apply code_at_cons in Hc. destruct Hc as [Hn0 Hc]. apply code_at_app in Hc. destruct Hc as [Hc1 Hc2].
      apply code_at_cons in Hc2. destruct Hc2 as [Hn _].
      assert (T0 : star c (mkVS pc (vals (locals s)) (wd s)) (mkVS (S pc) (vals (locals s)) (wd s))).
      { apply star_one. rewrite (step_at _ _ _ _ _ Hn0). reflexivity. }
      assert (R : match (match init with Some e => eval_expr e s | None => (s, Ok VNil) end) with
                  | (s1, Ok v) =>
                    star c (mkVS (S pc) (vals (locals s)) (wd s))
                         (mkVS (S pc + length (match init with Some e => cexpr env e | None => [IOp OpNil] end))
                               (v :: vals (locals s1)) (wd s1)) /\ names (locals s1) = names (locals s)
                  | (s1, Er x) => raises c (mkVS (S pc) (vals (locals s)) (wd s)) x (wd s1)
                  end).
      { destruct init as [e|].
        - exact (compile_expr_correct env e c (S pc) [] s Hok Em Hc1).
        - apply code_at_cons in Hc1. destruct Hc1 as [Hn1 _]. split; [|reflexivity].
          cbn [length]. replace (S pc + 1) with (S (S pc)) by lia.
          apply star_one. rewrite (step_at _ _ _ _ _ Hn1). reflexivity. }
      destruct (match init with Some e => eval_expr e s | None => (s, Ok VNil) end) as [s1 [v|err]];
        inversion Ex; subst s' o; cbn [outcome_ok locals wd].
      * destruct R as [R N]. repeat split.
        -- eapply star_trans; [exact T0|]. eapply star_trans; [exact R|].
           eapply star_eq; [apply star_one; rewrite (step_at _ _ _ _ _ Hn); reflexivity|].
           unfold next. f_equal. destruct init; cbn [length]; lia.
        -- eapply env_match_names; eassumption.
        -- apply grows_refl. exact N.
      * eapply star_raises; [exact T0|exact R].
    + (* local *)
      apply andb_true_iff in Hok. destruct Hok as [_ Hok].
      assert (R : match (match init with Some e => eval_expr e s | None => (s, Ok VNil) end) with
                  | (s1, Ok v) =>
                    star c (mkVS pc (vals (locals s)) (wd s))
                         (mkVS (pc + length (match init with Some e => cexpr (with_pending env x) e | None => [IOp OpNil] end))
                               (v :: vals (locals s1)) (wd s1)) /\ names (locals s1) = names (locals s)
                  | (s1, Er x) => raises c (mkVS pc (vals (locals s)) (wd s)) x (wd s1)
                  end).
      { destruct init as [e|].
        - exact (compile_expr_correct (with_pending env x) e c pc [] s Hok Em Hc).
        - apply code_at_cons in Hc. destruct Hc as [Hn1 _]. split; [|reflexivity].
          eapply run_push; [exact Hn1|reflexivity]. }
      destruct (match init with Some e => eval_expr e s | None => (s, Ok VNil) end) as [s1 [v|err]];
        inversion Ex; subst s' o; cbn [outcome_ok locals wd].
      * destruct R as [R N]. repeat split.
        -- eapply star_eq; [exact R|]. f_equal. destruct init; reflexivity.
        -- unfold env_match in *. cbn [add_local clocals map fst names]. unfold names in *. cbn [map fst].
           f_equal. congruence.
        -- exists [x]. unfold names in *. cbn [map fst app]. f_equal. exact N.
      * exact R.
  - (* SBlock *)
    rewrite stmt_ok_block in Hok. rewrite cstmt_block in Hc. rewrite exec_stmt_block in Ex. rewrite slen_block.
    cbn [env_after]. exact (IHb b depth s s' o env brk cont c pc Ex Hok (env_inv_begin _ Inv) Dp Em Hc Hcont).
  - (* SIf *)
    rewrite stmt_ok_if in Hok. apply andb_true_iff in Hok. destruct Hok as [Ok12 Ok3].
    apply andb_true_iff in Ok12. destruct Ok12 as [Ok1 Ok2].
    rewrite cstmt_if in Hc. rewrite exec_stmt_if in Ex. rewrite slen_if. cbn [env_after].
    set (cc := cexpr env c0) in *. set (tl := blen env t) in *.
    set (el := match e with Some s'0 => slen env s'0 | None => 0 end) in *.
    apply code_at_app in Hc. destruct Hc as [Hcc Hc]. apply code_at_cons in Hc. destruct Hc as [Hj Hc].
    apply code_at_cons in Hc. destruct Hc as [Hp Hc]. apply code_at_app in Hc. destruct Hc as [Hct Hc].
    rewrite cblock_len in Hc. fold tl in Hc.
    apply code_at_cons in Hc. destruct Hc as [Hj2 Hc]. apply code_at_cons in Hc. destruct Hc as [Hp2 Hce].
    pose proof (compile_expr_correct env c0 c pc [] s Ok1 Em Hcc) as R1. fold cc in R1. cbn [app] in R1.
    destruct (eval_expr c0 s) as [s1 [v|x]]; [|inversion Ex; subst s' o; exact R1].
    destruct R1 as [R1 N1]. pose proof (env_match_names _ _ _ Em N1) as Em1.
    pose proof (grows_refl _ _ N1) as G1.
    destruct (truthy v) eqn:Tv.
    + (* then branch *)
      assert (T : star c (mkVS pc (vals (locals s)) (wd s)) (mkVS (S (S (pc + length cc))) (vals (locals s1)) (wd s1))).
      { eapply star_trans; [exact R1|].
        eapply star_step; [rewrite (step_at _ _ _ _ _ Hj); cbn [step_instr]; rewrite Tv; reflexivity|].
        apply star_one. rewrite (step_at _ _ _ _ _ Hp). reflexivity. }
      assert (Hcont' : forall d nl, cloop env = Some (d, nl) -> cont + length cc + 2 <= S (S (pc + length cc))).
      { intros d nl CL. specialize (Hcont d nl CL). lia. }
      pose proof (IHb t depth s1 s' o env _ _ c _ Ex Ok2 (env_inv_begin _ Inv) Dp Em1 Hct Hcont') as R2.
      fold tl in R2. destruct o; cbn [outcome_ok] in *.
      * destruct R2 as (R2 & Em2 & G2). repeat split; [|exact Em2|eapply grows_trans; eassumption].
        eapply star_trans; [exact T|]. eapply star_trans; [exact R2|].
        apply star_one. rewrite (step_at _ _ _ _ _ Hj2). cbn [step_instr]. apply SNext_eq; lia.
      * destruct R2 as (d & nl & CL & R2 & G2). exists d, nl. repeat split; [exact CL| |eapply grows_trans; eassumption].
        eapply star_trans; [exact T|]. eapply star_eq; [exact R2|]. f_equal. lia.
      * destruct R2 as (d & nl & CL & R2 & G2). exists d, nl. repeat split; [exact CL| |eapply grows_trans; eassumption].
        eapply star_trans; [exact T|]. eapply star_eq; [exact R2|]. f_equal. specialize (Hcont d nl CL). lia.
      * eapply star_raises; [exact T|exact R2].
      * exact I.
    + (* else branch *)
      assert (T : star c (mkVS pc (vals (locals s)) (wd s))
                    (mkVS (S (S (S (S (pc + length cc + tl))))) (vals (locals s1)) (wd s1))).
      { eapply star_trans; [exact R1|].
        eapply star_step; [rewrite (step_at _ _ _ _ _ Hj); cbn [step_instr]; rewrite Tv; reflexivity|].
        apply star_one.
        replace (S (pc + length cc) + (tl + 2)) with (S (S (S (pc + length cc)) + tl)) by lia.
        rewrite (step_at _ _ _ _ _ Hp2). unfold step_instr, step_op, next. apply SNext_eq; lia. }
      destruct e as [s2|].
      * assert (Ok3' : stmt_ok env s2 = true) by (destruct s2; try discriminate Ok3; exact Ok3).
        assert (EA : env_after env s2 = env) by (destruct s2; try discriminate Ok3; reflexivity).
        assert (Hcont' : forall d nl, cloop env = Some (d, nl) ->
                  cont + length cc + 2 + tl + 2 <= S (S (S (S (pc + length cc)) + tl))).
        { intros d nl CL. specialize (Hcont d nl CL). lia. }
        pose proof (IHf s2 depth s1 s' o env brk _ c _ Ex Ok3' Inv Dp Em1 Hce Hcont') as R2.
        rewrite EA in R2. fold el in R2. destruct o; cbn [outcome_ok] in *.
        -- destruct R2 as (R2 & Em2 & G2). repeat split; [|exact Em2|eapply grows_trans; eassumption].
           eapply star_trans; [exact T|]. eapply star_eq; [exact R2|]. f_equal. lia.
        -- destruct R2 as (d & nl & CL & R2 & G2). exists d, nl. repeat split; [exact CL| |eapply grows_trans; eassumption].
           eapply star_trans; [exact T|]. eapply star_eq; [exact R2|]. f_equal. lia.
        -- destruct R2 as (d & nl & CL & R2 & G2). exists d, nl. repeat split; [exact CL| |eapply grows_trans; eassumption].
           eapply star_trans; [exact T|]. eapply star_eq; [exact R2|]. f_equal. specialize (Hcont d nl CL). lia.
        -- eapply star_raises; [exact T|exact R2].
        -- exact I.
      * inversion Ex; subst s' o. cbn [outcome_ok]. repeat split; [|exact Em1|exact G1].
        eapply star_eq; [exact T|]. f_equal. unfold el. lia.
  - (* SWhile *)
    pose proof Hok as OkW.
    rewrite stmt_ok_while in Hok. apply andb_true_iff in Hok. destruct Hok as [Ok1 Ok2].
    pose proof Hc as HcW.
    rewrite cstmt_while in Hc. rewrite exec_stmt_while in Ex. rewrite slen_while. cbn [env_after].
    set (cc := cexpr env c0) in *. set (bl := blen (push_loop env) b) in *.
    apply code_at_app in Hc. destruct Hc as [Hcc Hc]. apply code_at_cons in Hc. destruct Hc as [Hj Hc].
    apply code_at_cons in Hc. destruct Hc as [Hp Hc]. apply code_at_app in Hc. destruct Hc as [Hcb Hc].
    rewrite cblock_len in Hc. fold bl in Hc.
    apply code_at_cons in Hc. destruct Hc as [Hl Hc]. apply code_at_cons in Hc. destruct Hc as [Hp2 _].
    pose proof (compile_expr_correct env c0 c pc [] s Ok1 Em Hcc) as R1. fold cc in R1. cbn [app] in R1.
    destruct (eval_expr c0 s) as [s1 [v|x]]; [|inversion Ex; subst s' o; exact R1].
    destruct R1 as [R1 N1]. pose proof (env_match_names _ _ _ Em N1) as Em1.
    pose proof (grows_refl _ _ N1) as G1.
    destruct (truthy v) eqn:Tv.
    + assert (T : star c (mkVS pc (vals (locals s)) (wd s)) (mkVS (S (S (pc + length cc))) (vals (locals s1)) (wd s1))).
      { eapply star_trans; [exact R1|].
        eapply star_step; [rewrite (step_at _ _ _ _ _ Hj); cbn [step_instr]; rewrite Tv; reflexivity|].
        apply star_one. rewrite (step_at _ _ _ _ _ Hp). reflexivity. }
      destruct (exec_block f depth b s1) as [s2 o2] eqn:E2.
      assert (Hcont' : forall d nl, cloop (push_loop env) = Some (d, nl) -> length cc + 2 <= S (S (pc + length cc))).
      { intros; lia. }
      assert (Em1' : env_match (push_loop env) (locals s1)) by exact Em1.
      pose proof (IHb b depth s1 s2 o2 (push_loop env) 2 (length cc + 2) c _ E2 Ok2 (env_inv_loop _ Inv)
                      Dp Em1' Hcb Hcont') as R2.
      fold bl in R2.
      pose proof (env_match_length _ _ Em1) as L1.
      (* back at the loop header with the locals of the loop entry *)
      assert (Again : forall s3, names (locals s3) = names (locals s1) ->
                star c (mkVS pc (vals (locals s)) (wd s)) (mkVS pc (vals (locals s3)) (wd s3)) ->
                exec_stmt f depth (SWhile l c0 b) s3 = (s', o) ->
                outcome_ok c pc s s' o env (length cc + 2 + bl + 2) brk cont env).
      { intros s3 N3 T3 Ex3.
        assert (Em3 : env_match env (locals s3)) by (eapply env_match_names; [exact Em1|exact N3]).
        pose proof (IHf (SWhile l c0 b) depth s3 s' o env brk cont c pc Ex3 OkW Inv Dp Em3 HcW Hcont) as R3.
        rewrite slen_while in R3. fold cc bl in R3. cbn [env_after] in R3.
        assert (G3 : grows (locals s) (locals s3)) by (apply grows_refl; congruence).
        destruct o; cbn [outcome_ok] in *.
        - destruct R3 as (R3 & Em' & G'). repeat split; [eapply star_trans; eassumption|exact Em'|eapply grows_trans; eassumption].
        - destruct R3 as (d & nl & CL & R3 & G'). exists d, nl.
          repeat split; [exact CL|eapply star_trans; eassumption|eapply grows_trans; eassumption].
        - destruct R3 as (d & nl & CL & R3 & G'). exists d, nl.
          repeat split; [exact CL|eapply star_trans; eassumption|eapply grows_trans; eassumption].
        - eapply star_raises; eassumption.
        - exact I. }
      destruct o2; cbn [outcome_ok] in R2.
      * (* body fell through: Loop *)
        destruct R2 as (R2 & Em2 & G2). apply Again with (s3 := s2); [|
          |exact Ex].
        -- unfold env_match in Em2, Em1'. cbn [push_loop clocals] in Em2, Em1'. congruence.
        -- eapply star_trans; [exact T|]. eapply star_trans; [exact R2|].
           apply star_one. rewrite (step_at _ _ _ _ _ Hl). cbn [step_instr].
           destruct (S (S (S (pc + length cc)) + bl) <? length cc + 2 + bl + 1) eqn:Lt;
             [apply Nat.ltb_lt in Lt; lia|]. apply SNext_eq; lia.
      * (* break *)
        destruct R2 as (d & nl & CL & R2 & G2). cbn [push_loop cloop] in CL. inversion CL; subst d nl.
        inversion Ex; subst s' o. cbn [outcome_ok].
        destruct (block_result_names _ _ _ _ _ _ E2 G2) as [N2 L2].
        assert (K : keep_last (length (clocals env)) (locals s2) = locals s2).
        { rewrite L1, <- L2. apply keep_last_all. }
        rewrite K in R2.
        repeat split.
        -- eapply star_trans; [exact T|]. eapply star_eq; [exact R2|]. f_equal. lia.
        -- eapply env_match_names; [exact Em1|exact N2].
        -- apply grows_refl. congruence.
      * (* continue *)
        destruct R2 as (d & nl & CL & R2 & G2). cbn [push_loop cloop] in CL. inversion CL; subst d nl.
        destruct (block_result_names _ _ _ _ _ _ E2 G2) as [N2 L2].
        assert (K : keep_last (length (clocals env)) (locals s2) = locals s2).
        { rewrite L1, <- L2. apply keep_last_all. }
        rewrite K in R2.
        apply Again with (s3 := s2); [exact N2| |exact Ex].
        eapply star_trans; [exact T|]. eapply star_eq; [exact R2|]. f_equal. lia.
      * inversion Ex; subst s' o. cbn [outcome_ok]. eapply star_raises; [exact T|exact R2].
      * inversion Ex; subst s' o. exact I.
    + (* condition false: leave *)
      inversion Ex; subst s' o. cbn [outcome_ok]. repeat split; [|exact Em1|exact G1].
      eapply star_trans; [exact R1|].
      eapply star_step; [rewrite (step_at _ _ _ _ _ Hj); cbn [step_instr]; rewrite Tv; reflexivity|].
      apply star_one.
      replace (S (pc + length cc) + (bl + 2)) with (S (S (S (pc + length cc)) + bl)) by lia.
      rewrite (step_at _ _ _ _ _ Hp2). unfold step_instr, step_op, next. apply SNext_eq; lia.
  - (* SBreak *)
    cbn [stmt_ok] in Hok. cbn [exec_stmt] in Ex. inversion Ex; subst s' o.
    cbn [cstmt slen env_after outcome_ok] in *. unfold loop_pops in *.
    destruct (cloop env) as [[d nl]|] eqn:CL; [|discriminate Hok].
    pose proof (loop_counts env (locals s) d nl Inv Em CL) as LC.
    set (k := count_above d (clocals env)) in *.
    apply code_at_app in Hc. destruct Hc as [Hc1 Hc2]. rewrite pops_length in Hc2.
    apply code_at_cons in Hc2. destruct Hc2 as [Hn _].
    exists d, nl. repeat split; [|apply grows_refl; reflexivity].
    eapply star_trans; [apply run_pops; [exact Hc1|unfold vals; rewrite map_length; lia]|].
    rewrite vals_keep_last. replace (length (locals s) - nl) with k by lia.
    apply star_one. rewrite (step_at _ _ _ _ _ Hn). cbn [step_instr]. apply SNext_eq; lia.
  - (* SContinue *)
    cbn [stmt_ok] in Hok. cbn [exec_stmt] in Ex. inversion Ex; subst s' o.
    cbn [cstmt slen env_after outcome_ok] in *. unfold loop_pops in *.
    destruct (cloop env) as [[d nl]|] eqn:CL; [|discriminate Hok].
    pose proof (loop_counts env (locals s) d nl Inv Em CL) as LC. specialize (Hcont d nl eq_refl).
    set (k := count_above d (clocals env)) in *.
    apply code_at_app in Hc. destruct Hc as [Hc1 Hc2]. rewrite pops_length in Hc2.
    apply code_at_cons in Hc2. destruct Hc2 as [Hn _].
    exists d, nl. repeat split; [|apply grows_refl; reflexivity].
    eapply star_trans; [apply run_pops; [exact Hc1|unfold vals; rewrite map_length; lia]|].
    rewrite vals_keep_last. replace (length (locals s) - nl) with k by lia.
    apply star_one. rewrite (step_at _ _ _ _ _ Hn). cbn [step_instr].
    destruct (S (pc + k) <? cont + k + 1) eqn:Lt; [apply Nat.ltb_lt in Lt; lia|]. apply SNext_eq; lia.
Qed.

(* Statements of the fragment (var, expression statements, blocks, if/else, while, break,
   continue), compiled by the repaired compiler ([break_pops_first = true]): whatever the
   reference evaluator does within the fuel - complete normally, break, continue, fail - the
   machine does on the compiled code: it reaches the end of the statement's code (resp. the
   loop's exit point, the loop's header, an error stop) with exactly the evaluator's locals on
   the stack (resp. the locals of the loop entry), the same globals, store and output. *)
Theorem compile_stmt_correct : forall f stm depth s s' o env brk cont c pc,
  exec_stmt f depth stm s = (s', o) -> stmt_ok env stm = true -> env_inv env ->
  cdepth env = depth -> env_match env (locals s) ->
  code_at c pc (cstmt true env brk cont stm) ->
  (forall d nl, cloop env = Some (d, nl) -> cont <= pc) ->
  let start := mkVS pc (vals (locals s)) (wd s) in
  let len := slen env stm in
  match o with
  | ONormal =>
    star c start (mkVS (pc + len) (vals (locals s')) (wd s')) /\
    env_match (env_after env stm) (locals s') /\ grows (locals s) (locals s')
  | OBreak =>
    exists d nl, cloop env = Some (d, nl) /\
      star c start (mkVS (pc + len + brk) (vals (keep_last nl (locals s'))) (wd s')) /\
      grows (locals s) (locals s')
  | OContinue =>
    exists d nl, cloop env = Some (d, nl) /\
      star c start (mkVS (pc - cont) (vals (keep_last nl (locals s'))) (wd s')) /\
      grows (locals s) (locals s')
  | OErr e => raises c start e (wd s')
  | OFuel => True
  end.
Proof. intros f stm depth s s' o env brk cont c pc. apply (stmt_correct_all f). Qed.
Print Assumptions compile_stmt_correct.

(* whole scripts, with [run_vm] *)
Theorem compile_program_correct : forall f p s' o,
  program_ok p = true -> run_program f p = (s', o) ->
  match o with
  | ONormal => exists k stk, run_vm k (cprogram true p) vstate0
                             = VDone (mkVS (S (length (cstmts true cenv0 0 0 p))) stk (wd s'))
  | OErr e => exists k, run_vm k (cprogram true p) vstate0 = VErr e (wd s')
  | OBreak | OContinue => False
  | OFuel => True
  end.
Proof.
  intros f p s' o Hok Ex. unfold run_program in Ex.
  assert (Hc : code_at (cprogram true p) 0 (cstmts true cenv0 0 0 p)).
  { exists [], [IOp OpNil; IOp OpReturn]. split; reflexivity. }
  assert (Em : env_match cenv0 (locals st0)) by reflexivity.
  assert (Hcont : forall d nl, cloop cenv0 = Some (d, nl) -> 0 <= 0) by (intros; lia).
  pose proof (stmts_from_stmt f (stmt_correct_all f) p 0 st0 s' o cenv0 0 0 _ 0 Ex Hok env_inv0 eq_refl Em Hc Hcont) as R.
  destruct o; cbn [outcome_ok] in R.
  - destruct R as (R & _ & _). cbn [Nat.add] in R. rewrite <- (cstmts_len true cenv0 0 0 p) in R.
    set (n := length (cstmts true cenv0 0 0 p)) in *.
    assert (N1 : nth_error (cprogram true p) n = Some (IOp OpNil)).
    { unfold cprogram. rewrite nth_error_app2 by (unfold n; lia). unfold n. rewrite Nat.sub_diag. reflexivity. }
    assert (N2 : nth_error (cprogram true p) (S n) = Some (IOp OpReturn)).
    { unfold cprogram. rewrite nth_error_app2 by (unfold n; lia). unfold n.
      replace (S (length (cstmts true cenv0 0 0 p)) - length (cstmts true cenv0 0 0 p)) with 1 by lia. reflexivity. }
    destruct (star_run _ _ _ R 2 (VDone (mkVS (S n) (VNil :: vals (locals s')) (wd s')))) as (k & E).
    + cbn [run_vm]. rewrite (step_at _ _ _ _ _ N1). cbn [step_instr step_op next].
      rewrite (step_at _ _ _ _ _ N2). reflexivity.
    + exists (k + 2), (VNil :: vals (locals s')). exact E.
  - destruct R as (d & nl & CL & _). discriminate CL.
  - destruct R as (d & nl & CL & _). discriminate CL.
  - apply raises_run. exact R.
  - exact I.
Qed.
Print Assumptions compile_program_correct.

(* hypotheses satisfiable: nested loops, a local declared before a break, continue, shadowing *)
Example compile_program_correct_ex :
  let p := [SVar 1%N (B "i") (Some (ENum f64_zero));
            SWhile 1%N (EBinary BLt (EVar (B "i")) (ENum (f64_of_Z 3)))
              [SExpr 1%N (ECompound (B "i") BAdd (ENum f64_one));
               SVar 1%N (B "k") (Some (EVar (B "i")));
               SIf 1%N (EBinary BEq (EVar (B "k")) (ENum f64_one)) [SContinue 1%N] None;
               SExpr 1%N (ECall (EVar (B "print")) [EVar (B "k")]);
               SIf 1%N (EBinary BEq (EVar (B "k")) (ENum (f64_of_Z 2)))
                   [SVar 1%N (B "k") None; SBreak 1%N] None];
            SExpr 1%N (ECall (EVar (B "print")) [EVar (B "i")])] in
  program_ok p = true /\
  snd (run_program 50 p) = ONormal /\ out (wd (fst (run_program 50 p))) = [B "2"; B "2"] /\
  exists stk, run_vm 200 (cprogram true p) vstate0
              = VDone (mkVS (S (length (cstmts true cenv0 0 0 p))) stk (wd (fst (run_program 50 p)))).
Proof. repeat split; try (vm_compute; reflexivity). eexists. vm_compute. reflexivity. Qed.
