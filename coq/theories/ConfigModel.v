(* ConfigModel.v - the build configurations of the yarel library (C10) and the two representations of the
   active fiber.  Definitions only (proofs: ConfigProofs.v).

   Five forks, each selected by `cfg!(any(debug_assertions, feature = "..."))` (or the `#[cfg]` pair):
     gc_always            memory.rs allocate_raw: collect() at every allocation | collect_if_required()
     stack_checked        stack.rs peek/peek_mut/push/pop/truncate: guard | raw pointer code only
     fiber_cell           vm.rs active_fiber()/active_fiber_mut(): RefCell borrow of Vm.fiber | *Vm.unsafe_fiber
     opcodes_checked      vm.rs run(), fall-through arm: panic!("Unknown opcode") | unreachable_unchecked
     class_lookup_checked vm.rs get_class, ObjFunction arm: unreachable!() | unreachable_unchecked        *)
From Coq Require Import List String Bool NArith.
Import ListNotations.
Open Scope string_scope.

Record config : Type := mkConfig {
  gc_always : bool;
  stack_checked : bool;
  fiber_cell : bool;
  opcodes_checked : bool;
  class_lookup_checked : bool }.

Definition has_feature (f : string) (features : list string) : bool :=
  existsb (String.eqb f) features.

(* cfg!(any(debug_assertions, feature = "<switch>")) *)
Definition config_of_build (debug_assertions : bool) (features : list string) : config :=
  mkConfig (debug_assertions || has_feature "debug_stress_gc" features)
           (debug_assertions || has_feature "safe_stack" features)
           (debug_assertions || has_feature "safe_active_fiber" features)
           (debug_assertions || has_feature "safe_vm_opcodes" features)
           (debug_assertions || has_feature "safe_class_lookup" features).

Definition show_b (b : bool) : string := if b then "T" else "F".
Definition show_config (c : config) : string :=
  "gc_always=" ++ show_b (gc_always c) ++ " stack_checked=" ++ show_b (stack_checked c) ++
  " fiber_cell=" ++ show_b (fiber_cell c) ++ " opcodes_checked=" ++ show_b (opcodes_checked c) ++
  " class_lookup_checked=" ++ show_b (class_lookup_checked c).

Definition all_checked : config := mkConfig true true true true true.
Definition all_raw : config := mkConfig false false false false false.

Definition five_features : list string :=
  ["debug_stress_gc"; "safe_active_fiber"; "safe_class_lookup"; "safe_stack"; "safe_vm_opcodes"].

Fixpoint sublists {A} (l : list A) : list (list A) :=
  match l with
  | [] => [[]]
  | x :: r => let s := sublists r in s ++ map (cons x) s
  end.

(* the 32 release feature mixes, and all builds the cross-build differential uses: (debug_assertions, features) *)
Definition release_mixes : list (list string) := sublists five_features.
Definition all_builds : list (bool * list string) :=
  (true, []) :: map (fun fs => (false, fs)) release_mixes.

Definition config_eqb (a b : config) : bool :=
  Bool.eqb (gc_always a) (gc_always b) && Bool.eqb (stack_checked a) (stack_checked b) &&
  Bool.eqb (fiber_cell a) (fiber_cell b) && Bool.eqb (opcodes_checked a) (opcodes_checked b) &&
  Bool.eqb (class_lookup_checked a) (class_lookup_checked b).

Definition all_configs : list config :=
  flat_map (fun a => flat_map (fun b => flat_map (fun c => flat_map (fun d =>
    map (fun e => mkConfig a b c d e) [false; true]) [false; true]) [false; true]) [false; true]) [false; true].

(* collection schedule (C01's Mutator.run: "collect before the i-th allocation?") of a configuration:
   collect-always builds collect before every allocation; paced builds follow whatever the threshold
   arithmetic decides ([paced], left arbitrary). *)
Definition gc_schedule (c : config) (paced : list bool) (nallocs : nat) : list bool :=
  if gc_always c then repeat true nallocs else paced.

(* ------------------------------------------------------------------------------------------------ *)
(* Every cfg!/#[cfg] site of yarel/src (hooks of feature verif_hooks excluded), in the translator's order,
   with the fork it belongs to.  The first three components must equal YVGen.CfgSites.cfg_sites. *)
Definition F_GC := "gc".
Definition F_STACK := "stack".
Definition F_FIBER := "fiber".
Definition F_OPCODES := "opcodes".
Definition F_CLASS := "class_lookup".
Definition F_DEBUG_OUT := "debug-only output".

Definition cfg_sites_ref : list (string * string * string * string) :=
  [("compiler.rs", "cfg!", "feature = 'debug_bytecode'", F_DEBUG_OUT);
   ("memory.rs", "cfg!", "feature = 'debug_trace_gc'", F_DEBUG_OUT);
   ("memory.rs", "cfg!", "feature = 'debug_trace_gc'", F_DEBUG_OUT);
   ("memory.rs", "cfg!", "any ( debug_assertions , feature = 'debug_stress_gc' )", F_GC);
   ("memory.rs", "cfg!", "feature = 'debug_trace_gc'", F_DEBUG_OUT);
   ("memory.rs", "cfg!", "feature = 'debug_trace_gc'", F_DEBUG_OUT);
   ("memory.rs", "cfg!", "feature = 'debug_trace_gc'", F_DEBUG_OUT);
   ("memory.rs", "cfg!", "feature = 'debug_trace_gc'", F_DEBUG_OUT);
   ("stack.rs", "cfg!", "any ( debug_assertions , feature = 'safe_stack' )", F_STACK);   (* peek *)
   ("stack.rs", "cfg!", "any ( debug_assertions , feature = 'safe_stack' )", F_STACK);   (* peek_mut *)
   ("stack.rs", "cfg!", "any ( debug_assertions , feature = 'safe_stack' )", F_STACK);   (* push *)
   ("stack.rs", "cfg!", "any ( debug_assertions , feature = 'safe_stack' )", F_STACK);   (* pop *)
   ("stack.rs", "cfg!", "any ( debug_assertions , feature = 'safe_stack' )", F_STACK);   (* truncate *)
   ("vm.rs", "cfg!", "any ( debug_assertions , feature = 'safe_class_lookup' )", F_CLASS);
   ("vm.rs", "cfg!", "feature = 'debug_trace'", F_DEBUG_OUT);
   ("vm.rs", "cfg!", "any ( debug_assertions , feature = 'safe_vm_opcodes' )", F_OPCODES);
   ("vm.rs", "#[cfg]", "any ( debug_assertions , feature = 'safe_active_fiber' )", F_FIBER);
   ("vm.rs", "#[cfg]", "not ( any ( debug_assertions , feature = 'safe_active_fiber' ) )", F_FIBER);
   ("vm.rs", "#[cfg]", "any ( debug_assertions , feature = 'safe_active_fiber' )", F_FIBER);
   ("vm.rs", "#[cfg]", "not ( any ( debug_assertions , feature = 'safe_active_fiber' ) )", F_FIBER)].

Definition site_key (s : string * string * string * string) : string * string * string :=
  let '(f, k, c, _) := s in (f, k, c).

(* the conditions a fork may be selected by; a site of the table must use one of its fork's conditions *)
Definition fork_conditions (fork : string) : list string :=
  if String.eqb fork F_GC then ["any ( debug_assertions , feature = 'debug_stress_gc' )"]
  else if String.eqb fork F_STACK then ["any ( debug_assertions , feature = 'safe_stack' )"]
  else if String.eqb fork F_FIBER then ["any ( debug_assertions , feature = 'safe_active_fiber' )";
                                        "not ( any ( debug_assertions , feature = 'safe_active_fiber' ) )"]
  else if String.eqb fork F_OPCODES then ["any ( debug_assertions , feature = 'safe_vm_opcodes' )"]
  else if String.eqb fork F_CLASS then ["any ( debug_assertions , feature = 'safe_class_lookup' )"]
  else if String.eqb fork F_DEBUG_OUT then ["feature = 'debug_bytecode'"; "feature = 'debug_trace_gc'";
                                            "feature = 'debug_trace'"]
  else [].

Definition site_ok (s : string * string * string * string) : bool :=
  let '(_, _, c, fork) := s in existsb (String.eqb c) (fork_conditions fork).

Definition triple_eqb (a b : string * string * string) : bool :=
  let '(a1, a2, a3) := a in let '(b1, b2, b3) := b in
  String.eqb a1 b1 && String.eqb a2 b2 && String.eqb a3 b3.

Fixpoint list_eqb {A} (eqb : A -> A -> bool) (l1 l2 : list A) : bool :=
  match l1, l2 with
  | [], [] => true
  | x :: r1, y :: r2 => eqb x y && list_eqb eqb r1 r2
  | _, _ => false
  end.

Definition sites_match (gen : list (string * string * string)) : bool :=
  list_eqb triple_eqb (map site_key cfg_sites_ref) gen && forallb site_ok cfg_sites_ref.

Definition count_fork (fork : string) : nat :=
  List.length (filter (fun s => String.eqb (snd s) fork) cfg_sites_ref).

(* ------------------------------------------------------------------------------------------------ *)
(* Every assignment / read of Vm.fiber and Vm.unsafe_fiber (vm.rs), in the translator's order
   (translator/translate_c10.py -> YVGen.FiberSites.fiber_sites).  The operations below are written after
   exactly these sites. *)
Definition fiber_sites_ref : list (string * string * string) :=
  [("execute", "fiber :=", "None");
   ("load_fiber", "fiber read", "is_some");
   ("load_fiber", "unsafe_fiber :=", "( * fiber ) . as_ptr ( )");
   ("load_fiber", "fiber.replace", "fiber . as_root ( )");
   ("unload_fiber", "fiber.replace", "caller . as_root ( )");
   ("unload_fiber", "unsafe_fiber :=", "( * caller ) . as_ptr ( )");
   (* cell-only readers, identical in every build (no fork): walk the cell's fiber and its caller chain *)
   ("is_loading_module", "fiber read", "as_ref");
   ("reset_stack", "fiber read", "as_ref");
   (* capture_upvalue MIXES the representations in a raw build: the slot address and the open-upvalue list come from
      active_fiber() (raw pointer), the recorded owner of the new upvalue from the cell: operation OCapture below *)
   ("capture_upvalue", "fiber read", "as_ref");
   ("active_fiber", "fiber read", "as_ref");
   ("active_fiber", "unsafe_fiber read", "");
   ("active_fiber_mut", "fiber read", "as_ref");
   ("active_fiber_mut", "unsafe_fiber read", "");
   ("new", "fiber init", "None");
   ("new", "unsafe_fiber init", "ptr :: null_mut ( )")].

Definition fiber_sites_match (gen : list (string * string * string)) : bool :=
  list_eqb triple_eqb fiber_sites_ref gen.

(* ------------------------------------------------------------------------------------------------ *)
(* Round 9: every DEBUG-ONLY construct of yarel/src (translator/translate_c10.py -> YVGen.FiberSites.debug_sites):
   debug_assert!/debug_assert_eq!/debug_assert_ne! and every mention of debug_assertions / overflow_checks, with
   file and enclosing function.  Today there is NO debug-only assertion: the only code that depends on the checked
   configuration are the 12 guards of the five forks (one per fork site of cfg_sites_ref, here with their function).
   A debug-only assertion is a dev-only way to end a program; a new one (or a new debug-only branch) must be
   justified against the model - until then it breaks C10_debug_sites_known by name, and the plug-in's search
   is aimed at the function it sits in. *)
Definition debug_sites_ref : list (string * string * string) :=
  [("memory.rs", "allocate_raw", "cfg! debug_assertions");
   ("stack.rs", "peek", "cfg! debug_assertions");
   ("stack.rs", "peek_mut", "cfg! debug_assertions");
   ("stack.rs", "push", "cfg! debug_assertions");
   ("stack.rs", "pop", "cfg! debug_assertions");
   ("stack.rs", "truncate", "cfg! debug_assertions");
   ("vm.rs", "get_class", "cfg! debug_assertions");
   ("vm.rs", "run", "cfg! debug_assertions");
   ("vm.rs", "active_fiber", "#[cfg] debug_assertions");
   ("vm.rs", "active_fiber", "#[cfg] debug_assertions");
   ("vm.rs", "active_fiber_mut", "#[cfg] debug_assertions");
   ("vm.rs", "active_fiber_mut", "#[cfg] debug_assertions")].

Definition debug_sites_match (gen : list (string * string * string)) : bool :=
  list_eqb triple_eqb debug_sites_ref gen.

(* the debug-only sites are exactly the guards of the forks: as many as fork sites in cfg_sites_ref *)
Definition debug_sites_are_fork_guards : bool :=
  Nat.eqb (List.length debug_sites_ref)
          (count_fork F_GC + count_fork F_STACK + count_fork F_FIBER + count_fork F_OPCODES + count_fork F_CLASS).

(* ------------------------------------------------------------------------------------------------ *)
(* The active fiber.  [fiber] is the Root cell `Vm.fiber`, [unsafe_fiber] the raw pointer `Vm.unsafe_fiber`
   (None = null); fibers are identified by their address (an N).  [callers] is the `caller` field of each
   ObjFiber (association list, newest binding first). *)
Open Scope N_scope.

Record fstate : Type := mkF {
  fiber : option N;
  unsafe_fiber : option N;
  callers : list (N * option N) }.

(* Vm::new *)
Definition f_init : fstate := mkF None None [].

Fixpoint caller_of (l : list (N * option N)) (i : N) : option N :=
  match l with
  | [] => None
  | (j, c) :: r => if N.eqb i j then c else caller_of r i
  end.

Inductive fres : Type :=
| FOk
| FErr (msg : string)       (* Err(...) returned, an ordinary yarel error *)
| FCaptured (stack_of owner : N)   (* capture_upvalue: fiber whose stack holds the slot, fiber recorded as owner *)
| FPanic                    (* checked build: `self.fiber.as_ref().unwrap()` on None *)
| FUB.                      (* raw build: dereference of a null / stale pointer *)

(* active_fiber()/active_fiber_mut(): which fiber does the code reach?
   cell = true : self.fiber.as_ref().unwrap().borrow()        -> None panics
   cell = false: &*self.unsafe_fiber                          -> null or stale pointer is UB.
   A pointer is stale when it no longer equals the cell's content: the Root that kept the object alive is
   gone (execute has dropped it) - the model answers FUB for ANY disagreement, including null. *)
Definition active (cell : bool) (s : fstate) : option N + fres :=
  if cell then match fiber s with Some i => inl (Some i) | None => inr FPanic end
  else match unsafe_fiber s, fiber s with
       | Some p, Some i => if N.eqb p i then inl (Some p) else inr FUB
       | _, _ => inr FUB
       end.

Inductive fop : Type :=
| OExecute (f : N) (arity_ok : bool)   (* Vm::execute creating the fresh fiber f *)
| OLoad (f : N)                        (* load_fiber(f, _)  - Fiber.call *)
| OUnload                              (* unload_fiber(_)   - Fiber.yield / return from a fiber *)
| OCapture.                            (* capture_upvalue: a closure captures a local of the running fiber *)

(* load_fiber (vm.rs:470-514), the part before the switch:
   if self.fiber.is_some() { ...; self.active_fiber_mut().current_frame_mut().unwrap().ip = self.ip } *)
Definition load_pre (cell : bool) (s : fstate) : option fres :=
  match fiber s with
  | Some _ => match active cell s with inl _ => None | inr r => Some r end
  | None => None
  end.

Definition load_fiber (cell : bool) (f : N) (s : fstate) : fres * fstate :=
  (* "Cannot call a fiber that has already been called." (the has_finished test reads only f itself) *)
  match caller_of (callers s) f with
  | Some _ => (FErr "Cannot call a fiber that has already been called.", s)
  | None =>
    match load_pre cell s with
    | Some r => (r, s)
    | None =>
      (* self.unsafe_fiber = ( *fiber).as_ptr();  let caller = self.fiber.replace(fiber.as_root()); *)
      let caller := fiber s in
      let s1 := mkF (Some f) (Some f) (callers s) in
      (* self.active_fiber_mut().caller = caller.map(..) *)
      match active cell s1 with
      | inr r => (r, s1)
      | inl None => (FPanic, s1)
      | inl (Some a) => (FOk, mkF (fiber s1) (unsafe_fiber s1) ((a, caller) :: callers s1))
      end
    end
  end.

(* unload_fiber (vm.rs:516-537) *)
Definition unload_fiber (cell : bool) (s : fstate) : fres * fstate :=
  (* let caller = self.active_fiber().caller; *)
  match active cell s with
  | inr r => (r, s)
  | inl None => (FPanic, s)
  | inl (Some a) =>
    match caller_of (callers s) a with
    | Some c =>
      (* let mut current = self.fiber.replace(caller.as_root()); self.unsafe_fiber = ( *caller).as_ptr();
         current.as_mut().unwrap().borrow_mut().caller = None;   (current = the CELL's old content) *)
      match fiber s with
      | Some cur => (FOk, mkF (Some c) (Some c) ((cur, None) :: callers s))
      | None => (FPanic, mkF (Some c) (Some c) (callers s))     (* current.as_mut().unwrap() on None *)
      end
    | None => (FErr "Cannot yield from module-level code.", s)
    end
  end.

(* capture_upvalue: `self.active_fiber().stack.as_ptr().offset(location)` / `.open_upvalues` go through the build's
   representation; `let owner = self.fiber.as_ref().expect("Expected fiber.").as_gc()` always through the cell *)
Definition capture_upvalue (cell : bool) (s : fstate) : fres * fstate :=
  match active cell s with
  | inr r => (r, s)
  | inl None => (FPanic, s)
  | inl (Some a) =>
    match fiber s with
    | Some o => (FCaptured a o, s)
    | None => (FPanic, s)                     (* expect("Expected fiber.") *)
    end
  end.

(* execute (vm.rs:183-206): self.fiber = None; [allocations]; arity check (early return); load_fiber *)
Definition execute_begin (s : fstate) : fstate := mkF None (unsafe_fiber s) (callers s).
Definition execute (cell : bool) (f : N) (arity_ok : bool) (s : fstate) : fres * fstate :=
  let s0 := execute_begin s in
  if arity_ok then load_fiber cell f s0 else (FErr "Expected n arguments but found m.", s0).

Definition fstep (cell : bool) (o : fop) (s : fstate) : fres * fstate :=
  match o with
  | OExecute f ok => execute cell f ok s
  | OLoad f => load_fiber cell f s
  | OUnload => unload_fiber cell s
  | OCapture => capture_upvalue cell s
  end.

Definition fstops (r : fres) : bool := match r with FPanic | FUB => true | _ => false end.

Fixpoint frun (cell : bool) (ops : list fop) (s : fstate) : list fres * fstate :=
  match ops with
  | [] => ([], s)
  | o :: rest =>
      let '(r, s') := fstep cell o s in
      if fstops r then ([r], s')
      else let '(rs, s'') := frun cell rest s' in (r :: rs, s'')
  end.

(* the invariant the raw representation relies on: whenever the cell is occupied the pointer denotes the
   same object *)
Definition ptr_ok (s : fstate) : Prop := forall i, fiber s = Some i -> unsafe_fiber s = Some i.
Definition ptr_okb (s : fstate) : bool :=
  match fiber s with
  | None => true
  | Some i => match unsafe_fiber s with Some p => N.eqb p i | None => false end
  end.
