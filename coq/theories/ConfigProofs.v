(* ConfigProofs.v - C10: the checked and the raw variants of the configuration forks agree wherever the
   checked variant does not report misuse.  Models: StackModel.v, ConfigModel.v. *)
From Coq Require Import List ZArith NArith Bool String Lia Arith.
From YV Require Import StackModel ConfigModel.
From YV Require Heap HeapTablesRef Collect Mutator MutatorProofs.
From YV Require Bytecode Skeleton Verifier VerifierProofs.
Import ListNotations.

(* ================================================================================================ *)
(* 1. Stack<T, N> *)
Section StackProofs.
  Variable T : Type.
  Variable dflt : T.
  Variable CAP : nat.

  Notation stack := (stack T).
  Notation step := (step T dflt CAP).
  Notation run := (StackModel.run T dflt CAP).
  Notation misuse := (misuse T CAP).
  Notation no_misuse := (no_misuse T dflt CAP).
  Notation wf := (wf T CAP).
  Notation in_box := (in_box CAP).

  Open Scope Z_scope.

  Lemma upd_length : forall i v (l : list T), List.length (upd T i v l) = List.length l.
  Proof.
    intros i v l; revert i; induction l as [|x r IH]; intros [|j]; cbn [upd List.length]; auto.
  Qed.

  Lemma in_box_true : forall i, 0 <= i < Z.of_nat CAP -> in_box i = true.
  Proof.
    intros i Hi. unfold StackModel.in_box. apply andb_true_iff; split;
      [apply Z.leb_le | apply Z.ltb_lt]; lia.
  Qed.

  Lemma in_box_false : forall i, i < 0 \/ Z.of_nat CAP <= i -> in_box i = false.
  Proof.
    intros i Hi. unfold StackModel.in_box. apply andb_false_iff.
    destruct Hi as [Hi|Hi]; [left; apply Z.leb_gt | right; apply Z.ltb_ge]; lia.
  Qed.

  (* one call that is not a misuse: both variants do the same, no UB, no panic, no None, state stays wf *)
  Lemma step_agree : forall o (s : stack), wf s -> misuse o s = false ->
    step true o s = step false o s /\
    stops T (fst (step false o s)) = false /\ fst (step false o s) <> RNone /\
    wf (snd (step false o s)).
  Proof.
    intros o s [Hl Ht] Hm.
    destruct o as [d|d v|v| |n| |]; cbn [StackModel.step StackModel.misuse] in *.
    - (* peek *)
      unfold peek. rewrite Hm. cbn [andb]. unfold len_u in Hm.
      apply Nat.leb_gt in Hm.
      rewrite in_box_true by lia. cbn [fst snd stops]; unfold StackModel.wf; cbn [cells top];
      repeat split; auto; try discriminate; try lia; try (rewrite upd_length; exact Hl).
    - (* poke *)
      unfold poke. rewrite Hm. cbn [andb]. unfold len_u in Hm.
      apply Nat.leb_gt in Hm.
      rewrite in_box_true by lia. cbn [fst snd stops]; unfold StackModel.wf; cbn [cells top];
      repeat split; auto; try discriminate; try lia; try (rewrite upd_length; exact Hl).
    - (* push *)
      unfold push. rewrite Hm. cbn [andb]. unfold len_u in Hm.
      apply Nat.eqb_neq in Hm.
      rewrite in_box_true by lia. cbn [fst snd stops]; unfold StackModel.wf; cbn [cells top];
      repeat split; auto; try discriminate; try lia; try (rewrite upd_length; exact Hl).
    - (* pop *)
      unfold pop. rewrite Hm. cbn [andb]. unfold len_u in Hm.
      apply Nat.eqb_neq in Hm.
      rewrite in_box_true by lia. cbn [fst snd stops]; unfold StackModel.wf; cbn [cells top];
      repeat split; auto; try discriminate; try lia; try (rewrite upd_length; exact Hl).
    - (* truncate *)
      unfold truncate. rewrite Hm. cbn [andb]. unfold len_u in Hm.
      apply Nat.ltb_ge in Hm.
      assert (Hn : (n <=? CAP)%nat = true) by (apply Nat.leb_le; lia).
      rewrite Hn. cbn [fst snd stops]; unfold StackModel.wf; cbn [cells top];
      repeat split; auto; try discriminate; try lia; try (rewrite upd_length; exact Hl).
    - (* len *)
      unfold len_op. assert (H0 : (top T s <? 0) = false) by (apply Z.ltb_ge; lia).
      rewrite H0. cbn [fst snd stops]; unfold StackModel.wf; cbn [cells top];
      repeat split; auto; try discriminate; try lia; try (rewrite upd_length; exact Hl).
    - (* clear *)
      unfold clear. cbn [fst snd stops]; unfold StackModel.wf; cbn [cells top];
      repeat split; auto; try discriminate; try lia; try (rewrite upd_length; exact Hl).
  Qed.

  (* T `stack_raw_refines_checked`: on every operation sequence on which the checked variant neither
     panics, nor clamps, nor answers None, the raw variant returns the same values, ends in the same state
     (same cells, same length) and never has undefined behaviour. *)
  Theorem stack_raw_refines_checked : forall ops (s : stack), wf s -> no_misuse ops s = true ->
    run false ops s = run true ops s /\
    has_ub T (fst (run false ops s)) = false /\
    Forall (fun r => stops T r = false /\ r <> RNone) (fst (run false ops s)) /\
    wf (snd (run false ops s)).
  Proof.
    induction ops as [|o rest IH]; intros s Hwf Hn.
    - cbn. repeat split; auto; apply Hwf.
    - cbn [StackModel.no_misuse] in Hn. apply andb_true_iff in Hn as [Hm Hrest].
      apply negb_true_iff in Hm.
      destruct (step_agree o s Hwf Hm) as [Heq [Hst [Hnone Hwf']]].
      cbn [StackModel.run]. rewrite Heq in *.
      destruct (step false o s) as [r s'] eqn:Es. cbn [fst snd] in *.
      rewrite Hst.
      specialize (IH s' Hwf' Hrest). destruct IH as [IHeq [IHub [IHall IHwf]]].
      rewrite IHeq in *.
      destruct (run true rest s') as [rs s''] eqn:Er. cbn [fst snd] in *.
      split; [reflexivity|]. split; [|split].
      + unfold has_ub in *. cbn [existsb]. rewrite IHub. destruct r; try reflexivity. discriminate.
      + constructor; [split; assumption | exact IHall].
      + exact IHwf.
  Qed.

  Corollary stack_raw_same_len : forall ops (s : stack), wf s -> no_misuse ops s = true ->
    len_op T (snd (run false ops s)) = len_op T (snd (run true ops s)) /\
    fst (len_op T (snd (run false ops s))) <> RUB.
  Proof.
    intros ops s Hwf Hn. destruct (stack_raw_refines_checked ops s Hwf Hn) as [E [_ [_ [_ Ht]]]].
    rewrite E in *. split; auto. unfold len_op.
    assert (H0 : (top T (snd (run true ops s)) <? 0) = false) by (apply Z.ltb_ge; lia).
    rewrite H0. discriminate.
  Qed.

  (* what the two variants do on a misuse *)
  Lemma step_on_misuse : forall o (s : stack), wf s -> misuse o s = true ->
    match o with
    | OPeek _ | OPoke _ _ =>
        step true o s = (RPanic "Stack index out of range.", s) /\ step false o s = (RUB, s)
    | OPush _ => step true o s = (RPanic "Stack overflow.", s) /\ step false o s = (RUB, s)
    | OPop => step true o s = (RNone, s) /\ step false o s = (RUB, s)
    | OTruncate n =>
        step true o s = (RUnit, mkStack T (cells T s) (top T s)) /\      (* clamped: nothing moves *)
        step false o s = (if (n <=? CAP)%nat then (RUnit, mkStack T (cells T s) (Z.of_nat n))  (* stale cells exposed *)
                          else (RUB, s))
    | OLen | OClear => False
    end.
  Proof.
    intros o s [Hl Ht] Hm.
    destruct o as [d|d v|v| |n| |]; cbn [StackModel.step StackModel.misuse] in *; try discriminate.
    - unfold peek. rewrite Hm. cbn [andb]. unfold len_u in Hm. apply Nat.leb_le in Hm.
      rewrite in_box_false by lia. split; reflexivity.
    - unfold poke. rewrite Hm. cbn [andb]. unfold len_u in Hm. apply Nat.leb_le in Hm.
      rewrite in_box_false by lia. split; reflexivity.
    - unfold push. rewrite Hm. cbn [andb]. unfold len_u in Hm. apply Nat.eqb_eq in Hm.
      rewrite in_box_false by lia. split; reflexivity.
    - unfold pop. rewrite Hm. cbn [andb]. unfold len_u in Hm. apply Nat.eqb_eq in Hm.
      rewrite in_box_false by lia. split; reflexivity.
    - unfold truncate. rewrite Hm. cbn [andb]. unfold len_u in *. apply Nat.ltb_lt in Hm.
      assert (Hc : (Z.to_nat (top T s) <=? CAP)%nat = true) by (apply Nat.leb_le; lia).
      rewrite Hc. rewrite Z2Nat.id by lia. split; reflexivity.
  Qed.

  (* T `stack_checked_diverges_only_on_misuse`: a single call behaves differently in the two variants
     EXACTLY when it is pop on empty, peek/peek_mut at depth >= len, push at N, or truncate above len. *)
  Theorem stack_checked_diverges_only_on_misuse : forall o (s : stack), wf s ->
    (step true o s <> step false o s <-> misuse o s = true).
  Proof.
    intros o s Hwf. destruct (misuse o s) eqn:Hm.
    - split; [reflexivity|]. intros _.
      pose proof (step_on_misuse o s Hwf Hm) as H.
      destruct o as [d|d v|v| |n| |]; try contradiction;
        destruct H as [H1 H2]; rewrite H1, H2; try discriminate.
      destruct Hwf as [_ Ht]. cbn [StackModel.misuse] in Hm. unfold len_u in Hm. apply Nat.ltb_lt in Hm.
      destruct (n <=? CAP)%nat; [|discriminate].
      intros E. injection E as E. lia.
    - split; [|discriminate]. intros H. exfalso. apply H. apply (step_agree o s Hwf Hm).
  Qed.
End StackProofs.

(* hypotheses of stack_raw_refines_checked are satisfiable by a non-trivial sequence (capacity 4: fill the
   stack completely, look at the bottom, overwrite, drain) ... *)
Example ex_stack_refines :
  let ops := [OPush 1%N; OPush 2%N; OPush 3%N; OPush 4%N; OPeek 3; OPoke 1 9%N; OPop; OTruncate 1; OLen;
              OPop; OClear; OPush 7%N; OPeek 0] in
  no_misuse N 0%N 4 ops (new_stack N 0%N 4) = true /\
  fst (StackModel.run N 0%N 4 false ops (new_stack N 0%N 4)) =
    [RUnit; RUnit; RUnit; RUnit; RVal 1%N; RUnit; RVal 4%N; RUnit; RLen 1; RVal 1%N; RUnit; RUnit; RVal 7%N].
Proof. split; vm_compute; reflexivity. Qed.

(* ... and each kind of misuse separates the variants as stated (capacity 2) *)
Example ex_stack_misuse :
  let s2 := snd (StackModel.run N 0%N 2 true [OPush 5%N; OPush 6%N] (new_stack N 0%N 2)) in
  let s1 := snd (StackModel.run N 0%N 2 true [OPop] s2) in
  fst (step N 0%N 2 true OPop (new_stack N 0%N 2)) = RNone /\
  fst (step N 0%N 2 false OPop (new_stack N 0%N 2)) = RUB /\
  fst (step N 0%N 2 true (OPush 1%N) s2) = RPanic "Stack overflow." /\
  fst (step N 0%N 2 false (OPush 1%N) s2) = RUB /\
  fst (step N 0%N 2 true (OPeek 2) s2) = RPanic "Stack index out of range." /\
  fst (step N 0%N 2 false (OPeek 2) s2) = RUB /\
  (* truncate above len inside the box: the checked variant clamps, the raw one resurrects the popped 6 *)
  fst (StackModel.run N 0%N 2 true [OTruncate 2; OPeek 0] s1) = [RUnit; RVal 5%N] /\
  fst (StackModel.run N 0%N 2 false [OTruncate 2; OPeek 0] s1) = [RUnit; RVal 6%N].
Proof. repeat split; vm_compute; reflexivity. Qed.

Print Assumptions stack_raw_refines_checked.
Print Assumptions stack_checked_diverges_only_on_misuse.

(* ================================================================================================ *)
(* 2. The active fiber: Root cell vs raw pointer *)
Open Scope N_scope.

Lemma active_new : forall cell f l, active cell (mkF (Some f) (Some f) l) = inl (Some f).
Proof. intros [] f l; unfold active; cbn; [|rewrite N.eqb_refl]; reflexivity. Qed.

Lemma load_pre_cases : forall cell s r, load_pre cell s = Some r -> r = FPanic \/ r = FUB.
Proof.
  intros cell s r. unfold load_pre, active.
  destruct (fiber s) as [i|]; [|discriminate].
  destruct cell.
  - discriminate.
  - destruct (unsafe_fiber s) as [p|]; [destruct (N.eqb p i)|]; intros E; inversion E; auto.
Qed.

Lemma load_fiber_state : forall cell f s,
  snd (load_fiber cell f s) = s \/
  exists l, snd (load_fiber cell f s) = mkF (Some f) (Some f) l.
Proof.
  intros cell f s. unfold load_fiber.
  destruct (caller_of (callers s) f); [left; reflexivity|].
  destruct (load_pre cell s); [left; reflexivity|].
  rewrite active_new. right. eexists; reflexivity.
Qed.

Lemma ptr_ok_step : forall cell o s, ptr_ok s -> ptr_ok (snd (fstep cell o s)).
Proof.
  intros cell o s H.
  assert (Hload : forall f s0, ptr_ok s0 -> ptr_ok (snd (load_fiber cell f s0))).
  { intros f s0 H0. destruct (load_fiber_state cell f s0) as [E|[l E]]; rewrite E; auto.
    intros i Hi; exact Hi. }
  destruct o as [f ok|f| |]; cbn [fstep].
  - unfold execute. destruct ok.
    + apply Hload. intros i Hi; cbn in Hi; discriminate.
    + intros i Hi; cbn in Hi; discriminate.
  - apply Hload, H.
  - unfold unload_fiber. destruct (active cell s) as [[a|]|r]; cbn [snd]; auto.
    destruct (caller_of (callers s) a) as [c|]; cbn [snd]; auto.
    destruct (fiber s); cbn [snd]; intros i Hi; exact Hi.
  - unfold capture_upvalue. destruct (active cell s) as [[a|]|r]; cbn [snd]; auto.
    destruct (fiber s); cbn [snd]; auto.
Qed.

Lemma ptr_ok_run : forall cell ops s, ptr_ok s -> ptr_ok (snd (frun cell ops s)).
Proof.
  intros cell ops; induction ops as [|o rest IH]; intros s H; cbn [frun]; auto.
  pose proof (ptr_ok_step cell o s H) as H1.
  destruct (fstep cell o s) as [r s'] eqn:E. cbn [snd] in H1.
  destruct (fstops r); cbn [snd]; auto.
  specialize (IH s' H1). destruct (frun cell rest s') as [rs s'']. exact IH.
Qed.

(* T `fiber_ptr_inv`: after every sequence of execute / load_fiber / unload_fiber, in either
   representation, whenever the cell holds a fiber the raw pointer is the address of that fiber. *)
Theorem fiber_ptr_inv : forall cell ops, ptr_ok (snd (frun cell ops f_init)).
Proof. intros; apply ptr_ok_run. intros i H; discriminate. Qed.

(* ... and after every operation that SUCCEEDED the two fields are equal (and not null). *)
Theorem fiber_ptr_eq_after_ok : forall cell o s s', ptr_ok s -> fstep cell o s = (FOk, s') ->
  unsafe_fiber s' = fiber s' /\ fiber s' <> None.
Proof.
  intros cell o s s' H E.
  assert (Hload : forall f s0 s1, load_fiber cell f s0 = (FOk, s1) ->
                                  unsafe_fiber s1 = fiber s1 /\ fiber s1 <> None).
  { intros f s0 s1. unfold load_fiber.
    destruct (caller_of (callers s0) f); [discriminate|].
    destruct (load_pre cell s0) as [r|] eqn:Ep.
    - intros E0; inversion E0; subst. destruct (load_pre_cases _ _ _ Ep); discriminate.
    - rewrite active_new. intros E0; inversion E0; subst; cbn. split; [reflexivity|discriminate]. }
  destruct o as [f ok|f| |]; cbn [fstep] in E.
  - unfold execute in E. destruct ok; [eapply Hload; eauto | discriminate].
  - eapply Hload; eauto.
  - unfold unload_fiber in E. destruct (active cell s) as [[a|]|r] eqn:Ea; try discriminate.
    + destruct (caller_of (callers s) a) as [c|]; [|discriminate].
      destruct (fiber s); inversion E; subst; cbn; split; auto; discriminate.
    + inversion E; subst. unfold active in Ea. destruct cell.
      * destruct (fiber s'); discriminate.
      * destruct (unsafe_fiber s') as [p|]; destruct (fiber s') as [i|]; try discriminate.
        destruct (N.eqb p i); discriminate.
  - unfold capture_upvalue in E. destruct (active cell s) as [[a|]|r] eqn:Ea; try discriminate.
    + destruct (fiber s); discriminate.
    + inversion E; subst. unfold active in Ea. destruct cell.
      * destruct (fiber s'); discriminate.
      * destruct (unsafe_fiber s') as [p|]; destruct (fiber s') as [i|]; try discriminate.
        destruct (N.eqb p i); discriminate.
Qed.

(* The STRICT invariant `unsafe_fiber = fiber` after every operation is false of the code: `execute` clears
   the cell (vm.rs:185 `self.fiber = None`) without clearing the pointer, and its arity check can return
   before load_fiber re-establishes both.  In that window the cell is empty and the pointer is stale; no
   read of the active fiber happens there (the checked build would panic on `unwrap()`), so no program can
   observe it: recorded, not a violation of C10. *)
Theorem fiber_ptr_strict_refuted : exists cell ops,
  let s := snd (frun cell ops f_init) in unsafe_fiber s <> fiber s /\ fiber s = None.
Proof. exists true, [OExecute 1 true; OExecute 2 false]. vm_compute. split; [discriminate|reflexivity]. Qed.

Lemma active_agree : forall s, ptr_ok s -> fiber s <> None -> active false s = active true s.
Proof.
  intros s H Hn. unfold active. destruct (fiber s) as [i|] eqn:Ef; [|contradiction].
  rewrite (H i Ef). rewrite N.eqb_refl. reflexivity.
Qed.

Lemma load_pre_agree : forall s, ptr_ok s -> load_pre false s = load_pre true s.
Proof.
  intros s H. unfold load_pre. destruct (fiber s) as [i|] eqn:Ef; [|reflexivity].
  rewrite (active_agree s H) by (rewrite Ef; discriminate). reflexivity.
Qed.

Lemma fstep_agree : forall o s, ptr_ok s -> fst (fstep true o s) <> FPanic ->
  fstep false o s = fstep true o s.
Proof.
  intros o s H Hp.
  assert (Hload : forall f s0, ptr_ok s0 -> load_fiber false f s0 = load_fiber true f s0).
  { intros f s0 H0. unfold load_fiber. rewrite (load_pre_agree s0 H0), !active_new. reflexivity. }
  destruct o as [f ok|f| |]; cbn [fstep] in *.
  - unfold execute. destruct ok; [|reflexivity]. apply Hload. intros i Hi; cbn in Hi; discriminate.
  - apply Hload, H.
  - unfold unload_fiber in *. destruct (fiber s) as [i|] eqn:Ef.
    + rewrite (active_agree s H) by (rewrite Ef; discriminate). reflexivity.
    + exfalso. apply Hp. unfold active. rewrite Ef. reflexivity.
  - unfold capture_upvalue in *. destruct (fiber s) as [i|] eqn:Ef.
    + rewrite (active_agree s H) by (rewrite Ef; discriminate). reflexivity.
    + exfalso. apply Hp. unfold active. rewrite Ef. reflexivity.
Qed.

Lemma checked_never_ub : forall o s, fst (fstep true o s) <> FUB.
Proof.
  assert (Hload : forall f s0, fst (load_fiber true f s0) <> FUB).
  { intros f s0. unfold load_fiber. destruct (caller_of (callers s0) f); [discriminate|].
    unfold load_pre, active. destruct (fiber s0); cbn; discriminate. }
  intros o s. destruct o as [f ok|f| |]; cbn [fstep].
  - unfold execute. destruct ok; [apply Hload | discriminate].
  - apply Hload.
  - unfold unload_fiber, active. destruct (fiber s) as [i|]; [|discriminate].
    destruct (caller_of (callers s) i); discriminate.
  - unfold capture_upvalue, active. destruct (fiber s) as [i|]; discriminate.
Qed.

(* T `capture_owner_is_active`: capture_upvalue reads the fiber whose stack holds the captured slot through the build's
   representation and the owner it records in the new upvalue through the cell.  In every build, after every history,
   the two are the same fiber: the mixed use of both representations inside one function cannot be observed. *)
Theorem capture_owner_is_active : forall cell ops a o s',
  fstep cell OCapture (snd (frun cell ops f_init)) = (FCaptured a o, s') -> a = o.
Proof.
  intros cell ops a o s' E.
  pose proof (fiber_ptr_inv cell ops) as H. set (s := snd (frun cell ops f_init)) in *.
  cbn [fstep] in E. unfold capture_upvalue, active in E. destruct cell.
  - destruct (fiber s) as [i|]; [|discriminate]. inversion E; reflexivity.
  - destruct (unsafe_fiber s) as [p|] eqn:Ep; destruct (fiber s) as [i|] eqn:Ef; try discriminate.
    destruct (N.eqb p i) eqn:Epi; [|discriminate]. inversion E; subst. apply N.eqb_eq in Epi. exact Epi.
Qed.

(* T `fiber_repr_equiv`: on every operation sequence on which the borrow-checked representation does not
   panic (no access to the active fiber while there is none), reading through the raw pointer gives the
   same results and the same state, and never dereferences a null or stale pointer. *)
Theorem fiber_repr_equiv : forall ops s, ptr_ok s ->
  ~ In FPanic (fst (frun true ops s)) ->
  frun false ops s = frun true ops s /\ ~ In FUB (fst (frun false ops s)).
Proof.
  induction ops as [|o rest IH]; intros s H Hp.
  - cbn. split; auto.
  - cbn [frun] in *.
    assert (Hs : fst (fstep true o s) <> FPanic).
    { intros E. apply Hp. destruct (fstep true o s) as [r s']. cbn in E. subst r. cbn. left; reflexivity. }
    rewrite (fstep_agree o s H Hs).
    pose proof (ptr_ok_step true o s H) as H1.
    pose proof (checked_never_ub o s) as Hub.
    destruct (fstep true o s) as [r s'] eqn:E. cbn [fst snd] in *.
    destruct (fstops r) eqn:Est.
    + split; auto. cbn. intros [F|[]]. subst r. apply Hub; reflexivity.
    + assert (Hrest : ~ In FPanic (fst (frun true rest s'))).
      { intros F. apply Hp. destruct (frun true rest s') as [rs s'']. cbn in *. right; exact F. }
      destruct (IH s' H1 Hrest) as [IHe IHu]. rewrite IHe in *.
      destruct (frun true rest s') as [rs s'']. cbn [fst] in *. split; auto.
      intros [F|F]; [subst r; discriminate | contradiction].
Qed.

(* main fiber 1 calls fiber 2, which calls fiber 3; 3 yields, 2 yields, 1 calls 2 again (ping-pong); a second
   `execute` starts over with fiber 4 *)
Example ex_fiber_equiv :
  let ops := [OExecute 1 true; OLoad 2; OLoad 3; OUnload; OUnload; OLoad 2; OUnload; OUnload;
              OExecute 4 true; OLoad 2; OLoad 2] in
  frun false ops f_init = frun true ops f_init /\
  fst (frun true ops f_init) =
    [FOk; FOk; FOk; FOk; FOk; FOk; FOk; FErr "Cannot yield from module-level code."; FOk; FOk;
     FErr "Cannot call a fiber that has already been called."] /\
  fiber (snd (frun false ops f_init)) = Some 2 /\ unsafe_fiber (snd (frun false ops f_init)) = Some 2 /\
  fst (frun false [OExecute 1 true; OCapture; OLoad 2; OCapture; OUnload; OCapture] f_init) =
    [FOk; FCaptured 1 1; FOk; FCaptured 2 2; FOk; FCaptured 1 1].
Proof. repeat split; vm_compute; reflexivity. Qed.

(* the two representations differ exactly where the checked one panics: an access with no active fiber *)
Example ex_fiber_misuse :
  fst (frun true [OUnload] f_init) = [FPanic] /\ fst (frun false [OUnload] f_init) = [FUB] /\
  fst (frun true [OExecute 1 true; OExecute 2 false; OUnload] f_init) = [FOk; FErr "Expected n arguments but found m."; FPanic] /\
  fst (frun false [OExecute 1 true; OExecute 2 false; OUnload] f_init) = [FOk; FErr "Expected n arguments but found m."; FUB].
Proof. repeat split; vm_compute; reflexivity. Qed.

Print Assumptions fiber_ptr_inv.
Print Assumptions fiber_ptr_eq_after_ok.
Print Assumptions fiber_repr_equiv.
Print Assumptions capture_owner_is_active.

(* ================================================================================================ *)
(* 3. Configurations *)

Theorem config_of_build_dev_all_checked : forall features, config_of_build true features = all_checked.
Proof. intros; reflexivity. Qed.

Theorem config_of_build_release_plain : config_of_build false [] = all_raw.
Proof. reflexivity. Qed.

Lemma config_eqb_eq : forall a b, config_eqb a b = true <-> a = b.
Proof.
  intros [a1 a2 a3 a4 a5] [b1 b2 b3 b4 b5]. unfold config_eqb; cbn.
  rewrite !andb_true_iff, !eqb_true_iff. split.
  - intros [[[[-> ->] ->] ->] ->]. reflexivity.
  - intros E; inversion E; auto.
Qed.

(* T `configs_count`: 32 release feature mixes + the dev build = 33 builds; every one of the 2^5 vectors of
   fork choices is produced by exactly one release mix; the dev build coincides (as a vector) with the
   release build that has all five switches on. *)
Theorem configs_count :
  List.length release_mixes = 32%nat /\ List.length all_builds = 33%nat /\
  List.length all_configs = 32%nat /\
  (forall c, List.length (filter (config_eqb c) (map (config_of_build false) release_mixes)) = 1%nat) /\
  (forall c, In c all_configs) /\
  config_of_build true [] = config_of_build false five_features.
Proof.
  repeat split; try reflexivity.
  - intros [[] [] [] [] []]; vm_compute; reflexivity.
  - intros [[] [] [] [] []]; vm_compute; tauto.
Qed.

Corollary every_config_is_built : forall c, exists fs, In fs release_mixes /\ config_of_build false fs = c.
Proof.
  intros c. destruct configs_count as [_ [_ [_ [H _]]]]. specialize (H c).
  destruct (filter (config_eqb c) (map (config_of_build false) release_mixes)) as [|x r] eqn:E; [discriminate|].
  assert (Hin : In x (filter (config_eqb c) (map (config_of_build false) release_mixes))) by (rewrite E; left; auto).
  apply filter_In in Hin as [Hin Heq]. apply in_map_iff in Hin as [fs [Hfs Hi]].
  apply config_eqb_eq in Heq. exists fs. split; auto. congruence.
Qed.

Print Assumptions config_of_build_dev_all_checked.
Print Assumptions configs_count.

(* ================================================================================================ *)
(* 4. gc fork: = C01's schedule_independence, for the two pacing policies *)
Section GcFork.
  Import Heap HeapTablesRef Collect Mutator MutatorProofs.

  (* With tables in which every reference a box holds is traced (HeapTablesRef.marks_fixed = today's tables +
     HashMap keys, superclass link, open upvalue slot; bound methods not re-greyed), a mutator program
     observes the same thing under the collection schedule of ANY two configurations: collect-always
     (dev / debug_stress_gc) and whatever the threshold arithmetic of a paced build decides. *)
  Theorem gc_config_irrelevant : forall nregs (p : list mop) (c1 c2 : config) (paced1 paced2 : list bool),
    let run := Mutator.run marks_fixed blackens_black_fixed blackens_mark_fixed holds_ref pinned_ref in
    run nregs (gc_schedule c1 paced1 (List.length p)) p = run nregs (gc_schedule c2 paced2 (List.length p)) p /\
    has_uaf (run nregs (gc_schedule c1 paced1 (List.length p)) p) = false /\
    has_diverged (run nregs (gc_schedule c1 paced1 (List.length p)) p) = false.
  Proof. intros. apply schedule_independence_fixed. Qed.

  (* For TODAY's tables (marks_ref) the gc fork is observable: the tuple that is reachable only as a map key
     is reclaimed by the collect-always build and survives in a paced build that has not reached its
     threshold (known classes map_key_untraced / gc_bound_method_regrey of C01). *)
  Theorem gc_config_relevant_today_refuted : exists nregs p paced,
    let run := Mutator.run marks_ref blackens_black_ref blackens_mark_ref holds_ref pinned_ref in
    run nregs (gc_schedule all_checked paced (List.length p)) p <> run nregs (gc_schedule all_raw paced (List.length p)) p /\
    has_uaf (run nregs (gc_schedule all_checked paced (List.length p)) p) = true /\
    has_uaf (run nregs (gc_schedule all_raw paced (List.length p)) p) = false.
  Proof.
    exists 4%nat, prog_key, []. split; [|split]; vm_compute; [discriminate | reflexivity | reflexivity].
  Qed.
End GcFork.

Print Assumptions gc_config_irrelevant.
Print Assumptions gc_config_relevant_today_refuted.

(* ================================================================================================ *)
(* 5. opcode fork: verified code never reaches the `unreachable_unchecked` arm of run() *)
Section Dispatch.
  Import Bytecode Skeleton Verifier VerifierProofs.

  Lemma decode_at_known_opcode : forall get p f q r,
    decode_at get p f q = Some r ->
    exists byte o, get q = Some byte /\ opcode_of_N byte = Some o.
  Proof.
    intros get p f q r. unfold decode_at.
    destruct (get q) as [b|] eqn:Eb; [|discriminate].
    destruct (opcode_of_N b) as [o|] eqn:Eo; [|discriminate].
    intros _. exists b, o. split; [reflexivity | exact Eo].
  Qed.

  (* T `dispatch_assumed_ok`: at every pc the skeleton semantics reaches in code accepted by the checker, the
     byte the interpreter fetches is inside the function's code and is the number of a known opcode: the
     `_ =>` arm of run() (panic!("Unknown opcode") | unreachable_unchecked()) is never selected, so the
     opcodes fork cannot be observed. *)
  Theorem dispatch_assumed_ok : forall b p f a, check_fn b p f a = true ->
    forall s, reachable b p f s ->
    exists byte o, byte_at (code f) (Skeleton.pc s) = Some byte /\ opcode_of_N byte = Some o /\
                   (Skeleton.pc s < code_len f)%N.
  Proof.
    intros b p f a Hc s Hr.
    destruct (decode_in_bounds b p f a Hc s Hr) as [i [nx [E [H1 H2]]]].
    unfold decode in E. destruct (decode_at_known_opcode _ _ _ _ _ E) as [byte [o [Hb Ho]]].
    exists byte, o. repeat split; auto. lia.
  Qed.
End Dispatch.

Print Assumptions dispatch_assumed_ok.
