(* C09 - Spec S: asymmetric coroutines with value hand-over.  Definitions only.

   A coroutine owns its locals, its parameter, the rest of its script and its stack of open `try`
   handlers.  `s_resume` hands a value to a coroutine and runs it; `s_suspend` hands a value back to the
   coroutine that resumed it; `s_finish` does the same once and for all.  Nothing else moves values
   between coroutines (captured variables apart: see FiberLang.v).

   (obs) arity rule, read off core.rs `fiber_call`/object.rs `is_new`: the EXACT parameter count is
   demanded as long as the callee has not saved a resume point yet (`c_fresh`): a new fiber, or a fiber
   in its first stretch that calls itself before having switched or called a function; afterwards at
   most one argument.  Definitional (Appendix C of DESIGN.md), reproduced here. *)
From Coq Require Import List ZArith Bool Arith.
From YV Require Import FiberBase.
Import ListNotations.

Inductive status :=
| SNew
| SRunning
| SCalling (dst : option var)       (* resumed somebody, waits for the value handed back *)
| SSuspended (dst : option var)     (* yielded, waits for the value of the pending yield expression *)
| SDone.

Record coro := mkCoro {
  c_status : status;
  c_fresh : bool;
  c_hasparam : bool;
  c_param : value;
  c_locals : locals;
  c_code : list action;
  c_handlers : list (list action);  (* catch continuations of the open try blocks, innermost first *)
  c_back : option nat }.            (* who resumed me *)

Record sstate := mkS {
  s_cur : nat;
  s_co : nat -> coro;
  s_caps : nat -> option var;       (* which local of coroutine k the global closures g_k/s_k capture *)
  s_out : list event }.             (* newest first *)

Definition set_status st (c : coro) :=
  mkCoro st (c_fresh c) (c_hasparam c) (c_param c) (c_locals c) (c_code c) (c_handlers c) (c_back c).
Definition set_fresh b (c : coro) :=
  mkCoro (c_status c) b (c_hasparam c) (c_param c) (c_locals c) (c_code c) (c_handlers c) (c_back c).
Definition set_param v (c : coro) :=
  mkCoro (c_status c) (c_fresh c) (c_hasparam c) v (c_locals c) (c_code c) (c_handlers c) (c_back c).
Definition set_locals l (c : coro) :=
  mkCoro (c_status c) (c_fresh c) (c_hasparam c) (c_param c) l (c_code c) (c_handlers c) (c_back c).
Definition set_code k (c : coro) :=
  mkCoro (c_status c) (c_fresh c) (c_hasparam c) (c_param c) (c_locals c) k (c_handlers c) (c_back c).
Definition set_handlers h (c : coro) :=
  mkCoro (c_status c) (c_fresh c) (c_hasparam c) (c_param c) (c_locals c) (c_code c) h (c_back c).
Definition set_back b (c : coro) :=
  mkCoro (c_status c) (c_fresh c) (c_hasparam c) (c_param c) (c_locals c) (c_code c) (c_handlers c) b.

Definition set_co (s : sstate) co := mkS (s_cur s) co (s_caps s) (s_out s).
Definition set_cur (s : sstate) c := mkS c (s_co s) (s_caps s) (s_out s).
Definition set_caps (s : sstate) cp := mkS (s_cur s) (s_co s) cp (s_out s).
Definition s_emit (e : event) (s : sstate) := mkS (s_cur s) (s_co s) (s_caps s) (e :: s_out s).

Inductive sres := SOk (s : sstate) | SErr (e : ferr) | SStuck.

Definition arity_check (c : coro) (argc : nat) : option ferr :=
  if c_fresh c then
    if Nat.eqb argc (nparams (c_hasparam c)) then None
    else Some (EArityExact (nparams (c_hasparam c)) argc)
  else if Nat.leb argc 1 then None else Some (EArityMost argc).

Definition arg_or_nil (a : option value) : value := match a with Some v => v | None => VNil end.

(* the running coroutine resumes coroutine t, handing over `arg`; the value handed back goes to `dst` *)
Definition s_resume (s : sstate) (t : nat) (argc : nat) (arg : option value) (dst : option var) : sres :=
  let ct := s_co s t in
  match arity_check ct argc with
  | Some e => SErr e
  | None =>
    let me := s_cur s in
    let co1 := upd me (set_fresh false (set_status (SCalling dst) (s_co s me))) (s_co s) in
    match c_status ct with
    | SDone => SErr EFinished
    | SRunning | SCalling _ => SErr EAlreadyCalled
    | SNew =>
      SOk (set_cur (set_co s (upd t (set_back (Some me) (set_status SRunning (set_param (arg_or_nil arg) (co1 t)))) co1)) t)
    | SSuspended d =>
      SOk (set_cur (set_co s (upd t (set_back (Some me) (set_status SRunning
                                      (set_locals (set_dst d (arg_or_nil arg) (c_locals (co1 t))) (co1 t)))) co1)) t)
    end
  end.

(* hand `v` back to the coroutine that resumed the running one, which continues; the running one
   becomes `st` (suspended at a yield, or done) *)
Definition s_handback (s : sstate) (v : value) (st : status) : sres :=
  let me := s_cur s in
  match c_back (s_co s me) with
  | None => SErr EYieldOutside
  | Some b =>
    let co1 := upd me (set_fresh false (set_back None (set_status st (s_co s me)))) (s_co s) in
    match c_status (co1 b) with
    | SCalling d =>
      SOk (set_cur (set_co s (upd b (set_status SRunning (set_locals (set_dst d v (c_locals (co1 b))) (co1 b))) co1)) b)
    | _ => SStuck
    end
  end.

Definition s_suspend (s : sstate) (v : value) (dst : option var) : sres := s_handback s v (SSuspended dst).
Definition s_finish (s : sstate) (v : value) : sres := s_handback s v SDone.

Definition is_done (c : coro) : bool := match c_status c with SDone => true | _ => false end.
