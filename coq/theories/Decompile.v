(* C05 — postfix code back to a tree, for the JUMP-FREE expression fragment.  DEFINITIONS ONLY.

   Not every tree is recoverable: `a != b` and `!(a == b)` compile to the same code (likewise
   `<=` / `!(a > b)` and `>=` / `!(a < b)`), and `x op= e` compiles to the code of `x = x op e`.
   [decompile] answers the first of each pair; [decompilable] describes the trees it gets back. *)
From Coq Require Import Strings.String.
From Coq Require Import List NArith ZArith Bool Arith.
From Coq Require Import Strings.Byte Floats.SpecFloat.
From YV Require Import Ast Num Bytecode CompileExpr.
Import ListNotations.
Local Open Scope nat_scope.
Local Open Scope list_scope.

(* an entry of the symbolic operand stack: a plain value, or one that went through FormatString *)
Inductive ditem :=
| DE (e : expr)
| DF (e : expr).

Definition name_of_slot (env : cenv) (k : N) : option name :=
  nth_error (rev (map fst (clocals env))) (N.to_nat k).

Fixpoint take_exprs (n : nat) (stk : list ditem) (acc : list expr) : option (list expr * list ditem) :=
  match n with
  | O => Some (acc, stk)
  | S n' =>
    match stk with
    | DE e :: r => take_exprs n' r (e :: acc)
    | _ => None
    end
  end.

Fixpoint take_parts (n : nat) (stk : list ditem) (acc : list interp_part)
  : option (list interp_part * list ditem) :=
  match n with
  | O => Some (acc, stk)
  | S n' =>
    match stk with
    | DE (EStr s) :: r => take_parts n' r (IPStr s :: acc)
    | DF e :: r => take_parts n' r (IPExpr e :: acc)
    | _ => None
    end
  end.

Definition dbinop (o : opcode) : option binop :=
  match o with
  | OpEqual => Some BEq | OpGreater => Some BGt | OpLess => Some BLt
  | OpAdd => Some BAdd | OpSubtract => Some BSub | OpMultiply => Some BMul
  | OpDivide => Some BDiv | OpBitwiseAnd => Some BBitAnd | OpBitwiseOr => Some BBitOr
  | OpBitwiseXor => Some BBitXor | OpModulo => Some BMod
  | OpBitShiftLeft => Some BShl | OpBitShiftRight => Some BShr
  | _ => None
  end.

Definition dnot (e : expr) : expr :=
  match e with
  | EBinary BEq a b => EBinary BNe a b
  | EBinary BGt a b => EBinary BLe a b
  | EBinary BLt a b => EBinary BGe a b
  | _ => EUnary UNot e
  end.

Definition dstep (env : cenv) (i : instr) (stk : list ditem) : option (list ditem) :=
  match i with
  | IConst (CNum x) => Some (DE (ENum x) :: stk)
  | IConst (CStr s) => Some (DE (EStr s) :: stk)
  | ITouch _ => Some stk
  | IOp OpNil => Some (DE ENil :: stk)
  | IOp OpTrue => Some (DE ETrue :: stk)
  | IOp OpFalse => Some (DE EFalse :: stk)
  | IOp OpLogicalNot => match stk with DE e :: r => Some (DE (dnot e) :: r) | _ => None end
  | IOp OpNegate => match stk with DE e :: r => Some (DE (EUnary UNeg e) :: r) | _ => None end
  | IOp OpBitwiseNot => match stk with DE e :: r => Some (DE (EUnary UBitNot e) :: r) | _ => None end
  | IOp OpBuildRange =>
    match stk with DE b :: DE a :: r => Some (DE (ERange a b) :: r) | _ => None end
  | IOp OpGetItem =>
    match stk with DE i' :: DE o :: r => Some (DE (EIndex o i') :: r) | _ => None end
  | IOp OpSetItem =>
    match stk with DE v :: DE i' :: DE o :: r => Some (DE (ESetIndex o i' v) :: r) | _ => None end
  | IOp OpFormatString => match stk with DE e :: r => Some (DF e :: r) | _ => None end
  | IOp o =>
    match dbinop o with
    | Some op => match stk with DE b :: DE a :: r => Some (DE (EBinary op a b) :: r) | _ => None end
    | None => None
    end
  | IOp8 OpGetLocal k =>
    match name_of_slot env k with Some x => Some (DE (EVar x) :: stk) | None => None end
  | IOp8 OpSetLocal k =>
    match name_of_slot env k, stk with
    | Some x, DE e :: r => Some (DE (EAssign x e) :: r)
    | _, _ => None
    end
  | IOp8 OpBuildString n =>
    match take_parts (N.to_nat n) stk [] with
    | Some (ps, r) => Some (DE (EInterp ps) :: r)
    | None => None
    end
  | IOp8 OpBuildTuple n =>
    match take_exprs (N.to_nat n) stk [] with
    | Some (es, r) => Some (DE (ETuple es) :: r)
    | None => None
    end
  | IOp8 OpBuildVec n =>
    match take_exprs (N.to_nat n) stk [] with
    | Some (es, r) => Some (DE (EVec es) :: r)
    | None => None
    end
  | IOp8 OpCall n =>
    match take_exprs (N.to_nat n) stk [] with
    | Some (es, DE f :: r) => Some (DE (ECall f es) :: r)
    | _ => None
    end
  | IOp8 _ _ => None
  | IGlobal OpGetGlobal x => Some (DE (EVar x) :: stk)
  | IGlobal OpSetGlobal x => match stk with DE e :: r => Some (DE (EAssign x e) :: r) | _ => None end
  | IGlobal _ _ => None
  | IJump _ _ | ILoop _ => None
  end.

Fixpoint decomp (env : cenv) (c : list instr) (stk : list ditem) : option (list ditem) :=
  match c with
  | [] => Some stk
  | i :: r => match dstep env i stk with Some stk' => decomp env r stk' | None => None end
  end.

Definition decompile (env : cenv) (c : list instr) : option expr :=
  match decomp env c [] with
  | Some [DE e] => Some e
  | _ => None
  end.

(* the trees [decompile] gets back *)
Definition not_ambiguous (e : expr) : bool :=
  match e with
  | EBinary BEq _ _ | EBinary BGt _ _ | EBinary BLt _ _ => false
  | _ => true
  end.

Fixpoint decompilable (e : expr) {struct e} : bool :=
  match e with
  | ENil | ETrue | EFalse | ENum _ | EStr _ | EVar _ => true
  | EInterp parts =>
    (fix go (ps : list interp_part) : bool :=
       match ps with
       | [] => true
       | IPStr _ :: r => go r
       | IPExpr e1 :: r => decompilable e1 && go r
       end) parts
  | EAssign _ e1 => decompilable e1
  | EUnary UNot e1 => not_ambiguous e1 && decompilable e1
  | EUnary _ e1 => decompilable e1
  | EBinary _ a b | ERange a b | EIndex a b => decompilable a && decompilable b
  | ECall f args => decompilable f && forallb decompilable args
  | ESetIndex o i e1 => decompilable o && decompilable i && decompilable e1
  | ETuple es | EVec es => forallb decompilable es
  | _ => false          (* && || op= : jumps / ambiguous; everything outside the fragment *)
  end.
