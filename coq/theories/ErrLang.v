(* C17 - mini-language of failing programs, ONE STATEMENT PER LINE.  DEFINITIONS ONLY.

   A program is a chain of bodies B0 .. Bn (n <= 5): B0 is the main script; every other body is a function,
   a method, a lambda, a lambda run as a fiber, or the body of an imported module.  Bj calls B(j+1) on a
   chosen line; Bn fails on a chosen line with a chosen failure.  Optionally a body first catches an
   exception of its own on other lines (stale positions), wraps its call in try/finally, and one body may
   catch the failure and print `type(e)` and `e.context`.

     render     : prog -> the yarel sources (main + imported modules)
     eval_spec  : prog -> what the property demands (kind, printed lines, messages), read off the program
     eval_mech  : prog -> the same through the mechanism model of Lines.v: the operations the VM performs
                  (calls with saved ips, throw / built-in failure, unwinding, re-raise) with the shape flags
                  regenerated from vm.rs, the generated ErrorKind <-> class tables, the format templates.
   Line tables are abstract: one code slot per source line of the function (every token of a one-line
   statement is on that line, so `previous.line` is that line for every byte the statement emits). *)
From Coq Require Import List String Ascii NArith Bool Arith.
From Coq Require Import Strings.Byte.
From YV Require Import Show Wire Scanner Parser ParseRun Lines LinesSpec.
From YVGen Require Import Consts ErrKinds UnwindArms.
Import ListNotations.
Local Open Scope list_scope.
Local Open Scope nat_scope.
Local Open Scope string_scope.
Infix "+++" := List.app (at level 60, right associativity).

Inductive bkind := KScript | KFn | KMethod | KLambda | KFiber.

Record body := mkBody {
  b_kind : bkind;
  b_pre : nat;          (* filler statements before anything else *)
  b_stale : nat;        (* 0: none; 1: a caught `throw` first; 2: a caught VM failure; 3: a caught native failure *)
  b_fin : bool          (* the call / failing statement is wrapped in try { } finally { } *)
}.

Record prog := mkProg {
  p_bodies : list body;       (* B0 (main script) first *)
  p_fail : nat;               (* failure code, see `failure_of` *)
  p_arg : nat;                (* argument of the failure (code of the rethrown failure) *)
  p_catch : option nat        (* index of the body that catches *)
}.

Definition nl : string := String "010" EmptyString.
Definition q : string := String """" EmptyString.
Definition sn (n : nat) : string := show_nat n.

(* ------------------------------------------------------------------ *)
(* failures *)

(* a module that does not compile (the error is on its line 2) *)
Definition bad_src : string := "var a = 1;" ++ nl ++ "var = 2;" ++ nl.
Definition bad_msg : string :=
  match compile_error_message "bad" (parse_source (list_byte_of_string bad_src)) with
  | Some m => m | None => "?no compile error?" end.

(* simple failures: one statement, raised by the VM or a native (OFail): (statement, kind, context) *)
Definition simple_failure (c : nat) : option (string * string * string) :=
  match c with
  | 0 => Some ("undefined_v;", "NameError", "Undefined variable 'undefined_v'.")
  | 1 => Some ("1 + nil;", "TypeError", "Binary operands must be two numbers or two strings.")
  | 2 => Some ("nil();", "TypeError", "Can only call functions and methods.")
  | 3 => Some ("(|| 1)(2);", "TypeError", "Expected 0 arguments but found 1.")
  | 4 => Some ("true.zz;", "AttributeError", "Undefined property 'zz'.")
  | 5 => Some ("[][0];", "IndexError", "Vec index out of bounds.")
  | 6 => Some (q ++ "x" ++ q ++ ".find(" ++ q ++ q ++ ", 0);", "ValueError", "Cannot find empty string.")
  | 7 => Some ("var hm = {[1]: 2};", "ValueError", "Cannot use unhashable value '[1]' as HashMap key.")
  | 8 => Some ("import " ++ q ++ "nomod" ++ q ++ ";", "ImportError",
               "Unable to read file 'nomod.yl' (file not found).")
  | 9 => Some ("Fiber.yield(1);", "RuntimeError", "Cannot yield from module-level code.")
  | 10 => Some ("raise_AttributeError();", "AttributeError", "boom")
  | 11 => Some ("raise_CompileError();", "CompileError", "boom")
  | 12 => Some ("raise_ImportError();", "ImportError", "boom")
  | 13 => Some ("raise_IndexError();", "IndexError", "boom")
  | 14 => Some ("raise_NameError();", "NameError", "boom")
  | 15 => Some ("raise_RuntimeError();", "RuntimeError", "boom")
  | 16 => Some ("raise_TypeError();", "TypeError", "boom")
  | 17 => Some ("raise_ValueError();", "ValueError", "boom")
  | 18 => Some ("raise_multi();", "TypeError", "boom" ++ nl ++ "bam")
  | 19 => Some ("import " ++ q ++ "bad" ++ q ++ ";", "ImportError",
                "Error compiling module:" ++ nl ++ "    " ++ bad_msg)
  | 30 => Some (q ++ "1x2" ++ q ++ ".to_num();", "ValueError", "Unable to parse number from '1x2'.")
  | 31 => Some (q ++ "x" ++ q ++ ".len(1);", "TypeError", "Expected 0 parameters but found 1.")
  | _ => None
  end.

(* which of the two sites turns the failure into an exception: the Err arm of call_native (the statement
   fails inside a native function) or try_handle_error (the VM itself) *)
Definition site_of_simple (c : nat) : fsite :=
  match c with
  | 6 | 9 | 10 | 11 | 12 | 13 | 14 | 15 | 16 | 17 | 18 | 30 | 31 => SiteNative
  | _ => SiteVm
  end.

(* what is thrown: an instance of a core error class made by the VM for ErrorKind k, an instance of
   another class, or a plain value *)
Inductive thrown :=
| TKind (k : string) (ctx : string)                 (* VM / native failure of kind k *)
| TInstance (cls : string) (ctx : string)           (* user-made instance with a context field *)
| TValue (cls : string) (display : string).         (* not an instance *)

Record failure := mkFailure {
  f_prep : list string;        (* statements before the failing one, in the same body *)
  f_stmt : string;             (* the failing statement *)
  f_thrown : thrown;
  f_site : option fsite;       (* None: raised by a `throw` statement; else by the VM / a native *)
  f_prep_site : fsite;         (* site of the failure caught in the preparation (f_prep_fail) *)
  f_prep_fail : option nat     (* offset in f_prep of a statement that fails and is caught there *)
}.

Definition failure_of (code arg : nat) : option failure :=
  match code with
  | 20 => Some (mkFailure ["var fz = Fiber.new(|| 1);"; "fz.call();"] "fz.call();"
                          (TKind "RuntimeError" "Cannot call a finished fiber.") (Some SiteNative) SiteVm None)
  | 21 => None   (* stack overflow: handled separately *)
  | 22 => match simple_failure arg with
          | Some (st, k, ctx) =>
            Some (mkFailure ["var sv = nil;"; "try {"; st; "} catch e {"; "sv = e;"; "}"] "throw sv;"
                            (TKind k ctx) None (site_of_simple arg) (Some 2))
          | None => None
          end
  | 23 => Some (mkFailure [] ("throw Error.new(" ++ q ++ "base" ++ q ++ ");") (TInstance "Error" "base") None SiteVm None)
  | 24 => Some (mkFailure ["#[constructor(new), derive(ValueError)] class Sub {}"; "var se = Sub.new();";
                           "se.context = " ++ q ++ "sub" ++ q ++ ";"] "throw se;"
                          (TInstance "Sub" "sub") None SiteVm None)
  | 25 => Some (mkFailure [] "throw 7;" (TValue "Num" "7") None SiteVm None)
  | 26 => Some (mkFailure [] ("throw " ++ q ++ "s" ++ q ++ ";") (TValue "String" "s") None SiteVm None)
  | 27 => Some (mkFailure [] ("throw " ++ q ++ "a\nb" ++ q ++ ";") (TValue "String" ("a" ++ nl ++ "b")) None SiteVm None)
  | 28 => Some (mkFailure [] "throw [1, 2];" (TValue "Vec" "[1, 2]") None SiteVm None)
  | 29 => Some (mkFailure [] "throw nil;" (TValue "Nil" "nil") None SiteVm None)
  | c => match simple_failure c with
         | Some (st, k, ctx) => Some (mkFailure [] st (TKind k ctx) (Some (site_of_simple c)) SiteVm None)
         | None => None
         end
  end.

Definition OVERFLOW : nat := 21.
Definition overflow_thrown : thrown := TKind "IndexError" "Stack overflow.".

(* ------------------------------------------------------------------ *)
(* layout *)

Definition bname (j : nat) (k : bkind) : string :=
  match k with
  | KFn => "f" ++ sn j | KMethod => "m" ++ sn j | _ => "l" ++ sn j
  end.

Definition header (j : nat) (k : bkind) : list string :=
  match k with
  | KScript => []
  | KFn => ["fn f" ++ sn j ++ "() {"]
  | KMethod => ["#[constructor(new)] class C" ++ sn j ++ " {"; "fn m" ++ sn j ++ "(self) {"]
  | KLambda | KFiber => ["var l" ++ sn j ++ " = || {"]
  end.
Definition footer (k : bkind) : list string :=
  match k with
  | KScript => []
  | KFn => ["}"]
  | KMethod => ["}"; "}"]
  | KLambda | KFiber => ["};"]
  end.

(* the statement of body j-1 that enters body j *)
Definition call_stmt (j : nat) (k : bkind) : string :=
  match k with
  | KScript => "import " ++ q ++ "m" ++ sn j ++ q ++ ";"
  | KFn => "f" ++ sn j ++ "();"
  | KMethod => "C" ++ sn j ++ ".new().m" ++ sn j ++ "();"
  | KLambda => "l" ++ sn j ++ "();"
  | KFiber => "Fiber.new(l" ++ sn j ++ ").call();"
  end.

Fixpoint fillers (j n : nat) : list string :=
  match n with
  | O => []
  | S m => fillers j m +++ ["var p" ++ sn j ++ "x" ++ sn m ++ " = " ++ sn m ++ ";"]
  end.

Definition stale_block (s : nat) : list string :=
  match s with
  | 0 => []
  | 1 => ["try {"; "throw 7;"; "} catch e {"; "}"]
  | 2 => ["try {"; "nil();"; "} catch e {"; "}"]
  | _ => ["try {"; q ++ "x" ++ q ++ ".len(1);"; "} catch e {"; "}"]
  end.

Inductive wrap := WNone | WFinally | WCatch (instance : bool).

Definition wrap_close (j : nat) (w : wrap) : list string :=
  match w with
  | WNone => []
  | WFinally => ["} finally {"; "print(" ++ q ++ "fin" ++ sn j ++ q ++ ");"; "}"]
  | WCatch inst => ["} catch e {"; "print(type(e));"; if inst then "print(e.context);" else "print(e);"; "}"]
  end.

(* content of a body (without header / footer) and the offsets of its notable lines *)
Record content := mkContent {
  c_lines : list string;
  c_stale : nat;        (* offset of the statement raised in the stale block *)
  c_stale_catch : nat;  (* offset of its `} catch e {` *)
  c_prep : nat;         (* offset of the first preparation statement *)
  c_action : nat;       (* offset of the call / failing statement *)
  c_handler : nat;      (* offset of `} finally {` / `} catch e {` *)
  c_end : nat           (* offset of the `}` that ends the finally block *)
}.

Definition mk_content (j : nat) (b : body) (prep : list string) (action : string) (w : wrap) : content :=
  let pre := fillers j (b_pre b) in
  let st := stale_block (b_stale b) in
  let open := match w with WNone => [] | _ => ["try {"] end in
  let a := List.length pre + List.length st + List.length prep + List.length open in
  mkContent (pre +++ st +++ prep +++ open +++ [action] +++ wrap_close j w +++ ["var q" ++ sn j ++ " = 0;"])
            (List.length pre + 1) (List.length pre + 2) (List.length pre + List.length st)
            a (a + 1) (a + 3).

(* ------------------------------------------------------------------ *)
(* the analysed program *)

Definition is_instance (t : thrown) : bool := match t with TValue _ _ => false | _ => true end.

Record info := mkInfo {
  i_body : body;
  i_content : content;
  i_wrap : wrap;
  i_seg : nat;          (* index of the module body this body's text lives in (0 = main) *)
  i_base : nat;         (* index of the body at the base of the fiber this body runs in *)
  i_start : nat;        (* 1-based line of the first line of its block (header) in its module *)
  i_lambda : nat        (* lambda-N number for lambda bodies *)
}.

Definition nth_body (p : prog) (j : nat) : body := nth j (p_bodies p) (mkBody KScript 0 0 false).
Definition last_index (p : prog) : nat := List.length (p_bodies p) - 1.

Definition the_failure (p : prog) : option failure :=
  if Nat.eqb (p_fail p) OVERFLOW then
    (* the failing body calls itself (a fiber body: the lambda it runs, inside the same fiber) *)
    let k := match b_kind (nth_body p (last_index p)) with KFiber => KLambda | k => k end in
    Some (mkFailure [] (call_stmt (last_index p) k) overflow_thrown (Some SiteVm) SiteVm None)
  else failure_of (p_fail p) (p_arg p).

Definition wrap_of (p : prog) (f : failure) (j : nat) : wrap :=
  match p_catch p with
  | Some c => if Nat.eqb c j then WCatch (is_instance (f_thrown f))
              else if b_fin (nth_body p j) then WFinally else WNone
  | None => if b_fin (nth_body p j) then WFinally else WNone
  end.

Definition content_of (p : prog) (f : failure) (j : nat) : content :=
  let b := nth_body p j in
  if Nat.eqb j (last_index p) then mk_content j b (f_prep f) (f_stmt f) (wrap_of p f j)
  else mk_content j b [] (call_stmt (S j) (b_kind (nth_body p (S j)))) (wrap_of p f j).

Fixpoint seg_of (bs : list body) (j : nat) (cur idx : nat) : nat :=
  match bs with
  | [] => cur
  | b :: r =>
    let cur' := match b_kind b with KScript => idx | _ => cur end in
    if Nat.eqb idx j then cur' else seg_of r j cur' (S idx)
  end.
Fixpoint base_of (bs : list body) (j : nat) (cur idx : nat) : nat :=
  match bs with
  | [] => cur
  | b :: r =>
    let cur' := match b_kind b with KFiber => idx | _ => cur end in
    if Nat.eqb idx j then cur' else base_of r j cur' (S idx)
  end.

Definition is_lambda (k : bkind) : bool := match k with KLambda | KFiber => true | _ => false end.

Definition block_len (p : prog) (f : failure) (j : nat) : nat :=
  let k := b_kind (nth_body p j) in
  List.length (header j k) + List.length (c_lines (content_of p f j)) + List.length (footer k).

(* bodies of segment s other than s itself, INNERMOST FIRST: that is the order of their definitions *)
Definition seg_members (p : prog) (s : nat) : list nat :=
  rev (filter (fun j => Nat.eqb (seg_of (p_bodies p) j 0 0) s && negb (Nat.eqb j s)) (seq 0 (List.length (p_bodies p)))).

Fixpoint sum_before (p : prog) (f : failure) (l : list nat) (j : nat) : nat :=
  match l with
  | [] => 0
  | x :: r => if Nat.eqb x j then 0 else block_len p f x + sum_before p f r j
  end.
Fixpoint lambdas_before (p : prog) (l : list nat) (j : nat) : nat :=
  match l with
  | [] => 0
  | x :: r => if Nat.eqb x j then 0
              else (if is_lambda (b_kind (nth_body p x)) then 1 else 0) + lambdas_before p r j
  end.
Definition sum_all (p : prog) (f : failure) (l : list nat) : nat :=
  fold_right (fun x acc => block_len p f x + acc) 0 l.

Definition info_of (p : prog) (f : failure) (j : nat) : info :=
  let s := seg_of (p_bodies p) j 0 0 in
  let members := seg_members p s in
  mkInfo (nth_body p j) (content_of p f j) (wrap_of p f j) s (base_of (p_bodies p) j 0 0)
         (if Nat.eqb j s then S (sum_all p f members) else S (sum_before p f members j))
         (lambdas_before p members j).

Definition mod_name (s : nat) : string := match s with O => "main" | _ => "m" ++ sn s end.

(* name shown in a trace entry *)
Definition trace_name (p : prog) (f : failure) (j : nat) : string :=
  match b_kind (nth_body p j) with
  | KScript => ""
  | KFn => "f" ++ sn j
  | KMethod => "m" ++ sn j
  | KLambda | KFiber => "lambda-" ++ sn (i_lambda (info_of p f j))
  end.

Definition hlen (k : bkind) : nat := List.length (header 0 k).

(* absolute (1-based) line, in its module, of the content line at offset `off` of body j *)
Definition abs_line (p : prog) (f : failure) (j off : nat) : nat :=
  let i := info_of p f j in i_start i + hlen (b_kind (i_body i)) + off.

(* ------------------------------------------------------------------ *)
(* validity of a program description *)

Definition has_kind (p : prog) (k : bkind -> bool) (lo hi : nat) : bool :=
  existsb (fun j => k (b_kind (nth_body p j))) (seq lo (S hi - lo)).

Definition uses_native (c : nat) : bool := Nat.leb 10 c && Nat.leb c 18.

Definition valid_prog (p : prog) : bool :=
  let n := last_index p in
  match p_bodies p with
  | [] => false
  | b0 :: rest =>
    (match b_kind b0 with KScript => true | _ => false end)
    && Nat.leb (List.length rest) 5
    && match the_failure p with None => false | Some _ => true end
    && negb (Nat.eqb (p_fail p) 9 && has_kind p (fun k => match k with KFiber => true | _ => false end) 0 n)
    && negb ((uses_native (p_fail p) || (Nat.eqb (p_fail p) 22 && uses_native (p_arg p)))   (* the natives live in "main" only *)
             && has_kind p (fun k => match k with KScript => true | _ => false end) 1 n)
    && negb (Nat.eqb (p_fail p) 22 && (Nat.eqb (p_arg p) 9)
             && has_kind p (fun k => match k with KFiber => true | _ => false end) 0 n)
    && negb (Nat.eqb (p_fail p) OVERFLOW
             && ((match b_kind (nth_body p n) with KScript => true | _ => false end)
                 || b_fin (nth_body p n) || match p_catch p with Some c => Nat.eqb c n | None => false end))
    && match p_catch p with Some c => Nat.leb c n | None => true end
  end.

(* ------------------------------------------------------------------ *)
(* render *)

Fixpoint join_lines (l : list string) : string :=
  match l with [] => EmptyString | x :: r => x ++ nl ++ join_lines r end.

Definition block_text (p : prog) (f : failure) (j : nat) : list string :=
  let k := b_kind (nth_body p j) in
  header j k +++ c_lines (content_of p f j) +++ footer k.

Definition module_text (p : prog) (f : failure) (s : nat) : string :=
  join_lines (flat_map (block_text p f) (seg_members p s) +++ block_text p f s).

Definition segments (p : prog) : list nat :=
  filter (fun j => match b_kind (nth_body p j) with KScript => true | _ => false end)
         (seq 0 (List.length (p_bodies p))).

Definition hex_str (s : string) : string := hex_of_bytes (list_byte_of_string s).

(* "name:hex(source);name:hex(source);..." - main first *)
Definition render (p : prog) : string :=
  match the_failure p with
  | None => "INVALID"
  | Some f =>
    if valid_prog p then
      show_sep ";" (fun s => mod_name s ++ ":" ++ hex_str (module_text p f s)) (segments p)
      ++ ";bad:" ++ hex_str bad_src
    else "INVALID"
  end.

(* ------------------------------------------------------------------ *)
(* shared: what the finally blocks print *)

Definition FRAMES_MAX_nat : nat := N.to_nat FRAMES_MAX.

Fixpoint down_from (hi lo : nat) : list nat :=      (* hi, hi-1, ..., lo  (empty when hi < lo) *)
  match hi with
  | O => if Nat.eqb lo 0 then [0] else []
  | S h => if Nat.ltb hi lo then [] else hi :: (if Nat.eqb hi lo then [] else down_from h lo)
  end.

Definition fin_prints (p : prog) (f : failure) (js : list nat) : list string :=
  flat_map (fun j => match wrap_of p f j with WFinally => ["fin" ++ sn j] | _ => [] end) js.

Definition class_line (c : string) : string := "<class " ++ c ++ ">".

Definition show_result (kind : string) (outs msgs : list string) (extra : string) : string :=
  "R=" ++ kind ++ "|O=" ++ show_sep "," hex_str outs ++ "|M=" ++ show_sep "," hex_str msgs ++ "|" ++ extra.

(* is the catching body in the fiber that is running when the failure happens? *)
Definition caught_by (p : prog) (f : failure) : option nat :=
  let n := last_index p in
  match p_catch p with
  | Some c => if Nat.leb (i_base (info_of p f n)) c then Some c else None
  | None => None
  end.

(* ------------------------------------------------------------------ *)
(* eval_spec *)

Definition core_classes : list string :=
  ["AttributeError"; "ImportError"; "IndexError"; "NameError"; "RuntimeError"; "TypeError"; "ValueError"].

(* class a handler observes, text after "Unhandled ", context text, ErrorKind of the Err *)
Definition spec_thrown (t : thrown) : string * string * string * string :=
  match t with
  | TKind k ctx => let c := if String.eqb k "CompileError" then "RuntimeError" else k in (c, c, ctx, c)
  | TInstance cls ctx =>
    (cls, cls, ctx, if existsb (String.eqb cls) core_classes then cls else "RuntimeError")
  | TValue cls d => (cls, "exception", d, "RuntimeError")
  end.

Definition spec_entry_of (p : prog) (f : failure) (j : nat) : entry :=
  (mod_name (i_seg (info_of p f j)), N.of_nat (abs_line p f j (c_action (content_of p f j))), trace_name p f j).

Definition eval_spec (p : prog) : string :=
  match the_failure p with
  | None => "INVALID"
  | Some f =>
    if negb (valid_prog p) then "INVALID" else
    let n := last_index p in
    let base := i_base (info_of p f n) in
    let '(cls, desc, ctx, kind) := spec_thrown (f_thrown f) in
    match caught_by p f with
    | Some c =>
      show_result "ok"
        (fin_prints p f (down_from n (S c)) +++ [class_line cls; ctx]
         +++ match c with O => [] | S c' => fin_prints p f (down_from c' 0) end) [] "spec"
    | None =>
      (* the innermost call still active when the error is reported: the outermost body of the running
         fiber whose finally block the error passed, else the failing body *)
      let fins := filter (fun j => match wrap_of p f j with WFinally => true | _ => false end)
                         (rev (down_from n base)) in
      let top := match fins with j :: _ => j | [] => n end in
      let copies := if Nat.eqb (p_fail p) OVERFLOW && Nat.eqb top n then FRAMES_MAX_nat - (n - base) - 1 else 0 in
      let tr := repeat (spec_entry_of p f n) copies +++ map (spec_entry_of p f) (down_from top base) in
      show_result kind (fin_prints p f (down_from n base)) (uncaught_messages desc ctx tr) "spec"
    end
  end.

(* ------------------------------------------------------------------ *)
(* eval_mech *)

Definition mech_flags : flags :=
  mkFlags unwind_clears_error_ip_on_catch unwind_rebases_error_ip_on_frame_drop
          failure_records_error_ip_vm failure_records_error_ip_native.

Fixpoint nat_range (lo n : nat) : list N :=
  match n with O => [] | S m => N.of_nat lo :: nat_range (S lo) m end.

(* abstract line table: one slot per line of the function's block (a module body: of the whole file) *)
Definition module_len (p : prog) (f : failure) (s : nat) : nat :=
  sum_all p f (seg_members p s) + block_len p f s.

Definition fd_of (p : prog) (f : failure) (j : nat) : fdesc :=
  let i := info_of p f j in
  match b_kind (i_body i) with
  | KScript => mkFd "" (mod_name (i_seg i)) (nat_range 1 (module_len p f j))
  | _ => mkFd (trace_name p f j) (mod_name (i_seg i)) (nat_range (i_start i) (block_len p f j))
  end.

(* offset after the instruction(s) of the content line at `off` of body j *)
Definition pc_of (p : prog) (f : failure) (j off : nat) : nat :=
  let i := info_of p f j in
  match b_kind (i_body i) with
  | KScript => abs_line p f j off
  | _ => abs_line p f j off - i_start i + 1
  end.

Definition depth (p : prog) (f : failure) (j : nat) : nat := j - i_base (info_of p f j) + 1.

(* `extra` = number of further activations of body j below this one (recursion) *)
Definition stale_ops_at (p : prog) (f : failure) (j extra : nat) : list op :=
  let c := content_of p f j in
  match b_stale (nth_body p j) with
  | 0 => []
  | 1 => [OThrow (pc_of p f j (c_stale c)); OUnwind (depth p f j + extra) true (pc_of p f j (c_stale_catch c))]
  | 2 => [OFail SiteVm (pc_of p f j (c_stale c)); OUnwind (depth p f j + extra) true (pc_of p f j (c_stale_catch c))]
  | _ => [OFail SiteNative (pc_of p f j (c_stale c)); OUnwind (depth p f j + extra) true (pc_of p f j (c_stale_catch c))]
  end.
Definition stale_ops (p : prog) (f : failure) (j : nat) : list op := stale_ops_at p f j 0.

Definition enter_op (p : prog) (f : failure) (j : nat) : op :=      (* body j enters body j+1 *)
  let pc := pc_of p f j (c_action (content_of p f j)) in
  match b_kind (nth_body p (S j)) with
  | KFiber => OFiberCall pc (fd_of p f (S j))
  | _ => OCall pc (fd_of p f (S j))
  end.

Definition anon_fd : fdesc := mkFd "lambda-0" "main" [1%N].

Definition prep_ops (p : prog) (f : failure) (n : nat) : list op :=
  let c := content_of p f n in
  (if Nat.eqb (p_fail p) 20 then [OFiberCall (pc_of p f n (c_prep c + 1)) anon_fd; OFiberEnd] else [])
  +++ match f_prep_fail f with
     | Some o => [OFail (f_prep_site f) (pc_of p f n (c_prep c + o)); OUnwind (depth p f n) true (pc_of p f n (c_prep c + o + 1))]
     | None => []
     end.

Definition fail_ops (p : prog) (f : failure) (n : nat) : list op :=
  let pc := pc_of p f n (c_action (content_of p f n)) in
  if Nat.eqb (p_fail p) OVERFLOW then
    flat_map (fun k => stale_ops_at p f n k +++ [OCall pc (fd_of p f n)]) (seq 0 (FRAMES_MAX_nat - depth p f n))
    +++ stale_ops_at p f n (FRAMES_MAX_nat - depth p f n) +++ [OFail SiteVm pc]
  else stale_ops p f n +++ prep_ops p f n +++ [match f_site f with None => OThrow pc | Some st => OFail st pc end].

(* the handlers of the running fiber, innermost first, until one catches *)
Fixpoint unwind_ops (p : prog) (f : failure) (js : list nat) : list op * bool :=
  match js with
  | [] => ([], false)
  | j :: r =>
    let c := content_of p f j in
    match wrap_of p f j with
    | WCatch _ => ([OUnwind (depth p f j) true (pc_of p f j (c_handler c))], true)
    | WFinally =>
      let '(ops, caught) := unwind_ops p f r in
      (OUnwind (depth p f j) false (pc_of p f j (c_handler c)) :: ORethrow (pc_of p f j (c_end c)) :: ops, caught)
    | WNone => unwind_ops p f r
    end
  end.

Definition mech_ops (p : prog) (f : failure) : list op * bool :=
  let n := last_index p in
  let base := i_base (info_of p f n) in
  let '(u, caught) := unwind_ops p f (down_from n base) in
  (flat_map (fun j => stale_ops p f j +++ [enter_op p f j]) (seq 0 n) +++ fail_ops p f n +++ u, caught).

(* new_root_obj_err_from_error / new_error_from_value through the generated tables *)
Definition mech_thrown (t : thrown) : string * string * string * string :=
  match t with
  | TKind k ctx =>
    let acc := class_of_kind k in
    let c := class_name_of_accessor acc in (c, c, ctx, kind_of_class acc)
  | TInstance cls ctx =>
    (* a class made by the program: a core class is recognised by identity *)
    let acc := match filter (fun a => String.eqb (class_name_of_accessor (fst a)) cls) class_to_kind with
               | a :: _ => fst a | [] => "" end in
    (cls, cls, ctx, kind_of_class acc)
  | TValue cls d => (cls, FMT_EXCEPTION, d, "RuntimeError")
  end.

Definition eval_mech (p : prog) : string :=
  match the_failure p with
  | None => "INVALID"
  | Some f =>
    if negb (valid_prog p) then "INVALID" else
    let n := last_index p in
    let base := i_base (info_of p f n) in
    let '(ops, caught) := mech_ops p f in
    let fd0 := fd_of p f 0 in
    let '(cls, desc, ctx, kind) := mech_thrown (f_thrown f) in
    let extra := "wf=" ++ show_bool (wf_ops (sinit fd0) ops) ++ ",kc=" ++ show_bool (known_classb mech_flags (sinit fd0) ops)
                 ++ ",ops=" ++ sn (List.length ops) in
    if caught then
      match caught_by p f with
      | Some c =>
        show_result "ok"
          (fin_prints p f (down_from n (S c)) +++ [class_line cls; ctx]
           +++ match c with O => [] | S c' => fin_prints p f (down_from c' 0) end) [] extra
      | None => "INVALID"
      end
    else
      match muncaught (mrun mech_flags (init_vm fd0) ops) with
      | Some tr => show_result kind (fin_prints p f (down_from n base)) (uncaught_messages desc ctx tr) extra
      | None => show_result "panic" (fin_prints p f (down_from n base)) [] extra
      end
  end.

(* ------------------------------------------------------------------ *)
(* wire format: groups "kind pre stale fin" per body, last group "fail arg catch+1" *)
Definition kind_of_N (n : N) : bkind :=
  match n with 0%N => KScript | 1%N => KFn | 2%N => KMethod | 3%N => KLambda | _ => KFiber end.
Definition body_of_group (g : list N) : body :=
  match g with
  | [k; pre; st; fin] => mkBody (kind_of_N k) (N.to_nat pre) (N.to_nat st) (negb (N.eqb fin 0))
  | _ => mkBody KScript 0 0 false
  end.
Definition prog_of_wire (s : string) : prog :=
  let gs := parse_nss s in
  match rev gs with
  | [fl; arg; c] :: bs =>
    mkProg (map body_of_group (rev bs)) (N.to_nat fl) (N.to_nat arg)
           (match c with 0%N => None | _ => Some (N.to_nat c - 1) end)
  | _ => mkProg [] 0 0 None
  end.

Definition render_w (s : string) : string := render (prog_of_wire s).
Definition all_w (s : string) : string :=
  let p := prog_of_wire s in render p ++ "#" ++ eval_spec p ++ "#" ++ eval_mech p.
Definition eval_spec_w (s : string) : string := eval_spec (prog_of_wire s).
Definition eval_mech_w (s : string) : string := eval_mech (prog_of_wire s).

(* do Spec and Mechanism agree on a program (kind, printed lines, messages; the diagnostic suffix aside)? *)
Fixpoint has_bar (s : string) : bool :=
  match s with EmptyString => false | String c r => Ascii.eqb c "|" || has_bar r end.
Fixpoint before_last_bar (s : string) : string :=
  match s with
  | EmptyString => EmptyString
  | String c r => if Ascii.eqb c "|" && negb (has_bar r) then EmptyString else String c (before_last_bar r)
  end.
Definition agreeb (w : string) : bool :=
  let p := prog_of_wire w in
  valid_prog p && String.eqb (before_last_bar (eval_spec p)) (before_last_bar (eval_mech p)).

(* directed examples: every recording site (throw / VM / native) failing inside try { } finally { } of the
   failing call itself and of intermediate calls, after caught exceptions of every site *)
Definition directed_examples : list string :=
  ["0 0 0 1;25 0 0"; "0 0 0 1;2 0 0"; "0 0 0 1;30 0 0"; "0 1 3 1;1 0 2 1;16 0 0"; "0 0 1 0;1 1 0 1;2 2 3 1;5 0 0";
   "0 0 2 1;4 1 1 1;3 0 3 1;31 0 0"; "0 0 0 0;1 0 0 1;22 6 0"; "0 0 0 1;1 0 0 0;0 0 0 1;23 0 0"].

(* compile errors: the first message of compiler::compile for a source given in hex, the side condition
   of compile_error_has_line_partial, and the range check itself *)
Definition compile_msg_hex (hex : string) : string :=
  let src := bytes_of_hex hex in
  match parse_source src with
  | PErr l a m =>
    "ERR " ++ hex_str (format_compile_error "main" l a m) ++ " tok=" ++ show_bool (err_line_from_tokenb src)
    ++ " range=" ++ show_bool (N.leb 1 l && N.leb l (N.of_nat (count_nl src) + 1))
  | POk _ => "OK"
  | POutOfFuel => "FUEL"
  end.
