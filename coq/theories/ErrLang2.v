(* C17 - second mini-language: TWO failures in sequence in one fiber, one statement per line.  DEFINITIONS ONLY.

   main = B0 -> f1 -> ... -> fh (the HOST) -> ... -> fn.  The first failure is raised in fn (by `throw`, by the
   VM, or by a native function).  On its way out it reaches a handler of the host, and there a SECOND failure is
   raised (again by throw / VM / native):
     w = 0  in the finally block of the host's try (same frame),
     w = 1  in a function called from that finally block,
     w = 2  in the host's catch block,
     w = 3  in the finally block of an ENCLOSING try of the host (the first failure passed an inner finally).
   The second failure replaces the first.  It is left uncaught (out = 0), caught by body c < h which prints
   type(e) and e.context / e (out = 1), or caught by body c and thrown again with `throw e;` (out = 2).
   Bodies other than the host and the catching body may wrap their call in try/finally (finmask).

     render2    : the source
     eval_spec2 : class + message of the LAST failure, what the finally blocks print, one trace entry per call
                  that is still active when the error is reported, each with the line of the statement executing
     eval_mech2 : the operations of the VM through Lines.mrun with the regenerated shape flags *)
From Coq Require Import List String Ascii NArith Bool Arith.
From Coq Require Import Strings.Byte.
From YV Require Import Show Wire Lines LinesSpec ErrLang.
Import ListNotations.
Local Open Scope list_scope.
Local Open Scope nat_scope.
Local Open Scope string_scope.
Infix "+++" := List.app (at level 60, right associativity).

Record prog2 := mkP2 {
  t_n : nat; t_h : nat; t_first : nat; t_second : nat; t_w : nat; t_out : nat; t_c : nat;
  t_fin : list bool;       (* per body: call wrapped in try/finally *)
  t_pre : nat
}.

(* statement, what is thrown, site (None = throw) *)
Definition first_failure (k : nat) : string * thrown * option fsite :=
  match k with
  | 0 => ("throw 7;", TValue "Num" "7", None)
  | 1 => ("nil();", TKind "TypeError" "Can only call functions and methods.", Some SiteVm)
  | _ => (q ++ "x" ++ q ++ ".len(1);", TKind "TypeError" "Expected 0 parameters but found 1.", Some SiteNative)
  end.
Definition second_failure (k : nat) : string * thrown * option fsite :=
  match k with
  | 0 => ("throw " ++ q ++ "late" ++ q ++ ";", TValue "String" "late", None)
  | 1 => ("[][0];", TKind "IndexError" "Vec index out of bounds.", Some SiteVm)
  | _ => (q ++ "1x2" ++ q ++ ".to_num();", TKind "ValueError" "Unable to parse number from '1x2'.", Some SiteNative)
  end.

Inductive wrap2 := W2None | W2Fin | W2Host (w : nat) | W2Catch (rethrow : bool).

Definition valid2 (p : prog2) : bool :=
  Nat.leb (t_h p) (t_n p) && Nat.leb (t_n p) 4 && Nat.leb (t_w p) 3 && Nat.leb (t_out p) 2
  && (Nat.eqb (t_out p) 0 || Nat.ltb (t_c p) (t_h p)).

Definition fin_at (p : prog2) (j : nat) : bool := nth j (t_fin p) false.

Definition wrap_at (p : prog2) (j : nat) : wrap2 :=
  if Nat.eqb j (t_h p) then W2Host (t_w p)
  else if negb (Nat.eqb (t_out p) 0) && Nat.eqb j (t_c p) then W2Catch (Nat.eqb (t_out p) 2)
  else if fin_at p j then W2Fin else W2None.

Definition second_stmt (p : prog2) : string :=
  if Nat.eqb (t_w p) 1 then "hz();" else fst (fst (second_failure (t_second p))).

Definition action2 (p : prog2) (j : nat) : string :=
  if Nat.eqb j (t_n p) then fst (fst (first_failure (t_first p))) else "f" ++ sn (S j) ++ "();".

Definition print_fin (j : nat) : string := "print(" ++ q ++ "fin" ++ sn j ++ q ++ ");".

(* lines of the wrapped action and the offsets (from its first line) of: action, first handler line, end of the
   first finally block, second handler line (w = 3), the statement raised in the handler (second / rethrow) *)
Record wlines := mkWL { wl : list string; o_act : nat; o_h1 : nat; o_end1 : nat; o_h2 : nat; o_stmt : nat }.

Definition wrapped (p : prog2) (j : nat) : wlines :=
  let a := action2 p j in
  let is_inst := is_instance (snd (fst (second_failure (t_second p)))) in
  match wrap_at p j with
  | W2None => mkWL [a] 0 0 0 0 0
  | W2Fin => mkWL ["try {"; a; "} finally {"; print_fin j; "}"] 1 2 4 0 0
  | W2Host 2 => mkWL ["try {"; a; "} catch e {"; second_stmt p; "}"] 1 2 0 0 3
  | W2Host 3 => mkWL ["try {"; "try {"; a; "} finally {"; print_fin j; "}"; "} finally {"; second_stmt p; "}"] 2 3 5 6 7
  | W2Host _ => mkWL ["try {"; a; "} finally {"; print_fin j; second_stmt p; "}"] 1 2 5 0 4
  | W2Catch false =>
    mkWL ["try {"; a; "} catch e {"; "print(type(e));"; if is_inst then "print(e.context);" else "print(e);"; "}"] 1 2 0 0 0
  | W2Catch true => mkWL ["try {"; a; "} catch e {"; "print(type(e));"; "throw e;"; "}"] 1 2 0 0 4
  end.

Fixpoint fill2 (j n : nat) : list string :=
  match n with O => [] | S m => fill2 j m +++ ["var p" ++ sn j ++ "x" ++ sn m ++ " = 0;"] end.

Definition block2 (p : prog2) (j : nat) : list string :=
  let body := fill2 j (t_pre p) +++ wl (wrapped p j) +++ ["var q" ++ sn j ++ " = 0;"] in
  match j with O => body | _ => ["fn f" ++ sn j ++ "() {"] +++ body +++ ["}"] end.

Definition helper2 (p : prog2) : list string :=
  if Nat.eqb (t_w p) 1 then ["fn hz() {"; fst (fst (second_failure (t_second p))); "}"] else [].

(* definitions innermost first, then the main script *)
Definition file2 (p : prog2) : list string :=
  helper2 p +++ flat_map (block2 p) (rev (seq 1 (t_n p))) +++ block2 p 0.

Definition start2 (p : prog2) (j : nat) : nat :=
  S (List.length (helper2 p)
     + fold_right (fun x acc => List.length (block2 p x) + acc) 0
         (match j with O => rev (seq 1 (t_n p)) | _ => rev (seq (S j) (t_n p - j)) end)).

(* absolute line of the wrapped action's line at offset `off` *)
Definition line2 (p : prog2) (j off : nat) : nat :=
  start2 p j + (match j with O => 0 | _ => 1 end) + t_pre p + off.

Definition fd2 (p : prog2) (j : nat) : fdesc :=
  match j with
  | O => mkFd "" "main" (nat_range 1 (List.length (file2 p)))
  | _ => mkFd ("f" ++ sn j) "main" (nat_range (start2 p j) (List.length (block2 p j)))
  end.
Definition fd_hz : fdesc := mkFd "hz" "main" [1%N; 2%N; 3%N].
Definition pc2 (p : prog2) (j off : nat) : nat :=
  match j with O => line2 p j off | _ => line2 p j off - start2 p j + 1 end.

Definition render2 (p : prog2) : string :=
  if valid2 p then "main:" ++ hex_str (join_lines (file2 p)) else "INVALID".

(* ------------------------------------------------------------------ *)
(* Spec *)

Definition fins_between (p : prog2) (hi lo : nat) : list nat :=    (* hi, hi-1, .., lo with a finally wrapper *)
  filter (fun j => match wrap_at p j with W2Fin => true | _ => false end) (down_from hi lo).
Definition fin_out (js : list nat) : list string := map (fun j => "fin" ++ sn j) js.

Definition entry2 (p : prog2) (j line : nat) : entry := ("main", N.of_nat line, match j with O => "" | _ => "f" ++ sn j end).
Definition call_entries (p : prog2) (top : nat) : list entry :=
  map (fun j => entry2 p j (line2 p j (o_act (wrapped p j)))) (down_from top 0).
Definition below (p : prog2) (j : nat) : list entry := match j with O => [] | S k => call_entries p k end.

Definition eval_spec2 (p : prog2) : string :=
  if negb (valid2 p) then "INVALID" else
  let n := t_n p in let h := t_h p in let c := t_c p in
  let '(cls, desc, ctx, kind) := spec_thrown (snd (fst (second_failure (t_second p)))) in
  let host_prints := match t_w p with 2 => [] | _ => ["fin" ++ sn h] end in
  let out1 := fin_out (fins_between p n (S h)) +++ host_prints in
  let wh := wrapped p h in
  match t_out p with
  | 0 =>
    let fins := match h with O => [] | S k => fins_between p k 0 end in
    let tr := match rev fins with
              | t :: _ => call_entries p t
              | [] => (if Nat.eqb (t_w p) 1
                       then [("main", 2%N, "hz"); entry2 p h (line2 p h (o_stmt wh))]
                       else [entry2 p h (line2 p h (o_stmt wh))]) +++ below p h
              end in
    show_result kind (out1 +++ fin_out fins) (uncaught_messages desc ctx tr) "spec"
  | 1 =>
    let fins1 := match h with O => [] | S k => fins_between p k (S c) end in
    let fins2 := match c with O => [] | S k => fins_between p k 0 end in
    show_result "ok" (out1 +++ fin_out fins1 +++ [class_line cls; ctx] +++ fin_out fins2) [] "spec"
  | _ =>
    let fins1 := match h with O => [] | S k => fins_between p k (S c) end in
    let fins2 := match c with O => [] | S k => fins_between p k 0 end in
    let tr := match rev fins2 with
              | t :: _ => call_entries p t
              | [] => entry2 p c (line2 p c (o_stmt (wrapped p c))) :: below p c
              end in
    show_result kind (out1 +++ fin_out fins1 +++ [class_line cls] +++ fin_out fins2) (uncaught_messages desc ctx tr) "spec"
  end.

(* ------------------------------------------------------------------ *)
(* Mechanism *)

Definition raise_op (site : option fsite) (pc : nat) : op :=
  match site with None => OThrow pc | Some st => OFail st pc end.

Definition fin_ops (p : prog2) (js : list nat) : list op :=
  flat_map (fun j => let w := wrapped p j in
                     [OUnwind (S j) false (pc2 p j (o_h1 w)); ORethrow (pc2 p j (o_end1 w))]) js.

Definition mech_ops2 (p : prog2) : list op :=
  let n := t_n p in let h := t_h p in let c := t_c p in
  let wh := wrapped p h in
  let s1 := snd (first_failure (t_first p)) in
  let s2 := snd (second_failure (t_second p)) in
  map (fun j => OCall (pc2 p j (o_act (wrapped p j))) (fd2 p (S j))) (seq 0 n)
  +++ [raise_op s1 (pc2 p n (o_act (wrapped p n)))]
  +++ fin_ops p (fins_between p n (S h))
  +++ (match t_w p with
       | 2 => [OUnwind (S h) true (pc2 p h (o_h1 wh)); raise_op s2 (pc2 p h (o_stmt wh))]
       | 3 => [OUnwind (S h) false (pc2 p h (o_h1 wh)); ORethrow (pc2 p h (o_end1 wh));
               OUnwind (S h) false (pc2 p h (o_h2 wh)); raise_op s2 (pc2 p h (o_stmt wh))]
       | 1 => [OUnwind (S h) false (pc2 p h (o_h1 wh)); OCall (pc2 p h (o_stmt wh)) fd_hz; raise_op s2 2]
       | _ => [OUnwind (S h) false (pc2 p h (o_h1 wh)); raise_op s2 (pc2 p h (o_stmt wh))]
       end)
  +++ match t_out p with
      | 0 => fin_ops p (match h with O => [] | S k => fins_between p k 0 end)
      | o =>
        fin_ops p (match h with O => [] | S k => fins_between p k (S c) end)
        +++ [OUnwind (S c) true (pc2 p c (o_h1 (wrapped p c)))]
        +++ (if Nat.eqb o 2
             then OThrow (pc2 p c (o_stmt (wrapped p c))) :: fin_ops p (match c with O => [] | S k => fins_between p k 0 end)
             else [])
      end.

Definition eval_mech2 (p : prog2) : string :=
  if negb (valid2 p) then "INVALID" else
  let n := t_n p in let h := t_h p in let c := t_c p in
  let ops := mech_ops2 p in
  let fd0 := fd2 p 0 in
  let '(cls, desc, ctx, kind) := mech_thrown (snd (fst (second_failure (t_second p)))) in
  let extra := "wf=" ++ show_bool (wf_ops (sinit fd0) ops) ++ ",kc=" ++ show_bool (known_classb mech_flags (sinit fd0) ops)
               ++ ",ops=" ++ sn (List.length ops) in
  let host_prints := match t_w p with 2 => [] | _ => ["fin" ++ sn h] end in
  let out1 := fin_out (fins_between p n (S h)) +++ host_prints in
  let fins1 := match t_out p with
               | 0 => match h with O => [] | S k => fins_between p k 0 end
               | _ => match h with O => [] | S k => fins_between p k (S c) end
               end in
  let fins2 := match t_out p with 0 => [] | _ => match c with O => [] | S k => fins_between p k 0 end end in
  match t_out p with
  | 1 => show_result "ok" (out1 +++ fin_out fins1 +++ [class_line cls; ctx] +++ fin_out fins2) [] extra
  | o =>
    let outs := out1 +++ fin_out fins1 +++ (if Nat.eqb o 2 then [class_line cls] else []) +++ fin_out fins2 in
    match muncaught (mrun mech_flags (init_vm fd0) ops) with
    | Some tr => show_result kind outs (uncaught_messages desc ctx tr) extra
    | None => show_result "panic" outs [] extra
    end
  end.

(* wire: "n h first second w out c pre;fin0 fin1 ..." *)
Definition prog2_of_wire (s : string) : prog2 :=
  match parse_nss s with
  | [n; h; f; g; w; o; c; pre] :: rest =>
    mkP2 (N.to_nat n) (N.to_nat h) (N.to_nat f) (N.to_nat g) (N.to_nat w) (N.to_nat o) (N.to_nat c)
         (match rest with fs :: _ => map (fun x => negb (N.eqb x 0)) fs | [] => [] end) (N.to_nat pre)
  | _ => mkP2 0 1 0 0 0 0 0 [] 0
  end.

Definition all2_w (s : string) : string :=
  let p := prog2_of_wire s in render2 p ++ "#" ++ eval_spec2 p ++ "#" ++ eval_mech2 p.

Definition agree2b (w : string) : bool :=
  let p := prog2_of_wire w in
  valid2 p && String.eqb (before_last_bar (eval_spec2 p)) (before_last_bar (eval_mech2 p)).

(* first x second x place, uncaught, at depth 1 (host f1, first failure in f2) *)
Definition directed_examples2 : list string :=
  flat_map (fun f => flat_map (fun g => map (fun w =>
     "2 1 " ++ sn f ++ " " ++ sn g ++ " " ++ sn w ++ " 0 0 1;0 0 0") [0; 1; 2; 3]) [0; 1; 2]) [0; 1; 2]
  +++ ["3 2 0 1 0 2 0 0;0 1 0 1"; "2 2 1 2 1 1 0 1;1 0 0"; "0 0 0 1 0 0 0 0;0"].
