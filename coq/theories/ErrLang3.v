(* C17 - third mini-language: RECURSION.  Several activations of the SAME function are on the frame stack when
   the error is raised, one statement per line.  DEFINITIONS ONLY.

   main script -> rec(d) -> rec(d-1) -> ... -> rec(0); rec(0) fails (throw / VM / native).  `rec` is a function, a
   method, a lambda, or a function that reaches itself through a second function `mid` (rec -> mid -> rec ...).
   Activation k >= 1 makes its recursive call
     - per-level layout: inside its own `if n == k { ... }` block, so every activation of the one function is
       executing a DIFFERENT line, with its own wrapper: none / try-finally / try-catch printing / try-catch
       throwing the caught value again;
     - uniform layout: on the same lines as every other activation (one wrapper, no `if`).
   The main script may wrap its call in try/finally.

     render3    : the source
     eval_spec3 : class + message, what the handlers print, one trace entry per call that is still active when the
                  error is reported, each with the line of the statement executing in THAT activation
     eval_mech3 : the operations of the VM through Lines.mrun with the regenerated shape flags.

   Every function gets the identity line table of the file (offset = line): line tables are abstract here (ErrLang.v),
   and positions of different activations of one function are then directly comparable - which is the point of the
   family: a position recorded in a discarded activation is a valid position of the surviving one. *)
From Coq Require Import List String Ascii NArith Bool Arith.
From Coq Require Import Strings.Byte.
From YV Require Import Show Wire Lines LinesSpec ErrLang ErrLang2.
Import ListNotations.
Local Open Scope list_scope.
Local Open Scope nat_scope.
Local Open Scope string_scope.
Infix "+++" := List.app (at level 60, right associativity).

Record prog3 := mkP3 {
  r_kind : nat;          (* 0 function, 1 method, 2 lambda, 3 function through `mid` *)
  r_uniform : bool;      (* every activation >= 1 runs the same lines (wrapper of level 1) *)
  r_fail : nat;          (* ErrLang2.first_failure: 0 throw, 1 VM, 2 native *)
  r_pre : nat;           (* filler statements at the start of rec and of the script *)
  r_w0 : bool;           (* the script wraps its call in try/finally *)
  r_wraps : list nat     (* level 1..d: 0 none, 1 try/finally, 2 try/catch print, 3 try/catch `throw e;` *)
}.

Definition depth3 (p : prog3) : nat := List.length (r_wraps p).

Definition valid3 (p : prog3) : bool :=
  Nat.leb 1 (depth3 p) && Nat.leb (depth3 p) 6 && Nat.leb (r_kind p) 3 && Nat.leb (r_fail p) 2
  && forallb (fun w => Nat.leb w 3) (r_wraps p).

(* wrapper of activation k (1-based) *)
Definition wrap3 (p : prog3) (k : nat) : nat :=
  if r_uniform p then nth 0 (r_wraps p) 0 else nth (k - 1) (r_wraps p) 0.
(* label printed by the finally block of activation k *)
Definition label3 (p : prog3) (k : nat) : nat := if r_uniform p then 0 else k.

Definition thrown3 (p : prog3) : thrown := snd (fst (first_failure (r_fail p))).

Definition rec_call (p : prog3) : string :=
  match r_kind p with
  | 1 => "self.m(n - 1);"
  | 3 => "mid(n - 1);"
  | _ => "r(n - 1);"
  end.
Definition script_call (p : prog3) : string :=
  match r_kind p with
  | 1 => "R.new().m(" ++ sn (depth3 p) ++ ");"
  | _ => "r(" ++ sn (depth3 p) ++ ");"
  end.

(* wrapped statement: lines + offsets of the statement, the handler line, the end of the finally block, `throw e;` *)
Definition wrapped3 (p : prog3) (stmt : string) (lab : string) (w : nat) : wlines :=
  let is_inst := is_instance (thrown3 p) in
  match w with
  | 0 => mkWL [stmt] 0 0 0 0 0
  | 1 => mkWL ["try {"; stmt; "} finally {"; "print(" ++ q ++ "fin" ++ lab ++ q ++ ");"; "}"] 1 2 4 0 0
  | 2 => mkWL ["try {"; stmt; "} catch e {"; "print(type(e));"; if is_inst then "print(e.context);" else "print(e);"; "}"] 1 2 0 0 0
  | _ => mkWL ["try {"; stmt; "} catch e {"; "print(type(e));"; "throw e;"; "}"] 1 2 0 0 4
  end.

Definition wl_level (p : prog3) (k : nat) : wlines := wrapped3 p (rec_call p) (sn (label3 p k)) (wrap3 p k).
Definition wl_script (p : prog3) : wlines := wrapped3 p (script_call p) "s" (if r_w0 p then 1 else 0).

Definition header3 (p : prog3) : list string :=
  match r_kind p with
  | 1 => ["#[constructor(new)] class R {"; "fn m(self, n) {"]
  | 2 => ["var r = nil;"; "r = |n| {"]
  | _ => ["fn r(n) {"]
  end.
Definition footer3 (p : prog3) : list string :=
  match r_kind p with
  | 1 => ["}"; "}"]
  | 2 => ["};"]
  | _ => ["}"]
  end.

Fixpoint fill3 (tag : string) (n : nat) : list string :=
  match n with O => [] | S m => fill3 tag m +++ ["var " ++ tag ++ sn m ++ " = 0;"] end.

Definition level_block (p : prog3) (k : nat) : list string :=
  ["if n == " ++ sn k ++ " {"] +++ wl (wl_level p k) +++ ["}"].

Definition levels_text (p : prog3) : list string :=
  if r_uniform p then wl (wl_level p 1) else flat_map (level_block p) (seq 1 (depth3 p)).

Definition rec_text (p : prog3) : list string :=
  header3 p +++ fill3 "pr" (r_pre p) +++ ["if n == 0 {"; fst (fst (first_failure (r_fail p))); "}"]
  +++ levels_text p +++ ["var qr = 0;"] +++ footer3 p.

Definition mid_text (p : prog3) : list string :=
  match r_kind p with 3 => ["fn mid(n) {"; "r(n);"; "}"] | _ => [] end.

Definition script_text (p : prog3) : list string :=
  fill3 "ps" (r_pre p) +++ wl (wl_script p) +++ ["var q0 = 0;"].

Definition file3 (p : prog3) : list string := rec_text p +++ mid_text p +++ script_text p.

(* 1-based lines *)
Definition fail_line (p : prog3) : nat := List.length (header3 p) + r_pre p + 2.
(* first line of the wrapped call of activation k *)
Definition level_base (p : prog3) (k : nat) : nat :=
  let b := List.length (header3 p) + r_pre p + 3 in
  if r_uniform p then b + 1
  else b + fold_right (fun j acc => List.length (level_block p j) + acc) 0 (seq 1 (k - 1)) + 2.
Definition level_line (p : prog3) (k off : nat) : nat := level_base p k + off.
Definition mid_line (p : prog3) : nat := List.length (rec_text p) + 2.
Definition script_line (p : prog3) (off : nat) : nat :=
  List.length (rec_text p) + List.length (mid_text p) + r_pre p + 1 + off.

Definition rec_name (p : prog3) : string :=
  match r_kind p with 1 => "m" | 2 => "lambda-0" | _ => "r" end.

Definition render3 (p : prog3) : string :=
  if valid3 p then "main:" ++ hex_str (join_lines (file3 p)) else "INVALID".

(* ------------------------------------------------------------------ *)
(* Spec: walk the handlers from activation 1 outwards.
   state: what was printed; `Some (t, line)` = an exception is travelling, the innermost activation still active is
   t (d+1 = the script) and it is executing `line`; None = nobody is failing any more *)

Definition sstate3 : Type := (list string * option (nat * nat))%type.

Definition spec_level (p : prog3) (cls ctx : string) (st : sstate3) (k : nat) : sstate3 :=
  let '(outs, tr) := st in
  let w := wl_level p k in
  match tr, wrap3 p k with
  | Some _, 1 => (outs +++ ["fin" ++ sn (label3 p k)], Some (k, level_line p k (o_act w)))
  | Some _, 2 => (outs +++ [class_line cls; ctx], None)
  | Some _, 3 => (outs +++ [class_line cls], Some (k, level_line p k (o_stmt w)))
  | None, 1 => (outs +++ ["fin" ++ sn (label3 p k)], None)       (* the try block ended normally *)
  | _, _ => st
  end.

Definition spec_walk (p : prog3) (cls ctx : string) : sstate3 :=
  let d := depth3 p in
  let '(outs, tr) := fold_left (spec_level p cls ctx) (seq 1 d) ([], Some (0, fail_line p)) in
  if r_w0 p then
    (outs +++ ["fins"], match tr with Some _ => Some (S d, script_line p (o_act (wl_script p))) | None => None end)
  else (outs, tr).

(* the calls still active, innermost first: activation t at `line`, the activations above it at their call line
   (through `mid` for kind 3), the script *)
Definition entries_above (p : prog3) (t : nat) : list entry :=
  flat_map (fun j => (match r_kind p with 3 => [("main", N.of_nat (mid_line p), "mid")] | _ => [] end)
                     +++ [("main", N.of_nat (level_line p j (o_act (wl_level p j))), rec_name p)])
           (seq (S t) (depth3 p - t))
  +++ [("main", N.of_nat (script_line p (o_act (wl_script p))), "")].

Definition spec_trace (p : prog3) (t line : nat) : list entry :=
  if Nat.ltb (depth3 p) t then [("main", N.of_nat line, "")]
  else ("main", N.of_nat line, rec_name p) :: entries_above p t.

Definition eval_spec3 (p : prog3) : string :=
  if negb (valid3 p) then "INVALID" else
  let '(cls, desc, ctx, kind) := spec_thrown (thrown3 p) in
  match spec_walk p cls ctx with
  | (outs, None) => show_result "ok" outs [] "spec"
  | (outs, Some (t, line)) => show_result kind outs (uncaught_messages desc ctx (spec_trace p t line)) "spec"
  end.

(* ------------------------------------------------------------------ *)
(* Mechanism *)

Definition table3 (p : prog3) : list N := nat_range 1 (List.length (file3 p)).
Definition fd_script (p : prog3) : fdesc := mkFd "" "main" (table3 p).
Definition fd_rec (p : prog3) : fdesc := mkFd (rec_name p) "main" (table3 p).
Definition fd_mid (p : prog3) : fdesc := mkFd "mid" "main" (table3 p).

(* number of frames of the fiber while activation k runs *)
Definition frames_at (p : prog3) (k : nat) : nat :=
  match r_kind p with
  | 3 => 2 + 2 * (depth3 p - k)
  | _ => 2 + (depth3 p - k)
  end.

Definition enter_ops3 (p : prog3) : list op :=
  OCall (script_line p (o_act (wl_script p))) (fd_rec p)
  :: flat_map (fun k => let pc := level_line p k (o_act (wl_level p k)) in
                        match r_kind p with
                        | 3 => [OCall pc (fd_mid p); OCall (mid_line p) (fd_rec p)]
                        | _ => [OCall pc (fd_rec p)]
                        end)
              (rev (seq 1 (depth3 p))).

(* (operations, is the exception still travelling?) *)
Definition mech_level (p : prog3) (st : list op * bool) (k : nat) : list op * bool :=
  let '(ops, going) := st in
  let w := wl_level p k in
  if going then
    match wrap3 p k with
    | 1 => (ops +++ [OUnwind (frames_at p k) false (level_line p k (o_h1 w)); ORethrow (level_line p k (o_end1 w))], true)
    | 2 => (ops +++ [OUnwind (frames_at p k) true (level_line p k (o_h1 w))], false)
    | 3 => (ops +++ [OUnwind (frames_at p k) true (level_line p k (o_h1 w)); OThrow (level_line p k (o_stmt w))], true)
    | _ => st
    end
  else st.

Definition mech_ops3 (p : prog3) : list op * bool :=
  let site := snd (first_failure (r_fail p)) in
  let '(ops, going) := fold_left (mech_level p) (seq 1 (depth3 p))
                                 (enter_ops3 p +++ [raise_op site (fail_line p)], true) in
  if going && r_w0 p then
    (ops +++ [OUnwind 1 false (script_line p (o_h1 (wl_script p))); ORethrow (script_line p (o_end1 (wl_script p)))], true)
  else (ops, going).

Definition eval_mech3 (p : prog3) : string :=
  if negb (valid3 p) then "INVALID" else
  let '(ops, going) := mech_ops3 p in
  let fd0 := fd_script p in
  let '(cls, desc, ctx, kind) := mech_thrown (thrown3 p) in
  let extra := "wf=" ++ show_bool (wf_ops (sinit fd0) ops) ++ ",kc=" ++ show_bool (known_classb mech_flags (sinit fd0) ops)
               ++ ",ops=" ++ sn (List.length ops) in
  (* what the handlers print does not depend on positions: read off the program with the Mechanism's class name *)
  let outs := fst (spec_walk p cls ctx) in
  if going then
    match muncaught (mrun mech_flags (init_vm fd0) ops) with
    | Some tr => show_result kind outs (uncaught_messages desc ctx tr) extra
    | None => show_result "panic" outs [] extra
    end
  else show_result "ok" outs [] extra.

(* wire: "kind uniform fail pre w0;wrap1 wrap2 ..." *)
Definition prog3_of_wire (s : string) : prog3 :=
  match parse_nss s with
  | [k; u; f; pre; w0] :: rest =>
    mkP3 (N.to_nat k) (negb (N.eqb u 0)) (N.to_nat f) (N.to_nat pre) (negb (N.eqb w0 0))
         (match rest with ws :: _ => map N.to_nat ws | [] => [] end)
  | _ => mkP3 0 false 0 0 false []
  end.

Definition all3_w (s : string) : string :=
  let p := prog3_of_wire s in render3 p ++ "#" ++ eval_spec3 p ++ "#" ++ eval_mech3 p.

Definition agree3b (w : string) : bool :=
  let p := prog3_of_wire w in
  valid3 p && String.eqb (before_last_bar (eval_spec3 p)) (before_last_bar (eval_mech3 p)).

(* every kind x the layouts, a finally in a shallower activation of the function that fails deeper; a catch that
   throws again between two finally blocks; the uniform layout (the try/finally of EVERY activation is the same code) *)
Definition directed_examples3 : list string :=
  flat_map (fun k => flat_map (fun f =>
     ["" ++ sn k ++ " 0 " ++ sn f ++ " 0 0;0 1"; sn k ++ " 1 " ++ sn f ++ " 1 0;1 1"; sn k ++ " 0 " ++ sn f ++ " 1 1;1 3 1 0"])
     [0; 1; 2]) [0; 1; 2; 3]
  +++ ["0 0 0 0 0;2 1 1"; "3 1 1 2 1;3 3 3"; "1 0 2 0 0;0 0 0 0 1 0"].

(* ------------------------------------------------------------------ *)
(* A variant of unwind_stack that decides "was the recorded position recorded in a frame that is being discarded?"
   by asking whether the position lies in the code of the handling frame's FUNCTION instead of counting frames.
   The two tests agree as long as no function has two activations on the stack; LinesProofs3 shows the variant
   violates the Spec on a recursive history.  `o_owner` = the function whose code the recorded position points into. *)
Fixpoint lines_eqb (a b : list N) : bool :=
  match a, b with
  | [], [] => true
  | x :: r, y :: s => N.eqb x y && lines_eqb r s
  | _, _ => false
  end.
Definition fd_eqb (a b : fdesc) : bool :=
  String.eqb (fd_name a) (fd_name b) && String.eqb (fd_mod a) (fd_mod b) && lines_eqb (fd_lines a) (fd_lines b).

Record vmo := mkVmo { o_vm : vmst; o_owner : option fdesc; o_callers : list (option fdesc) }.

Definition top_fn (fs : list frame) : option fdesc := match fs with f :: _ => Some (fr_fn f) | [] => None end.

Definition with_rebase (fl : flags) (b : bool) : flags :=
  mkFlags (clear_on_catch fl) b (fail_records_vm fl) (fail_records_native fl).

Definition mstep_own (fl : flags) (s : vmo) (o : op) : vmo :=
  let v := o_vm s in
  let fs := fb_frames (v_fib v) in
  match o with
  | OThrow _ => mkVmo (mstep fl v o) (top_fn fs) (o_callers s)
  | OFail st _ => mkVmo (mstep fl v o) (if records fl st then top_fn fs else o_owner s) (o_callers s)
  | OUnwind fc hc cpc =>
    if (Nat.leb 1 fc && Nat.leb fc (List.length fs))%bool then
      let kept := truncate_frames fc fs in
      let foreign := match fb_error_ip (v_fib v), o_owner s, top_fn kept with
                     | Some _, Some a, Some b => negb (fd_eqb a b)
                     | _, _, _ => false
                     end in
      (* re-base exactly when the recorded position is foreign to the handling frame's function *)
      let v' := if foreign
                then mkVm (mkFib (set_top_ip kept cpc) (if hc && clear_on_catch fl then None else Some (top_ip kept)))
                          cpc (v_callers v)
                else mstep (with_rebase fl false) v o in
      mkVmo v' (if hc && clear_on_catch fl then None else if foreign then top_fn kept else o_owner s) (o_callers s)
    else s
  | OFiberCall _ _ => mkVmo (mstep fl v o) None (o_owner s :: o_callers s)
  | OFiberEnd =>
    match o_callers s with
    | c :: cs => mkVmo (mstep fl v o) c cs
    | [] => mkVmo (mstep fl v o) (o_owner s) []
    end
  | _ => mkVmo (mstep fl v o) (o_owner s) (o_callers s)
  end.

Definition mrun_own (fl : flags) (s : vmo) (ops : list op) : vmo := fold_left (mstep_own fl) ops s.
Definition init_vmo (fd : fdesc) : vmo := mkVmo (init_vm fd) None [].

(* all activations of the running fiber run pairwise different functions *)
Fixpoint distinct_fns (fs : list frame) : bool :=
  match fs with
  | [] => true
  | f :: r => negb (existsb (fun g => fd_eqb (fr_fn f) (fr_fn g)) r) && distinct_fns r
  end.

(* single-fiber histories / no function has two activations at any point of the run (hypotheses of
   ErrLang3Proofs.rebase_by_owner_agrees_without_recursion_partial) *)
Definition no_fiber_op (o : op) : bool := match o with OFiberCall _ _ | OFiberEnd => false | _ => true end.
Definition no_fiber_ops (ops : list op) : bool := forallb no_fiber_op ops.
Fixpoint distinct_along (fl : flags) (v : vmst) (ops : list op) : bool :=
  match ops with
  | [] => true
  | o :: r => distinct_fns (fb_frames (v_fib v)) && distinct_along fl (mstep fl v o) r
  end.
