(* C17 - recursion family (ErrLang3.v): the frame-counting test of unwind_stack cannot be replaced by a test on the
   FUNCTION the recorded position points into.  Witness: the smallest recursive history - script -> r -> r -> r,
   the innermost activation throws, every activation wraps its recursive call in try/finally. *)
From Coq Require Import List String NArith Bool Arith Lia.
From YV Require Import Lines LinesSpec ErrLang ErrLang2 ErrLang3.
Import ListNotations.
Local Open Scope string_scope.

Definition fl_all : flags := mkFlags true true true true.
Definition witness3 : prog3 := prog3_of_wire "0 1 0 0 0;1 1".
Definition witness3_ops : list op := fst (mech_ops3 witness3).

(* the history is one the VM can produce, it ends with an unhandled exception, the mechanism of today's
   unwind_stack (frames counted) gives the Spec's trace - the surviving activation of r at its recursive call,
   line 6 - and the variant that asks "does the recorded position lie in the handling frame's function?" names
   line 3: the throw statement of an activation that no longer exists *)
Theorem rebase_by_owner_refuted :
  wf_ops (sinit (fd_script witness3)) witness3_ops = true /\
  s_raised (srun (sinit (fd_script witness3)) witness3_ops) = true /\
  spec_uncaught (srun (sinit (fd_script witness3)) witness3_ops) = Some [("main", 6%N, "r"); ("main", 12%N, "")] /\
  muncaught (mrun fl_all (init_vm (fd_script witness3)) witness3_ops) = Some [("main", 6%N, "r"); ("main", 12%N, "")] /\
  muncaught (o_vm (mrun_own fl_all (init_vmo (fd_script witness3)) witness3_ops)) = Some [("main", 3%N, "r"); ("main", 12%N, "")].
Proof. vm_compute. repeat split; reflexivity. Qed.
Print Assumptions rebase_by_owner_refuted.

(* the two tests differ ONLY through recursion: on the same history with the discarded activations renamed (so that
   no function has two activations) the variant agrees with the frame-counting mechanism *)
Definition rename_calls (ops : list op) : list op :=
  snd (fold_left (fun (st : nat * list op) o =>
                    match o with
                    | OCall pc fd => (S (fst st), (snd st ++ [OCall pc (mkFd (fd_name fd ++ sn (fst st)) (fd_mod fd) (fd_lines fd))])%list)
                    | _ => (fst st, (snd st ++ [o])%list)
                    end) ops (0, [])).
Theorem rebase_by_owner_agrees_without_recursion_example :
  muncaught (o_vm (mrun_own fl_all (init_vmo (fd_script witness3)) (rename_calls witness3_ops)))
  = muncaught (mrun fl_all (init_vm (fd_script witness3)) (rename_calls witness3_ops)) /\
  muncaught (mrun fl_all (init_vm (fd_script witness3)) (rename_calls witness3_ops))
  = Some [("main", 6%N, "r0"); ("main", 12%N, "")].
Proof. vm_compute. split; reflexivity. Qed.
Print Assumptions rebase_by_owner_agrees_without_recursion_example.

(* Spec and Mechanism (flags regenerated from vm.rs) agree on the directed examples of the family; the by-owner
   variant disagrees with the Spec on at least one of them per kind of recursive callee *)
Definition own_trace (p : prog3) : option (list entry) :=
  muncaught (o_vm (mrun_own fl_all (init_vmo (fd_script p)) (fst (mech_ops3 p)))).
Definition spec_trace_of (p : prog3) : option (list entry) :=
  spec_uncaught (srun (sinit (fd_script p)) (fst (mech_ops3 p))).
Fixpoint entries_eqb (a b : list entry) : bool :=
  match a, b with
  | [], [] => true
  | (m, l, f) :: r, (m', l', f') :: s => String.eqb m m' && N.eqb l l' && String.eqb f f' && entries_eqb r s
  | _, _ => false
  end.
Definition own_differs (w : string) : bool :=
  match own_trace (prog3_of_wire w), spec_trace_of (prog3_of_wire w) with
  | Some a, Some b => negb (entries_eqb a b)
  | _, _ => true
  end.
Theorem rebase_by_owner_refuted_every_kind :
  forallb own_differs ["0 0 1 0 0;0 1"; "1 0 2 0 0;0 1"; "2 0 0 0 0;0 1"; "3 0 1 0 0;0 1"] = true.
Proof. vm_compute; reflexivity. Qed.
Print Assumptions rebase_by_owner_refuted_every_kind.

(* ------------------------------------------------------------------ *)
(* ... and ONLY through recursion: on every single-fiber history the VM can produce in which no function ever has two
   activations on the stack, the by-owner variant and the frame-counting mechanism are the same machine.
   Invariant: the one activation that is propagating a failure (if any) is the one whose function owns the recorded
   position; when a handler is looked for, that activation is the innermost one. *)

Lemma lines_eqb_refl : forall l, lines_eqb l l = true.
Proof. induction l as [|x r IH]; cbn; [reflexivity|]. rewrite N.eqb_refl. exact IH. Qed.
Lemma fd_eqb_refl : forall f, fd_eqb f f = true.
Proof. intros [n m l]. unfold fd_eqb; cbn. rewrite !String.eqb_refl, lines_eqb_refl. reflexivity. Qed.

Definition has_fail (f : sframe) : bool := match sf_fail f with Some _ => true | None => false end.
Definition npend (fs : list sframe) : nat := List.length (filter has_fail fs).

Record inv (s : sst) (x : vmo) : Prop := mkInv {
  i_fns : map sf_fn (s_frames s) = map fr_fn (fb_frames (v_fib (o_vm x)));
  i_one : npend (s_frames s) <= 1;
  i_top : s_raised s = true -> top_fail (s_frames s) <> None;
  i_own : forall f, In f (s_frames s) -> sf_fail f <> None ->
          fb_error_ip (v_fib (o_vm x)) <> None /\ o_owner x = Some (sf_fn f)
}.

Lemma map_fn_set_top_pos : forall l p, map sf_fn (set_top_pos l p) = map sf_fn l.
Proof. intros [|a r] p; reflexivity. Qed.
Lemma map_fn_set_top_fail : forall l p, map sf_fn (set_top_fail l p) = map sf_fn l.
Proof. intros [|a r] p; reflexivity. Qed.
Lemma map_fn_set_top_ip : forall l p, map fr_fn (set_top_ip l p) = map fr_fn l.
Proof. intros [|a r] p; reflexivity. Qed.
Lemma map_fn_clear : forall l, map sf_fn (clear_fails l) = map sf_fn l.
Proof. intros l. unfold clear_fails. rewrite map_map. reflexivity. Qed.
Lemma npend_set_top_pos : forall l p, npend (set_top_pos l p) = npend l.
Proof. intros [|a r] p; [reflexivity|]. destruct a as [fn ps fl]. unfold npend. cbn [set_top_pos filter sf_fn sf_fail]. unfold has_fail. cbn [sf_fail]. destruct fl; reflexivity. Qed.
Lemma in_set_top_pos : forall l p f, In f (set_top_pos l p) ->
  exists g, In g l /\ sf_fn g = sf_fn f /\ sf_fail g = sf_fail f.
Proof.
  intros [|a r] p f H; [contradiction|]. destruct H as [<-|H].
  - exists a. split; [left; reflexivity|split; reflexivity].
  - exists f. split; [right; exact H|split; reflexivity].
Qed.
Lemma clear_all_none : forall l g, In g (clear_fails l) -> sf_fail g = None.
Proof. intros l g H. unfold clear_fails in H. apply in_map_iff in H. destruct H as [y [<- _]]. reflexivity. Qed.
Lemma npend_none : forall l, (forall g, In g l -> sf_fail g = None) -> npend l = 0.
Proof.
  induction l as [|a r IH]; intros H; [reflexivity|]. unfold npend in *. cbn [filter].
  unfold has_fail at 1. rewrite (H a (or_introl eq_refl)). apply IH. intros g Hg. apply H. right; exact Hg.
Qed.
Lemma npend_cons_le : forall a r, npend (a :: r) <= S (npend r).
Proof. intros a r. unfold npend. cbn [filter]. destruct (has_fail a); cbn [List.length]; lia. Qed.
Lemma npend_set_top_fail_tail_none : forall l x,
  (forall g, In g (tl l) -> sf_fail g = None) -> npend (set_top_fail l x) <= 1.
Proof.
  intros [|a r] x H; [cbn; lia|]. cbn [set_top_fail tl] in *.
  pose proof (npend_cons_le (mkSF (sf_fn a) (sf_pos a) x) r). rewrite (npend_none r H) in H0. exact H0.
Qed.
Lemma tail_none_of_one : forall a r, npend (a :: r) <= 1 -> sf_fail a <> None ->
  forall g, In g r -> sf_fail g = None.
Proof.
  intros a r H Ha. unfold npend in H. cbn [filter] in H. unfold has_fail at 1 in H.
  destruct (sf_fail a) eqn:E; [|contradiction]. cbn [List.length] in H.
  assert (H0 : List.length (filter has_fail r) = 0) by lia.
  intros g Hg. destruct (sf_fail g) eqn:Eg; [|reflexivity].
  assert (Hin : In g (filter has_fail r)) by (apply filter_In; split; [exact Hg | unfold has_fail; rewrite Eg; reflexivity]).
  destruct (filter has_fail r); [contradiction | discriminate].
Qed.
Lemma in_skipn : forall {A} k (l : list A) x, In x (skipn k l) -> In x l.
Proof.
  induction k as [|k IH]; intros l x H; [exact H|]. destruct l as [|a r]; [contradiction|].
  right. apply IH. exact H.
Qed.
Lemma map_skipn : forall {A B} (f : A -> B) k l, map f (skipn k l) = skipn k (map f l).
Proof. induction k as [|k IH]; intros l; [reflexivity|]. destruct l; [reflexivity|]. cbn. apply IH. Qed.
Lemma distinct_head : forall a r g, distinct_fns (a :: r) = true -> In g r -> fd_eqb (fr_fn a) (fr_fn g) = false.
Proof.
  intros a r g H Hg. cbn [distinct_fns] in H. apply andb_true_iff in H. destruct H as [H _].
  apply negb_true_iff in H. destruct (fd_eqb (fr_fn a) (fr_fn g)) eqn:E; [|reflexivity].
  assert (existsb (fun g0 => fd_eqb (fr_fn a) (fr_fn g0)) r = true) by (apply existsb_exists; exists g; split; assumption).
  congruence.
Qed.

Lemma step_agree : forall fl s x o,
  records_all fl = true -> rebase_on_drop fl = true ->
  inv s x -> op_okb s o = true -> no_fiber_op o = true ->
  distinct_fns (fb_frames (v_fib (o_vm x))) = true ->
  o_vm (mstep_own fl x o) = mstep fl (o_vm x) o /\ inv (sstep s o) (mstep_own fl x o).
Proof.
  intros fl [sfs scs raised site] [[[fs eip] ip callers] own ocs] o Hrec Hreb [Hf H1 Ht Ho] Hok Hnf Hd.
  cbn [s_frames s_raised o_vm v_fib fb_frames fb_error_ip o_owner] in *.
  destruct o as [pc fd| |pc|st pc|fc hc cpc|pc|pc fd|]; try discriminate Hnf.
  - (* OCall *)
    split; [reflexivity|].
    constructor; cbn [sstep mstep_own mstep s_frames s_raised o_vm v_fib fb_frames fb_error_ip o_owner map].
    + rewrite map_fn_set_top_pos, map_fn_set_top_ip, Hf. reflexivity.
    + pose proof (npend_cons_le (mkSF fd 0 None) (set_top_pos sfs pc)) as Hc.
      unfold npend in *. cbn [filter has_fail sf_fail]. fold (npend (set_top_pos sfs pc)).
      rewrite npend_set_top_pos. exact H1.
    + discriminate.
    + intros f [<-|Hin] Hne; [cbn in Hne; congruence|].
      apply in_set_top_pos in Hin. destruct Hin as [g [Hg [Hfn Hfl]]].
      rewrite <- Hfn. apply Ho; [exact Hg | rewrite Hfl; exact Hne].
  - (* OReturn *)
    split; [reflexivity|].
    destruct sfs as [|a [|b r]]; destruct fs as [|a' [|b' r']]; try discriminate Hf;
      try (constructor; cbn [sstep mstep_own mstep s_frames s_raised o_vm v_fib fb_frames fb_error_ip o_owner]; assumption).
    cbn [op_okb s_raised s_frames] in Hok. apply andb_true_iff in Hok. destruct Hok as [Hr _].
    apply negb_true_iff in Hr. cbn [s_raised] in Hr.
    constructor; cbn [sstep mstep_own mstep s_frames s_raised o_vm v_fib fb_frames fb_error_ip o_owner].
    + cbn [map] in Hf. injection Hf as _ Hb Hr'. cbn [map]. rewrite Hb, Hr'. reflexivity.
    + pose proof (npend_cons_le a (b :: r)). unfold npend in *. cbn [filter] in *.
      destruct (has_fail a); cbn [List.length] in *; lia.
    + discriminate.
    + intros f Hin Hne. apply Ho; [right; exact Hin | exact Hne].
  - (* OThrow *)
    split; [reflexivity|].
    destruct sfs as [|a r]; [cbn in Hok; rewrite andb_false_r in Hok; discriminate|].
    destruct fs as [|a' r']; [discriminate Hf|].
    constructor; cbn [sstep mstep_own mstep s_frames s_raised o_vm v_fib fb_frames fb_error_ip o_owner].
    + rewrite map_fn_set_top_fail, map_fn_clear. exact Hf.
    + apply npend_set_top_fail_tail_none. intros g Hg. cbn [clear_fails map tl] in Hg.
      apply (clear_all_none r). exact Hg.
    + intros _. cbn. discriminate.
    + intros f Hin Hne. cbn [clear_fails map set_top_fail] in Hin. destruct Hin as [<-|Hin].
      * cbn [sf_fn]. split; [discriminate|]. cbn [top_fn]. cbn [map] in Hf. injection Hf as Hh _. rewrite Hh. reflexivity.
      * exfalso. apply Hne. apply (clear_all_none r). exact Hin.
  - (* OFail *)
    assert (Hst : records fl st = true).
    { unfold records_all in Hrec. apply andb_true_iff in Hrec. destruct Hrec. destruct st; assumption. }
    split; [reflexivity|].
    destruct sfs as [|a r]; [cbn in Hok; rewrite andb_false_r in Hok; discriminate|].
    destruct fs as [|a' r']; [discriminate Hf|].
    constructor; cbn [sstep mstep_own mstep s_frames s_raised o_vm v_fib fb_frames fb_error_ip o_owner]; rewrite ?Hst.
    + rewrite map_fn_set_top_fail, map_fn_clear. exact Hf.
    + apply npend_set_top_fail_tail_none. intros g Hg. cbn [clear_fails map tl] in Hg.
      apply (clear_all_none r). exact Hg.
    + intros _. cbn. discriminate.
    + intros f Hin Hne. cbn [clear_fails map set_top_fail] in Hin. destruct Hin as [<-|Hin].
      * cbn [sf_fn]. split; [discriminate|]. cbn [top_fn]. cbn [map] in Hf. injection Hf as Hh _. rewrite Hh. reflexivity.
      * exfalso. apply Hne. apply (clear_all_none r). exact Hin.
  - (* OUnwind *)
    cbn [op_okb s_raised s_frames] in Hok.
    apply andb_true_iff in Hok. destruct Hok as [Hok Hle]. apply andb_true_iff in Hok. destruct Hok as [Hr Hge].
    subst raised. specialize (Ht eq_refl).
    destruct sfs as [|a r]; [cbn in Ht; congruence|].
    destruct fs as [|a' r']; [discriminate Hf|].
    cbn [top_fail] in Ht.
    destruct (Ho a (or_introl eq_refl) Ht) as [He Hown].
    destruct eip as [e0|]; [|congruence]. subst own.
    pose proof (tail_none_of_one a r H1 Ht) as Htail.
    assert (Hlen : List.length (a :: r) = List.length (a' :: r')).
    { rewrite <- (map_length sf_fn), Hf, map_length. reflexivity. }
    assert (Hc1 : (Nat.leb 1 fc && Nat.leb fc (List.length (a' :: r')))%bool = true).
    { rewrite <- Hlen, Hge, Hle. reflexivity. }
    apply Nat.leb_le in Hge. apply Nat.leb_le in Hle.
    cbn [map] in Hf. injection Hf as Hfa Hfr.
    unfold mstep_own, mstep, sstep.
    cbn [o_vm v_fib fb_frames fb_error_ip o_owner o_callers v_callers s_frames s_callers].
    rewrite Hlen, Hc1. unfold truncate_frames, struncate. rewrite Hlen.
    remember (List.length (a' :: r') - fc) as k eqn:Hk.
    destruct k as [|k'].
    + (* nothing is dropped: fc = len *)
      assert (Hlt : Nat.ltb fc (List.length (a' :: r')) = false) by (apply Nat.ltb_ge; lia).
      rewrite Hlt. cbn [skipn top_fn]. rewrite Hfa, fd_eqb_refl. cbn [negb].
      cbn [andb with_rebase clear_on_catch rebase_on_drop o_vm].
      split; [reflexivity|].
      constructor; cbn [s_frames s_raised o_vm v_fib fb_frames fb_error_ip o_owner].
      * rewrite map_fn_set_top_fail, map_fn_set_top_ip. cbn [map]. rewrite Hfa, Hfr. reflexivity.
      * apply npend_set_top_fail_tail_none. exact Htail.
      * discriminate.
      * intros f Hin Hne. cbn [set_top_fail] in Hin. destruct Hin as [<-|Hin]; [|exfalso; apply Hne; apply Htail; exact Hin].
        cbn [sf_fail sf_fn] in *. destruct hc; [congruence|]. cbn [andb].
        split; [discriminate | rewrite Hfa; reflexivity].
    + (* frames are dropped: fc < len *)
      assert (Hlt : Nat.ltb fc (List.length (a' :: r')) = true) by (apply Nat.ltb_lt; lia).
      rewrite Hlt, Hreb. cbn [skipn andb].
      assert (Hmk : map sf_fn (skipn k' r) = map fr_fn (skipn k' r')) by (rewrite !map_skipn, Hfr; reflexivity).
      destruct (skipn k' r') as [|b' t'] eqn:Ek'.
      { exfalso. assert (Hl : List.length (skipn k' r') = 0) by (rewrite Ek'; reflexivity).
        rewrite skipn_length in Hl. cbn [List.length] in Hk. lia. }
      destruct (skipn k' r) as [|b t] eqn:Ek; [discriminate Hmk|].
      cbn [map] in Hmk. injection Hmk as Hfb Hft.
      assert (Hinb : In b' r') by (apply (in_skipn k'); rewrite Ek'; left; reflexivity).
      pose proof (distinct_head a' r' b' Hd Hinb) as Hdist.
      cbn [top_fn]. rewrite Hfa, Hdist. cbn [negb o_vm].
      split; [reflexivity|].
      assert (Htl : forall g, In g t -> sf_fail g = None).
      { intros g Hg. apply Htail. apply (in_skipn k'). rewrite Ek. right; exact Hg. }
      constructor; cbn [s_frames s_raised o_vm v_fib fb_frames fb_error_ip o_owner].
      * rewrite map_fn_set_top_fail, map_fn_set_top_ip. cbn [map]. rewrite Hfb, Hft. reflexivity.
      * apply npend_set_top_fail_tail_none. exact Htl.
      * discriminate.
      * intros f Hin Hne. cbn [set_top_fail] in Hin. destruct Hin as [<-|Hin]; [|exfalso; apply Hne; apply Htl; exact Hin].
        cbn [sf_fail sf_fn] in *. destruct hc; [congruence|]. cbn [andb].
        split; [discriminate | rewrite Hfb; reflexivity].
  - (* ORethrow *)
    split; [reflexivity|].
    cbn [op_okb s_raised s_frames] in Hok. apply andb_true_iff in Hok. destruct Hok as [_ Hok].
    constructor; cbn [sstep mstep_own mstep s_frames s_raised o_vm v_fib fb_frames fb_error_ip o_owner]; try assumption.
    intros _. destruct (top_fail sfs); [discriminate | discriminate Hok].
Qed.


Lemma run_agree : forall fl, records_all fl = true -> rebase_on_drop fl = true ->
  forall ops s x, inv s x -> wf_ops s ops = true -> no_fiber_ops ops = true ->
  distinct_along fl (o_vm x) ops = true ->
  o_vm (mrun_own fl x ops) = mrun fl (o_vm x) ops.
Proof.
  intros fl Hrec Hreb. induction ops as [|o r IH]; intros s x Hinv Hwf Hnf Hd; [reflexivity|].
  cbn [wf_ops] in Hwf. apply andb_true_iff in Hwf. destruct Hwf as [Hok Hwf].
  cbn [no_fiber_ops forallb] in Hnf. apply andb_true_iff in Hnf. destruct Hnf as [Hn1 Hnf].
  cbn [distinct_along] in Hd. apply andb_true_iff in Hd. destruct Hd as [Hd1 Hd].
  destruct (step_agree fl s x o Hrec Hreb Hinv Hok Hn1 Hd1) as [Heq Hinv'].
  unfold mrun_own, mrun. cbn [fold_left]. fold (mrun_own fl (mstep_own fl x o) r). fold (mrun fl (mstep fl (o_vm x) o) r).
  rewrite <- Heq. apply (IH (sstep s o)); [exact Hinv' | exact Hwf | exact Hnf | rewrite Heq; exact Hd].
Qed.

Lemma inv_init : forall fd0, inv (sinit fd0) (init_vmo fd0).
Proof.
  intros fd0. constructor; cbn.
  - reflexivity.
  - unfold npend; cbn; lia.
  - discriminate.
  - intros f [<-|[]] H. cbn in H. congruence.
Qed.

(* FULL STATEMENT (not proved): the same for histories with fibers (OFiberCall / OFiberEnd); the invariant would have to
   be carried for every waiting fiber as well.  Proved: single-fiber histories. *)
Theorem rebase_by_owner_agrees_without_recursion_partial : forall fl fd0 ops,
  records_all fl = true -> rebase_on_drop fl = true ->
  wf_ops (sinit fd0) ops = true -> no_fiber_ops ops = true ->
  distinct_along fl (init_vm fd0) ops = true ->
  o_vm (mrun_own fl (init_vmo fd0) ops) = mrun fl (init_vm fd0) ops.
Proof.
  intros fl fd0 ops Hrec Hreb Hwf Hnf Hd.
  apply (run_agree fl Hrec Hreb ops (sinit fd0) (init_vmo fd0) (inv_init fd0) Hwf Hnf Hd).
Qed.
Print Assumptions rebase_by_owner_agrees_without_recursion_partial.

(* the hypotheses are satisfiable by a non-trivial history: the witness with its activations renamed *)
Example rebase_by_owner_agrees_hypotheses :
  wf_ops (sinit (fd_script witness3)) (rename_calls witness3_ops) = true /\
  no_fiber_ops (rename_calls witness3_ops) = true /\
  distinct_along fl_all (init_vm (fd_script witness3)) (rename_calls witness3_ops) = true /\
  distinct_along fl_all (init_vm (fd_script witness3)) witness3_ops = false.
Proof. vm_compute. repeat split; reflexivity. Qed.
