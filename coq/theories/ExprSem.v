(* C05 — value domain, operator table and big-step reference evaluator for the expression /
   statement FRAGMENT of yarel (see C05MECH_REPORT.md).  DEFINITIONS ONLY.

   Transcribed from vm.rs (binary_op_impl, add_impl, equal_impl, logical_not_impl,
   bitwise_not_impl, negate_impl, get_item_impl, set_item_impl, format_string_impl,
   build_range_impl, build_string_impl, build_tuple_impl, build_vec_impl, call_value),
   value.rs (into_bool, PartialEq, Display, try_as_bounded_index), utils.rs (validate_integer),
   object.rs (Display / PartialEq of ObjTuple, ObjVec, ObjRange; make_bounded_range;
   validate_char_boundary) and core.rs (print, check_num_args).

   Operands are evaluated ONCE and LEFT TO RIGHT by definition here. *)
From Coq Require Import Strings.String.
From Coq Require Import List NArith ZArith Bool Arith.
From Coq Require Import Strings.Byte Floats.SpecFloat.
From YV Require Import Ast Num NumText Show.
Import ListNotations.
Local Open Scope list_scope.

(* ------------------------------------------------------------------ *)
(* Values                                                              *)

(* Tuples are immutable but HAVE IDENTITY in the implementation (ObjTuple::eq and the Display
   lock compare addresses), observable as `var t = (0/0,); t == t` ~> true.  So a tuple carries
   its allocation number.  Vectors are mutable and live in the store. [VPrint] is the `print`
   native (the only callable of the fragment). *)
Inductive val :=
| VNil
| VBool (b : bool)
| VNum (x : f64)
| VStr (s : list byte)
| VRange (b e : Z)
| VTuple (id : N) (l : list val)
| VVecRef (id : N)
| VPrint
| VClosure (id : N) (nm : name).   (* a closure of the function fragment (FnSem.v / FnVM.v): identity + the name shown *)

Inductive err :=
| TypeError (m : list byte)
| ValueError (m : list byte)
| IndexError (m : list byte)
| NameError (m : list byte)
| Unsupported.            (* not a yarel error: the term left the modelled fragment *)

Inductive res (A : Type) :=
| Ok (a : A)
| Er (e : err).
Arguments Ok {A} a.
Arguments Er {A} e.

Definition B (s : string) : list byte := list_byte_of_string s.

(* globals, vector store, next tuple id, printed lines (MOST RECENT FIRST) *)
Record world := mkW {
  globals : list (name * val);
  store : list (list val);
  ntid : N;
  out : list (list byte)
}.

Definition with_globals (w : world) (g : list (name * val)) : world :=
  mkW g (store w) (ntid w) (out w).
Definition with_store (w : world) (s : list (list val)) : world :=
  mkW (globals w) s (ntid w) (out w).
Definition emit (w : world) (line : list byte) : world :=
  mkW (globals w) (store w) (ntid w) (line :: out w).

Definition world0 : world := mkW [(B "print", VPrint)] [] 0%N [].

(* ------------------------------------------------------------------ *)
(* small helpers                                                       *)

Fixpoint bytes_eqb (a b : list byte) : bool :=
  match a, b with
  | [], [] => true
  | x :: a', y :: b' => Byte.eqb x y && bytes_eqb a' b'
  | _, _ => false
  end.

Definition name_eqb : name -> name -> bool := bytes_eqb.

Fixpoint mem_N (x : N) (l : list N) : bool :=
  match l with
  | [] => false
  | y :: r => N.eqb x y || mem_N x r
  end.

Fixpoint list_eqb {A} (f : A -> A -> bool) (a b : list A) : bool :=
  match a, b with
  | [], [] => true
  | x :: a', y :: b' => f x y && list_eqb f a' b'
  | _, _ => false
  end.

Fixpoint set_nth {A} (n : nat) (x : A) (l : list A) : list A :=
  match l, n with
  | [], _ => []
  | _ :: r, O => x :: r
  | y :: r, S n' => y :: set_nth n' x r
  end.

Definition vec_get (w : world) (id : N) : option (list val) := nth_error (store w) (N.to_nat id).

Definition bytes_of_Z (z : Z) : list byte := B (show_Z z).
Definition bytes_of_nat (n : nat) : list byte := B (show_nat n).

(* ------------------------------------------------------------------ *)
(* Value::into_bool                                                    *)

Definition truthy (v : val) : bool :=
  match v with
  | VBool b => b
  | VNil => false
  | _ => true
  end.

(* ------------------------------------------------------------------ *)
(* PartialEq for Value.  Fuel bounds the descent through the store (a vector can contain
   itself; the implementation then recurses until the native stack overflows).  Exhausted
   fuel answers false.
   MODEL LIMIT: ranges compare by content here; the implementation compares ADDRESSES of
   ObjRange objects, which coincide for equal bounds only while the range sits in the VM's
   8-entry range cache (RangeCache.v).                                                       *)

Definition eq_fuel : nat := 64.

Fixpoint veq (fuel : nat) (st : list (list val)) (a b : val) : bool :=
  match fuel with
  | O => false
  | S f =>
    match a, b with
    | VNil, VNil => true
    | VBool x, VBool y => Bool.eqb x y
    | VNum x, VNum y => feqb x y
    | VStr x, VStr y => bytes_eqb x y
    | VRange b1 e1, VRange b2 e2 => Z.eqb b1 b2 && Z.eqb e1 e2
    | VTuple i1 l1, VTuple i2 l2 => N.eqb i1 i2 || list_eqb (veq f st) l1 l2
    | VVecRef i1, VVecRef i2 =>
      N.eqb i1 i2 ||
      match nth_error st (N.to_nat i1), nth_error st (N.to_nat i2) with
      | Some l1, Some l2 => list_eqb (veq f st) l1 l2
      | _, _ => false
      end
    | VPrint, VPrint => true
    | VClosure i1 _, VClosure i2 _ => N.eqb i1 i2
    | _, _ => false
    end
  end.

(* ------------------------------------------------------------------ *)
(* Display for Value.  [vl]/[tl]: vectors / tuples whose display lock is currently set.       *)

Definition disp_fuel : nat := 64.

Section Display.
  Variable disp : list N -> list N -> val -> list byte.

  Fixpoint disp_vec_elems (vl tl : list N) (l : list val) : list byte :=
    match l with
    | [] => []
    | [x] => disp vl tl x
    | x :: r => disp vl tl x ++ B ", " ++ disp_vec_elems vl tl r
    end.
End Display.

Fixpoint display_aux (fuel : nat) (st : list (list val)) (vl tl : list N) (v : val) : list byte :=
  match fuel with
  | O => B "<deep>"
  | S f =>
    match v with
    | VNil => B "nil"
    | VBool true => B "true"
    | VBool false => B "false"
    | VNum x => print_f64 x
    | VStr s => s
    | VRange b e => B "Range(" ++ bytes_of_Z b ++ B ", " ++ bytes_of_Z e ++ B ")"
    | VTuple id l =>
      if mem_N id tl then B "(...)"
      else
        B "(" ++
        match l with
        | [x] => display_aux f st vl (id :: tl) x ++ B ","
        | _ => disp_vec_elems (display_aux f st) vl (id :: tl) l
        end ++ B ")"
    | VVecRef id =>
      if mem_N id vl then B "[...]"
      else
        match nth_error st (N.to_nat id) with
        | Some l => B "[" ++ disp_vec_elems (display_aux f st) (id :: vl) tl l ++ B "]"
        | None => B "<dangling>"
        end
    | VPrint => B "<built-in fn print>"
    | VClosure _ nm => B "<fn " ++ nm ++ B ">"     (* the address part " @ 0x.." is dropped *)
    end
  end.

Definition display (w : world) (v : val) : list byte := display_aux disp_fuel (store w) [] [] v.

(* ------------------------------------------------------------------ *)
(* Messages of vm.rs / utils.rs / value.rs / object.rs / core.rs                              *)

Definition msg_binary : list byte := B "Binary operands must both be numbers.".
Definition msg_add : list byte := B "Binary operands must be two numbers or two strings.".
Definition msg_unary : list byte := B "Unary operand must be a number.".
Definition msg_not_indexable (shown : list byte) : list byte :=
  B "Value '" ++ shown ++ B "' is not indexable.".
Definition msg_set_item : list byte := B "Only Vec objects are index-assignable.".
Definition msg_int_or_range : list byte := B "Expected an integer or range.".
Definition msg_expected_int (shown : list byte) : list byte :=
  B "Expected an integer value but found '" ++ shown ++ B "'.".
Definition msg_oob (kind : string) : list byte := B kind ++ B " index out of bounds.".
Definition msg_slice_start (kind : string) : list byte := B kind ++ B " slice start out of range.".
Definition msg_slice_end (kind : string) : list byte := B kind ++ B " slice end out of range.".
Definition msg_boundary (desc : string) : list byte :=
  B "Provided " ++ B desc ++ B " is not on a character boundary.".
Definition msg_undefined (x : name) : list byte := B "Undefined variable '" ++ x ++ B "'.".
Definition msg_not_callable : list byte := B "Can only call functions and methods.".
Definition msg_print_args (n : nat) : list byte :=
  B "Expected 1 parameter but found " ++ bytes_of_nat n ++ B ".".

(* ------------------------------------------------------------------ *)
(* Operator table                                                      *)

Definition num_binop (f : f64 -> f64 -> val) (a b : val) : res val :=
  match a, b with
  | VNum x, VNum y => Ok (f x y)
  | _, _ => Er (TypeError msg_binary)
  end.

Definition add_sem (a b : val) : res val :=
  match a, b with
  | VStr x, VStr y => Ok (VStr (x ++ y))
  | VNum x, VNum y => Ok (VNum (fadd x y))
  | _, _ => Er (TypeError msg_add)
  end.

Definition not_val (v : val) : val := VBool (negb (truthy v)).

(* `<=` is  Greater; LogicalNot,  `>=` is  Less; LogicalNot,  `!=` is  Equal; LogicalNot *)
Definition then_not (r : res val) : res val :=
  match r with
  | Ok v => Ok (not_val v)
  | Er e => Er e
  end.

Definition binop_sem (st : list (list val)) (op : binop) (a b : val) : res val :=
  match op with
  | BAdd => add_sem a b
  | BSub => num_binop (fun x y => VNum (fsub x y)) a b
  | BMul => num_binop (fun x y => VNum (fmul x y)) a b
  | BDiv => num_binop (fun x y => VNum (fdiv x y)) a b
  | BMod => num_binop (fun x y => VNum (frem x y)) a b
  | BEq => Ok (VBool (veq eq_fuel st a b))
  | BNe => then_not (Ok (VBool (veq eq_fuel st a b)))
  | BLt => num_binop (fun x y => VBool (fltb x y)) a b
  | BGt => num_binop (fun x y => VBool (fgtb x y)) a b
  | BLe => then_not (num_binop (fun x y => VBool (fgtb x y)) a b)
  | BGe => then_not (num_binop (fun x y => VBool (fltb x y)) a b)
  | BBitAnd => num_binop (fun x y => VNum (bit_and x y)) a b
  | BBitOr => num_binop (fun x y => VNum (bit_or x y)) a b
  | BBitXor => num_binop (fun x y => VNum (bit_xor x y)) a b
  | BShl => num_binop (fun x y => VNum (shl x y)) a b
  | BShr => num_binop (fun x y => VNum (shr x y)) a b
  end.

Definition unop_sem (op : unop) (a : val) : res val :=
  match op with
  | UNot => Ok (not_val a)
  | UNeg => match a with VNum x => Ok (VNum (fneg x)) | _ => Er (TypeError msg_unary) end
  | UBitNot => match a with VNum x => Ok (VNum (bit_not x)) | _ => Er (TypeError msg_unary) end
  end.

(* utils::validate_integer *)
Definition validate_integer (w : world) (v : val) : res Z :=
  match v with
  | VNum n =>
    if is_integral n then Ok (to_isize n)
    else Er (ValueError (msg_expected_int (display w v)))
  | _ => Er (TypeError (msg_expected_int (display w v)))
  end.

(* build_range_impl: the END operand is popped and validated first *)
Definition range_sem (w : world) (a b : val) : res val :=
  match validate_integer w b with
  | Er e => Er e
  | Ok e =>
    match validate_integer w a with
    | Er x => Er x
    | Ok bg => Ok (VRange bg e)
    end
  end.

(* Value::try_as_bounded_index *)
Definition bounded_index (w : world) (v : val) (bound : Z) (kind : string) : res nat :=
  match validate_integer w v with
  | Er e => Er e
  | Ok i =>
    let i' := if (i <? 0)%Z then (i + bound)%Z else i in
    if ((i' <? 0) || (bound <=? i'))%Z then Er (IndexError (msg_oob kind))
    else Ok (Z.to_nat i')
  end.

(* ObjRange::make_bounded_range *)
Definition bounded_range (rb re limit : Z) (kind : string) : res (nat * nat) :=
  let bg := if (rb <? 0)%Z then (rb + limit)%Z else rb in
  if ((bg <? 0) || (limit <=? bg))%Z then Er (IndexError (msg_slice_start kind))
  else
    let en := if (re <? 0)%Z then (re + limit)%Z else re in
    if ((en <? 0) || (limit <? en))%Z then Er (IndexError (msg_slice_end kind))
    else Ok (Z.to_nat bg, Z.to_nat (if (bg <=? en)%Z then en else bg)).

Definition slice {A} (l : list A) (b e : nat) : list A := firstn (e - b) (skipn b l).

(* str::is_char_boundary *)
Definition is_cont_byte (b : byte) : bool :=
  let n := Byte.to_N b in (128 <=? n)%N && (n <? 192)%N.
Definition is_char_boundary (s : list byte) (pos : nat) : bool :=
  match pos with
  | O => true
  | _ => match nth_error s pos with
         | Some b => negb (is_cont_byte b)
         | None => Nat.eqb pos (length s)
         end
  end.
Fixpoint take_cont (l : list byte) : list byte :=
  match l with
  | b :: r => if is_cont_byte b then b :: take_cont r else []
  | [] => []
  end.

Definition alloc_tuple (w : world) (l : list val) : val * world :=
  (VTuple (ntid w) l, mkW (globals w) (store w) (ntid w + 1)%N (out w)).
Definition alloc_vec (w : world) (l : list val) : val * world :=
  (VVecRef (N.of_nat (length (store w))), with_store w (store w ++ [l])).

(* slice_get_item *)
Definition seq_get_item (w : world) (elems : list val) (idx : val) (kind : string)
           (mk : world -> list val -> val * world) : res (val * world) :=
  match idx with
  | VNum _ =>
    match bounded_index w idx (Z.of_nat (length elems)) kind with
    | Er e => Er e
    | Ok i => match nth_error elems i with
              | Some v => Ok (v, w)
              | None => Er Unsupported          (* unreachable: i < length *)
              end
    end
  | VRange rb re =>
    match bounded_range rb re (Z.of_nat (length elems)) kind with
    | Er e => Er e
    | Ok (b, e) => Ok (mk w (slice elems b e))
    end
  | _ => Er (TypeError msg_int_or_range)
  end.

(* string_get_item (bytes; UTF-8 boundaries as str::is_char_boundary) *)
Definition str_get_item (w : world) (s : list byte) (idx : val) : res (val * world) :=
  match idx with
  | VNum _ =>
    match bounded_index w idx (Z.of_nat (length s)) "String" with
    | Er e => Er e
    | Ok i =>
      if is_char_boundary s i then
        match skipn i s with
        | b :: r => Ok (VStr (b :: take_cont r), w)
        | [] => Er Unsupported                  (* unreachable *)
        end
      else Er (IndexError (msg_boundary "string index"))
    end
  | VRange rb re =>
    match bounded_range rb re (Z.of_nat (length s)) "String" with
    | Er e => Er e
    | Ok (b, e) =>
      if negb (is_char_boundary s b) then Er (IndexError (msg_boundary "string slice start"))
      else if negb (is_char_boundary s e) then Er (IndexError (msg_boundary "string slice end"))
      else Ok (VStr (slice s b e), w)
    end
  | _ => Er (TypeError msg_int_or_range)
  end.

(* get_item_impl *)
Definition get_item (w : world) (o i : val) : res (val * world) :=
  match o with
  | VStr s => str_get_item w s i
  | VTuple _ l => seq_get_item w l i "Tuple" alloc_tuple
  | VVecRef id =>
    match vec_get w id with
    | Some l => seq_get_item w l i "Vec" alloc_vec
    | None => Er Unsupported                    (* dangling reference: never built *)
    end
  | _ => Er (TypeError (msg_not_indexable (display w o)))
  end.

(* set_item_impl; the expression's value is nil *)
Definition set_item (w : world) (o i v : val) : res (val * world) :=
  match o with
  | VVecRef id =>
    match vec_get w id with
    | Some l =>
      match bounded_index w i (Z.of_nat (length l)) "Vec" with
      | Er e => Er e
      | Ok k => Ok (VNil, with_store w (set_nth (N.to_nat id) (set_nth k v l) (store w)))
      end
    | None => Er Unsupported
    end
  | _ => Er (TypeError msg_set_item)
  end.

(* format_string_impl *)
Definition format_val (w : world) (v : val) : val :=
  match v with
  | VStr _ => v
  | _ => VStr (display w v)
  end.

(* call_value / call_native for the one native of the fragment *)
Definition call_sem (w : world) (f : val) (args : list val) : res (val * world) :=
  match f with
  | VPrint =>
    match args with
    | [a] => Ok (VNil, emit w (display w a))
    | _ => Er (TypeError (msg_print_args (length args)))
    end
  | _ => Er (TypeError msg_not_callable)
  end.

(* ------------------------------------------------------------------ *)
(* Environments                                                        *)

(* locals, most recently declared FIRST; the last entry is the reserved slot 0 *)
Definition lenv := list (name * val).

Fixpoint lookup (l : list (name * val)) (x : name) : option val :=
  match l with
  | [] => None
  | (y, v) :: r => if name_eqb x y then Some v else lookup r x
  end.

Fixpoint update (l : list (name * val)) (x : name) (v : val) : list (name * val) :=
  match l with
  | [] => []
  | (y, u) :: r => if name_eqb x y then (y, v) :: r else (y, u) :: update r x v
  end.

(* HashMap::insert *)
Definition upsert (l : list (name * val)) (x : name) (v : val) : list (name * val) :=
  match lookup l x with
  | Some _ => update l x v
  | None => l ++ [(x, v)]
  end.

Definition lenv0 : lenv := [([], VNil)].     (* slot 0: the script's own closure, never read *)

Record st := mkSt { locals : lenv; wd : world }.

Definition get_var (s : st) (x : name) : res val :=
  match lookup (locals s) x with
  | Some v => Ok v
  | None =>
    match lookup (globals (wd s)) x with
    | Some v => Ok v
    | None => Er (NameError (msg_undefined x))
    end
  end.

Definition set_var (s : st) (x : name) (v : val) : res st :=
  match lookup (locals s) x with
  | Some _ => Ok (mkSt (update (locals s) x v) (wd s))
  | None =>
    match lookup (globals (wd s)) x with
    | Some _ => Ok (mkSt (locals s) (with_globals (wd s) (update (globals (wd s)) x v)))
    | None => Er (NameError (msg_undefined x))
    end
  end.

Definition set_wd (s : st) (w : world) : st := mkSt (locals s) w.

(* ------------------------------------------------------------------ *)
(* Expressions                                                         *)

Section Lists.
  Variable ev : expr -> st -> st * res val.

  Fixpoint eval_list (es : list expr) (s : st) : st * res (list val) :=
    match es with
    | [] => (s, Ok [])
    | e :: r =>
      match ev e s with
      | (s1, Ok v) =>
        match eval_list r s1 with
        | (s2, Ok vs) => (s2, Ok (v :: vs))
        | (s2, Er x) => (s2, Er x)
        end
      | (s1, Er x) => (s1, Er x)
      end
    end.
End Lists.

Definition compound_ok (op : binop) : bool :=
  match op with
  | BEq | BNe | BLt | BLe | BGt | BGe => false
  | _ => true
  end.

Fixpoint eval_expr (e : expr) (s : st) {struct e} : st * res val :=
  match e with
  | ENil => (s, Ok VNil)
  | ETrue => (s, Ok (VBool true))
  | EFalse => (s, Ok (VBool false))
  | ENum x => (s, Ok (VNum x))
  | EStr b => (s, Ok (VStr b))
  | EInterp parts =>
    let fix go (ps : list interp_part) (s : st) : st * res (list byte) :=
      match ps with
      | [] => (s, Ok [])
      | IPStr b :: r =>
        match go r s with
        | (s2, Ok bs) => (s2, Ok (b ++ bs))
        | (s2, Er x) => (s2, Er x)
        end
      | IPExpr e1 :: r =>
        match eval_expr e1 s with
        | (s1, Ok v) =>
          let piece := match format_val (wd s1) v with VStr b => b | _ => [] end in
          match go r s1 with
          | (s2, Ok bs) => (s2, Ok (piece ++ bs))
          | (s2, Er x) => (s2, Er x)
          end
        | (s1, Er x) => (s1, Er x)
        end
      end in
    match go parts s with
    | (s1, Ok bs) => (s1, Ok (VStr bs))
    | (s1, Er x) => (s1, Er x)
    end
  | EVar x => (s, get_var s x)
  | EAssign x e1 =>
    match eval_expr e1 s with
    | (s1, Ok v) =>
      match set_var s1 x v with
      | Ok s2 => (s2, Ok v)
      | Er err => (s1, Er err)
      end
    | (s1, Er err) => (s1, Er err)
    end
  | ECompound x op e1 =>
    if compound_ok op then
      match get_var s x with
      | Er err => (s, Er err)
      | Ok a =>
        match eval_expr e1 s with
        | (s1, Ok b) =>
          match binop_sem (store (wd s1)) op a b with
          | Ok v =>
            match set_var s1 x v with
            | Ok s2 => (s2, Ok v)
            | Er err => (s1, Er err)
            end
          | Er err => (s1, Er err)
          end
        | (s1, Er err) => (s1, Er err)
        end
      end
    else (s, Er Unsupported)
  | EUnary op e1 =>
    match eval_expr e1 s with
    | (s1, Ok v) => (s1, unop_sem op v)
    | (s1, Er err) => (s1, Er err)
    end
  | EBinary op a b =>
    match eval_expr a s with
    | (s1, Ok va) =>
      match eval_expr b s1 with
      | (s2, Ok vb) => (s2, binop_sem (store (wd s2)) op va vb)
      | (s2, Er err) => (s2, Er err)
      end
    | (s1, Er err) => (s1, Er err)
    end
  | EAnd a b =>
    match eval_expr a s with
    | (s1, Ok va) => if truthy va then eval_expr b s1 else (s1, Ok va)
    | (s1, Er err) => (s1, Er err)
    end
  | EOr a b =>
    match eval_expr a s with
    | (s1, Ok va) => if truthy va then (s1, Ok va) else eval_expr b s1
    | (s1, Er err) => (s1, Er err)
    end
  | ERange a b =>
    match eval_expr a s with
    | (s1, Ok va) =>
      match eval_expr b s1 with
      | (s2, Ok vb) => (s2, range_sem (wd s2) va vb)
      | (s2, Er err) => (s2, Er err)
      end
    | (s1, Er err) => (s1, Er err)
    end
  | ECall f args =>
    match eval_expr f s with
    | (s1, Ok vf) =>
      match eval_list eval_expr args s1 with
      | (s2, Ok vs) =>
        match call_sem (wd s2) vf vs with
        | Ok (v, w) => (set_wd s2 w, Ok v)
        | Er err => (s2, Er err)
        end
      | (s2, Er err) => (s2, Er err)
      end
    | (s1, Er err) => (s1, Er err)
    end
  | EIndex o i =>
    match eval_expr o s with
    | (s1, Ok vo) =>
      match eval_expr i s1 with
      | (s2, Ok vi) =>
        match get_item (wd s2) vo vi with
        | Ok (v, w) => (set_wd s2 w, Ok v)
        | Er err => (s2, Er err)
        end
      | (s2, Er err) => (s2, Er err)
      end
    | (s1, Er err) => (s1, Er err)
    end
  | ESetIndex o i e1 =>
    match eval_expr o s with
    | (s1, Ok vo) =>
      match eval_expr i s1 with
      | (s2, Ok vi) =>
        match eval_expr e1 s2 with
        | (s3, Ok v) =>
          match set_item (wd s3) vo vi v with
          | Ok (r, w) => (set_wd s3 w, Ok r)
          | Er err => (s3, Er err)
          end
        | (s3, Er err) => (s3, Er err)
        end
      | (s2, Er err) => (s2, Er err)
      end
    | (s1, Er err) => (s1, Er err)
    end
  | ETuple es =>
    match eval_list eval_expr es s with
    | (s1, Ok vs) => let (v, w) := alloc_tuple (wd s1) vs in (set_wd s1 w, Ok v)
    | (s1, Er err) => (s1, Er err)
    end
  | EVec es =>
    match eval_list eval_expr es s with
    | (s1, Ok vs) => let (v, w) := alloc_vec (wd s1) vs in (set_wd s1 w, Ok v)
    | (s1, Er err) => (s1, Er err)
    end
  | _ => (s, Er Unsupported)
  end.

(* ------------------------------------------------------------------ *)
(* Statements                                                          *)

Inductive outcome :=
| ONormal
| OBreak
| OContinue
| OErr (e : err)
| OFuel.

(* keep the [n] OLDEST locals: leaving a scope *)
Definition keep_last {A} (n : nat) (l : list A) : list A := skipn (length l - n) l.

Definition leave_scope (n : nat) (s : st) : st := mkSt (keep_last n (locals s)) (wd s).

(* [depth] = Compiler.scope_depth: `var` at depth 0 defines a global, otherwise a local *)
Fixpoint exec_stmt (fuel : nat) (depth : nat) (stm : stmt) (s : st) {struct fuel} : st * outcome :=
  match fuel with
  | O => (s, OFuel)
  | S f =>
    let exec_list :=
      fix go (d : nat) (l : list stmt) (s : st) : st * outcome :=
        match l with
        | [] => (s, ONormal)
        | x :: r =>
          match exec_stmt f d x s with
          | (s1, ONormal) => go d r s1
          | (s1, o) => (s1, o)
          end
        end in
    let exec_block := fun (b : list stmt) (s : st) =>
      let n := length (locals s) in
      let (s1, o) := exec_list (S depth) b s in (leave_scope n s1, o) in
    match stm with
    | SExpr _ e =>
      match eval_expr e s with
      | (s1, Ok _) => (s1, ONormal)
      | (s1, Er x) => (s1, OErr x)
      end
    | SVar _ x init =>
      let (s1, r) := match init with
                     | Some e => eval_expr e s
                     | None => (s, Ok VNil)
                     end in
      match r with
      | Ok v =>
        match depth with
        | O => (mkSt (locals s1) (with_globals (wd s1) (upsert (globals (wd s1)) x v)), ONormal)
        | S _ => (mkSt ((x, v) :: locals s1) (wd s1), ONormal)
        end
      | Er e => (s1, OErr e)
      end
    | SBlock _ b => exec_block b s
    | SIf _ c t e =>
      match eval_expr c s with
      | (s1, Ok v) =>
        if truthy v then exec_block t s1
        else match e with
             | Some s' => exec_stmt f depth s' s1
             | None => (s1, ONormal)
             end
      | (s1, Er x) => (s1, OErr x)
      end
    | SWhile _ c b =>
      match eval_expr c s with
      | (s1, Ok v) =>
        if truthy v then
          match exec_block b s1 with
          | (s2, ONormal) | (s2, OContinue) => exec_stmt f depth stm s2
          | (s2, OBreak) => (s2, ONormal)
          | (s2, o) => (s2, o)
          end
        else (s1, ONormal)
      | (s1, Er x) => (s1, OErr x)
      end
    | SBreak _ => (s, OBreak)
    | SContinue _ => (s, OContinue)
    | _ => (s, OErr Unsupported)
    end
  end.

Fixpoint exec_stmts (fuel : nat) (depth : nat) (l : list stmt) (s : st) : st * outcome :=
  match l with
  | [] => (s, ONormal)
  | x :: r =>
    match exec_stmt fuel depth x s with
    | (s1, ONormal) => exec_stmts fuel depth r s1
    | (s1, o) => (s1, o)
    end
  end.

Definition st0 : st := mkSt lenv0 world0.

Definition run_program (fuel : nat) (p : program) : st * outcome := exec_stmts fuel 0 p st0.
