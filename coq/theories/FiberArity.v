(* C09 (round 7) - the per-fiber record of the arity of the native in progress (`ObjFiber.native_arity`).
   Definitions only.

   Read off vm.rs `call_native`:
       self.active_fiber_mut().set_native_arity(arg_count);     (AEnter n, on the fiber active BEFORE the native)
       let result = function(self, arg_count);                  (the native may switch fibers: fiber_call -> load_fiber,
                                                                 fiber_yield -> unload_fiber)
       self.active_fiber_mut().take_native_arity();             (AExit, on the fiber active AFTER the native)
   and vm.rs `return_impl` -> `unload_fiber`: a switch OUTSIDE any native (ASwitch with no native in progress).
   object.rs `native_frame_slot` / `unchecked_native_frame_slot` (behind `Vm::native_arg`) are the only readers; they
   run inside a native before it switches.

   The record is therefore NOT a function of the fiber's own history of natives: the fiber that entered a switching
   native is not the one that leaves it.  `a_native` = Some n while a native with n arguments runs and has not switched
   yet (the window in which the readers run); `a_pending` = the number of argument slots of a native in progress on the
   running fiber's stack that a hand-over must drop (n inside fiber_yield, 0 at the return of a body). *)
From Coq Require Import List Arith Bool.
From YV Require Import FiberBase.
Import ListNotations.

Inductive aev :=
| AEnter (n : nat)        (* call_native: a native with n arguments starts on the running fiber *)
| ASwitch (t : nat)       (* load_fiber / unload_fiber: fiber t becomes the running one *)
| AExit.                  (* call_native: the native function has returned *)

Record ast := mkA {
  a_cur : nat;                       (* the running fiber *)
  a_rec : nat -> option nat;         (* ObjFiber.native_arity of every fiber *)
  a_native : option nat }.           (* a native in progress that has not switched fibers yet *)

Definition a_init : ast := mkA 0 (fun _ => None) None.

Definition a_step (s : ast) (e : aev) : ast :=
  match e with
  | AEnter n => mkA (a_cur s) (upd (a_cur s) (Some n) (a_rec s)) (Some n)
  | ASwitch t => mkA t (a_rec s) None
  | AExit => mkA (a_cur s) (upd (a_cur s) None (a_rec s)) None
  end.

Definition a_run (s : ast) (l : list aev) : ast := fold_left a_step l s.

(* the argument slots of a native in progress that sit on the running fiber's stack *)
Definition a_pending (s : ast) : nat := match a_native s with Some n => n | None => 0 end.
(* what a hand-over that trusts the record would drop *)
Definition a_recorded (s : ast) : nat := match a_rec s (a_cur s) with Some n => n | None => 0 end.

(* the seed of round 7: fiber 1 runs; `f2.call(x)` (one argument) switches to fiber 2; call_native clears the record of
   fiber 2; fiber 2's body returns (return_impl: a switch outside any native); fiber 1 runs again *)
Definition stale_trace : list aev := [ASwitch 1; AEnter 1; ASwitch 2; AExit; ASwitch 1].
