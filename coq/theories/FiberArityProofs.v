(* C09 (round 7) - proofs about the record of the native arity (FiberArity.v). *)
From Coq Require Import List Arith Bool.
From YV Require Import FiberBase FiberArity.
Import ListNotations.

Inductive a_reachable : ast -> Prop :=
| ar_init : a_reachable a_init
| ar_step : forall s e, a_reachable s -> a_reachable (a_step s e).

Lemma a_run_reachable : forall l s, a_reachable s -> a_reachable (a_run s l).
Proof.
  induction l as [|e l IH]; intros s Hs; cbn; [exact Hs|].
  apply IH. apply ar_step. exact Hs.
Qed.

(* inside a native that has not switched fibers, the running fiber's record is the arity of THAT native: the readers
   (`native_frame_slot`, `unchecked_native_frame_slot`) are sound *)
Theorem arity_fresh_inside_native : forall s n,
  a_reachable s -> a_native s = Some n -> a_rec s (a_cur s) = Some n.
Proof.
  intros s n Hs. revert n. induction Hs as [|s e Hs IH]; intros n Hn.
  - discriminate.
  - destruct e as [k|t|]; cbn in *.
    + inversion Hn; subst. unfold upd. rewrite Nat.eqb_refl. reflexivity.
    + discriminate.
    + discriminate.
Qed.
Print Assumptions arity_fresh_inside_native.

Example arity_fresh_inside_native_ex :
  let s := a_run a_init [ASwitch 1; AEnter 2] in a_native s = Some 2 /\ a_rec s (a_cur s) = Some 2.
Proof. split; reflexivity. Qed.

(* ... and in that window the record equals the number of argument slots to drop *)
Corollary recorded_is_pending_inside_native : forall s n,
  a_reachable s -> a_native s = Some n -> a_recorded s = a_pending s.
Proof.
  intros s n Hs Hn. unfold a_recorded, a_pending.
  rewrite (arity_fresh_inside_native s n Hs Hn), Hn. reflexivity.
Qed.
Print Assumptions recorded_is_pending_inside_native.

Theorem arity_fresh_and_pending : forall s n,
  a_reachable s -> a_native s = Some n -> a_rec s (a_cur s) = Some n /\ a_recorded s = a_pending s.
Proof.
  intros s n Hs Hn. split; [exact (arity_fresh_inside_native s n Hs Hn) | exact (recorded_is_pending_inside_native s n Hs Hn)].
Qed.
Print Assumptions arity_fresh_and_pending.

(* outside that window the record is stale: a fiber whose one-argument `call` was answered by the callee RETURNING runs
   with the record Some 1 although no native is in progress - a hand-over that drops `recorded` slots at the return of
   the body drops one slot too many.  Hence: no site outside the natives' own argument accessors may read the record
   (regenerated side condition `arity_read_only_by_native_accessors`, YVGen.FiberArms). *)
Theorem recorded_arity_stale_outside_native :
  exists s, a_reachable s /\ a_native s = None /\ a_pending s = 0 /\ a_recorded s = 1.
Proof.
  exists (a_run a_init stale_trace). split; [|repeat split].
  apply a_run_reachable. apply ar_init.
Qed.
Print Assumptions recorded_arity_stale_outside_native.

(* the record of a fiber that is not running never changes (it is private state of the fiber) *)
Theorem arity_record_private : forall s e k, k <> a_cur s -> a_rec (a_step s e) k = a_rec s k.
Proof.
  intros s e k Hk. destruct e as [n|t|]; cbn; try reflexivity; unfold upd;
    destruct (Nat.eqb k (a_cur s)) eqn:E; try reflexivity; apply Nat.eqb_eq in E; contradiction.
Qed.
Print Assumptions arity_record_private.
