(* C09 - common vocabulary of the fiber development: values, the mini-language of fiber programs,
   events and outcomes.  Definitions only (no proofs).

   The mini-language: a program creates a bounded number of fibers (ids 1..n; id 0 is the main
   script, which is itself the root fiber of the VM) whose bodies are straight-line scripts of
   actions.  Every interleaving of call / yield / return / throw over the fibers is a program. *)
From Coq Require Import List ZArith Bool Arith.
Import ListNotations.

(* three locals per body, declared at the top of the body *)
Inductive var := X0 | X1 | X2.

Inductive expr :=
| ENil
| EConst (z : Z)
| EVar (x : var)
| EParam.                       (* the fiber's parameter; nil for a body without parameter *)

Inductive action :=
| APrint (e : expr)                                   (* print(e); *)
| ASet (x : var) (e : expr)                           (* x = e; *)
| AYield (dst : option var) (arg : option expr) (nested : bool)
    (* [x =] Fiber.yield(e?)   - nested: through the helper function hy0()/hy1(e): 2 frames at suspension *)
| ACall (dst : option var) (k : nat) (arg : option expr) (nested : bool)
    (* [x =] fk.call(e?)       - nested: through the helper hc0(fk)/hc1(fk,e) *)
| ACall2 (k : nat) (e1 e2 : expr)                     (* fk.call(e1, e2);  always a wrong argument count *)
| AReturn (arg : option expr)                         (* return e?; *)
| AThrow (z : Z)                                      (* throw z; *)
| AHasFinished (k : nat)                              (* print(fk.has_finished()); *)
| ATry                                                (* try {            *)
| AEndTry                                             (* } catch e { print(desc(e)); }   *)
| ACapture (x : var)                                  (* g_me = || x;  s_me = |a| { x = a; }; *)
| APrintCap (k : nat)                                 (* if gk != nil { print(gk()); } else { print("unset"); } *)
| ASetCap (k : nat) (e : expr).                       (* if sk != nil { sk(e); } *)

Record fdef := mkFdef { fd_param : bool; fd_body : list action }.
Record prog := mkProg { p_main : list action; p_fibers : list fdef }.

(* fiber ids: 0 = main script, k >= 1 = k-th created fiber *)
Definition fdef_of (p : prog) (k : nat) : option fdef :=
  match k with 0 => None | S j => nth_error (p_fibers p) j end.

(* the errors of the fiber natives *)
Inductive ferr :=
| EFinished                                  (* RuntimeError "Cannot call a finished fiber." *)
| EAlreadyCalled                             (* RuntimeError "Cannot call a fiber that has already been called." *)
| EYieldOutside                              (* RuntimeError "Cannot yield from module-level code." *)
| EArityExact (expected found : nat)         (* TypeError "Expected N parameter(s) but found M." *)
| EArityMost (found : nat).                  (* TypeError "Expected at most 1 parameter but found M." *)

Inductive helper := HC0 | HC1 | HY0 | HY1.

Inductive value :=
| VNil
| VBool (b : bool)
| VNum (z : Z)
| VFiberClass                  (* the class object `Fiber`: receiver of Fiber.yield *)
| VFiber (k : nat)
| VClosure (k : nat)           (* the closure of body k: slot 0 of fiber k *)
| VHelper (h : helper)
| VErr (e : ferr).             (* error instance created by call_native for a failed native *)

Inductive event :=
| EvPrint (v : value)          (* print(v) *)
| EvCaught (v : value)         (* print(desc(v)) in a catch block *)
| EvUnset.                     (* print("unset") *)

Inductive outcome :=
| ODone                        (* the main script ran to its end *)
| OUncaught (v : value)        (* an exception not caught by the RUNNING fiber ends the run *)
| OInvalid                     (* the program is outside the mini-language (see valid_prog) *)
| OFuel.

Definition result := (list event * outcome)%type.

(* total maps *)
Definition upd {A} (k : nat) (x : A) (f : nat -> A) : nat -> A :=
  fun j => if Nat.eqb j k then x else f j.

Record locals := mkLocals { l0 : value; l1 : value; l2 : value }.
Definition nil_locals := mkLocals VNil VNil VNil.
Definition get_var (x : var) (l : locals) : value :=
  match x with X0 => l0 l | X1 => l1 l | X2 => l2 l end.
Definition set_var (x : var) (v : value) (l : locals) : locals :=
  match x with
  | X0 => mkLocals v (l1 l) (l2 l)
  | X1 => mkLocals (l0 l) v (l2 l)
  | X2 => mkLocals (l0 l) (l1 l) v
  end.
Definition set_dst (d : option var) (v : value) (l : locals) : locals :=
  match d with Some x => set_var x v l | None => l end.
Definition var_ix (x : var) : nat := match x with X0 => 0 | X1 => 1 | X2 => 2 end.

(* the code that runs when an exception is caught by the innermost open `try` of this script:
   what follows the matching AEndTry (depth counts the ATry met on the way) *)
Fixpoint after_endtry (depth : nat) (code : list action) : list action :=
  match code with
  | [] => []
  | AEndTry :: r => match depth with 0 => r | S d => after_endtry d r end
  | ATry :: r => after_endtry (S depth) r
  | _ :: r => after_endtry depth r
  end.

Definition argc_of (a : option expr) : nat := match a with Some _ => 1 | None => 0 end.
Definition nparams (b : bool) : nat := if b then 1 else 0.
