(* C09 - the mini-language of fiber programs with its two interpreters and its renderer.
   Definitions only.
     eval_coroutine : S, over Coroutines.v     (what the property demands)
     eval_mech      : M, over Fibers.v         (what the VM does: stack slots popped and poked)
     render         : the yarel source of a program
   Both interpreters advance by one action of the running fiber per step.  After a switch M runs the
   resumed fiber's pending micro-instructions (helper `Return`, `SetLocal`, `Pop`, or the three
   `var x = nil` of a body that starts) in the same step: nothing observable lies in between.

   Outside the mini-language (outcome OInvalid in both interpreters, rejected by `valid_prog`, never
   rendered): `return` or the end of a body inside an open `try`, `return` in the main script, an
   unmatched `}` , a reference to a fiber that is not created. *)
From Coq Require Import List ZArith NArith Bool Arith String Ascii.
From YV Require Import Show Wire FiberBase Coroutines Fibers.
Import ListNotations.

(* ------------------------------------------------------------------------------------------ *)
(* S *)

Definition s_eval (c : coro) (e : expr) : value :=
  match e with
  | ENil => VNil
  | EConst z => VNum z
  | EVar x => get_var x (c_locals c)
  | EParam => if c_hasparam c then c_param c else VNil
  end.

Definition s_upd_cur (s : sstate) (g : coro -> coro) : sstate :=
  set_co s (upd (s_cur s) (g (s_co s (s_cur s))) (s_co s)).

(* exceptions are delivered to the innermost open try OF THE RUNNING COROUTINE; otherwise the run ends *)
Definition s_raise (s : sstate) (v : value) : sstate + outcome :=
  match c_handlers (s_co s (s_cur s)) with
  | [] => inr (OUncaught v)
  | h :: hs => inl (s_emit (EvCaught v) (s_upd_cur s (fun c => set_fresh false (set_handlers hs (set_code h c)))))
  end.

Definition of_sres (s0 : sstate) (r : sres) : sstate + outcome :=
  match r with SOk s' => inl s' | SErr e => s_raise s0 (VErr e) | SStuck => inr OInvalid end.

Definition s_return (s : sstate) (v : value) : sstate + outcome :=
  let c := s_co s (s_cur s) in
  match c_handlers c with
  | _ :: _ => inr OInvalid
  | [] => match c_back c with
          | None => inr ODone
          | Some _ => of_sres s (s_finish s v)
          end
  end.

Definition s_unfresh_if (b : bool) (s : sstate) : sstate := if b then s_upd_cur s (set_fresh false) else s.

Definition step_S (p : prog) (s : sstate) : sstate + outcome :=
  let c := s_co s (s_cur s) in
  match c_code c with
  | [] => s_return s VNil
  | a :: rest =>
    let s1 := s_upd_cur s (set_code rest) in
    match a with
    | APrint e => inl (s_emit (EvPrint (s_eval c e)) s1)
    | ASet x e => inl (s_upd_cur s1 (fun c1 => set_locals (set_var x (s_eval c e) (c_locals c1)) c1))
    | AYield dst arg nested =>
      let s2 := s_unfresh_if nested s1 in
      of_sres s2 (s_suspend s2 (match arg with Some e => s_eval c e | None => VNil end) dst)
    | ACall dst k arg nested =>
      match fdef_of p k with
      | None => inr OInvalid
      | Some _ =>
        let s2 := s_unfresh_if nested s1 in
        of_sres s2 (s_resume s2 k (argc_of arg) (option_map (s_eval c) arg) dst)
      end
    | ACall2 k e1 e2 =>
      match fdef_of p k with
      | None => inr OInvalid
      | Some _ => of_sres s1 (s_resume s1 k 2 None None)
      end
    | AReturn arg => s_return s1 (match arg with Some e => s_eval c e | None => VNil end)
    | AThrow z => s_raise s1 (VNum z)
    | AHasFinished k =>
      match fdef_of p k with
      | None => inr OInvalid
      | Some _ => inl (s_emit (EvPrint (VBool (is_done (s_co s1 k)))) s1)
      end
    | ATry => inl (s_upd_cur s1 (fun c1 => set_handlers (after_endtry 0 rest :: c_handlers c1) c1))
    | AEndTry =>
      match c_handlers c with
      | [] => inr OInvalid
      | _ :: hs => inl (s_upd_cur s1 (set_handlers hs))
      end
    | ACapture x => inl (set_caps s1 (upd (s_cur s) (Some x) (s_caps s)))
    | APrintCap k =>
      match s_caps s k with
      | None => inl (s_emit EvUnset s1)
      | Some x => inl (s_emit (EvPrint (get_var x (c_locals (s_co s1 k)))) (s_upd_cur s1 (set_fresh false)))
      end
    | ASetCap k e =>
      match s_caps s k with
      | None => inl s1
      | Some x =>
        let s2 := s_upd_cur s1 (set_fresh false) in
        inl (set_co s2 (upd k (set_locals (set_var x (s_eval c e) (c_locals (s_co s2 k))) (s_co s2 k)) (s_co s2)))
      end
    end
  end.

Fixpoint run_S (p : prog) (fuel : nat) (s : sstate) : result :=
  match fuel with
  | O => (rev (s_out s), OFuel)
  | S n => match step_S p s with
           | inl s' => run_S p n s'
           | inr o => (rev (s_out s), o)
           end
  end.

Definition dead_coro : coro := mkCoro SDone false false VNil nil_locals [] [] None.

Definition init_S (p : prog) : sstate :=
  mkS 0
      (fun k => match k with
                | 0 => mkCoro SRunning true false VNil nil_locals (p_main p) [] None
                | S j => match nth_error (p_fibers p) j with
                         | Some d => mkCoro SNew true (fd_param d) VNil nil_locals (fd_body d) [] None
                         | None => dead_coro
                         end
                end)
      (fun _ => None) [].

Definition total_actions (p : prog) : nat :=
  List.length (p_main p) + fold_right (fun d n => List.length (fd_body d) + n) 0 (p_fibers p).
Definition fuel_of (p : prog) : nat := total_actions p + List.length (p_fibers p) + 2.

Definition eval_coroutine (p : prog) : result := run_S p (fuel_of p) (init_S p).

(* ------------------------------------------------------------------------------------------ *)
(* M *)

Inductive cap := CapOpen (slot : nat) | CapClosed (v : value).
Record switchrec := mkSw { sw_from : nat; sw_to : nat; sw_stack : nat; sw_frames : nat; sw_has_caller : bool }.
Record mstate := mkM { m_vm : vm; m_caps : nat -> option cap; m_out : list event; m_sched : list switchrec }.

Fixpoint set_nth {A} (n : nat) (v : A) (l : list A) : list A :=
  match l, n with
  | [], _ => []
  | _ :: r, 0 => v :: r
  | x :: r, S n' => x :: set_nth n' v r
  end.

(* slot of a local: 0 = closure, 1 = parameter if any, then x0 x1 x2 *)
Definition slot_of (f : fiber) (x : var) : nat := call_arity f + var_ix x.

Definition m_eval (f : fiber) (e : expr) : value :=
  match e with
  | ENil => VNil
  | EConst z => VNum z
  | EVar x => nth (slot_of f x) (stack f) VNil
  | EParam => if Nat.eqb (call_arity f) 2 then nth 1 (stack f) VNil else VNil
  end.

Definition set_ip (ip : cont) (fr : frame) := mkFrame (fr_fn fr) (fr_base fr) ip (fr_fresh fr).

(* after Invoke/Call returned into a body: [SetLocal dst;] Pop *)
Definition store_top (dst : option var) (code : list action) (fr : frame) (f : fiber) : fiber :=
  let v := f_peek 0 f in
  let f1 := match dst with
            | Some x => set_stack (set_nth (slot_of f x) v (stack f)) f
            | None => f
            end in
  set_frames [set_ip (KBody code) fr] (f_pop f1).

(* var x0 = nil; var x1 = nil; var x2 = nil; *)
Definition prologue (f : fiber) : fiber := f_push VNil (f_push VNil (f_push VNil f)).

(* run the pending micro-instructions of the fiber that has just become current *)
Definition settle (m : vm) : option vm :=
  match current m with
  | None => None
  | Some c =>
    let f := fibers m c in
    match frames f with
    | [fr] =>
      match fr_ip fr with
      | KBody _ => if fr_fresh fr then Some (set_fiber m c (prologue f)) else None
      | KStore dst code => Some (set_fiber m c (store_top dst code fr f))
      | KHelperRet => None
      end
    | [hf; fr] =>
      match fr_ip hf, fr_ip fr with
      | KHelperRet, KStore dst code =>
        match return_impl m with
        | ROk m1 => Some (set_fiber m1 c (store_top dst code fr (fibers m1 c)))
        | _ => None
        end
      | _, _ => None
      end
    | _ => None
    end
  end.

Definition mfin := (outcome * list switchrec)%type.

Definition sw_of (from : nat) (m : vm) (t : nat) : switchrec :=
  let ft := fibers m t in
  mkSw from t (List.length (stack ft)) (List.length (frames ft)) (is_some (caller ft)).

Definition after_switch (st : mstate) (from : nat) (m' : vm) : mstate + mfin :=
  match current m' with
  | None => inr (OInvalid, m_sched st)
  | Some t =>
    match settle m' with
    | Some m'' => inl (mkM m'' (m_caps st) (m_out st) (sw_of from m' t :: m_sched st))
    | None => inr (OInvalid, m_sched st)
    end
  end.

(* catch e { print(desc(e)); }   - desc is a closure: its call saves the ip (already done by unwind) *)
Definition after_unwind (st : mstate) (u : ures) : mstate + mfin :=
  match u with
  | UStuck => inr (OInvalid, m_sched st)
  | UUncaught m v =>
    inr (OUncaught v, match current m with Some c => sw_of c m c :: m_sched st | None => m_sched st end)
  | UCaught m' =>
    match current m' with
    | None => inr (OInvalid, m_sched st)
    | Some c =>
      let f := fibers m' c in
      inl (mkM (set_fiber m' c (f_pop f)) (m_caps st) (EvCaught (f_peek 0 f) :: m_out st) (m_sched st))
    end
  end.

Definition of_nres (st : mstate) (from : nat) (r : nres) : mstate + mfin :=
  match r with
  | NOk m' => after_switch st from m'
  | NErr m' e => after_unwind st (native_error m' e)
  | NStuck => inr (OInvalid, m_sched st)
  end.

Definition push_opt (a : option value) (f : fiber) : fiber :=
  match a with Some v => f_push v f | None => f end.

(* call_value on a helper closure: the caller's ip is saved, a frame is pushed *)
Definition enter_helper (h : helper) (nargs : nat) (ret : cont) (f : fiber) : fiber :=
  let f1 := save_ip ret f in
  set_frames (mkFrame (VHelper h) (List.length (stack f) - S nargs) KHelperRet true :: frames f1) f1.

Definition get_local (n : nat) (f : fiber) : value :=
  match frames f with fr :: _ => nth (fr_base fr + n) (stack f) VNil | [] => VNil end.

Definition insert_desc (n : nat) (l : list nat) : list nat :=
  if existsb (Nat.eqb n) l then l else filter (fun x => Nat.ltb n x) l ++ n :: filter (fun x => Nat.ltb x n) l.

(* Return of the body: closes the upvalues of the frame (the captured local moves into its cell) *)
Definition m_return (st : mstate) (c : nat) (f : fiber) : mstate + mfin :=
  (* f: the running fiber with the result pushed *)
  match handlers f with
  | _ :: _ => inr (OInvalid, m_sched st)
  | [] =>
    let caps' := match m_caps st c with
                 | Some (CapOpen slot) => upd c (Some (CapClosed (nth slot (stack f) VNil))) (m_caps st)
                 | _ => m_caps st
                 end in
    match return_impl (set_fiber (m_vm st) c f) with
    | ROk m' => after_switch (mkM (m_vm st) caps' (m_out st) (m_sched st)) c m'
    | RFinal _ _ => inr (ODone, m_sched st)
    | RStuck => inr (OInvalid, m_sched st)
    end
  end.

Definition step_M (pn : bool) (p : prog) (st : mstate) : mstate + mfin :=
  let m := m_vm st in
  match current m with
  | None => inr (OInvalid, m_sched st)
  | Some c =>
    let f := fibers m c in
    match frames f with
    | [fr] =>
      match fr_ip fr with
      | KBody [] => m_return st c (f_push VNil f)
      | KBody (a :: rest) =>
        let f1 := set_frames [set_ip (KBody rest) fr] f in
        let st1 := mkM (set_fiber m c f1) (m_caps st) (m_out st) (m_sched st) in
        match a with
        | APrint e => inl (mkM (m_vm st1) (m_caps st) (EvPrint (m_eval f e) :: m_out st) (m_sched st))
        | ASet x e =>
          inl (mkM (set_fiber m c (set_stack (set_nth (slot_of f x) (m_eval f e) (stack f1)) f1))
                   (m_caps st) (m_out st) (m_sched st))
        | AYield dst arg nested =>
          let argv := option_map (m_eval f) arg in
          let ret := KStore dst rest in
          if nested then
            let h := match arg with Some _ => HY1 | None => HY0 end in
            let f2 := push_opt argv (f_push (VHelper h) f1) in
            let f3 := enter_helper h (argc_of arg) ret f2 in
            let f4 := f_push VFiberClass f3 in
            let f5 := match arg with Some _ => f_push (get_local 1 f4) f4 | None => f4 end in
            of_nres st1 c (fiber_yield (set_fiber m c f5) (argc_of arg) KHelperRet)
          else
            let f2 := push_opt argv (f_push VFiberClass f1) in
            of_nres st1 c (fiber_yield (set_fiber m c f2) (argc_of arg) ret)
        | ACall dst k arg nested =>
          match fdef_of p k with
          | None => inr (OInvalid, m_sched st)
          | Some _ =>
            let argv := option_map (m_eval f) arg in
            let ret := KStore dst rest in
            if nested then
              let h := match arg with Some _ => HC1 | None => HC0 end in
              let f2 := push_opt argv (f_push (VFiber k) (f_push (VHelper h) f1)) in
              let f3 := enter_helper h (S (argc_of arg)) ret f2 in
              let f4 := f_push (get_local 1 f3) f3 in
              let f5 := match arg with Some _ => f_push (get_local 2 f4) f4 | None => f4 end in
              of_nres st1 c (fiber_call pn (set_fiber m c f5) (argc_of arg) KHelperRet)
            else
              let f2 := push_opt argv (f_push (VFiber k) f1) in
              of_nres st1 c (fiber_call pn (set_fiber m c f2) (argc_of arg) ret)
          end
        | ACall2 k e1 e2 =>
          match fdef_of p k with
          | None => inr (OInvalid, m_sched st)
          | Some _ =>
            let f2 := f_push (m_eval f e2) (f_push (m_eval f e1) (f_push (VFiber k) f1)) in
            of_nres st1 c (fiber_call pn (set_fiber m c f2) 2 (KStore None rest))
          end
        | AReturn arg =>
          m_return st1 c (f_push (match arg with Some e => m_eval f e | None => VNil end) f1)
        | AThrow z =>
          after_unwind st1 (throw (set_fiber m c (f_push (VNum z) f1)))
        | AHasFinished k =>
          match fdef_of p k with
          | None => inr (OInvalid, m_sched st)
          | Some _ =>
            inl (mkM (m_vm st1) (m_caps st) (EvPrint (VBool (fiber_has_finished (m_vm st1) k)) :: m_out st) (m_sched st))
          end
        | ATry =>
          let h := mkHandler (after_endtry 0 rest) (List.length (stack f1)) (List.length (frames f1)) in
          inl (mkM (set_fiber m c (set_fhandlers (h :: handlers f1) f1)) (m_caps st) (m_out st) (m_sched st))
        | AEndTry =>
          match handlers f1 with
          | [] => inr (OInvalid, m_sched st)
          | _ :: hs => inl (mkM (set_fiber m c (set_fhandlers hs f1)) (m_caps st) (m_out st) (m_sched st))
          end
        | ACapture x =>
          let slot := slot_of f x in
          inl (mkM (set_fiber m c (set_upvalues (insert_desc slot (open_upvalues f1)) f1))
                   (upd c (Some (CapOpen slot)) (m_caps st)) (m_out st) (m_sched st))
        | APrintCap k =>
          match m_caps st k with
          | None => inl (mkM (m_vm st1) (m_caps st) (EvUnset :: m_out st) (m_sched st))
          | Some cp =>
            let v := match cp with CapOpen slot => nth slot (stack (fibers m k)) VNil | CapClosed v => v end in
            inl (mkM (set_fiber m c (save_ip (KBody rest) f1)) (m_caps st) (EvPrint v :: m_out st) (m_sched st))
          end
        | ASetCap k e =>
          match m_caps st k with
          | None => inl st1
          | Some cp =>
            let v := m_eval f e in
            let m2 := set_fiber m c (save_ip (KBody rest) f1) in
            match cp with
            | CapOpen slot =>
              inl (mkM (set_fiber m2 k (set_stack (set_nth slot v (stack (fibers m2 k))) (fibers m2 k)))
                       (m_caps st) (m_out st) (m_sched st))
            | CapClosed _ => inl (mkM m2 (upd k (Some (CapClosed v)) (m_caps st)) (m_out st) (m_sched st))
            end
          end
        end
      | _ => inr (OInvalid, m_sched st)
      end
    | _ => inr (OInvalid, m_sched st)
    end
  end.

Fixpoint run_M (pn : bool) (p : prog) (fuel : nat) (st : mstate) : result * list switchrec :=
  match fuel with
  | O => ((rev (m_out st), OFuel), rev (m_sched st))
  | S n => match step_M pn p st with
           | inl st' => run_M pn p n st'
           | inr (o, sch) => ((rev (m_out st), o), rev sch)
           end
  end.

Definition init_vm (p : prog) : vm :=
  mkVm None
       (fun k => match k with
                 | 0 => new_fiber 0 1 (p_main p)
                 | S j => match nth_error (p_fibers p) j with
                          | Some d => new_fiber k (1 + nparams (fd_param d)) (fd_body d)
                          | None => no_fiber
                          end
                 end)
       false.

(* Vm::execute: the script's fiber is loaded from `fiber = None` *)
Definition init_M (pn : bool) (p : prog) : option mstate :=
  match load_fiber pn (init_vm p) 0 None (KBody []) with
  | NOk m => match settle m with
             | Some m' => Some (mkM m' (fun _ => None) [] [])
             | None => None
             end
  | _ => None
  end.

Definition eval_mech_full (pn : bool) (p : prog) : result * list switchrec :=
  match init_M pn p with
  | Some st => run_M pn p (fuel_of p) st
  | None => (([], OInvalid), [])
  end.

Definition eval_mech (pn : bool) (p : prog) : result := fst (eval_mech_full pn p).

(* ------------------------------------------------------------------------------------------ *)
(* static validity = what `render` accepts *)

(* `ret`: may the body return (the main script may not: "Cannot return from top-level code") *)
Fixpoint valid_code (ret : bool) (nf : nat) (depth : nat) (code : list action) : bool :=
  match code with
  | [] => Nat.eqb depth 0
  | a :: r =>
    match a with
    | ATry => valid_code ret nf (S depth) r
    | AEndTry => match depth with 0 => false | S d => valid_code ret nf d r end
    | AReturn _ => ret && Nat.eqb depth 0 && valid_code ret nf depth r
    | ACall _ k _ _ | ACall2 k _ _ | AHasFinished k => (Nat.leb 1 k && Nat.leb k nf) && valid_code ret nf depth r
    | _ => valid_code ret nf depth r
    end
  end.

Definition valid_prog (p : prog) : bool :=
  let nf := List.length (p_fibers p) in
  valid_code false nf 0 (p_main p) && forallb (fun d => valid_code true nf 0 (fd_body d)) (p_fibers p).

(* ------------------------------------------------------------------------------------------ *)
(* rendering of results *)
Open Scope string_scope.

Definition show_ferr_kind (e : ferr) : string :=
  match e with
  | EFinished | EAlreadyCalled | EYieldOutside => "RuntimeError"
  | _ => "TypeError"
  end.

Definition show_ferr_msg (e : ferr) : string :=
  match e with
  | EFinished => msg_finished
  | EAlreadyCalled => msg_already
  | EYieldOutside => msg_outside
  | EArityExact n m => "Expected " ++ show_nat n ++ " parameter" ++ (if Nat.eqb n 1 then "" else "s") ++ " but found " ++ show_nat m ++ "."
  | EArityMost m => "Expected at most 1 parameter but found " ++ show_nat m ++ "."
  end.

Definition show_value (v : value) : string :=
  match v with
  | VNil => "nil"
  | VBool true => "true"
  | VBool false => "false"
  | VNum z => show_Z z
  | VFiberClass => "<class Fiber>"
  | VFiber k => "<fiber>"
  | VClosure k => "<fn>"
  | VHelper _ => "<fn>"
  | VErr e => "<" ++ show_ferr_kind e ++ " instance>"
  end.

(* desc(e) *)
Definition show_desc (v : value) : string :=
  match v with
  | VErr e => "<class " ++ show_ferr_kind e ++ ">: " ++ show_ferr_msg e
  | _ => show_value v
  end.

Definition show_event (e : event) : string :=
  match e with
  | EvPrint v => show_value v
  | EvCaught v => show_desc v
  | EvUnset => "unset"
  end.

Definition show_outcome (o : outcome) : string :=
  match o with
  | ODone => "ok"
  | OUncaught (VErr e) => "Unhandled " ++ show_ferr_kind e ++ ": " ++ show_ferr_msg e
  | OUncaught v => "Unhandled exception: " ++ show_value v
  | OInvalid => "invalid"
  | OFuel => "fuel"
  end.

Definition show_result (r : result) : string :=
  show_sep "|" show_event (fst r) ++ "#" ++ show_outcome (snd r).

Definition show_sw (s : switchrec) : string :=
  show_nat (sw_from s) ++ ">" ++ show_nat (sw_to s) ++ ":" ++ show_nat (sw_stack s) ++ ":" ++ show_nat (sw_frames s)
  ++ ":" ++ (if sw_has_caller s then "1" else "0").

(* ------------------------------------------------------------------------------------------ *)
(* render to yarel source (one line) *)

Definition r_var (x : var) : string := match x with X0 => "x0" | X1 => "x1" | X2 => "x2" end.

Definition r_expr (hasparam : bool) (e : expr) : string :=
  match e with
  | ENil => "nil"
  | EConst z => show_Z z
  | EVar x => r_var x
  | EParam => if hasparam then "p" else "nil"
  end.

Definition r_dst (d : option var) : string := match d with Some x => r_var x ++ " = " | None => "" end.
Definition r_fib (k : nat) : string := "f" ++ show_nat k.

Definition r_action (me : nat) (hp : bool) (a : action) : string :=
  match a with
  | APrint e => "print(" ++ r_expr hp e ++ ");"
  | ASet x e => r_var x ++ " = " ++ r_expr hp e ++ ";"
  | AYield d None false => r_dst d ++ "Fiber.yield();"
  | AYield d (Some e) false => r_dst d ++ "Fiber.yield(" ++ r_expr hp e ++ ");"
  | AYield d None true => r_dst d ++ "hy0();"
  | AYield d (Some e) true => r_dst d ++ "hy1(" ++ r_expr hp e ++ ");"
  | ACall d k None false => r_dst d ++ r_fib k ++ ".call();"
  | ACall d k (Some e) false => r_dst d ++ r_fib k ++ ".call(" ++ r_expr hp e ++ ");"
  | ACall d k None true => r_dst d ++ "hc0(" ++ r_fib k ++ ");"
  | ACall d k (Some e) true => r_dst d ++ "hc1(" ++ r_fib k ++ ", " ++ r_expr hp e ++ ");"
  | ACall2 k e1 e2 => r_fib k ++ ".call(" ++ r_expr hp e1 ++ ", " ++ r_expr hp e2 ++ ");"
  | AReturn None => "return;"
  | AReturn (Some e) => "return " ++ r_expr hp e ++ ";"
  | AThrow z => "throw " ++ show_Z z ++ ";"
  | AHasFinished k => "print(" ++ r_fib k ++ ".has_finished());"
  | ATry => "try {"
  | AEndTry => "} catch e { print(desc(e)); }"
  | ACapture x => "g" ++ show_nat me ++ " = || " ++ r_var x ++ "; s" ++ show_nat me ++ " = |a| { " ++ r_var x ++ " = a; };"
  | APrintCap k => "if g" ++ show_nat k ++ " != nil { print(g" ++ show_nat k ++ "()); } else { print(""unset""); }"
  | ASetCap k e => "if s" ++ show_nat k ++ " != nil { s" ++ show_nat k ++ "(" ++ r_expr hp e ++ "); }"
  end.

Definition r_body (me : nat) (hp : bool) (code : list action) : string :=
  "var x0 = nil; var x1 = nil; var x2 = nil; " ++ show_sep " " (r_action me hp) code.

Fixpoint r_decls (n : nat) : string :=
  match n with
  | 0 => "var g0 = nil; var s0 = nil; "
  | S j => r_decls j ++ "var f" ++ show_nat n ++ " = nil; var g" ++ show_nat n ++ " = nil; var s" ++ show_nat n ++ " = nil; "
  end.

Fixpoint r_fibers (k : nat) (ds : list fdef) : string :=
  match ds with
  | [] => ""
  | d :: r =>
    r_fib k ++ " = Fiber.new(" ++ (if fd_param d then "|p|" else "||") ++ " { " ++ r_body k (fd_param d) (fd_body d) ++ " }); "
    ++ r_fibers (S k) r
  end.

Definition r_prelude : string :=
  "fn hc0(f) { return f.call(); } fn hc1(f, a) { return f.call(a); } fn hy0() { return Fiber.yield(); } "
  ++ "fn hy1(a) { return Fiber.yield(a); } "
  ++ "fn desc(e) { if type(e) == Num { return e; } return ""${type(e)}: ${e.context}""; } ".

Definition render (p : prog) : string :=
  if valid_prog p then
    r_decls (List.length (p_fibers p)) ++ r_prelude ++ r_fibers 1 (p_fibers p)
    ++ "{ " ++ r_body 0 false (p_main p) ++ " }"
  else "".

(* ------------------------------------------------------------------------------------------ *)
(* wire format (YV.Wire.parse_nss): groups of numbers separated by ';'
     99 hasparam            starts a body (the first one is the main script)
     tag fields...          one action; expr = (tag, payload); option = 0 | x+1 *)

Definition w_var (n : N) : var := match n with 0%N => X0 | 1%N => X1 | _ => X2 end.
Definition w_ovar (n : N) : option var := match n with 0%N => None | _ => Some (w_var (n - 1)) end.
Definition w_expr (t v : N) : expr :=
  match t with 0%N => ENil | 1%N => EConst (Z.of_N v) | 2%N => EVar (w_var v) | _ => EParam end.
Definition w_oexpr (pr t v : N) : option expr := match pr with 0%N => None | _ => Some (w_expr t v) end.
Definition w_bool (n : N) : bool := negb (N.eqb n 0).

Definition w_action (g : list N) : option action :=
  match g with
  | [0; t; v] => Some (APrint (w_expr t v))
  | [1; x; t; v] => Some (ASet (w_var x) (w_expr t v))
  | [2; d; pr; t; v; n] => Some (AYield (w_ovar d) (w_oexpr pr t v) (w_bool n))
  | [3; d; k; pr; t; v; n] => Some (ACall (w_ovar d) (N.to_nat k) (w_oexpr pr t v) (w_bool n))
  | [4; k; t1; v1; t2; v2] => Some (ACall2 (N.to_nat k) (w_expr t1 v1) (w_expr t2 v2))
  | [5; pr; t; v] => Some (AReturn (w_oexpr pr t v))
  | [6; z] => Some (AThrow (Z.of_N z))
  | [7; k] => Some (AHasFinished (N.to_nat k))
  | [8] => Some ATry
  | [9] => Some AEndTry
  | [10; x] => Some (ACapture (w_var x))
  | [11; k] => Some (APrintCap (N.to_nat k))
  | [12; k; t; v] => Some (ASetCap (N.to_nat k) (w_expr t v))
  | _ => None
  end%N.

(* bodies in reverse order, each with its actions reversed *)
Fixpoint w_bodies (gs : list (list N)) (acc : list (bool * list action)) : list (bool * list action) :=
  match gs with
  | [] => acc
  | [99%N; hp] :: r => w_bodies r ((w_bool hp, []) :: acc)
  | g :: r =>
    match w_action g, acc with
    | Some a, (hp, code) :: acc' => w_bodies r ((hp, a :: code) :: acc')
    | _, _ => w_bodies r acc
    end
  end.

Definition prog_of_wire (w : string) : prog :=
  match rev (w_bodies (parse_nss w) []) with
  | [] => mkProg [] []
  | (_, main) :: fs => mkProg (rev main) (map (fun x => mkFdef (fst x) (rev (snd x))) fs)
  end.

(* one term per case: S # M # schedule # source *)
Definition run_case_w (pn : bool) (w : string) : string :=
  let p := prog_of_wire w in
  let '(rm, sch) := eval_mech_full pn p in
  show_result (eval_coroutine p) ++ "@" ++ show_result rm ++ "@" ++ show_sep "," show_sw sch ++ "@" ++ render p.
Close Scope string_scope.
