(* C09 - Mechanism M: the fiber switch of yarel as the Rust code performs it.  Definitions only.

   Read off vm.rs (`load_fiber`, `unload_fiber`, `return_impl`, `call_native`, `unwind_stack`,
   `throw_impl`), core.rs (`fiber_call`, `fiber_yield`, `fiber_has_finished`) and object.rs
   (`ObjFiber`, `is_new`, `has_finished`).  Values are handed over by popping the argument off one
   fiber's stack and poking it into the top slot of the other's; the caller chain is the `caller`
   field.  Stacks are written bottom first (slot n = nth n).

   Abstraction: the interpreter's cached registers (`ip`, `active_chunk`, `active_module`,
   `unsafe_fiber`) are not state of the model: the register set {ip, active_chunk, active_module} is a
   function of the running fiber's top frame as long as EVERY switch site (load_fiber, unload_fiber,
   unwind_stack; return_impl through unload_fiber) reloads all three through `load_frame` - regenerated
   side condition `switch_sites_restore_same_registers` (YVGen.FiberArms) and the multi-module family of
   the check; the instruction pointer that the code saves into the
   top frame at a switch is passed as the argument `ip`.  The trace tie checks the register discipline
   (per-fiber pc continuity, fiber_ptr_ok) on the real binary.

   `poke_nil` is the shape of the non-new branch of `load_fiber` (regenerated: YVGen.FiberArms):
   true  = `else { self.poke(0, arg.unwrap_or_default()) }`,
   false = `else if let Some(arg) = arg { self.poke(0, arg) }` (the pending yield keeps the receiver). *)
From Coq Require Import List ZArith Bool Arith String.
From YV Require Import FiberBase.
Import ListNotations.

(* a saved instruction pointer = what remains to be executed in that frame *)
Inductive cont :=
| KBody (code : list action)                      (* at a statement boundary of a body *)
| KStore (dst : option var) (code : list action)  (* after an Invoke/Call: [SetLocal dst;] Pop; then code *)
| KHelperRet.                                     (* in a helper after its Invoke: Return *)

Record frame := mkFrame { fr_fn : value; fr_base : nat; fr_ip : cont; fr_fresh : bool }.
   (* fr_fresh: the saved ip is the start of the function's code *)
Record handler := mkHandler { h_catch : list action; h_size : nat; h_frames : nat }.

Record fiber := mkFiber {
  stack : list value;             (* bottom first *)
  frames : list frame;            (* innermost first *)
  caller : option nat;
  call_arity : nat;               (* arity of the closure, slot 0 included *)
  handlers : list handler;        (* innermost first *)
  open_upvalues : list nat }.     (* slots, highest first *)

Record vm := mkVm {
  current : option nat;           (* Vm.fiber *)
  fibers : nat -> fiber;
  handling : bool }.              (* Vm.handling_exception: ONE flag per VM *)

Definition set_stack s (f : fiber) := mkFiber s (frames f) (caller f) (call_arity f) (handlers f) (open_upvalues f).
Definition set_frames fr (f : fiber) := mkFiber (stack f) fr (caller f) (call_arity f) (handlers f) (open_upvalues f).
Definition set_caller c (f : fiber) := mkFiber (stack f) (frames f) c (call_arity f) (handlers f) (open_upvalues f).
Definition set_fhandlers h (f : fiber) := mkFiber (stack f) (frames f) (caller f) (call_arity f) h (open_upvalues f).
Definition set_upvalues u (f : fiber) := mkFiber (stack f) (frames f) (caller f) (call_arity f) (handlers f) u.

Definition has_finished (f : fiber) : bool := match frames f with [] => true | _ => false end.
Definition is_new (f : fiber) : bool := match frames f with [fr] => fr_fresh fr | _ => false end.
Definition is_some {A} (o : option A) : bool := match o with Some _ => true | None => false end.

Definition f_push v (f : fiber) := set_stack (stack f ++ [v]) f.
Definition f_pop (f : fiber) := set_stack (removelast (stack f)) f.
Definition f_peek d (f : fiber) : value := nth d (rev (stack f)) VNil.
Definition f_poke0 v (f : fiber) := set_stack (removelast (stack f) ++ [v]) f.
Definition f_truncate n (f : fiber) := set_stack (firstn n (stack f)) f.

(* current_frame_mut().ip = self.ip *)
Definition save_ip (ip : cont) (f : fiber) : fiber :=
  match frames f with
  | fr :: r => set_frames (mkFrame (fr_fn fr) (fr_base fr) ip false :: r) f
  | [] => f
  end.

Definition set_fiber (m : vm) k f := mkVm (current m) (upd k f (fibers m)) (handling m).
Definition set_handling (m : vm) b := mkVm (current m) (fibers m) b.

(* ---- the error checks of load_fiber, in source order (compared with YVGen.FiberArms) ---- *)
Inductive check := CkFinished | CkCaller.
Definition load_checks : list check := [CkFinished; CkCaller].
Definition check_fails (f : fiber) (c : check) : option ferr :=
  match c with
  | CkFinished => if has_finished f then Some EFinished else None
  | CkCaller => if is_some (caller f) then Some EAlreadyCalled else None
  end.
Fixpoint first_failing (f : fiber) (cs : list check) : option ferr :=
  match cs with
  | [] => None
  | c :: r => match check_fails f c with Some e => Some e | None => first_failing f r end
  end.

Open Scope string_scope.
Definition msg_finished := "Cannot call a finished fiber.".
Definition msg_already := "Cannot call a fiber that has already been called.".
Definition msg_outside := "Cannot yield from module-level code.".
Close Scope string_scope.

Inductive nres := NOk (m : vm) | NErr (m : vm) (e : ferr) | NStuck.

(* vm.rs load_fiber *)
Definition load_fiber (poke_nil : bool) (m : vm) (t : nat) (arg : option value) (ip : cont) : nres :=
  match first_failing (fibers m t) load_checks with
  | Some e => NErr m e
  | None =>
    let fs1 := match current m with
               | Some c =>
                 let fc := fibers m c in
                 upd c (save_ip ip (match arg with Some _ => f_pop fc | None => fc end)) (fibers m)
               | None => fibers m
               end in
    let ft := set_caller (current m) (fs1 t) in
    let ft' := if is_new ft then
                 let f1 := f_push (match frames ft with fr :: _ => fr_fn fr | [] => VNil end) ft in
                 match arg with Some a => f_push a f1 | None => f1 end
               else match arg with
                    | Some a => f_poke0 a ft
                    | None => if poke_nil then f_poke0 VNil ft else ft
                    end in
    NOk (mkVm (Some t) (upd t ft' fs1) (handling m))
  end.

(* vm.rs unload_fiber *)
Definition unload_fiber (m : vm) (arg : option value) (ip : cont) : nres :=
  match current m with
  | None => NStuck
  | Some c =>
    let f1 := match arg with Some _ => f_pop (fibers m c) | None => fibers m c end in
    let f2 := if has_finished f1 then f1 else save_ip ip f1 in
    match caller f2 with
    | Some b =>
      let fs1 := upd c (set_caller None f2) (fibers m) in
      NOk (mkVm (Some b) (upd b (f_poke0 (match arg with Some a => a | None => VNil end) (fs1 b)) fs1) (handling m))
    | None => NErr (set_fiber m c f2) EYieldOutside
    end
  end.

(* core.rs fiber_call: the receiver sits below the arguments *)
Definition fiber_call (poke_nil : bool) (m : vm) (argc : nat) (ip : cont) : nres :=
  match current m with
  | None => NStuck
  | Some c =>
    match f_peek argc (fibers m c) with
    | VFiber t =>
      let ft := fibers m t in
      let bad := if is_new ft then
                   if Nat.eqb argc (call_arity ft - 1) then None else Some (EArityExact (call_arity ft - 1) argc)
                 else if Nat.leb argc 1 then None else Some (EArityMost argc) in
      match bad with
      | Some e => NErr m e
      | None => load_fiber poke_nil m t (if Nat.eqb argc 1 then Some (f_peek 0 (fibers m c)) else None) ip
      end
    | _ => NStuck
    end
  end.

(* core.rs fiber_yield *)
Definition fiber_yield (m : vm) (argc : nat) (ip : cont) : nres :=
  match current m with
  | None => NStuck
  | Some c =>
    if Nat.leb argc 1 then
      unload_fiber m (if Nat.eqb argc 1 then Some (f_peek 0 (fibers m c)) else None) ip
    else NErr m (EArityMost argc)
  end.

(* core.rs fiber_has_finished *)
Definition fiber_has_finished (m : vm) (k : nat) : bool := has_finished (fibers m k).

(* vm.rs unwind_stack: only the RUNNING fiber's handlers *)
Inductive ures := UCaught (m : vm) | UUncaught (m : vm) (v : value) | UStuck.

Definition lastn {A} (n : nat) (l : list A) : list A := skipn (List.length l - n) l.

Definition unwind_stack (m : vm) : ures :=
  match current m with
  | None => UStuck
  | Some c =>
    let f := fibers m c in
    let exc := f_peek 0 f in
    match handlers f with
    | [] => UUncaught m exc
    | h :: hs =>
      let f1 := set_fhandlers hs f in
      let f2 := f_push exc (f_truncate (h_size h) f1) in
      let f3 := set_frames (lastn (h_frames h) (frames f2)) f2 in
      (* all handlers of the mini-language have a catch block: handling_exception = false *)
      UCaught (mkVm (current m) (upd c (save_ip (KBody (h_catch h)) f3) (fibers m)) false)
    end
  end.

(* vm.rs call_native, Err arm: the error instance replaces the top slot, then unwinding *)
Definition native_error (m : vm) (e : ferr) : ures :=
  match current m with
  | None => UStuck
  | Some c => unwind_stack (set_fiber m c (f_poke0 (VErr e) (fibers m c)))
  end.

(* vm.rs throw_impl: the thrown value is on top of the stack *)
Definition throw (m : vm) : ures := unwind_stack (set_handling m true).

(* vm.rs return_impl *)
Inductive rres := ROk (m : vm) | RFinal (m : vm) (v : value) | RStuck.

Definition return_impl (m : vm) : rres :=
  match current m with
  | None => RStuck
  | Some c =>
    let f := fibers m c in
    match frames f with
    | [] => RStuck
    | fr :: rest =>
      let result := f_peek 0 f in
      let f1 := f_pop f in
      let f2 := set_upvalues (filter (fun s => Nat.ltb s (fr_base fr)) (open_upvalues f1)) f1 in
      let f3 := set_frames rest f2 in
      let m3 := set_fiber m c f3 in
      if has_finished f3 then
        if is_some (caller f3) then
          match unload_fiber m3 None KHelperRet with
          | NOk m4 =>
            match current m4 with
            | Some b => ROk (set_fiber m4 b (f_poke0 result (fibers m4 b)))
            | None => RStuck
            end
          | _ => RStuck
          end
        else RFinal (set_fiber m3 c (f_pop f3)) (f_peek 0 f3)
      else ROk (set_fiber m c (f_push result (f_truncate (fr_base fr) f3)))
    end
  end.

(* `return_from_fiber`: the Return of a fiber's last frame *)
Definition return_from_fiber := return_impl.

(* ---- the initial VM: fiber 0 (the script) and the created fibers, all new; `execute` loads fiber 0 ---- *)
Definition new_fiber (k : nat) (arity : nat) (body : list action) : fiber :=
  mkFiber [] [mkFrame (VClosure k) 0 (KBody body) true] None arity [] [].
Definition no_fiber : fiber := mkFiber [] [] None 1 [] [].
