(* C09 - proofs about Fibers.v (M), Coroutines.v (S) and the two interpreters of FiberLang.v.

   Part 1  op-level facts about the mechanism, for ALL vm states / all reachable vm states:
           errors_leave_state, fiber_state_private, caller_chain_acyclic, current_is_chain_head,
           check_order_irrelevant.
   Part 2  transfer_faithful: for EVERY program of the mini-language (any number of fibers, any
           interleaving of call/yield/return/throw, nested frames, try blocks spanning switches,
           captured locals) eval_mech true p = eval_coroutine p; resume_without_arg_refuted for false. *)
From Coq Require Import List ZArith Bool Arith Lia String.
From YV Require Import FiberBase Coroutines Fibers FiberLang.
Import ListNotations.

(* ------------------------------------------------------------------------------------------ *)
(* small facts *)

Lemma upd_same : forall {A} k (x : A) f, upd k x f k = x.
Proof. intros; unfold upd; now rewrite Nat.eqb_refl. Qed.
Lemma upd_other : forall {A} k j (x : A) f, j <> k -> upd k x f j = f j.
Proof. intros A k j x f H; unfold upd; destruct (Nat.eqb_spec j k); [contradiction|reflexivity]. Qed.

Ltac upd_simpl :=
  repeat (rewrite upd_same in * || (rewrite upd_other in * by (auto; congruence; lia))).

Lemma removelast_snoc : forall {A} (l : list A) x, removelast (l ++ [x]) = l.
Proof. intros; apply removelast_last. Qed.
Lemma removelast_app2 : forall {A} (l e : list A) x, removelast (l ++ e ++ [x]) = l ++ e.
Proof. intros; rewrite app_assoc; apply removelast_last. Qed.
Lemma peek_snoc : forall (l : list value) x d, nth 0 (rev (l ++ [x])) d = x.
Proof. intros; rewrite rev_unit; reflexivity. Qed.
Lemma peek_app2 : forall (l e : list value) x d, nth 0 (rev (l ++ e ++ [x])) d = x.
Proof. intros; rewrite app_assoc, rev_unit; reflexivity. Qed.
Lemma peek1_snoc2 : forall (l : list value) x y d, nth 1 (rev (l ++ [x; y])) d = x.
Proof. intros; rewrite rev_app_distr; reflexivity. Qed.
Lemma firstn_exact : forall {A} (l r : list A) n, n = List.length l -> firstn n (l ++ r) = l.
Proof.
  intros A l r n ->. rewrite firstn_app, Nat.sub_diag, firstn_all. simpl. now rewrite app_nil_r.
Qed.
Lemma lastn_one : forall {A} (l : list A) x, lastn 1 (l ++ [x]) = [x].
Proof.
  intros; unfold lastn. rewrite app_length; simpl.
  replace (List.length l + 1 - 1) with (List.length l + 0) by lia.
  rewrite skipn_app, Nat.add_0_r, skipn_all, Nat.sub_diag. reflexivity.
Qed.
Lemma set_nth_app : forall {A} n (v : A) l r, n < List.length l -> set_nth n v (l ++ r) = set_nth n v l ++ r.
Proof.
  intros A n v l; revert n; induction l as [|x l IH]; intros n r H; simpl in *; [lia|].
  destruct n; simpl; [reflexivity|]. rewrite IH by lia. reflexivity.
Qed.
Lemma nth_app_l : forall {A} n (l r : list A) d, n < List.length l -> nth n (l ++ r) d = nth n l d.
Proof. intros; apply app_nth1; assumption. Qed.

(* ========================================================================================== *)
(* Part 1: the mechanism, op level                                                             *)
(* ========================================================================================== *)

(* ---- errors leave every fiber's state untouched ---- *)

Inductive fop := OpCall (argc : nat) | OpYield (argc : nat).
Definition exec_op (pn : bool) (m : vm) (o : fop) (ip : cont) : nres :=
  match o with OpCall n => fiber_call pn m n ip | OpYield n => fiber_yield m n ip end.
(* receiver + arguments *)
Definition operands (o : fop) : nat := match o with OpCall n => S n | OpYield n => S n end.

Definition frames_shape (f : fiber) := map (fun fr => (fr_fn fr, fr_base fr)) (frames f).
Definition below (n : nat) (f : fiber) := firstn (List.length (stack f) - n) (stack f).

Lemma load_fiber_err : forall pn m t arg ip m' e, load_fiber pn m t arg ip = NErr m' e -> m' = m.
Proof.
  intros pn m t arg ip m' e H. unfold load_fiber in H.
  destruct (first_failing (fibers m t) load_checks); inversion H; reflexivity.
Qed.

Lemma fiber_call_err : forall pn m argc ip m' e, fiber_call pn m argc ip = NErr m' e -> m' = m.
Proof.
  intros pn m argc ip m' e H. unfold fiber_call in H.
  destruct (current m) as [c|]; [|discriminate].
  destruct (f_peek argc (fibers m c)); try discriminate.
  match type of H with match ?b with _ => _ end = _ => destruct b end.
  - inversion H; reflexivity.
  - eapply load_fiber_err; eassumption.
Qed.

Lemma firstn_removelast_le : forall {A} (l : list A) n, n < List.length l -> firstn n (removelast l) = firstn n l.
Proof.
  intros A l; induction l as [|x l IH]; intros n H; simpl in *; [lia|].
  destruct l as [|y l]; simpl in *.
  - assert (n = 0) by lia; subst; reflexivity.
  - destruct n; [reflexivity|]. simpl. f_equal. apply (IH n). lia.
Qed.

Lemma frames_shape_save_ip : forall ip f, frames_shape (save_ip ip f) = frames_shape f.
Proof. intros ip f; unfold save_ip, frames_shape; destruct (frames f) eqn:E; simpl; rewrite ?E; reflexivity. Qed.

(* Every rejected call or yield - finished fiber, fiber that has a caller (running, or waiting in a call:
   direct self-call and indirect re-entry included), wrong argument count, yield outside any fiber -
   leaves all other fibers untouched, and of the running fiber: the caller, the frames (only the saved ip
   of the top frame is refreshed by a rejected yield), the handlers, the open upvalues and every stack
   slot below the operands. *)
Theorem errors_leave_state : forall pn m o ip m' e c,
  current m = Some c ->
  exec_op pn m o ip = NErr m' e ->
  current m' = current m /\ handling m' = handling m /\
  (forall k, k <> c -> fibers m' k = fibers m k) /\
  caller (fibers m' c) = caller (fibers m c) /\
  frames_shape (fibers m' c) = frames_shape (fibers m c) /\
  handlers (fibers m' c) = handlers (fibers m c) /\
  open_upvalues (fibers m' c) = open_upvalues (fibers m c) /\
  firstn (List.length (stack (fibers m c)) - operands o) (stack (fibers m' c)) = below (operands o) (fibers m c).
Proof.
  intros pn m o ip m' e c Hc H. destruct o as [n|n]; simpl in H.
  - apply fiber_call_err in H; subst m'. unfold below. repeat split; auto.
  - unfold fiber_yield in H. rewrite Hc in H.
    destruct (Nat.leb n 1) eqn:Hn; [|inversion H; subst; unfold below; repeat split; auto].
    unfold unload_fiber in H. rewrite Hc in H.
    set (arg := if Nat.eqb n 1 then Some (f_peek 0 (fibers m c)) else None) in H.
    set (f1 := match arg with Some _ => f_pop (fibers m c) | None => fibers m c end) in H.
    set (f2 := if has_finished f1 then f1 else save_ip ip f1) in H.
    destruct (caller f2) eqn:Hcal; [discriminate|]. inversion H; subst m' e; clear H.
    assert (Hf2 : caller f2 = caller f1 /\ frames_shape f2 = frames_shape f1 /\ handlers f2 = handlers f1 /\
                  open_upvalues f2 = open_upvalues f1 /\ stack f2 = stack f1).
    { unfold f2. destruct (has_finished f1); [repeat split; auto|].
      rewrite frames_shape_save_ip. unfold save_ip. destruct (frames f1); repeat split; auto. }
    destruct Hf2 as (Ha & Hb & Hc' & Hd & He).
    simpl. split; [reflexivity|]. split; [reflexivity|].
    split; [intros k Hk; now rewrite upd_other by auto|]. rewrite upd_same.
    rewrite Ha, Hb, Hc', Hd, He. unfold f1, below, arg, operands.
    destruct (Nat.eqb_spec n 1) as [->|Hn1].
    + simpl. repeat split; auto.
      destruct (stack (fibers m c)) as [|x l] eqn:Hs; [reflexivity|].
      destruct (Nat.eq_dec (List.length (x :: l)) 1) as [H1|H1].
      * rewrite H1. reflexivity.
      * apply firstn_removelast_le. simpl in *. lia.
    + repeat split; auto.
Qed.

(* the classes of rejected operations do occur: concrete states *)
Definition demo_vm : vm :=
  (* fiber 0 (root) called 1, 1 called 2 and is waiting; 2 runs; 3 is finished; 4 is new with one parameter *)
  mkVm (Some 2)
       (fun k => match k with
                 | 0 => mkFiber [VClosure 0; VFiber 1] [mkFrame (VClosure 0) 0 (KStore None []) false] None 1 [] []
                 | 1 => mkFiber [VClosure 1; VFiber 2] [mkFrame (VClosure 1) 0 (KStore None []) false] (Some 0) 1 [] []
                 | 2 => mkFiber [VClosure 2] [mkFrame (VClosure 2) 0 (KBody []) false] (Some 1) 1 [] []
                 | 3 => mkFiber [VClosure 3] [] None 1 [] []
                 | 4 => new_fiber 4 2 []
                 | _ => no_fiber
                 end) false.
Definition with_top (m : vm) (vs : list value) : vm :=
  match current m with Some c => set_fiber m c (set_stack (stack (fibers m c) ++ vs) (fibers m c)) | None => m end.
Definition err_of (r : nres) : option ferr := match r with NErr _ e => Some e | _ => None end.

Example rejected_finished : err_of (fiber_call true (with_top demo_vm [VFiber 3]) 0 (KBody [])) = Some EFinished.
Proof. reflexivity. Qed.
Example rejected_self_call : err_of (fiber_call true (with_top demo_vm [VFiber 2]) 0 (KBody [])) = Some EAlreadyCalled.
Proof. reflexivity. Qed.
Example rejected_indirect_reentry : err_of (fiber_call true (with_top demo_vm [VFiber 1; VNum 7]) 1 (KBody [])) = Some EAlreadyCalled.
Proof. reflexivity. Qed.
Example rejected_arity_new : err_of (fiber_call true (with_top demo_vm [VFiber 4]) 0 (KBody [])) = Some (EArityExact 1 0).
Proof. reflexivity. Qed.
Example rejected_arity_most : err_of (fiber_call true (with_top demo_vm [VFiber 3; VNil; VNil]) 2 (KBody [])) = Some (EArityMost 2).
Proof. reflexivity. Qed.
Example rejected_yield_outside :
  err_of (fiber_yield (with_top (mkVm (Some 0) (fibers demo_vm) false) [VFiberClass; VNum 1]) 1 (KBody [])) = Some EYieldOutside.
Proof. reflexivity. Qed.

Print Assumptions errors_leave_state.

(* ---- an operation of the running fiber touches no other fiber, except the hand-over slot ---- *)

Definition handover (f f' : fiber) : Prop :=
  frames f' = frames f /\ handlers f' = handlers f /\ open_upvalues f' = open_upvalues f /\
  call_arity f' = call_arity f /\
  ((exists v, stack f' = removelast (stack f) ++ [v])       (* the top slot is overwritten *)
   \/ stack f' = stack f
   \/ (is_new f = true /\ exists l, stack f' = stack f ++ l /\ List.length l <= 2)).  (* closure [+ argument] of a fiber that starts *)

Inductive mop :=
| MCall (argc : nat) (ip : cont) | MYield (argc : nat) (ip : cont) | MReturn | MThrow | MNativeError (e : ferr).

Definition op_post (pn : bool) (m : vm) (o : mop) : option vm :=
  match o with
  | MCall n ip => match fiber_call pn m n ip with NOk m' => Some m' | NErr m' _ => Some m' | NStuck => None end
  | MYield n ip => match fiber_yield m n ip with NOk m' => Some m' | NErr m' _ => Some m' | NStuck => None end
  | MReturn => match return_impl m with ROk m' => Some m' | RFinal m' _ => Some m' | RStuck => None end
  | MThrow => match throw m with UCaught m' => Some m' | UUncaught m' _ => Some m' | UStuck => None end
  | MNativeError e => match native_error m e with UCaught m' => Some m' | UUncaught m' _ => Some m' | UStuck => None end
  end.

Definition private_post (m m' : vm) (c : nat) : Prop :=
  forall k, k <> c -> fibers m' k = fibers m k \/ (current m' = Some k /\ handover (fibers m k) (fibers m' k)).

Lemma load_private : forall pn m t arg ip m' c,
  current m = Some c -> load_fiber pn m t arg ip = NOk m' -> private_post m m' c.
Proof.
  intros pn m t arg ip m' c Hc H. unfold load_fiber in H.
  destruct (first_failing (fibers m t) load_checks); [discriminate|].
  rewrite Hc in H. inversion H; subst m'; clear H. intros k Hk. simpl.
  destruct (Nat.eq_dec k t) as [->|Hkt].
  - right. split; [reflexivity|]. rewrite upd_same. rewrite (upd_other c t) by auto.
    set (ft := set_caller (Some c) (fibers m t)).
    assert (Hft : frames ft = frames (fibers m t) /\ stack ft = stack (fibers m t)) by (split; reflexivity).
    destruct Hft as [Hfr Hst].
    assert (Hnew : is_new ft = is_new (fibers m t)) by reflexivity.
    destruct (is_new ft) eqn:En.
    + unfold handover. destruct arg; simpl; (repeat split; auto); right; right; (split; [congruence|]).
      * eexists; split; [rewrite <- app_assoc; reflexivity|simpl; lia].
      * eexists; split; [reflexivity|simpl; lia].
    + unfold handover. destruct arg; [|destruct pn]; simpl; repeat split; auto.
      * left; eexists; reflexivity.
      * left; eexists; reflexivity.
  - left. now rewrite !upd_other by auto.
Qed.

Lemma unload_private : forall m arg ip m' c,
  current m = Some c -> unload_fiber m arg ip = NOk m' -> private_post m m' c.
Proof.
  intros m arg ip m' c Hc H. unfold unload_fiber in H. rewrite Hc in H.
  match type of H with match caller ?f with _ => _ end = _ => destruct (caller f) as [b|] eqn:Hb end; [|discriminate].
  inversion H; subst m'; clear H. intros k Hk. simpl.
  destruct (Nat.eq_dec k b) as [->|Hkb].
  - right. split; [reflexivity|]. rewrite upd_same, upd_other by auto.
    unfold handover; simpl; repeat split; auto. left; eexists; reflexivity.
  - left. now rewrite !upd_other by auto.
Qed.

Lemma unload_err_private : forall m arg ip m' e c,
  current m = Some c -> unload_fiber m arg ip = NErr m' e -> private_post m m' c.
Proof.
  intros m arg ip m' e c Hc H. unfold unload_fiber in H. rewrite Hc in H.
  match type of H with match caller ?f with _ => _ end = _ => destruct (caller f) end; [discriminate|].
  inversion H; subst; clear H. intros k Hk; left; simpl. now rewrite upd_other by auto.
Qed.

Lemma unwind_private : forall m c, current m = Some c ->
  match unwind_stack m with
  | UCaught m' => private_post m m' c
  | UUncaught m' _ => private_post m m' c
  | UStuck => True
  end.
Proof.
  intros m c Hc. unfold unwind_stack. rewrite Hc.
  destruct (handlers (fibers m c)).
  - intros k Hk; left; reflexivity.
  - intros k Hk; left; simpl. now rewrite upd_other by auto.
Qed.

Lemma private_trans_local : forall m c f m',
  private_post (set_fiber m c f) m' c -> private_post m m' c.
Proof.
  intros m c f m' H k Hk. specialize (H k Hk). simpl in H. now rewrite upd_other in H by auto.
Qed.

Theorem fiber_state_private : forall pn m o m' c,
  current m = Some c -> op_post pn m o = Some m' -> private_post m m' c.
Proof.
  intros pn m o m' c Hc H. destruct o as [n ip|n ip| | |e]; simpl in H.
  - (* call *)
    destruct (fiber_call pn m n ip) as [m1|m1 e1|] eqn:E; inversion H; subst; clear H.
    + unfold fiber_call in E. rewrite Hc in E.
      destruct (f_peek n (fibers m c)); try discriminate.
      match type of E with match ?b with _ => _ end = _ => destruct b end; [discriminate|].
      eapply load_private; eassumption.
    + apply fiber_call_err in E; subst. intros k Hk; left; reflexivity.
  - (* yield *)
    destruct (fiber_yield m n ip) as [m1|m1 e1|] eqn:E; inversion H; subst; clear H;
      unfold fiber_yield in E; rewrite Hc in E; destruct (Nat.leb n 1).
    + eapply unload_private; eassumption.
    + discriminate.
    + eapply unload_err_private; eassumption.
    + inversion E; subst. intros k Hk; left; reflexivity.
  - (* return *)
    unfold return_impl in H. rewrite Hc in H.
    destruct (frames (fibers m c)) as [|fr rest] eqn:Efr; [discriminate|].
    match type of H with context [has_finished ?x] => set (f3 := x) in * end.
    destruct (has_finished f3) eqn:Hfin.
    + destruct (is_some (caller f3)).
      * unfold unload_fiber in H. simpl in H. rewrite Hc, upd_same in H. rewrite Hfin in H.
        destruct (caller f3) as [b|] eqn:Eb; [|discriminate]. simpl in H.
        inversion H; subst m'; clear H. intros k Hk. simpl.
        destruct (Nat.eq_dec k b) as [->|Hkb].
        -- right. split; [reflexivity|]. rewrite !upd_same.
           rewrite !(upd_other c b) by auto.
           unfold handover; simpl. repeat split; auto. left. rewrite removelast_snoc. eexists; reflexivity.
        -- left. now rewrite !upd_other by auto.
      * inversion H; subst. intros k Hk; left; simpl. now rewrite !upd_other by auto.
    + inversion H; subst. intros k Hk; left; simpl. now rewrite upd_other by auto.
  - (* throw *)
    unfold throw in H. pose proof (unwind_private (set_handling m true) c Hc) as Hu.
    destruct (unwind_stack (set_handling m true)); inversion H; subst; exact Hu.
  - (* native error *)
    unfold native_error in H. rewrite Hc in H.
    pose proof (unwind_private (set_fiber m c (f_poke0 (VErr e) (fibers m c))) c Hc) as Hu.
    destruct (unwind_stack (set_fiber m c (f_poke0 (VErr e) (fibers m c)))); inversion H; subst;
      eapply private_trans_local; exact Hu.
Qed.

Print Assumptions fiber_state_private.

(* ---- the caller links of reachable VM states form a simple chain from the running fiber to the root ---- *)

Inductive is_chain (m : vm) : nat -> list nat -> Prop :=
| ch_root : caller (fibers m 0) = None -> is_chain m 0 [0]
| ch_cons : forall c b l, c <> 0 -> caller (fibers m c) = Some b -> is_chain m b l -> ~ In c l ->
            is_chain m c (c :: l).

Definition chain_inv (m : vm) : Prop :=
  exists c l, current m = Some c /\ is_chain m c l /\
    (forall k, ~ In k l -> caller (fibers m k) = None) /\
    (forall k, In k l -> has_finished (fibers m k) = false).

(* The operations that change `caller`, `current` or finish a fiber, plus arbitrary other changes.
   `vs_call` excludes a call of fiber 0: no yarel value denotes the root fiber (it is created by
   Vm::execute and never stored in a Value). *)
Inductive vstep (pn : bool) : vm -> vm -> Prop :=
| vs_call : forall m c n ip m', current m = Some c -> f_peek n (fibers m c) <> VFiber 0 ->
    fiber_call pn m n ip = NOk m' -> vstep pn m m'
| vs_yield : forall m n ip m', fiber_yield m n ip = NOk m' -> vstep pn m m'
| vs_return : forall m m', return_impl m = ROk m' -> vstep pn m m'
| vs_err : forall m c o ip m' e, current m = Some c -> exec_op pn m o ip = NErr m' e -> vstep pn m m'
| vs_local : forall m k f', caller f' = caller (fibers m k) -> has_finished f' = has_finished (fibers m k) ->
    vstep pn m (set_fiber m k f')      (* any computation inside a fiber, unwinding to a handler, upvalue writes *)
| vs_flag : forall m b, vstep pn m (set_handling m b).

Definition init_ok (m : vm) : Prop :=
  current m = Some 0 /\ (forall k, caller (fibers m k) = None) /\ has_finished (fibers m 0) = false.

Inductive reachable (pn : bool) : vm -> Prop :=
| r_init : forall m, init_ok m -> reachable pn m
| r_step : forall m m', reachable pn m -> vstep pn m m' -> reachable pn m'.

Lemma is_chain_ext : forall m m' c l,
  (forall k, In k l -> caller (fibers m' k) = caller (fibers m k)) -> is_chain m c l -> is_chain m' c l.
Proof.
  intros m m' c l Hext H. induction H as [H0|c b l Hc0 Hcb Hch IH Hnin].
  - apply ch_root. rewrite Hext by (left; reflexivity). exact H0.
  - apply ch_cons with b; auto.
    + rewrite Hext by (left; reflexivity). exact Hcb.
    + apply IH. intros k Hk. apply Hext. right; exact Hk.
Qed.

Lemma chain_head : forall m c l, is_chain m c l -> exists l', l = c :: l'.
Proof. intros m c l H; destruct H; eexists; reflexivity. Qed.

Lemma chain_has_caller : forall m c l, is_chain m c l -> forall k, In k l -> k <> 0 -> caller (fibers m k) <> None.
Proof.
  intros m c l H. induction H as [H0|c b l Hc0 Hcb Hch IH Hnin]; intros k Hk Hk0.
  - destruct Hk as [<-|[]]. contradiction.
  - destruct Hk as [<-|Hk]; [congruence|]. apply IH; assumption.
Qed.

Lemma chain_props : forall m c l, is_chain m c l -> NoDup l /\ hd 0 l = c /\ last l 0 = 0.
Proof.
  intros m c l H. induction H as [H0|c b l Hc0 Hcb Hch IH Hnin].
  - repeat split. constructor; [intros []|constructor].
  - destruct IH as (Hnd & Hhd & Hlast). repeat split.
    + constructor; assumption.
    + destruct (chain_head _ _ _ Hch) as [l' ->]. simpl in *. exact Hlast.
Qed.

Lemma has_finished_save_ip : forall ip f, has_finished (save_ip ip f) = has_finished f.
Proof. intros ip f; unfold save_ip, has_finished; destruct (frames f) eqn:E; simpl; rewrite ?E; reflexivity. Qed.
Lemma caller_save_ip : forall ip f, caller (save_ip ip f) = caller f.
Proof. intros ip f; unfold save_ip; destruct (frames f); reflexivity. Qed.

Lemma load_facts : forall pn m t arg ip m' c,
  current m = Some c -> load_fiber pn m t arg ip = NOk m' ->
  has_finished (fibers m t) = false /\ caller (fibers m t) = None /\ current m' = Some t /\
  (forall k, k <> t -> caller (fibers m' k) = caller (fibers m k)) /\
  caller (fibers m' t) = Some c /\
  (forall k, has_finished (fibers m' k) = has_finished (fibers m k)).
Proof.
  intros pn m t arg ip m' c Hc H. unfold load_fiber in H.
  destruct (first_failing (fibers m t) load_checks) eqn:Hff; [discriminate|].
  assert (Hnf : has_finished (fibers m t) = false /\ caller (fibers m t) = None).
  { unfold load_checks in Hff. simpl in Hff.
    destruct (has_finished (fibers m t)); [discriminate|].
    destruct (caller (fibers m t)); [discriminate|]. split; reflexivity. }
  destruct Hnf as [Hnf Hcal]. rewrite Hc in H. cbv zeta in H.
  match type of H with NOk (mkVm _ (upd t ?x ?fs) _) = _ => set (ft' := x) in H; set (fs1 := fs) in H end.
  inversion H; subst m'; clear H. simpl.
  assert (Hfs1 : forall k, caller (fs1 k) = caller (fibers m k) /\ has_finished (fs1 k) = has_finished (fibers m k)).
  { intros k. unfold fs1. destruct (Nat.eq_dec k c) as [->|Hk].
    - rewrite upd_same, caller_save_ip, has_finished_save_ip. destruct arg; split; reflexivity.
    - rewrite upd_other by auto. split; reflexivity. }
  assert (Hft' : caller ft' = Some c /\ has_finished ft' = has_finished (fs1 t)).
  { unfold ft', fs1. destruct arg; [|destruct pn];
    match goal with |- context [if ?b then _ else _] => destruct b end; split; reflexivity. }
  destruct Hft' as [Hcal' Hfin'].
  repeat split; auto.
  - intros k Hk. rewrite upd_other by auto. apply Hfs1.
  - now rewrite upd_same.
  - intros k. destruct (Nat.eq_dec k t) as [->|Hk].
    + rewrite upd_same, Hfin'. apply Hfs1.
    + rewrite upd_other by auto. apply Hfs1.
Qed.

Lemma unload_facts : forall m arg ip m' c,
  current m = Some c -> unload_fiber m arg ip = NOk m' ->
  exists b, caller (fibers m c) = Some b /\ current m' = Some b /\ caller (fibers m' c) = None /\
    (forall k, k <> c -> caller (fibers m' k) = caller (fibers m k)) /\
    (forall k, has_finished (fibers m' k) = has_finished (fibers m k)).
Proof.
  intros m arg ip m' c Hc H. unfold unload_fiber in H. rewrite Hc in H.
  set (f1 := match arg with Some _ => f_pop (fibers m c) | None => fibers m c end) in H.
  set (f2 := if has_finished f1 then f1 else save_ip ip f1) in H.
  assert (Hf2 : caller f2 = caller (fibers m c) /\ has_finished f2 = has_finished (fibers m c)).
  { unfold f2. destruct (has_finished f1) eqn:E.
    - unfold f1 in *. destruct arg; split; auto.
    - rewrite caller_save_ip, has_finished_save_ip. unfold f1 in *. destruct arg; split; auto. }
  destruct Hf2 as [Hf2a Hf2b].
  destruct (caller f2) as [b|] eqn:Hb; [|discriminate]. inversion H; subst m'; clear H.
  exists b. simpl. repeat split; auto.
  - destruct (Nat.eq_dec c b) as [->|Hcb].
    + rewrite !upd_same. reflexivity.
    + rewrite upd_other by auto. rewrite upd_same. reflexivity.
  - intros k Hk. destruct (Nat.eq_dec k b) as [->|Hkb].
    + rewrite upd_same. simpl. now rewrite upd_other by auto.
    + now rewrite !upd_other by auto.
  - intros k. destruct (Nat.eq_dec k b) as [->|Hkb].
    + rewrite upd_same. unfold has_finished at 1. simpl.
      destruct (Nat.eq_dec b c) as [->|Hbc].
      * rewrite upd_same. simpl. exact Hf2b.
      * now rewrite upd_other by auto.
    + rewrite upd_other by auto. destruct (Nat.eq_dec k c) as [->|Hkc].
      * rewrite upd_same. exact Hf2b.
      * now rewrite upd_other by auto.
Qed.

Lemma chain_inv_ext : forall m m',
  current m' = current m ->
  (forall k, caller (fibers m' k) = caller (fibers m k)) ->
  (forall k, has_finished (fibers m' k) = has_finished (fibers m k)) ->
  chain_inv m -> chain_inv m'.
Proof.
  intros m m' Hcur Hcal Hfin (c & l & H1 & H2 & H3 & H4).
  exists c, l. repeat split.
  - congruence.
  - eapply is_chain_ext; [|exact H2]. intros; apply Hcal.
  - intros k Hk. rewrite Hcal. auto.
  - intros k Hk. rewrite Hfin. auto.
Qed.

(* leaving the running fiber c for its caller: the chain loses its head *)
Lemma chain_inv_pop : forall m m' c b,
  current m = Some c -> caller (fibers m c) = Some b ->
  current m' = Some b -> caller (fibers m' c) = None ->
  (forall k, k <> c -> caller (fibers m' k) = caller (fibers m k)) ->
  (forall k, k <> c -> has_finished (fibers m' k) = has_finished (fibers m k)) ->
  chain_inv m -> chain_inv m'.
Proof.
  intros m m' c b Hc Hcb Hc' Hnone Hcal Hfin (c0 & l & H1 & H2 & H3 & H4).
  rewrite Hc in H1; inversion H1; subst c0; clear H1.
  inversion H2 as [H0 Hz|c1 b1 l1 Hc0 Hcb1 Hch Hnin]; subst.
  - congruence.
  - rewrite Hcb in Hcb1; inversion Hcb1; subst b1; clear Hcb1.
    exists b, l1. repeat split; auto.
    + eapply is_chain_ext; [|exact Hch]. intros k Hk. apply Hcal. intros ->. contradiction.
    + intros k Hk. destruct (Nat.eq_dec k c) as [->|Hkc]; [exact Hnone|].
      rewrite Hcal by auto. apply H3. intros [->|Hin]; contradiction.
    + intros k Hk. rewrite Hfin by (intros ->; contradiction). apply H4. right; exact Hk.
Qed.

Lemma vstep_chain_inv : forall pn m m', vstep pn m m' -> chain_inv m -> chain_inv m'.
Proof.
  intros pn m m' Hs Hinv. destruct Hs as [m c n ip m' Hc Hroot H|m n ip m' H|m m' H|m c o ip m' e Hc H|m k f' Hcal Hfin|m b].
  - (* call *)
    unfold fiber_call in H. rewrite Hc in H.
    destruct (f_peek n (fibers m c)) as [| | | |t| | |] eqn:Hpk; try discriminate.
    match type of H with match ?b with _ => _ end = _ => destruct b end; [discriminate|].
    destruct (load_facts _ _ _ _ _ _ _ Hc H) as (Hnf & Hnone & Hcur' & Hcal & Hcalt & Hfin).
    destruct Hinv as (c0 & l & H1 & H2 & H3 & H4).
    rewrite Hc in H1; inversion H1; subst c0; clear H1.
    assert (Ht0 : t <> 0) by (intros ->; apply Hroot; reflexivity).
    assert (Hnin : ~ In t l).
    { intros Hin. apply (chain_has_caller _ _ _ H2 t Hin Ht0). exact Hnone. }
    exists t, (t :: l). repeat split; auto.
    + apply ch_cons with c; auto.
      eapply is_chain_ext; [|exact H2]. intros k Hk. apply Hcal. intros ->. contradiction.
    + intros k Hk. rewrite Hcal by (intros ->; apply Hk; left; reflexivity).
      apply H3. intros Hin. apply Hk. right; exact Hin.
    + intros k [<-|Hk]; rewrite Hfin; auto.
  - (* yield *)
    destruct Hinv as (c & l & H1 & H2 & H3 & H4).
    unfold fiber_yield in H. rewrite H1 in H. destruct (Nat.leb n 1); [|discriminate].
    destruct (unload_facts _ _ _ _ _ H1 H) as (b & Hcb & Hcur' & Hnone & Hcal & Hfin).
    apply chain_inv_pop with (m := m) (c := c) (b := b); auto. exists c, l; auto.
  - (* return *)
    destruct Hinv as (c & l & H1 & H2 & H3 & H4).
    unfold return_impl in H. rewrite H1 in H.
    destruct (frames (fibers m c)) as [|fr rest] eqn:Efr; [discriminate|].
    match type of H with context [has_finished ?x] => set (f3 := x) in * end.
    assert (Hf3 : caller f3 = caller (fibers m c)) by reflexivity.
    destruct (has_finished f3) eqn:Hf3fin.
    + destruct (is_some (caller f3)); [|discriminate].
      destruct (unload_fiber (set_fiber m c f3) None KHelperRet) as [m4| |] eqn:E; try discriminate.
      destruct (current m4) as [b'|] eqn:Eb; [|discriminate]. inversion H; subst m'; clear H.
      assert (Hc3 : current (set_fiber m c f3) = Some c) by exact H1.
      destruct (unload_facts _ _ _ _ _ Hc3 E) as (b & Hcb & Hcur' & Hnone & Hcal & Hfin).
      rewrite Eb in Hcur'; inversion Hcur'; subst b'. simpl in Hcb. rewrite upd_same in Hcb.
      assert (Hbc : b <> c \/ b = c) by lia.
      apply chain_inv_pop with (m := m) (c := c) (b := b); auto.
      * simpl. destruct (Nat.eq_dec c b) as [->|Hne].
        -- rewrite upd_same. simpl. exact Hnone.
        -- rewrite upd_other by auto. exact Hnone.
      * intros k Hk. simpl. destruct (Nat.eq_dec k b) as [->|Hkb].
        -- rewrite upd_same. simpl. rewrite Hcal by auto. simpl. now rewrite upd_other by auto.
        -- rewrite upd_other by auto. rewrite Hcal by auto. simpl. now rewrite upd_other by auto.
      * intros k Hk. simpl. destruct (Nat.eq_dec k b) as [->|Hkb].
        -- rewrite upd_same. unfold has_finished at 1. simpl. fold (has_finished (fibers m4 b)).
           rewrite Hfin. simpl. now rewrite upd_other by auto.
        -- rewrite upd_other by auto. rewrite Hfin. simpl. now rewrite upd_other by auto.
      * exists c, l; auto.
    + inversion H; subst m'; clear H.
      apply chain_inv_ext with (m := m); [reflexivity| | |exists c, l; auto].
      * intros k. simpl. destruct (Nat.eq_dec k c) as [->|Hk]; [now rewrite upd_same|now rewrite upd_other by auto].
      * intros k. simpl. destruct (Nat.eq_dec k c) as [->|Hk]; [|now rewrite upd_other by auto].
        rewrite upd_same. unfold has_finished at 1. simpl.
        unfold has_finished in Hf3fin. simpl in Hf3fin. unfold has_finished. rewrite Efr.
        destruct rest; [discriminate|reflexivity].
  - (* rejected operation *)
    destruct (errors_leave_state _ _ _ _ _ _ _ Hc H) as (E1 & E2 & E3 & E4 & E5 & _).
    apply chain_inv_ext with (m := m); auto.
    + intros k. destruct (Nat.eq_dec k c) as [->|Hk]; [exact E4|now rewrite E3 by auto].
    + intros k. destruct (Nat.eq_dec k c) as [->|Hk]; [|now rewrite E3 by auto].
      unfold frames_shape in E5. unfold has_finished.
      destruct (frames (fibers m' c)), (frames (fibers m c)); simpl in E5; congruence.
  - (* local *)
    apply chain_inv_ext with (m := m); auto.
    + intros j. simpl. destruct (Nat.eq_dec j k) as [->|Hj]; [now rewrite upd_same|now rewrite upd_other by auto].
    + intros j. simpl. destruct (Nat.eq_dec j k) as [->|Hj]; [now rewrite upd_same|now rewrite upd_other by auto].
  - apply chain_inv_ext with (m := m); auto.
Qed.

Lemma init_chain_inv : forall m, init_ok m -> chain_inv m.
Proof.
  intros m (H1 & H2 & H3). exists 0, [0]. repeat split; auto.
  - apply ch_root. apply H2.
  - intros k [<-|[]]. exact H3.
Qed.

Theorem caller_chain_acyclic : forall pn m, reachable pn m ->
  exists c l, current m = Some c /\ is_chain m c l /\ NoDup l /\ last l 0 = 0 /\
    (forall k, ~ In k l -> caller (fibers m k) = None) /\
    (forall k, In k l -> has_finished (fibers m k) = false).
Proof.
  intros pn m H.
  assert (Hinv : chain_inv m).
  { induction H as [m Hi|m m' Hr IH Hs]; [apply init_chain_inv; exact Hi|eapply vstep_chain_inv; eauto]. }
  destruct Hinv as (c & l & H1 & H2 & H3 & H4).
  destruct (chain_props _ _ _ H2) as (Hnd & _ & Hlast).
  exists c, l. repeat split; auto.
Qed.

Theorem current_is_chain_head : forall pn m, reachable pn m ->
  exists c l, current m = Some c /\ is_chain m c l /\ hd 0 l = c.
Proof.
  intros pn m H. destruct (caller_chain_acyclic pn m H) as (c & l & H1 & H2 & _).
  exists c, l. repeat split; auto. apply (chain_props _ _ _ H2).
Qed.

(* no reachable state has a finished fiber with a caller: the order of the two checks of load_fiber
   cannot be observed *)
Theorem check_order_irrelevant : forall pn m t, reachable pn m ->
  first_failing (fibers m t) [CkCaller; CkFinished] = first_failing (fibers m t) [CkFinished; CkCaller].
Proof.
  intros pn m t H. destruct (caller_chain_acyclic pn m H) as (c & l & H1 & H2 & _ & _ & H3 & H4).
  simpl. destruct (caller (fibers m t)) as [b|] eqn:Hc; simpl.
  - assert (Hin : In t l).
    { destruct (in_dec Nat.eq_dec t l) as [Hi|Hn]; [exact Hi|]. rewrite (H3 t Hn) in Hc. discriminate. }
    rewrite (H4 t Hin). reflexivity.
  - destruct (has_finished (fibers m t)); reflexivity.
Qed.

(* a non-trivial reachable state: the root called fiber 1, which called fiber 2 *)
Definition demo0 : vm :=
  mkVm (Some 0)
       (fun k => match k with
                 | 0 => mkFiber [VClosure 0; VFiber 1] [mkFrame (VClosure 0) 0 (KBody []) false] None 1 [] []
                 | 1 | 2 => new_fiber k 1 []
                 | _ => no_fiber
                 end) false.
Definition demo1 : vm := match fiber_call true demo0 0 (KStore None []) with NOk m => m | _ => demo0 end.
Definition demo2 : vm := set_fiber demo1 1 (f_push (VFiber 2) (fibers demo1 1)).
Definition demo3 : vm := match fiber_call true demo2 0 (KStore None []) with NOk m => m | _ => demo2 end.

Example reachable_demo : reachable true demo3 /\ is_chain demo3 2 [2; 1; 0].
Proof.
  split.
  - apply r_step with demo2.
    + apply r_step with demo1.
      * apply r_step with demo0.
        -- apply r_init. repeat split. intros [|[|[|k]]]; reflexivity.
        -- apply vs_call with (c := 0) (n := 0) (ip := KStore None []); [reflexivity|discriminate|reflexivity].
      * apply vs_local; reflexivity.
    + apply vs_call with (c := 1) (n := 0) (ip := KStore None []); [reflexivity|discriminate|reflexivity].
  - apply ch_cons with 1; [discriminate|reflexivity| |simpl; intuition discriminate].
    apply ch_cons with 0; [discriminate|reflexivity| |simpl; intuition discriminate].
    apply ch_root. reflexivity.
Qed.

Print Assumptions caller_chain_acyclic.
Print Assumptions current_is_chain_head.
Print Assumptions check_order_irrelevant.

(* ========================================================================================== *)
(* Part 2: M delivers what S delivers                                                          *)
(* ========================================================================================== *)

Definition ar (c : coro) : nat := if c_hasparam c then 2 else 1.
Definition blen (c : coro) : nat := ar c + 3.
Definition base (k : nat) (c : coro) : list value :=
  VClosure k :: (if c_hasparam c then [c_param c] else []) ++ [l0 (c_locals c); l1 (c_locals c); l2 (c_locals c)].
Definition bframe (k : nat) (ip : cont) (fresh : bool) : frame := mkFrame (VClosure k) 0 ip fresh.
Definition hrel (c : coro) : list handler := map (fun code => mkHandler code (blen c) 1) (c_handlers c).

(* what lies above the body's slots while the fiber is switched out: nothing (direct call/yield), or the
   slots and the frame of a helper function *)
Definition helper_ok (n : nat) (extra : list value) (hfr : list frame) : Prop :=
  (extra = [] /\ hfr = []) \/ (exists h b, hfr = [mkFrame (VHelper h) n KHelperRet b]).

Definition fiber_rel (k : nat) (c : coro) (f : fiber) : Prop :=
  call_arity f = ar c /\ caller f = c_back c /\
  match c_status c with
  | SNew => f = new_fiber k (ar c) (c_code c) /\ c_fresh c = true /\ c_handlers c = [] /\ c_locals c = nil_locals
  | SRunning => stack f = base k c /\ frames f = [bframe k (KBody (c_code c)) (c_fresh c)] /\ handlers f = hrel c
  | SCalling dst =>
    c_fresh c = false /\ handlers f = hrel c /\
    exists t extra hfr, stack f = base k c ++ extra ++ [VFiber t] /\
      frames f = hfr ++ [bframe k (KStore dst (c_code c)) false] /\ helper_ok (blen c) extra hfr
  | SSuspended dst =>
    c_fresh c = false /\ handlers f = hrel c /\
    exists extra hfr, stack f = base k c ++ extra ++ [VFiberClass] /\
      frames f = hfr ++ [bframe k (KStore dst (c_code c)) false] /\ helper_ok (blen c) extra hfr
  | SDone => frames f = [] /\ c_fresh c = false
  end.

Definition cap_rel (c : coro) (sc : option var) (mc : option cap) : Prop :=
  match sc, mc with
  | None, None => True
  | Some x, Some (CapOpen slot) => slot = ar c + var_ix x /\ c_status c <> SNew /\ c_status c <> SDone
  | Some x, Some (CapClosed v) => c_status c = SDone /\ v = get_var x (c_locals c)
  | _, _ => False
  end.

Definition active (st : status) : Prop := match st with SRunning | SCalling _ => True | _ => False end.

Definition inv_S (cur : nat) (co : nat -> coro) : Prop :=
  c_status (co cur) = SRunning /\
  (forall k b, c_back (co k) = Some b -> exists d, c_status (co b) = SCalling d) /\
  (forall k k' b, c_back (co k) = Some b -> c_back (co k') = Some b -> k = k') /\
  (forall k b, c_back (co k) = Some b -> active (c_status (co k))) /\
  (forall k, k <> 0 -> active (c_status (co k)) -> c_back (co k) <> None).

Definition R (s : sstate) (m : mstate) : Prop :=
  current (m_vm m) = Some (s_cur s) /\
  s_out s = m_out m /\
  inv_S (s_cur s) (s_co s) /\
  (forall k, fiber_rel k (s_co s k) (fibers (m_vm m) k)) /\
  (forall k, cap_rel (s_co s k) (s_caps s k) (m_caps m k)).

Definition sim_result (rs : sstate + outcome) (rm : mstate + mfin) : Prop :=
  match rs, rm with
  | inl s', inl m' => R s' m'
  | inr o, inr (o', _) => o = o'
  | _, _ => False
  end.

Arguments base : simpl never.

Lemma base_len : forall k c, List.length (base k c) = blen c.
Proof. intros k c; unfold base, blen, ar; destruct (c_hasparam c); reflexivity. Qed.

Lemma eval_agree : forall k c f e,
  call_arity f = ar c -> (exists r, stack f = base k c ++ r) -> m_eval f e = s_eval c e.
Proof.
  intros k c f e Har [r Hst]. destruct e as [|z|x|]; simpl; auto.
  - unfold slot_of. rewrite Har, Hst. unfold base, ar.
    destruct (c_hasparam c), x; reflexivity.
  - rewrite Har, Hst. unfold base, ar. destruct (c_hasparam c); reflexivity.
Qed.

Lemma nth_local : forall k c r x, nth (ar c + var_ix x) (base k c ++ r) VNil = get_var x (c_locals c).
Proof. intros k c r x; unfold base, ar; destruct (c_hasparam c), x; reflexivity. Qed.

Lemma set_nth_local : forall k c r x v,
  set_nth (ar c + var_ix x) v (base k c ++ r) = base k (set_locals (set_var x v (c_locals c)) c) ++ r.
Proof. intros k c r x v; unfold base, ar; destruct (c_hasparam c) eqn:E, x; simpl; rewrite ?E; reflexivity. Qed.

Lemma firstn_base : forall k c r, firstn (blen c) (base k c ++ r) = base k c.
Proof. intros; apply firstn_exact. symmetry; apply base_len. Qed.

Lemma base_ext : forall k c c',
  c_hasparam c' = c_hasparam c -> c_param c' = c_param c -> c_locals c' = c_locals c -> base k c' = base k c.
Proof. intros k c c' H1 H2 H3. unfold base. now rewrite H1, H2, H3. Qed.

Lemma base_new : forall k c, c_locals c = nil_locals ->
  base k c = VClosure k :: (if c_hasparam c then [c_param c] else []) ++ [VNil; VNil; VNil].
Proof. intros k c H. unfold base. rewrite H. reflexivity. Qed.

Opaque base.

(* inv_S only looks at statuses and back links *)
Lemma inv_S_ext : forall cur co co',
  (forall k, c_status (co' k) = c_status (co k) /\ c_back (co' k) = c_back (co k)) ->
  inv_S cur co -> inv_S cur co'.
Proof.
  intros cur co co' H (I1 & I2 & I3 & I4 & I5).
  assert (Hs : forall k, c_status (co' k) = c_status (co k)) by (intros; apply H).
  assert (Hb : forall k, c_back (co' k) = c_back (co k)) by (intros; apply H).
  repeat split.
  - now rewrite Hs.
  - intros k b Hk. rewrite Hb in Hk. rewrite Hs. eauto.
  - intros k k' b Hk Hk'. rewrite Hb in Hk, Hk'. eauto.
  - intros k b Hk. rewrite Hb in Hk. rewrite Hs. eauto.
  - intros k Hk Ha. rewrite Hs in Ha. rewrite Hb. auto.
Qed.

Lemma cap_rel_running : forall c c' sc mc,
  c_status c = SRunning -> c_status c' = SRunning -> c_hasparam c' = c_hasparam c ->
  cap_rel c sc mc -> cap_rel c' sc mc.
Proof.
  intros c c' sc mc Hs Hs' Hp H. unfold cap_rel in *. destruct sc as [x|], mc as [[slot|v]|]; auto.
  - unfold ar in *. rewrite Hp, Hs'. rewrite Hs in H. exact H.
  - destruct H as [H _]. congruence.
Qed.

(* a step that only changes the running coroutine / fiber (and outputs, captures, the VM flag) *)
Lemma R_local : forall s m c' f' co' fibs' hdl caps_s caps_m out sched,
  R s m ->
  co' (s_cur s) = c' -> (forall k, k <> s_cur s -> co' k = s_co s k) ->
  fibs' (s_cur s) = f' -> (forall k, k <> s_cur s -> fibs' k = fibers (m_vm m) k) ->
  c_status c' = SRunning -> c_back c' = c_back (s_co s (s_cur s)) ->
  fiber_rel (s_cur s) c' f' ->
  (forall k, cap_rel (co' k) (caps_s k) (caps_m k)) ->
  R (mkS (s_cur s) co' caps_s out) (mkM (mkVm (Some (s_cur s)) fibs' hdl) caps_m out sched).
Proof.
  intros s m c' f' co' fibs' hdl caps_s caps_m out sched (R1 & R2 & R3 & R4 & R5) Hc1 Hc2 Hf1 Hf2 Hst Hbk Hrel Hcap.
  unfold R; simpl. split; [reflexivity|]. split; [reflexivity|]. split; [|split; [|exact Hcap]].
  - apply (inv_S_ext (s_cur s) (s_co s)); [|exact R3].
    intros k. destruct (Nat.eq_dec k (s_cur s)) as [->|Hk].
    + rewrite Hc1. destruct R3 as (I1 & _). rewrite I1. auto.
    + rewrite Hc2 by auto. auto.
  - intros k. destruct (Nat.eq_dec k (s_cur s)) as [->|Hk].
    + rewrite Hc1, Hf1. exact Hrel.
    + rewrite Hc2, Hf2 by auto. apply R4.
Qed.

Lemma cap_upd_running : forall s m co', R s m ->
  c_status (co' (s_cur s)) = SRunning -> c_hasparam (co' (s_cur s)) = c_hasparam (s_co s (s_cur s)) ->
  (forall k, k <> s_cur s -> co' k = s_co s k) ->
  forall k, cap_rel (co' k) (s_caps s k) (m_caps m k).
Proof.
  intros s m co' (R1 & R2 & (I1 & _) & R4 & R5) Hs Hp Hc2 k.
  destruct (Nat.eq_dec k (s_cur s)) as [->|Hk].
  - eapply cap_rel_running; [exact I1| | |apply R5]; auto.
  - rewrite Hc2 by auto. apply R5.
Qed.

Lemma hrel_ext : forall c c', c_hasparam c' = c_hasparam c -> c_handlers c' = c_handlers c -> hrel c' = hrel c.
Proof. intros c c' H1 H2. unfold hrel, blen, ar. now rewrite H1, H2. Qed.

Ltac upds := intros; rewrite ?upd_same; rewrite ?upd_other by auto; try reflexivity.

Ltac norm_goal R1 R2 :=
  unfold s_emit, s_upd_cur, set_co, set_caps, set_fiber; simpl; rewrite ?R1, <- ?R2.

Lemma fiber_rel_running_intro : forall k c f,
  c_status c = SRunning -> call_arity f = ar c -> caller f = c_back c ->
  stack f = base k c -> frames f = [bframe k (KBody (c_code c)) (c_fresh c)] -> handlers f = hrel c ->
  fiber_rel k c f.
Proof. intros k c f Hs H1 H2 H3 H4 H5. unfold fiber_rel. rewrite Hs. auto. Qed.

(* handing a value back: the running coroutine `me` stops being active, its resumer b runs *)
Lemma inv_handback : forall me b co co' st,
  inv_S me co -> c_back (co me) = Some b -> ~ active st ->
  c_status (co' me) = st -> c_back (co' me) = None ->
  c_status (co' b) = SRunning -> c_back (co' b) = c_back (co b) ->
  (forall k, k <> me -> k <> b -> c_status (co' k) = c_status (co k) /\ c_back (co' k) = c_back (co k)) ->
  inv_S b co'.
Proof.
  intros me b co co' st (I1 & I2 & I3 & I4 & I5) Hb Hna Hs1 Hb1 Hs2 Hb2 Hoth.
  destruct (I2 _ _ Hb) as [d Hd].
  assert (Hbme : b <> me) by (intros ->; congruence).
  assert (Hback : forall k, k <> me -> c_back (co' k) = c_back (co k)).
  { intros k Hk. destruct (Nat.eq_dec k b) as [->|Hkb]; [exact Hb2|apply Hoth; auto]. }
  assert (Hnob : forall k, k <> me -> c_back (co k) <> Some b).
  { intros k Hk Hkb. apply Hk. apply (I3 k me b); auto. }
  assert (Hnome : forall k, c_back (co k) <> Some me).
  { intros k Hk. destruct (I2 _ _ Hk) as [d' Hd']. congruence. }
  repeat split.
  - exact Hs2.
  - intros k b' Hk. destruct (Nat.eq_dec k me) as [->|Hkme]; [congruence|].
    rewrite Hback in Hk by auto.
    assert (b' <> me) by (intros ->; exact (Hnome k Hk)).
    assert (b' <> b) by (intros ->; exact (Hnob k Hkme Hk)).
    destruct (I2 _ _ Hk) as [d' Hd']. exists d'. destruct (Hoth b') as [-> _]; auto.
  - intros k k' b' Hk Hk'.
    destruct (Nat.eq_dec k me) as [->|Hkme]; [congruence|].
    destruct (Nat.eq_dec k' me) as [->|Hkme']; [congruence|].
    rewrite Hback in Hk, Hk' by auto. eauto.
  - intros k b' Hk. destruct (Nat.eq_dec k me) as [->|Hkme]; [congruence|].
    rewrite Hback in Hk by auto. destruct (Nat.eq_dec k b) as [->|Hkb].
    + rewrite Hs2. exact I.
    + destruct (Hoth k) as [-> _]; auto. eauto.
  - intros k Hk0 Ha. destruct (Nat.eq_dec k me) as [->|Hkme].
    + rewrite Hs1 in Ha. contradiction.
    + rewrite Hback by auto. destruct (Nat.eq_dec k b) as [->|Hkb].
      * apply I5; auto. rewrite Hd. exact I.
      * destruct (Hoth k) as [Hsk _]; auto. rewrite Hsk in Ha. auto.
Qed.

(* resuming t: `me` waits in a call, t runs *)
Lemma inv_resume : forall me t co co' d,
  inv_S me co -> ~ active (c_status (co t)) -> c_back (co t) = None ->
  c_status (co' me) = SCalling d -> c_back (co' me) = c_back (co me) ->
  c_status (co' t) = SRunning -> c_back (co' t) = Some me ->
  (forall k, k <> me -> k <> t -> c_status (co' k) = c_status (co k) /\ c_back (co' k) = c_back (co k)) ->
  inv_S t co'.
Proof.
  intros me t co co' d (I1 & I2 & I3 & I4 & I5) Hna Hbt Hs1 Hb1 Hs2 Hb2 Hoth.
  assert (Htme : t <> me) by (intros ->; rewrite I1 in Hna; apply Hna; exact I).
  assert (Hback : forall k, k <> t -> c_back (co' k) = c_back (co k)).
  { intros k Hk. destruct (Nat.eq_dec k me) as [->|Hkb]; [exact Hb1|apply Hoth; auto]. }
  assert (Hnome : forall k, c_back (co k) <> Some me).
  { intros k Hk. destruct (I2 _ _ Hk) as [d' Hd']. congruence. }
  assert (Hnot : forall k, c_back (co k) <> Some t).
  { intros k Hk. destruct (I2 _ _ Hk) as [d' Hd']. rewrite Hd' in Hna. apply Hna; exact I. }
  repeat split.
  - exact Hs2.
  - intros k b' Hk. destruct (Nat.eq_dec k t) as [->|Hkt].
    + rewrite Hb2 in Hk. inversion Hk; subst b'. eauto.
    + rewrite Hback in Hk by auto.
      assert (b' <> me) by (intros ->; exact (Hnome k Hk)).
      assert (b' <> t) by (intros ->; exact (Hnot k Hk)).
      destruct (I2 _ _ Hk) as [d' Hd']. exists d'. destruct (Hoth b') as [-> _]; auto.
  - intros k k' b' Hk Hk'.
    destruct (Nat.eq_dec k t) as [->|Hkt]; destruct (Nat.eq_dec k' t) as [->|Hkt']; auto.
    + rewrite Hb2 in Hk. inversion Hk; subst b'. rewrite Hback in Hk' by auto. exfalso; eapply Hnome; eauto.
    + rewrite Hb2 in Hk'. inversion Hk'; subst b'. rewrite Hback in Hk by auto. exfalso; eapply Hnome; eauto.
    + rewrite Hback in Hk, Hk' by auto. eauto.
  - intros k b' Hk. destruct (Nat.eq_dec k t) as [->|Hkt]; [rewrite Hs2; exact I|].
    rewrite Hback in Hk by auto. destruct (Nat.eq_dec k me) as [->|Hkme].
    + rewrite Hs1. exact I.
    + destruct (Hoth k) as [-> _]; auto. eauto.
  - intros k Hk0 Ha. destruct (Nat.eq_dec k t) as [->|Hkt]; [congruence|].
    rewrite Hback by auto. destruct (Nat.eq_dec k me) as [->|Hkme].
    + apply I5; auto. rewrite I1. exact I.
    + destruct (Hoth k) as [Hsk _]; auto. rewrite Hsk in Ha. auto.
Qed.

(* the resumed fiber stores the value found in its top slot: helper Return (if any), SetLocal, Pop *)
Lemma settle_store : forall vm b c extra hfr top d code v f0,
  current vm = Some b -> fibers vm b = f_poke0 v f0 ->
  call_arity f0 = ar c -> stack f0 = base b c ++ extra ++ [top] ->
  frames f0 = hfr ++ [bframe b (KStore d code) false] -> helper_ok (blen c) extra hfr ->
  exists vm', settle vm = Some vm' /\ current vm' = Some b /\ handling vm' = handling vm /\
    (forall k, k <> b -> fibers vm' k = fibers vm k) /\
    stack (fibers vm' b) = base b (set_locals (set_dst d v (c_locals c)) c) /\
    frames (fibers vm' b) = [bframe b (KBody code) false] /\
    caller (fibers vm' b) = caller f0 /\ call_arity (fibers vm' b) = call_arity f0 /\
    handlers (fibers vm' b) = handlers f0.
Proof.
  intros vm b c extra hfr top d code v f0 Hcur Hfib Har Hstk Hfr Hok.
  unfold settle. rewrite Hcur, Hfib.
  destruct Hok as [[-> ->]|(h & bb & ->)].
  - rewrite app_nil_l in Hstk. simpl in Hfr. simpl. rewrite Hfr. simpl.
    eexists. split; [reflexivity|]. simpl. rewrite upd_same.
    split; [exact Hcur|]. split; [reflexivity|]. split; [intros k Hk; now rewrite upd_other by auto|].
    unfold store_top, f_peek, f_pop, f_poke0, slot_of. simpl. rewrite Hstk, removelast_snoc, peek_snoc, Har.
    destruct d as [x|]; simpl.
    + rewrite set_nth_local, removelast_snoc. repeat split; auto.
    + rewrite removelast_snoc. repeat split; auto.
  - simpl in Hfr. simpl. rewrite Hfr. simpl.
    unfold return_impl. rewrite Hcur, Hfib. simpl. rewrite Hfr. simpl.
    eexists. split; [reflexivity|]. simpl. rewrite !upd_same.
    split; [exact Hcur|]. split; [reflexivity|]. split; [intros k Hk; now rewrite !upd_other by auto|].
    unfold store_top, f_peek, f_pop, f_poke0, f_push, f_truncate, slot_of. simpl.
    rewrite Hstk, removelast_app2, !removelast_snoc, !peek_snoc, firstn_base, Har, ?peek_snoc.
    destruct d as [x|]; simpl.
    + rewrite set_nth_local, removelast_snoc. repeat split; auto.
    + rewrite removelast_snoc. repeat split; auto.
Qed.

(* an exception raised in the running fiber: caught by its innermost handler, or the run ends *)
Lemma raise_sim : forall s m co1 fibs2 hdl st1 junk exc ip0 b0 hfr,
  R s m ->
  (forall k, k <> s_cur s -> co1 k = s_co s k) ->
  c_status (co1 (s_cur s)) = SRunning -> c_back (co1 (s_cur s)) = c_back (s_co s (s_cur s)) ->
  c_hasparam (co1 (s_cur s)) = c_hasparam (s_co s (s_cur s)) ->
  c_param (co1 (s_cur s)) = c_param (s_co s (s_cur s)) ->
  c_locals (co1 (s_cur s)) = c_locals (s_co s (s_cur s)) ->
  c_handlers (co1 (s_cur s)) = c_handlers (s_co s (s_cur s)) ->
  (forall k, k <> s_cur s -> fibs2 k = fibers (m_vm m) k) ->
  stack (fibs2 (s_cur s)) = base (s_cur s) (s_co s (s_cur s)) ++ junk ++ [exc] ->
  frames (fibs2 (s_cur s)) = hfr ++ [bframe (s_cur s) ip0 b0] ->
  handlers (fibs2 (s_cur s)) = hrel (s_co s (s_cur s)) ->
  caller (fibs2 (s_cur s)) = c_back (s_co s (s_cur s)) ->
  call_arity (fibs2 (s_cur s)) = ar (s_co s (s_cur s)) ->
  m_caps st1 = m_caps m -> m_out st1 = m_out m ->
  sim_result (s_raise (mkS (s_cur s) co1 (s_caps s) (s_out s)) exc)
             (after_unwind st1 (unwind_stack (mkVm (Some (s_cur s)) fibs2 hdl))).
Proof.
  intros s m co1 fibs2 hdl st1 junk exc ip0 b0 hfr HR Hco Hst Hbk Hhp Hpa Hlo Hha Hfi Hstk Hfr Hhs Hcal Har Hcaps Hout.
  pose proof HR as (R1 & R2 & R3 & R4 & R5).
  unfold s_raise, unwind_stack, after_unwind. simpl. rewrite Hha, Hhs. unfold hrel.
  assert (Hpk : f_peek 0 (fibs2 (s_cur s)) = exc) by (unfold f_peek; rewrite Hstk; apply peek_app2).
  destruct (c_handlers (s_co s (s_cur s))) as [|h hs] eqn:Hh; simpl.
  - rewrite Hpk. reflexivity.
  - rewrite upd_same. unfold s_emit, s_upd_cur, set_co. simpl. rewrite Hcaps, Hout, <- R2.
    unfold f_peek, f_pop, f_push, f_truncate, save_ip. simpl. rewrite Hstk, Hfr, firstn_base, lastn_one. simpl.
    rewrite peek_snoc, removelast_snoc, ?peek_app2.
    eapply R_local; [exact HR|upds|intros k Hk; rewrite upd_other by auto; apply Hco; auto|upds
      |intros k Hk; simpl; rewrite !upd_other by auto; apply Hfi; auto|simpl; auto|simpl; auto| |].
    + apply fiber_rel_running_intro; simpl; auto.
      * unfold ar; simpl. rewrite Hhp. exact Har.
      * congruence.
      * symmetry. apply base_ext; simpl; auto.
      * unfold hrel, blen, ar. simpl. now rewrite Hhp.
    + intros k. destruct (Nat.eq_dec k (s_cur s)) as [->|Hk].
      * rewrite upd_same. destruct R3 as (I1 & _).
        eapply cap_rel_running; [exact I1| | |apply R5]; simpl; auto.
      * rewrite upd_other by auto. rewrite Hco by auto. apply R5.
Qed.

(* the running fiber has handed v back to its caller b (yield, or return of its last frame):
   b stores v and continues *)
Lemma handback_switch : forall s m co2 st v b d vm3 st1,
  R s m ->
  (forall k, k <> s_cur s -> co2 k = s_co s k) ->
  c_status (co2 (s_cur s)) = SRunning -> c_back (co2 (s_cur s)) = Some b ->
  c_back (s_co s (s_cur s)) = Some b -> ~ active st ->
  c_status (s_co s b) = SCalling d ->
  current vm3 = Some b -> fibers vm3 b = f_poke0 v (fibers (m_vm m) b) ->
  (forall k, k <> s_cur s -> k <> b -> fibers vm3 k = fibers (m_vm m) k) ->
  fiber_rel (s_cur s) (set_fresh false (set_back None (set_status st (co2 (s_cur s))))) (fibers vm3 (s_cur s)) ->
  (forall k, k <> s_cur s -> m_caps st1 k = m_caps m k) ->
  cap_rel (set_fresh false (set_back None (set_status st (co2 (s_cur s))))) (s_caps s (s_cur s)) (m_caps st1 (s_cur s)) ->
  m_out st1 = m_out m ->
  sim_result (of_sres (mkS (s_cur s) co2 (s_caps s) (s_out s)) (s_handback (mkS (s_cur s) co2 (s_caps s) (s_out s)) v st))
             (after_switch st1 (s_cur s) vm3).
Proof.
  intros s m co2 st v b d vm3 st1 HR Hco Hst Hbk Hbk0 Hna Hsb Hcur3 Hfb Hoth Hme Hcaps Hcapme Hout.
  pose proof HR as (R1 & R2 & R3 & R4 & R5). pose proof R3 as (I1 & I2 & I3 & I4 & I5).
  assert (Hbme : b <> s_cur s) by (intros ->; congruence).
  unfold s_handback. simpl. rewrite Hbk. rewrite (upd_other (s_cur s) b) by auto. rewrite Hco by auto. rewrite Hsb.
  simpl. unfold after_switch. rewrite Hcur3.
  pose proof (R4 b) as Hrb. unfold fiber_rel in Hrb. rewrite Hsb in Hrb.
  destruct Hrb as (Harb & Hcalb & Hfreshb & Hhsb & t & extra & hfr & Hstkb & Hfrb & Hokb).
  destruct (settle_store vm3 b (s_co s b) extra hfr (VFiber t) d (c_code (s_co s b)) v (fibers (m_vm m) b)
              Hcur3 Hfb Harb Hstkb Hfrb Hokb)
    as (vm' & Hset & Hcur' & Hhdl' & Hoth' & Hstk' & Hfr' & Hcal' & Har' & Hhs').
  rewrite Hset. unfold R. simpl.
  split; [exact Hcur'|]. split; [congruence|]. split; [|split].
  - apply (inv_handback (s_cur s) b (s_co s) _ st); auto.
    + rewrite upd_other by auto. rewrite upd_same. reflexivity.
    + rewrite upd_other by auto. rewrite upd_same. reflexivity.
    + rewrite upd_same. reflexivity.
    + rewrite upd_same. simpl. reflexivity.
    + intros k Hk1 Hk2. rewrite !upd_other by auto. rewrite Hco by auto. auto.
  - intros k. destruct (Nat.eq_dec k b) as [->|Hkb].
    + rewrite upd_same. unfold fiber_rel. simpl.
      split; [rewrite Har'; exact Harb|]. split; [rewrite Hcal'; exact Hcalb|].
      split; [rewrite Hstk'; apply base_ext; reflexivity|]. split; [rewrite Hfr', Hfreshb; reflexivity|].
      rewrite Hhs'. exact Hhsb.
    + rewrite upd_other by auto. rewrite Hoth' by auto. destruct (Nat.eq_dec k (s_cur s)) as [->|Hkme].
      * rewrite upd_same. exact Hme.
      * rewrite upd_other by auto. rewrite Hco, Hoth by auto. apply R4.
  - intros k. destruct (Nat.eq_dec k b) as [->|Hkb].
    + rewrite upd_same. rewrite Hcaps by auto.
      pose proof (R5 b) as H5. unfold cap_rel in *. simpl.
      destruct (s_caps s b), (m_caps m b) as [[slot|cv]|]; auto.
      * destruct H5 as (H5a & _ & _). split; [exact H5a|]. split; discriminate.
      * destruct H5 as [H5a _]. congruence.
    + rewrite upd_other by auto. destruct (Nat.eq_dec k (s_cur s)) as [->|Hkme].
      * rewrite upd_same. exact Hcapme.
      * rewrite upd_other by auto. rewrite Hco, Hcaps by auto. apply R5.
Qed.

Lemma removelast_app3 : forall {A} (l e : list A) x y, removelast (l ++ e ++ [x; y]) = l ++ e ++ [x].
Proof.
  intros. change [x; y] with ([x] ++ [y]). rewrite !app_assoc. rewrite removelast_snoc. reflexivity.
Qed.

Lemma frames_save_ip_eq : forall ip f f', frames f = frames f' -> frames (save_ip ip f) = frames (save_ip ip f').
Proof. intros ip f f' H. unfold save_ip. rewrite H. destruct (frames f') eqn:E; simpl; rewrite ?H, ?E; reflexivity. Qed.

Definition argl (a : option value) : list value := match a with Some v => [v] | None => [] end.

Lemma frames_save_ip_nonempty : forall ip f l x, frames (save_ip ip f) = l ++ [x] -> has_finished f = false.
Proof.
  intros ip f l x H. unfold save_ip in H. unfold has_finished. destruct (frames f) eqn:E; [|reflexivity].
  rewrite E in H. destruct l; discriminate.
Qed.

(* Fiber.yield(arg?) executed by the running fiber, directly or inside the helper *)
Lemma yield_sim : forall s m co2 fibs2 hdl st1 arg junk hfr ip dst,
  R s m ->
  (forall k, k <> s_cur s -> co2 k = s_co s k) ->
  c_status (co2 (s_cur s)) = SRunning -> c_back (co2 (s_cur s)) = c_back (s_co s (s_cur s)) ->
  c_hasparam (co2 (s_cur s)) = c_hasparam (s_co s (s_cur s)) ->
  c_param (co2 (s_cur s)) = c_param (s_co s (s_cur s)) ->
  c_locals (co2 (s_cur s)) = c_locals (s_co s (s_cur s)) ->
  c_handlers (co2 (s_cur s)) = c_handlers (s_co s (s_cur s)) ->
  (forall k, k <> s_cur s -> fibs2 k = fibers (m_vm m) k) ->
  stack (fibs2 (s_cur s)) = base (s_cur s) (s_co s (s_cur s)) ++ junk ++ VFiberClass :: argl arg ->
  frames (save_ip ip (fibs2 (s_cur s))) = hfr ++ [bframe (s_cur s) (KStore dst (c_code (co2 (s_cur s)))) false] ->
  helper_ok (blen (s_co s (s_cur s))) junk hfr ->
  handlers (fibs2 (s_cur s)) = hrel (s_co s (s_cur s)) ->
  caller (fibs2 (s_cur s)) = c_back (s_co s (s_cur s)) ->
  call_arity (fibs2 (s_cur s)) = ar (s_co s (s_cur s)) ->
  m_caps st1 = m_caps m -> m_out st1 = m_out m ->
  sim_result (of_sres (mkS (s_cur s) co2 (s_caps s) (s_out s))
                      (s_suspend (mkS (s_cur s) co2 (s_caps s) (s_out s)) (arg_or_nil arg) dst))
             (of_nres st1 (s_cur s) (unload_fiber (mkVm (Some (s_cur s)) fibs2 hdl) arg ip)).
Proof.
  intros s m co2 fibs2 hdl st1 arg junk hfr ip dst HR Hco Hst Hbk Hhp Hpa Hlo Hha Hfi Hstk Hfr Hok Hhs Hcal Har Hcaps Hout.
  pose proof HR as (R1 & R2 & R3 & R4 & R5). pose proof R3 as (I1 & I2 & I3 & I4 & I5).
  unfold unload_fiber. simpl.
  set (f1 := match arg with Some _ => f_pop (fibs2 (s_cur s)) | None => fibs2 (s_cur s) end).
  assert (Hf1 : stack f1 = base (s_cur s) (s_co s (s_cur s)) ++ junk ++ [VFiberClass] /\
                frames f1 = frames (fibs2 (s_cur s)) /\ handlers f1 = handlers (fibs2 (s_cur s)) /\
                caller f1 = caller (fibs2 (s_cur s)) /\ call_arity f1 = call_arity (fibs2 (s_cur s))).
  { unfold f1. destruct arg; simpl; rewrite Hstk; simpl; repeat split; auto. apply removelast_app3. }
  destruct Hf1 as (Hs1 & Hfr1 & Hh1 & Hc1 & Ha1).
  assert (Hfr1' : frames (save_ip ip f1) = hfr ++ [bframe (s_cur s) (KStore dst (c_code (co2 (s_cur s)))) false]).
  { rewrite (frames_save_ip_eq ip f1 (fibs2 (s_cur s)) Hfr1). exact Hfr. }
  rewrite (frames_save_ip_nonempty _ _ _ _ Hfr1').
  rewrite caller_save_ip, Hc1, Hcal.
  destruct (c_back (s_co s (s_cur s))) as [b|] eqn:Hb.
  - (* hand back to b *)
    destruct (I2 _ _ Hb) as [d Hd].
    assert (Hbme : b <> s_cur s) by (intros ->; congruence).
    unfold of_nres, s_suspend.
    eapply handback_switch with (d := d); eauto.
    + simpl. rewrite upd_same. rewrite upd_other by auto. rewrite Hfi by auto. reflexivity.
    + intros k Hk1 Hk2. simpl. rewrite !upd_other by auto. apply Hfi; auto.
    + simpl. rewrite (upd_other b (s_cur s)) by auto. rewrite upd_same.
      unfold fiber_rel. simpl. split; [|split; [reflexivity|]].
      * assert (Hx : call_arity (save_ip ip f1) = call_arity f1) by (unfold save_ip; destruct (frames f1); reflexivity).
        rewrite Hx, Ha1, Har. unfold ar. simpl. now rewrite Hhp.
      * split; [reflexivity|]. split.
        -- assert (handlers (save_ip ip f1) = handlers f1) by (unfold save_ip; destruct (frames f1); reflexivity).
           rewrite H, Hh1, Hhs. symmetry. apply hrel_ext; auto.
        -- exists junk, hfr. split; [|split].
           ++ assert (stack (save_ip ip f1) = stack f1) by (unfold save_ip; destruct (frames f1); reflexivity).
              rewrite H, Hs1. f_equal. symmetry. apply base_ext; auto.
           ++ exact Hfr1'.
           ++ unfold blen, ar in *. simpl. rewrite Hhp. exact Hok.
    + intros k Hk. now rewrite Hcaps.
    + rewrite Hcaps. pose proof (R5 (s_cur s)) as H5. unfold cap_rel in *. simpl.
      destruct (s_caps s (s_cur s)), (m_caps m (s_cur s)) as [[slot|cv]|]; auto.
      * destruct H5 as (H5a & _ & _). unfold ar in *. simpl. rewrite Hhp. split; [exact H5a|]. split; discriminate.
      * destruct H5 as [H5a _]. congruence.
  - (* yield outside any fiber *)
    unfold s_suspend, s_handback. simpl. rewrite Hbk. simpl. unfold native_error, set_fiber. simpl. rewrite upd_same.
    eapply raise_sim with (junk := junk) (hfr := hfr); eauto.
    + congruence.
    + intros k Hk. rewrite !upd_other by auto. apply Hfi; auto.
    + rewrite upd_same. unfold f_poke0. simpl.
      assert (stack (save_ip ip f1) = stack f1) by (unfold save_ip; destruct (frames f1); reflexivity).
      rewrite H, Hs1, removelast_app2, <- app_assoc. reflexivity.
    + rewrite upd_same. simpl. exact Hfr1'.
    + rewrite upd_same. simpl.
      assert (handlers (save_ip ip f1) = handlers f1) by (unfold save_ip; destruct (frames f1); reflexivity).
      rewrite H, Hh1. exact Hhs.
    + rewrite upd_same. simpl. rewrite caller_save_ip, Hc1, Hcal. congruence.
    + rewrite upd_same. simpl.
      assert (call_arity (save_ip ip f1) = call_arity f1) by (unfold save_ip; destruct (frames f1); reflexivity).
      rewrite H, Ha1. exact Har.
Qed.

Lemma is_new_fresh : forall t ct ft, fiber_rel t ct ft -> is_new ft = c_fresh ct.
Proof.
  intros t ct ft H. unfold fiber_rel in H. destruct H as (_ & _ & H). unfold is_new.
  destruct (c_status ct).
  - destruct H as (-> & -> & _). reflexivity.
  - destruct H as (_ & -> & _). reflexivity.
  - destruct H as (-> & _ & t' & ex & hfr & _ & -> & [[_ ->]|(h & b & ->)]); reflexivity.
  - destruct H as (-> & _ & ex & hfr & _ & -> & [[_ ->]|(h & b & ->)]); reflexivity.
  - destruct H as (-> & ->). reflexivity.
Qed.

Lemma finished_done : forall t ct ft, fiber_rel t ct ft -> has_finished ft = is_done ct.
Proof.
  intros t ct ft H. unfold fiber_rel in H. destruct H as (_ & _ & H). unfold has_finished, is_done.
  destruct (c_status ct).
  - destruct H as (-> & _). reflexivity.
  - destruct H as (_ & -> & _). reflexivity.
  - destruct H as (_ & _ & t' & ex & hfr & _ & -> & _). destruct hfr; reflexivity.
  - destruct H as (_ & _ & ex & hfr & _ & -> & _). destruct hfr; reflexivity.
  - destruct H as (-> & _). reflexivity.
Qed.

(* a new fiber that has just been loaded declares its three locals *)
Lemma settle_new : forall vm t f0 code,
  current vm = Some t -> fibers vm t = f0 -> frames f0 = [bframe t (KBody code) true] ->
  exists vm', settle vm = Some vm' /\ current vm' = Some t /\ handling vm' = handling vm /\
    (forall k, k <> t -> fibers vm' k = fibers vm k) /\
    stack (fibers vm' t) = stack f0 ++ [VNil; VNil; VNil] /\
    frames (fibers vm' t) = frames f0 /\
    caller (fibers vm' t) = caller f0 /\ call_arity (fibers vm' t) = call_arity f0 /\
    handlers (fibers vm' t) = handlers f0.
Proof.
  intros vm t f0 code Hcur Hfib Hfr. unfold settle. rewrite Hcur, Hfib, Hfr. simpl.
  eexists. split; [reflexivity|]. simpl. rewrite upd_same.
  split; [exact Hcur|]. split; [reflexivity|]. split; [intros k Hk; now rewrite upd_other by auto|].
  unfold prologue, f_push. simpl. rewrite <- !app_assoc. simpl. repeat split; auto.
Qed.

Lemma stack_save_ip : forall ip f, stack (save_ip ip f) = stack f.
Proof. intros; unfold save_ip; destruct (frames f); reflexivity. Qed.
Lemma handlers_save_ip : forall ip f, handlers (save_ip ip f) = handlers f.
Proof. intros; unfold save_ip; destruct (frames f); reflexivity. Qed.
Lemma arity_save_ip : forall ip f, call_arity (save_ip ip f) = call_arity f.
Proof. intros; unfold save_ip; destruct (frames f); reflexivity. Qed.

Lemma peek_argl : forall (l e : list value) x a d, nth (List.length (argl a)) (rev (l ++ e ++ x :: argl a)) d = x.
Proof.
  intros l e x a d. destruct a as [v|]; simpl.
  - change [x; v] with ([x] ++ [v]). rewrite !app_assoc, rev_unit. simpl. rewrite rev_unit. reflexivity.
  - rewrite app_assoc, rev_unit. reflexivity.
Qed.

Lemma frames_unsave : forall ip f hfr k ip1,
  frames (save_ip ip f) = hfr ++ [bframe k ip1 false] ->
  exists hfr' ip0 b0, frames f = hfr' ++ [bframe k ip0 b0].
Proof.
  intros ip f hfr k ip1 H. unfold save_ip in H. destruct (frames f) as [|fr0 r0] eqn:E.
  - rewrite E in H. destruct hfr; discriminate.
  - simpl in H. destruct hfr as [|h hfr'']; simpl in H.
    + inversion H; subst. exists [], (fr_ip fr0), (fr_fresh fr0). destruct fr0; simpl in *; subst; reflexivity.
    + inversion H; subst. exists (fr0 :: hfr''), ip1, false. reflexivity.
Qed.

(* fk.call(arg?) executed by the running fiber, directly or inside the helper *)
Lemma call_sim : forall s m co2 fibs2 hdl st1 t arg junk hfr ip dst,
  R s m -> t <> 0 ->
  (forall k, k <> s_cur s -> co2 k = s_co s k) ->
  c_status (co2 (s_cur s)) = SRunning -> c_back (co2 (s_cur s)) = c_back (s_co s (s_cur s)) ->
  c_hasparam (co2 (s_cur s)) = c_hasparam (s_co s (s_cur s)) ->
  c_param (co2 (s_cur s)) = c_param (s_co s (s_cur s)) ->
  c_locals (co2 (s_cur s)) = c_locals (s_co s (s_cur s)) ->
  c_handlers (co2 (s_cur s)) = c_handlers (s_co s (s_cur s)) ->
  (forall k, k <> s_cur s -> fibs2 k = fibers (m_vm m) k) ->
  stack (fibs2 (s_cur s)) = base (s_cur s) (s_co s (s_cur s)) ++ junk ++ VFiber t :: argl arg ->
  frames (save_ip ip (fibs2 (s_cur s))) = hfr ++ [bframe (s_cur s) (KStore dst (c_code (co2 (s_cur s)))) false] ->
  helper_ok (blen (s_co s (s_cur s))) junk hfr ->
  is_new (fibs2 (s_cur s)) = c_fresh (co2 (s_cur s)) ->
  handlers (fibs2 (s_cur s)) = hrel (s_co s (s_cur s)) ->
  caller (fibs2 (s_cur s)) = c_back (s_co s (s_cur s)) ->
  call_arity (fibs2 (s_cur s)) = ar (s_co s (s_cur s)) ->
  m_caps st1 = m_caps m -> m_out st1 = m_out m ->
  sim_result (of_sres (mkS (s_cur s) co2 (s_caps s) (s_out s))
                      (s_resume (mkS (s_cur s) co2 (s_caps s) (s_out s)) t (List.length (argl arg)) arg dst))
             (of_nres st1 (s_cur s) (fiber_call true (mkVm (Some (s_cur s)) fibs2 hdl) (List.length (argl arg)) ip)).
Proof.
  intros s m co2 fibs2 hdl st1 t arg junk hfr ip dst HR Ht0 Hco Hst Hbk Hhp Hpa Hlo Hha Hfi Hstk Hfr Hok Hnew Hhs Hcal Har Hcaps Hout.
  pose proof HR as (R1 & R2 & R3 & R4 & R5). pose proof R3 as (I1 & I2 & I3 & I4 & I5).
  (* facts about the target as seen in the mid state *)
  assert (Hrt : is_new (fibs2 t) = c_fresh (co2 t) /\ call_arity (fibs2 t) = ar (co2 t) /\
                has_finished (fibs2 t) = is_done (co2 t) /\ caller (fibs2 t) = c_back (co2 t)).
  { destruct (Nat.eq_dec t (s_cur s)) as [->|Htme].
    - repeat split; auto.
      + rewrite Har. unfold ar. now rewrite Hhp.
      + unfold is_done. rewrite Hst. apply (frames_save_ip_nonempty _ _ _ _ Hfr).
      + congruence.
    - rewrite Hfi, Hco by auto. pose proof (R4 t) as H4. repeat split.
      + apply (is_new_fresh t); auto.
      + apply H4.
      + apply (finished_done t); auto.
      + apply H4. }
  destruct Hrt as (Hn & Ha & Hf & Hc).
  unfold fiber_call. simpl. unfold f_peek at 1. rewrite Hstk, peek_argl.
  unfold s_resume, arity_check. simpl. rewrite Hn, Ha.
  assert (Harity : ar (co2 t) - 1 = nparams (c_hasparam (co2 t))) by (unfold ar, nparams; destruct (c_hasparam (co2 t)); reflexivity).
  rewrite Harity.
  (* the error path, shared *)
  assert (Herr : forall e,
    sim_result (s_raise (mkS (s_cur s) co2 (s_caps s) (s_out s)) (VErr e))
               (after_unwind st1 (native_error (mkVm (Some (s_cur s)) fibs2 hdl) e))).
  { intros e. unfold native_error, set_fiber. simpl.
    destruct (frames_unsave _ _ _ _ _ Hfr) as (hfr' & ip0 & b0 & Hfr0).
    eapply raise_sim with (junk := match arg with Some _ => junk ++ [VFiber t] | None => junk end) (hfr := hfr'); eauto.
    + intros k Hk. rewrite upd_other by auto. apply Hfi; auto.
    + rewrite upd_same. unfold f_poke0. simpl. rewrite Hstk. destruct arg; simpl.
      * rewrite removelast_app3. rewrite <- !app_assoc. reflexivity.
      * rewrite removelast_app2, <- app_assoc. reflexivity.
    + rewrite upd_same. simpl. exact Hfr0.
    + rewrite upd_same. exact Hhs.
    + rewrite upd_same. exact Hcal.
    + rewrite upd_same. exact Har. }
  match goal with |- context [match ?b with Some e => SErr e | None => _ end] => set (bad := b) end.
  assert (Hmarg : (if Nat.eqb (List.length (argl arg)) 1 then Some (f_peek 0 (fibs2 (s_cur s))) else None) = arg).
  { destruct arg as [v|]; simpl; [|reflexivity]. unfold f_peek. rewrite Hstk. simpl.
    change [VFiber t; v] with ([VFiber t] ++ [v]). rewrite !app_assoc, rev_unit. reflexivity. }
  rewrite Hmarg.
  destruct bad as [e|] eqn:Hbad; [apply Herr|].
  assert (Hback_t : forall k, k <> s_cur s -> ~ active (c_status (s_co s k)) -> c_back (s_co s k) = None).
  { intros k Hk Hna. destruct (c_back (s_co s k)) eqn:E; [|reflexivity]. exfalso. apply Hna. eapply I4; eauto. }
  assert (Hff : first_failing (fibs2 t) load_checks =
                if is_done (co2 t) then Some EFinished else if is_some (c_back (co2 t)) then Some EAlreadyCalled else None).
  { unfold load_checks, first_failing, check_fails. rewrite Hf, Hc.
    destruct (is_done (co2 t)); [reflexivity|]. destruct (c_back (co2 t)); reflexivity. }
  (* the calling fiber after a successful switch *)
  set (fme' := save_ip ip match arg with Some _ => f_pop (fibs2 (s_cur s)) | None => fibs2 (s_cur s) end).
  assert (Hme' : fiber_rel (s_cur s) (set_fresh false (set_status (SCalling dst) (co2 (s_cur s)))) fme').
  { set (f1 := match arg with Some _ => f_pop (fibs2 (s_cur s)) | None => fibs2 (s_cur s) end).
    assert (Hf1 : stack f1 = base (s_cur s) (s_co s (s_cur s)) ++ junk ++ [VFiber t] /\
                  frames f1 = frames (fibs2 (s_cur s)) /\ handlers f1 = handlers (fibs2 (s_cur s)) /\
                  caller f1 = caller (fibs2 (s_cur s)) /\ call_arity f1 = call_arity (fibs2 (s_cur s))).
    { unfold f1. destruct arg; simpl; rewrite Hstk; simpl; repeat split; auto. apply removelast_app3. }
    destruct Hf1 as (Hs1 & Hfr1 & Hh1 & Hc1 & Ha1).
    unfold fiber_rel, fme'. fold f1. simpl.
    rewrite arity_save_ip, caller_save_ip, handlers_save_ip, stack_save_ip, Ha1, Hc1, Hh1, Hs1, Har, Hcal, Hhs.
    split; [unfold ar; simpl; now rewrite Hhp|]. split; [congruence|]. split; [reflexivity|].
    split; [symmetry; apply hrel_ext; auto|].
    exists t, junk, hfr. split; [f_equal; symmetry; apply base_ext; auto|]. split.
    - rewrite (frames_save_ip_eq ip f1 (fibs2 (s_cur s)) Hfr1). exact Hfr.
    - unfold blen, ar in *. simpl. rewrite Hhp. exact Hok. }
  assert (Hcapme : cap_rel (set_fresh false (set_status (SCalling dst) (co2 (s_cur s)))) (s_caps s (s_cur s)) (m_caps m (s_cur s))).
  { pose proof (R5 (s_cur s)) as H5. unfold cap_rel in *. simpl.
    destruct (s_caps s (s_cur s)), (m_caps m (s_cur s)) as [[slot|cv]|]; auto.
    - destruct H5 as (H5a & _ & _). unfold ar in *. simpl. rewrite Hhp. split; [exact H5a|]. split; discriminate.
    - destruct H5 as [H5a _]. congruence. }
  assert (Hfin : forall ct' vm' sched',
    t <> s_cur s -> ~ active (c_status (s_co s t)) -> c_status (s_co s t) <> SDone ->
    c_status ct' = SRunning -> c_back ct' = Some (s_cur s) -> c_hasparam ct' = c_hasparam (s_co s t) ->
    current vm' = Some t -> (forall k, k <> t -> k <> s_cur s -> fibers vm' k = fibers (m_vm m) k) ->
    fibers vm' (s_cur s) = fme' -> fiber_rel t ct' (fibers vm' t) ->
    R (mkS t (upd t ct' (upd (s_cur s) (set_fresh false (set_status (SCalling dst) (co2 (s_cur s)))) co2)) (s_caps s) (s_out s))
      (mkM vm' (m_caps st1) (m_out st1) sched')).
  { intros ct' vm' sched' Htme Hna Hnd Hs' Hb' Hp' Hcur' Hoth' Hme'' Hrel'.
    unfold R. simpl. split; [exact Hcur'|]. split; [congruence|]. split; [|split].
    - apply (inv_resume (s_cur s) t (s_co s) _ dst); auto.
      + rewrite upd_other by auto. rewrite upd_same. reflexivity.
      + rewrite upd_other by auto. rewrite upd_same. simpl. exact Hbk.
      + rewrite upd_same. exact Hs'.
      + rewrite upd_same. exact Hb'.
      + intros k Hk1 Hk2. rewrite !upd_other by auto. rewrite Hco by auto. auto.
    - intros k. destruct (Nat.eq_dec k t) as [->|Hkt].
      + rewrite upd_same. exact Hrel'.
      + rewrite upd_other by auto. destruct (Nat.eq_dec k (s_cur s)) as [->|Hkme].
        * rewrite upd_same, Hme''. exact Hme'.
        * rewrite upd_other by auto. rewrite Hco, Hoth' by auto. apply R4.
    - intros k. rewrite Hcaps. destruct (Nat.eq_dec k t) as [->|Hkt].
      + rewrite upd_same. pose proof (R5 t) as H5. unfold cap_rel in *.
        destruct (s_caps s t), (m_caps m t) as [[slot|cv]|]; auto.
        * destruct H5 as (H5a & H5b & H5c). unfold ar in *. rewrite Hp', Hs'. split; [exact H5a|]. split; discriminate.
        * destruct H5 as [H5a _]. contradiction.
      + rewrite upd_other by auto. destruct (Nat.eq_dec k (s_cur s)) as [->|Hkme].
        * rewrite upd_same. exact Hcapme.
        * rewrite upd_other by auto. rewrite Hco by auto. apply R5. }
  unfold load_fiber. simpl fibers at 1. rewrite Hff. unfold is_done.
  destruct (c_status (co2 t)) eqn:Hstt.
  - (* new *)
    assert (Htme : t <> s_cur s) by (intros ->; congruence).
    rewrite Hco in Hstt by auto. rewrite (Hco t) by auto.
    rewrite (Hback_t t Htme) by (rewrite Hstt; auto). cbv iota. cbv beta zeta. simpl.
    fold fme'. rewrite !(upd_other (s_cur s) t) by auto. rewrite (Hfi t) by auto.
    pose proof (R4 t) as H4t. unfold fiber_rel in H4t. rewrite Hstt in H4t.
    destruct H4t as (Hart & Hcalt & Hnewt & Hfresht & Hhandt & Hloct).
    rewrite Hnewt. simpl.
    (* the arity check passed: an argument is given iff the body has a parameter *)
    assert (Harg : List.length (argl arg) = nparams (c_hasparam (s_co s t))).
    { unfold bad in Hbad. rewrite (Hco t) in Hbad by auto. rewrite Hfresht in Hbad.
      destruct (Nat.eqb_spec (List.length (argl arg)) (nparams (c_hasparam (s_co s t)))); [assumption|discriminate]. }
    set (ft3 := match arg with
                | Some a => f_push a (f_push (VClosure t) (set_caller (Some (s_cur s)) (new_fiber t (ar (s_co s t)) (c_code (s_co s t)))))
                | None => f_push (VClosure t) (set_caller (Some (s_cur s)) (new_fiber t (ar (s_co s t)) (c_code (s_co s t))))
                end).
    set (vm3 := mkVm (Some t) (upd t ft3 (upd (s_cur s) fme' fibs2)) hdl).
    assert (Hft3 : stack ft3 = VClosure t :: argl arg /\ frames ft3 = [bframe t (KBody (c_code (s_co s t))) true] /\
                   caller ft3 = Some (s_cur s) /\ call_arity ft3 = ar (s_co s t) /\ handlers ft3 = []).
    { unfold ft3. destruct arg; simpl; repeat split; reflexivity. }
    destruct Hft3 as (Hs3 & Hf3 & Hc3 & Ha3 & Hh3).
    destruct (settle_new vm3 t ft3 (c_code (s_co s t))) as (vm' & Hset & Hcur' & Hhdl' & Hoth' & Hstk' & Hfr' & Hcal' & Har' & Hhs').
    { reflexivity. } { unfold vm3. simpl. now rewrite upd_same. } { exact Hf3. }
    unfold of_nres, after_switch. change (current vm3) with (Some t). rewrite Hset. unfold of_sres, set_cur, set_co. simpl.
    rewrite (Hco t) by auto.
    apply Hfin; auto.
    + rewrite Hstt. auto.
    + rewrite Hstt. discriminate.
    + intros k Hk1 Hk2. rewrite Hoth' by auto. unfold vm3. simpl. rewrite !upd_other by auto. apply Hfi; auto.
    + rewrite Hoth' by auto. unfold vm3. simpl. rewrite upd_other by auto. now rewrite upd_same.
    + unfold fiber_rel. simpl. rewrite Har', Hcal', Hstk', Hfr', Hhs', Ha3, Hc3, Hs3, Hf3, Hh3.
      split; [reflexivity|]. split; [reflexivity|]. split; [|split].
      * rewrite base_new by (simpl; exact Hloct). simpl.
        unfold nparams in Harg. destruct (c_hasparam (s_co s t)), arg; simpl in *; try discriminate; reflexivity.
      * rewrite Hfresht. reflexivity.
      * unfold hrel. simpl. rewrite Hhandt. reflexivity.
  - (* running: itself *)
    assert (Hb : c_back (co2 t) <> None).
    { destruct (Nat.eq_dec t (s_cur s)) as [->|Htme].
      - rewrite Hbk. apply I5; auto. rewrite I1. exact I.
      - rewrite Hco in * by auto. apply I5; auto. rewrite Hstt. exact I. }
    destruct (c_back (co2 t)); [|congruence]. simpl. apply Herr.
  - (* waiting in a call: re-entry *)
    assert (Htme : t <> s_cur s) by (intros ->; congruence).
    assert (Hb : c_back (co2 t) <> None).
    { rewrite Hco in * by auto. apply I5; auto. rewrite Hstt. exact I. }
    destruct (c_back (co2 t)); [|congruence]. simpl. apply Herr.
  - (* suspended *)
    assert (Htme : t <> s_cur s) by (intros ->; congruence).
    rewrite Hco in Hstt by auto. rewrite (Hco t) by auto.
    rewrite (Hback_t t Htme) by (rewrite Hstt; auto). cbv iota. cbv beta zeta. simpl.
    fold fme'. rewrite !(upd_other (s_cur s) t) by auto. rewrite (Hfi t) by auto.
    pose proof (R4 t) as H4t. unfold fiber_rel in H4t. rewrite Hstt in H4t.
    destruct H4t as (Hart & Hcalt & Hfresht & Hhandt & extra & hfrt & Hstkt & Hfrt & Hokt).
    assert (Hnn : is_new (set_caller (Some (s_cur s)) (fibers (m_vm m) t)) = false).
    { unfold is_new. simpl. rewrite Hfrt. destruct Hokt as [[_ ->]|(h & b & ->)]; reflexivity. }
    rewrite Hnn.
    set (ft3 := f_poke0 (arg_or_nil arg) (set_caller (Some (s_cur s)) (fibers (m_vm m) t))).
    assert (Hft3 : match arg with
                   | Some a => f_poke0 a (set_caller (Some (s_cur s)) (fibers (m_vm m) t))
                   | None => f_poke0 VNil (set_caller (Some (s_cur s)) (fibers (m_vm m) t))
                   end = ft3) by (unfold ft3; destruct arg; reflexivity).
    rewrite Hft3.
    set (vm3 := mkVm (Some t) (upd t ft3 (upd (s_cur s) fme' fibs2)) hdl).
    destruct (settle_store vm3 t (s_co s t) extra hfrt VFiberClass dst0 (c_code (s_co s t)) (arg_or_nil arg)
                (set_caller (Some (s_cur s)) (fibers (m_vm m) t)))
      as (vm' & Hset & Hcur' & Hhdl' & Hoth' & Hstk' & Hfr' & Hcal' & Har' & Hhs'); auto.
    { unfold vm3. simpl. now rewrite upd_same. }
    unfold of_nres, after_switch. change (current vm3) with (Some t). rewrite Hset. unfold of_sres, set_cur, set_co. simpl.
    rewrite (Hco t) by auto.
    apply Hfin; auto.
    + rewrite Hstt. auto.
    + rewrite Hstt. discriminate.
    + intros k Hk1 Hk2. rewrite Hoth' by auto. unfold vm3. simpl. rewrite !upd_other by auto. apply Hfi; auto.
    + rewrite Hoth' by auto. unfold vm3. simpl. rewrite upd_other by auto. now rewrite upd_same.
    + unfold fiber_rel. simpl. rewrite Har', Hcal', Hstk', Hfr', Hhs'. simpl.
      split; [exact Hart|]. split; [reflexivity|]. split; [apply base_ext; reflexivity|].
      split; [rewrite Hfresht; reflexivity|]. exact Hhandt.
  - (* finished *)
    simpl. apply Herr.
Qed.

Lemma poke_poke : forall a b f, f_poke0 a (f_poke0 b f) = f_poke0 a f.
Proof. intros a b f. unfold f_poke0. simpl. rewrite removelast_snoc. reflexivity. Qed.

(* `return v` of a body (or its end) *)
Lemma return_sim : forall s m co2 fibs1 hdl st1 f v ip0 b0,
  R s m ->
  (forall k, k <> s_cur s -> co2 k = s_co s k) ->
  c_status (co2 (s_cur s)) = SRunning -> c_back (co2 (s_cur s)) = c_back (s_co s (s_cur s)) ->
  c_hasparam (co2 (s_cur s)) = c_hasparam (s_co s (s_cur s)) ->
  c_param (co2 (s_cur s)) = c_param (s_co s (s_cur s)) ->
  c_locals (co2 (s_cur s)) = c_locals (s_co s (s_cur s)) ->
  c_handlers (co2 (s_cur s)) = c_handlers (s_co s (s_cur s)) ->
  m_vm st1 = mkVm (Some (s_cur s)) fibs1 hdl ->
  (forall k, k <> s_cur s -> fibs1 k = fibers (m_vm m) k) ->
  stack f = base (s_cur s) (s_co s (s_cur s)) ++ [v] ->
  frames f = [bframe (s_cur s) ip0 b0] ->
  handlers f = hrel (s_co s (s_cur s)) ->
  caller f = c_back (s_co s (s_cur s)) ->
  call_arity f = ar (s_co s (s_cur s)) ->
  m_caps st1 = m_caps m -> m_out st1 = m_out m ->
  sim_result (s_return (mkS (s_cur s) co2 (s_caps s) (s_out s)) v) (m_return st1 (s_cur s) f).
Proof.
  intros s m co2 fibs1 hdl st1 f v ip0 b0 HR Hco Hst Hbk Hhp Hpa Hlo Hha Hvm Hfi Hstk Hfr Hhs Hcal Har Hcaps Hout.
  pose proof HR as (R1 & R2 & R3 & R4 & R5). pose proof R3 as (I1 & I2 & I3 & I4 & I5).
  unfold s_return, m_return. simpl. rewrite Hha, Hhs. unfold hrel.
  destruct (c_handlers (s_co s (s_cur s))) as [|h hs] eqn:Hh; simpl; [|reflexivity].
  rewrite Hvm. unfold return_impl. simpl. rewrite upd_same, Hfr. simpl. rewrite Hcal, Hbk.
  destruct (c_back (s_co s (s_cur s))) as [b|] eqn:Hb; simpl; [|reflexivity].
  destruct (I2 _ _ Hb) as [d Hd].
  assert (Hbme : b <> s_cur s) by (intros ->; congruence).
  unfold unload_fiber. simpl. rewrite upd_same. simpl. rewrite Hcal. simpl.
  unfold s_finish.
  eapply handback_switch with (d := d); eauto.
  - simpl. rewrite !upd_same. rewrite !(upd_other (s_cur s) b) by auto. rewrite (Hfi b) by auto.
    rewrite poke_poke. unfold f_peek. rewrite Hstk, peek_snoc. reflexivity.
  - intros k Hk1 Hk2. simpl. rewrite !upd_other by auto. apply Hfi; auto.
  - simpl. rewrite !(upd_other b (s_cur s)) by auto. rewrite upd_same.
    unfold fiber_rel. simpl. split; [|split; [reflexivity|split; reflexivity]].
    rewrite Har. unfold ar. simpl. now rewrite Hhp.
  - intros k Hk. simpl. rewrite Hcaps. destruct (m_caps m (s_cur s)) as [[slot|cv]|]; try reflexivity.
    now rewrite upd_other by auto.
  - simpl. rewrite Hcaps. pose proof (R5 (s_cur s)) as H5. unfold cap_rel in H5.
    destruct (m_caps m (s_cur s)) as [[slot|cv]|] eqn:E; simpl; rewrite ?upd_same, ?E; unfold cap_rel;
      destruct (s_caps s (s_cur s)) as [x|]; auto.
    + destruct H5 as (-> & _ & _). split; [reflexivity|].
      rewrite Hstk, nth_local. simpl. now rewrite Hlo.
    + destruct H5 as [H5a _]. congruence.
Qed.

Lemma stack_base_prefix : forall k c f, fiber_rel k c f -> c_status c <> SNew -> c_status c <> SDone ->
  exists r, stack f = base k c ++ r.
Proof.
  intros k c f (_ & _ & H) H1 H2. destruct (c_status c); try congruence.
  - destruct H as (-> & _). exists []. now rewrite app_nil_r.
  - destruct H as (_ & _ & t & ex & hfr & -> & _). eexists; reflexivity.
  - destruct H as (_ & _ & ex & hfr & -> & _). eexists; reflexivity.
Qed.

Lemma fiber_rel_set_local : forall k c f x v, fiber_rel k c f -> c_status c <> SNew -> c_status c <> SDone ->
  fiber_rel k (set_locals (set_var x v (c_locals c)) c) (set_stack (set_nth (ar c + var_ix x) v (stack f)) f).
Proof.
  intros k c f x v (Ha & Hc & H) H1 H2. unfold fiber_rel. simpl.
  split; [exact Ha|]. split; [exact Hc|].
  destruct (c_status c); try congruence.
  - destruct H as (Hs & Hf & Hh). split; [|split; auto].
    rewrite Hs. pose proof (set_nth_local k c [] x v) as Hl. rewrite !app_nil_r in Hl. exact Hl.
  - destruct H as (Hfr & Hh & t & ex & hfr & Hs & Hf & Hok). split; [exact Hfr|]. split; [exact Hh|].
    exists t, ex, hfr. split; [|split; auto]. rewrite Hs. apply set_nth_local.
  - destruct H as (Hfr & Hh & ex & hfr & Hs & Hf & Hok). split; [exact Hfr|]. split; [exact Hh|].
    exists ex, hfr. split; [|split; auto]. rewrite Hs. apply set_nth_local.
Qed.

Lemma get_set_var : forall x v l, get_var x (set_var x v l) = v.
Proof. intros [] v l; reflexivity. Qed.

Lemma cap_rel_ext : forall c c' sc mc,
  c_status c' = c_status c -> c_hasparam c' = c_hasparam c -> (c_status c = SDone -> c_locals c' = c_locals c) ->
  cap_rel c sc mc -> cap_rel c' sc mc.
Proof.
  intros c c' sc mc Hs Hp Hl H. unfold cap_rel in *. destruct sc as [x|], mc as [[slot|v]|]; auto.
  - unfold ar in *. rewrite Hp, Hs. exact H.
  - destruct H as [Hd ->]. rewrite Hs, (Hl Hd). auto.
Qed.

Lemma peek_push : forall v f, f_peek 0 (f_push v f) = v.
Proof. intros; unfold f_peek, f_push; simpl. apply peek_snoc. Qed.

Lemma nth_above_base : forall k c l j d, nth (blen c + j) (base k c ++ l) d = nth j l d.
Proof.
  intros. rewrite app_nth2 by (rewrite base_len; lia). rewrite base_len. f_equal. lia.
Qed.

Lemma enter_helper_facts : forall h n ret f k c l ipb fb,
  stack f = base k c ++ l -> List.length l = S n -> frames f = [bframe k ipb fb] ->
  stack (enter_helper h n ret f) = base k c ++ l /\
  frames (enter_helper h n ret f) = [mkFrame (VHelper h) (blen c) KHelperRet true; bframe k ret false] /\
  handlers (enter_helper h n ret f) = handlers f /\ caller (enter_helper h n ret f) = caller f /\
  call_arity (enter_helper h n ret f) = call_arity f.
Proof.
  intros h n ret f k c l ipb fb Hs Hl Hf. unfold enter_helper, save_ip. rewrite Hf. simpl.
  rewrite Hs, app_length, base_len, Hl. replace (blen c + S n - S n) with (blen c) by lia.
  repeat split; reflexivity.
Qed.

Ltac side := try (upds; fail); try (rewrite ?upd_same; simpl; auto; fail).

Lemma step_sim : forall p s m, R s m -> sim_result (step_S p s) (step_M true p m).
Proof.
  intros p s m HR. pose proof HR as (R1 & R2 & R3 & R4 & R5).
  pose proof R3 as (I1 & I2 & I3 & I4 & I5).
  pose proof (R4 (s_cur s)) as Hme. unfold fiber_rel in Hme. rewrite I1 in Hme.
  destruct Hme as (Har & Hcal & Hstk & Hfr & Hhs).
  assert (Hev : forall e, m_eval (fibers (m_vm m) (s_cur s)) e = s_eval (s_co s (s_cur s)) e).
  { intros e. apply (eval_agree (s_cur s)); [exact Har|]. exists []. now rewrite app_nil_r. }
  unfold step_S, step_M. rewrite R1, Hfr. simpl.
  destruct (c_code (s_co s (s_cur s))) as [|a rest] eqn:Hcode.
  - (* end of the body: implicit return nil *)
    replace (s_return s VNil) with (s_return (mkS (s_cur s) (s_co s) (s_caps s) (s_out s)) VNil) by (destruct s; reflexivity).
    eapply return_sim with (fibs1 := fibers (m_vm m)) (hdl := handling (m_vm m)); eauto.
    + destruct (m_vm m); simpl in *; congruence.
    + unfold f_push; simpl. rewrite Hstk. reflexivity.
  - destruct a.
    + (* print *)
      simpl. norm_goal R1 R2. rewrite Hev.
      eapply R_local; [exact HR|upds|upds|upds|upds|simpl; auto|simpl; auto| |].
      * apply fiber_rel_running_intro; simpl; auto.
      * apply (cap_upd_running s m); auto; upds; simpl; auto.
    + (* set *)
      simpl. norm_goal R1 R2. rewrite Hev.
      eapply R_local; [exact HR|upds|upds|upds|upds|simpl; auto|simpl; auto| |].
      * apply fiber_rel_running_intro; simpl; auto.
        unfold slot_of. rewrite Har, Hstk.
        pose proof (set_nth_local (s_cur s) (s_co s (s_cur s)) [] x (s_eval (s_co s (s_cur s)) e)) as Hl.
        rewrite !app_nil_r in Hl. exact Hl.
      * apply (cap_upd_running s m); auto; upds; simpl; auto.
    + (* yield *)
      destruct nested.
      * simpl. unfold fiber_yield, set_fiber, s_upd_cur, set_co, s_unfresh_if, s_upd_cur, set_co. simpl. rewrite R1.
        set (f1 := set_frames [set_ip (KBody rest) (bframe (s_cur s) (KBody (AYield dst arg true :: rest)) (c_fresh (s_co s (s_cur s))))] (fibers (m_vm m) (s_cur s))).
        destruct arg as [e|]; simpl.
        -- rewrite !upd_same. rewrite Hev.
           set (v := s_eval (s_co s (s_cur s)) e).
           destruct (enter_helper_facts HY1 1 (KStore dst rest) (f_push v (f_push (VHelper HY1) f1)) (s_cur s) (s_co s (s_cur s))
                       [VHelper HY1; v] (KBody rest) (c_fresh (s_co s (s_cur s)))) as (E1 & E2 & E3 & E4 & E5).
           { unfold f_push, f1. simpl. rewrite Hstk, <- app_assoc. reflexivity. } { reflexivity. } { reflexivity. }
           set (fh := enter_helper HY1 1 (KStore dst rest) (f_push v (f_push (VHelper HY1) f1))) in *. clearbody fh.
           assert (Hgl : get_local 1 (f_push VFiberClass fh) = v).
           { unfold get_local, f_push. simpl. rewrite E2, E1. simpl. rewrite <- app_assoc. rewrite nth_above_base. reflexivity. }
           rewrite Hgl, peek_push.
           eapply yield_sim with (arg := Some v) (junk := [VHelper HY1; v]) (hfr := [mkFrame (VHelper HY1) (blen (s_co s (s_cur s))) KHelperRet false]); eauto; side.
           ++ rewrite upd_same. unfold f_push. simpl. rewrite E1, <- !app_assoc. reflexivity.
           ++ rewrite !upd_same. unfold save_ip, f_push. simpl. rewrite E2. simpl. reflexivity.
           ++ right. eauto.
           ++ rewrite upd_same. unfold f_push; simpl. rewrite E3. exact Hhs.
           ++ rewrite upd_same. unfold f_push; simpl. rewrite E4. exact Hcal.
           ++ rewrite upd_same. unfold f_push; simpl. rewrite E5. exact Har.
        -- rewrite !upd_same.
           destruct (enter_helper_facts HY0 0 (KStore dst rest) (f_push (VHelper HY0) f1) (s_cur s) (s_co s (s_cur s))
                       [VHelper HY0] (KBody rest) (c_fresh (s_co s (s_cur s)))) as (E1 & E2 & E3 & E4 & E5).
           { unfold f_push, f1. simpl. rewrite Hstk. reflexivity. } { reflexivity. } { reflexivity. }
           set (fh := enter_helper HY0 0 (KStore dst rest) (f_push (VHelper HY0) f1)) in *. clearbody fh.
           eapply yield_sim with (arg := None) (junk := [VHelper HY0]) (hfr := [mkFrame (VHelper HY0) (blen (s_co s (s_cur s))) KHelperRet false]); eauto; side.
           ++ rewrite upd_same. unfold f_push. simpl. rewrite E1, <- !app_assoc. reflexivity.
           ++ rewrite !upd_same. unfold save_ip, f_push. simpl. rewrite E2. simpl. reflexivity.
           ++ right. eauto.
           ++ rewrite upd_same. unfold f_push; simpl. rewrite E3. exact Hhs.
           ++ rewrite upd_same. unfold f_push; simpl. rewrite E4. exact Hcal.
           ++ rewrite upd_same. unfold f_push; simpl. rewrite E5. exact Har.
      * simpl. unfold fiber_yield, set_fiber, s_upd_cur, set_co. simpl. rewrite R1.
        destruct arg as [e|]; simpl.
        -- rewrite upd_same, peek_push, Hev.
           eapply yield_sim with (arg := Some (s_eval (s_co s (s_cur s)) e)) (junk := []) (hfr := []); eauto; side.
           ++ rewrite upd_same. unfold f_push. simpl. rewrite Hstk, <- app_assoc. reflexivity.
           ++ left; auto.
        -- eapply yield_sim with (arg := None) (junk := []) (hfr := []); eauto; side.
           ++ rewrite upd_same. unfold f_push. simpl. rewrite Hstk. reflexivity.
           ++ left; auto.
    + (* call *)
      destruct (fdef_of p k) eqn:Hfd; [|simpl; reflexivity].
      assert (Hk0 : k <> 0) by (intros ->; discriminate).
      destruct nested.
      * simpl. unfold set_fiber, s_upd_cur, set_co, s_unfresh_if, s_upd_cur, set_co. simpl. rewrite R1.
        set (f1 := set_frames [set_ip (KBody rest) (bframe (s_cur s) (KBody (ACall dst k arg true :: rest)) (c_fresh (s_co s (s_cur s))))] (fibers (m_vm m) (s_cur s))).
        destruct arg as [e|]; simpl.
        -- rewrite Hev.
           set (v := s_eval (s_co s (s_cur s)) e).
           destruct (enter_helper_facts HC1 2 (KStore dst rest) (f_push v (f_push (VFiber k) (f_push (VHelper HC1) f1))) (s_cur s) (s_co s (s_cur s))
                       [VHelper HC1; VFiber k; v] (KBody rest) (c_fresh (s_co s (s_cur s)))) as (E1 & E2 & E3 & E4 & E5).
           { unfold f_push, f1. simpl. rewrite Hstk, <- !app_assoc. reflexivity. } { reflexivity. } { reflexivity. }
           set (fh := enter_helper HC1 2 (KStore dst rest) (f_push v (f_push (VFiber k) (f_push (VHelper HC1) f1)))) in *. clearbody fh.
           assert (Hgl1 : get_local 1 fh = VFiber k).
           { unfold get_local. rewrite E2, E1. simpl. rewrite nth_above_base. reflexivity. }
           assert (Hgl2 : get_local 2 (f_push (VFiber k) fh) = v).
           { unfold get_local, f_push. simpl. rewrite E2, E1. simpl. rewrite <- app_assoc. rewrite nth_above_base. reflexivity. }
           rewrite Hgl1, Hgl2.
           eapply call_sim with (arg := Some v) (junk := [VHelper HC1; VFiber k; v]) (hfr := [mkFrame (VHelper HC1) (blen (s_co s (s_cur s))) KHelperRet false]); eauto; side.
           ++ rewrite upd_same. unfold f_push. simpl. rewrite E1, <- !app_assoc. reflexivity.
           ++ rewrite !upd_same. unfold save_ip, f_push. simpl. rewrite E2. simpl. reflexivity.
           ++ right. eauto.
           ++ rewrite !upd_same. unfold is_new, f_push. simpl. rewrite E2. reflexivity.
           ++ rewrite upd_same. unfold f_push; simpl. rewrite E3. exact Hhs.
           ++ rewrite upd_same. unfold f_push; simpl. rewrite E4. exact Hcal.
           ++ rewrite upd_same. unfold f_push; simpl. rewrite E5. exact Har.
        -- destruct (enter_helper_facts HC0 1 (KStore dst rest) (f_push (VFiber k) (f_push (VHelper HC0) f1)) (s_cur s) (s_co s (s_cur s))
                       [VHelper HC0; VFiber k] (KBody rest) (c_fresh (s_co s (s_cur s)))) as (E1 & E2 & E3 & E4 & E5).
           { unfold f_push, f1. simpl. rewrite Hstk, <- !app_assoc. reflexivity. } { reflexivity. } { reflexivity. }
           set (fh := enter_helper HC0 1 (KStore dst rest) (f_push (VFiber k) (f_push (VHelper HC0) f1))) in *. clearbody fh.
           assert (Hgl1 : get_local 1 fh = VFiber k).
           { unfold get_local. rewrite E2, E1. simpl. rewrite nth_above_base. reflexivity. }
           rewrite Hgl1.
           eapply call_sim with (arg := None) (junk := [VHelper HC0; VFiber k]) (hfr := [mkFrame (VHelper HC0) (blen (s_co s (s_cur s))) KHelperRet false]); eauto; side.
           ++ rewrite upd_same. unfold f_push. simpl. rewrite E1, <- !app_assoc. reflexivity.
           ++ rewrite !upd_same. unfold save_ip, f_push. simpl. rewrite E2. simpl. reflexivity.
           ++ right. eauto.
           ++ rewrite !upd_same. unfold is_new, f_push. simpl. rewrite E2. reflexivity.
           ++ rewrite upd_same. unfold f_push; simpl. rewrite E3. exact Hhs.
           ++ rewrite upd_same. unfold f_push; simpl. rewrite E4. exact Hcal.
           ++ rewrite upd_same. unfold f_push; simpl. rewrite E5. exact Har.
      * simpl. unfold set_fiber, s_upd_cur, set_co. simpl. rewrite R1.
        destruct arg as [e|]; simpl.
        -- rewrite Hev.
           eapply call_sim with (arg := Some (s_eval (s_co s (s_cur s)) e)) (junk := []) (hfr := []); eauto; side.
           ++ rewrite upd_same. unfold f_push. simpl. rewrite Hstk, <- app_assoc. reflexivity.
           ++ left; auto.
        -- eapply call_sim with (arg := None) (junk := []) (hfr := []); eauto; side.
           ++ rewrite upd_same. unfold f_push. simpl. rewrite Hstk. reflexivity.
           ++ left; auto.
    + (* call with two arguments: always a wrong argument count *)
      destruct (fdef_of p k) eqn:Hfd; [|simpl; reflexivity].
      simpl. unfold set_fiber, s_upd_cur, set_co. simpl. rewrite R1, !Hev.
      set (f1 := set_frames [set_ip (KBody rest) (bframe (s_cur s) (KBody (ACall2 k e1 e2 :: rest)) (c_fresh (s_co s (s_cur s))))] (fibers (m_vm m) (s_cur s))).
      set (v1 := s_eval (s_co s (s_cur s)) e1). set (v2 := s_eval (s_co s (s_cur s)) e2).
      set (f2 := f_push v2 (f_push v1 (f_push (VFiber k) f1))).
      assert (Hs2 : stack f2 = base (s_cur s) (s_co s (s_cur s)) ++ [VFiber k; v1; v2]).
      { unfold f2, f_push, f1. simpl. rewrite Hstk, <- !app_assoc. reflexivity. }
      set (co2 := upd (s_cur s) (set_code rest (s_co s (s_cur s))) (s_co s)).
      set (fibs2 := upd (s_cur s) f2 (fibers (m_vm m))).
      assert (Hrt : is_new (fibs2 k) = c_fresh (co2 k) /\ call_arity (fibs2 k) - 1 = nparams (c_hasparam (co2 k))).
      { unfold fibs2, co2. destruct (Nat.eq_dec k (s_cur s)) as [->|Hk].
        - rewrite !upd_same. split; [reflexivity|]. unfold f2, f_push, f1; simpl. rewrite Har. unfold ar, nparams.
          destruct (c_hasparam (s_co s (s_cur s))); reflexivity.
        - rewrite !upd_other by auto. split; [apply (is_new_fresh k); auto|].
          destruct (R4 k) as (Hak & _). rewrite Hak. unfold ar, nparams. destruct (c_hasparam (s_co s k)); reflexivity. }
      destruct Hrt as (Hn & Ha).
      unfold fiber_call. simpl. fold fibs2. unfold fibs2 at 1. rewrite upd_same.
      assert (Hpk : f_peek 2 f2 = VFiber k).
      { unfold f_peek. rewrite Hs2, rev_app_distr. reflexivity. }
      rewrite Hpk, Hn, Ha. unfold s_resume, arity_check. simpl. fold co2.
      assert (Herr : forall e,
        sim_result (s_raise (mkS (s_cur s) co2 (s_caps s) (s_out s)) (VErr e))
                   (after_unwind (mkM (mkVm (Some (s_cur s)) (upd (s_cur s) f1 (fibers (m_vm m))) (handling (m_vm m))) (m_caps m) (m_out m) (m_sched m))
                                 (native_error (mkVm (Some (s_cur s)) fibs2 (handling (m_vm m))) e))).
      { intros e. unfold native_error, set_fiber. simpl.
        eapply raise_sim with (junk := [VFiber k; v1]) (hfr := []); eauto; unfold co2, fibs2; side.
        rewrite !upd_same. unfold f_poke0. cbn [stack set_stack]. rewrite Hs2.
          change [VFiber k; v1; v2] with ([VFiber k; v1] ++ [v2]). rewrite app_assoc, removelast_snoc, <- app_assoc. reflexivity. }
      destruct (c_fresh (co2 k)).
      * unfold nparams. destruct (c_hasparam (co2 k)); simpl; apply Herr.
      * simpl. apply Herr.
    + (* return *)
      unfold s_upd_cur, set_co. simpl.
      eapply return_sim with (fibs1 := upd (s_cur s) (set_frames [set_ip (KBody rest) (bframe (s_cur s) (KBody (AReturn arg :: rest)) (c_fresh (s_co s (s_cur s))))] (fibers (m_vm m) (s_cur s))) (fibers (m_vm m)))
                             (hdl := handling (m_vm m)); eauto; try (upds; fail); try (rewrite upd_same; simpl; auto; fail).
      * simpl. unfold set_fiber. now rewrite R1.
      * unfold f_push; simpl. rewrite Hstk. destruct arg; simpl; rewrite ?Hev; reflexivity.
    + (* throw *)
      unfold s_upd_cur, set_co, throw, set_handling, set_fiber. simpl. rewrite R1.
      eapply raise_sim with (junk := []) (hfr := []); eauto; try (upds; fail); try (rewrite upd_same; simpl; auto; fail).
      rewrite upd_same. unfold f_push. simpl. rewrite Hstk. reflexivity.
    + (* has_finished *)
      destruct (fdef_of p k); [|simpl; reflexivity].
      simpl. norm_goal R1 R2.
      assert (Hfin : fiber_has_finished (mkVm (Some (s_cur s))
                 (upd (s_cur s) (set_frames [set_ip (KBody rest) (bframe (s_cur s) (KBody (AHasFinished k :: rest)) (c_fresh (s_co s (s_cur s))))] (fibers (m_vm m) (s_cur s))) (fibers (m_vm m))) (handling (m_vm m))) k
               = is_done (upd (s_cur s) (set_code rest (s_co s (s_cur s))) (s_co s) k)).
      { unfold fiber_has_finished; simpl. destruct (Nat.eq_dec k (s_cur s)) as [->|Hk].
        - rewrite !upd_same. unfold is_done; simpl. rewrite I1. reflexivity.
        - rewrite !upd_other by auto. pose proof (R4 k) as Hk4. unfold fiber_rel in Hk4. unfold is_done, has_finished.
          destruct (c_status (s_co s k)) eqn:Est.
          + destruct Hk4 as (_ & _ & -> & _). reflexivity.
          + destruct Hk4 as (_ & _ & _ & -> & _). reflexivity.
          + destruct Hk4 as (_ & _ & _ & _ & t & ex & hfr & _ & -> & _). destruct hfr; reflexivity.
          + destruct Hk4 as (_ & _ & _ & _ & ex & hfr & _ & -> & _). destruct hfr; reflexivity.
          + destruct Hk4 as (_ & _ & -> & _). reflexivity. }
      rewrite Hfin.
      eapply R_local; [exact HR|upds|upds|upds|upds|simpl; auto|simpl; auto| |].
      * apply fiber_rel_running_intro; simpl; auto.
      * apply (cap_upd_running s m); auto; upds; simpl; auto.
    + (* try *)
      simpl. norm_goal R1 R2.
      eapply R_local; [exact HR|upds|upds|upds|upds|simpl; auto|simpl; auto| |].
      * apply fiber_rel_running_intro; simpl; auto.
        rewrite Hhs, Hstk, base_len. reflexivity.
      * apply (cap_upd_running s m); auto; upds; simpl; auto.
    + (* end try *)
      simpl. rewrite Hhs. unfold hrel. destruct (c_handlers (s_co s (s_cur s))) as [|h hs] eqn:Hh; simpl; [reflexivity|].
      norm_goal R1 R2.
      eapply R_local; [exact HR|upds|upds|upds|upds|simpl; auto|simpl; auto| |].
      * apply fiber_rel_running_intro; simpl; auto.
      * apply (cap_upd_running s m); auto; upds; simpl; auto.
    + (* capture *)
      simpl. norm_goal R1 R2.
      eapply R_local; [exact HR|upds|upds|upds|upds|simpl; auto|simpl; auto| |].
      * apply fiber_rel_running_intro; simpl; auto.
      * intros k. destruct (Nat.eq_dec k (s_cur s)) as [->|Hk].
        -- rewrite !upd_same. simpl. unfold slot_of. rewrite Har. unfold ar; simpl. rewrite I1.
           repeat split; auto; discriminate.
        -- rewrite !upd_other by auto. apply R5.
    + (* print captured *)
      pose proof (R5 k) as H5k. unfold cap_rel in H5k.
      destruct (s_caps s k) as [x|] eqn:Hsc, (m_caps m k) as [[slot|cv]|] eqn:Hmc; try contradiction.
      * (* open: read the slot of fiber k *)
        destruct H5k as (-> & Hn1 & Hn2).
        destruct (stack_base_prefix k _ _ (R4 k) Hn1 Hn2) as [r Hr].
        simpl. norm_goal R1 R2. rewrite Hr, nth_local.
        replace (c_locals (upd (s_cur s) (set_code rest (s_co s (s_cur s))) (s_co s) k)) with (c_locals (s_co s k))
          by (destruct (Nat.eq_dec k (s_cur s)) as [->|Hk]; [now rewrite upd_same|now rewrite upd_other by auto]).
        eapply R_local; [exact HR|upds|upds|upds|upds|simpl; auto|simpl; auto| |].
        -- apply fiber_rel_running_intro; simpl; auto.
        -- apply (cap_upd_running s m); auto; upds; simpl; auto.
      * (* closed *)
        destruct H5k as (Hd & ->).
        simpl. norm_goal R1 R2.
        replace (c_locals (upd (s_cur s) (set_code rest (s_co s (s_cur s))) (s_co s) k)) with (c_locals (s_co s k))
          by (destruct (Nat.eq_dec k (s_cur s)) as [->|Hk]; [now rewrite upd_same|now rewrite upd_other by auto]).
        eapply R_local; [exact HR|upds|upds|upds|upds|simpl; auto|simpl; auto| |].
        -- apply fiber_rel_running_intro; simpl; auto.
        -- apply (cap_upd_running s m); auto; upds; simpl; auto.
      * simpl. norm_goal R1 R2.
        eapply R_local; [exact HR|upds|upds|upds|upds|simpl; auto|simpl; auto| |].
        -- apply fiber_rel_running_intro; simpl; auto.
        -- apply (cap_upd_running s m); auto; upds; simpl; auto.
    + (* set captured *)
      pose proof (R5 k) as H5k. unfold cap_rel in H5k.
      assert (Hrun : fiber_rel (s_cur s) (set_fresh false (set_code rest (s_co s (s_cur s))))
                (save_ip (KBody rest) (set_frames [set_ip (KBody rest) (bframe (s_cur s) (KBody (ASetCap k e :: rest)) (c_fresh (s_co s (s_cur s))))] (fibers (m_vm m) (s_cur s))))).
      { apply fiber_rel_running_intro; simpl; auto. }
      destruct (s_caps s k) as [x|] eqn:Hsc, (m_caps m k) as [[slot|cv]|] eqn:Hmc; try contradiction.
      * (* open: write the slot of fiber k *)
        destruct H5k as (-> & Hn1 & Hn2).
        simpl. norm_goal R1 R2. rewrite Hev.
        unfold R. simpl. split; [reflexivity|]. split; [reflexivity|]. split; [|split].
        -- apply (inv_S_ext (s_cur s) (s_co s)); [|exact R3]. intros j.
           destruct (Nat.eq_dec j k) as [->|Hjk]; destruct (Nat.eq_dec k (s_cur s)) as [Hkm|Hkm]; try subst k;
             try (destruct (Nat.eq_dec j (s_cur s)) as [->|Hjm]); rewrite ?upd_same, ?upd_other by auto; simpl;
             rewrite ?upd_same, ?upd_other by auto; simpl; auto.
        -- intros j. destruct (Nat.eq_dec j k) as [->|Hjk].
           ++ rewrite !upd_same. destruct (Nat.eq_dec k (s_cur s)) as [->|Hkm].
              ** rewrite !upd_same. apply (fiber_rel_set_local (s_cur s) _ _ x _ Hrun); simpl; rewrite I1; discriminate.
              ** rewrite !upd_other by auto. apply fiber_rel_set_local; auto.
           ++ rewrite !(upd_other k j) by auto. destruct (Nat.eq_dec j (s_cur s)) as [->|Hjm].
              ** rewrite !upd_same. exact Hrun.
              ** rewrite !upd_other by auto. apply R4.
        -- intros j. apply cap_rel_ext with (c := s_co s j); [| | |apply R5];
             destruct (Nat.eq_dec j k) as [->|Hjk]; destruct (Nat.eq_dec k (s_cur s)) as [Hkm|Hkm]; try subst k;
             try (destruct (Nat.eq_dec j (s_cur s)) as [->|Hjm]); rewrite ?upd_same, ?upd_other by auto; simpl;
             rewrite ?upd_same, ?upd_other by auto; simpl; auto; try congruence.
      * (* closed: write the cell *)
        destruct H5k as (Hd & Hcv).
        assert (Hkm : k <> s_cur s) by (intros ->; congruence).
        simpl. norm_goal R1 R2. rewrite Hev.
        unfold R. simpl. split; [reflexivity|]. split; [reflexivity|]. split; [|split].
        -- apply (inv_S_ext (s_cur s) (s_co s)); [|exact R3]. intros j.
           destruct (Nat.eq_dec j k) as [->|Hjk]; [|destruct (Nat.eq_dec j (s_cur s)) as [->|Hjm]];
             rewrite ?upd_same, ?upd_other by auto; simpl; rewrite ?upd_same, ?upd_other by auto; simpl; auto.
        -- intros j. destruct (Nat.eq_dec j k) as [->|Hjk].
           ++ rewrite !upd_same. rewrite !upd_other by auto.
              pose proof (R4 k) as H4k. unfold fiber_rel in *. simpl. rewrite Hd in *. exact H4k.
           ++ rewrite !(upd_other k j) by auto. destruct (Nat.eq_dec j (s_cur s)) as [->|Hjm].
              ** rewrite !upd_same. exact Hrun.
              ** rewrite !upd_other by auto. apply R4.
        -- intros j. destruct (Nat.eq_dec j k) as [->|Hjk].
           ++ rewrite !upd_same. rewrite !upd_other by auto. rewrite Hsc. unfold cap_rel. simpl.
              split; [exact Hd|]. now rewrite get_set_var.
           ++ rewrite !(upd_other k j) by auto. destruct (Nat.eq_dec j (s_cur s)) as [->|Hjm].
              ** rewrite !upd_same. eapply cap_rel_running; [exact I1| | |apply R5]; auto.
              ** rewrite !upd_other by auto. apply R5.
      * simpl. norm_goal R1 R2.
        eapply R_local; [exact HR|upds|upds|upds|upds|simpl; auto|simpl; auto| |].
        -- apply fiber_rel_running_intro; simpl; auto.
        -- apply (cap_upd_running s m); auto; upds; simpl; auto.
Qed.

Lemma run_sim : forall p fuel s m, R s m -> fst (run_M true p fuel m) = run_S p fuel s.
Proof.
  intros p fuel; induction fuel as [|n IH]; intros s m HR; simpl.
  - destruct HR as (_ & H2 & _). now rewrite H2.
  - pose proof (step_sim p s m HR) as Hs.
    destruct (step_S p s) as [s'|o], (step_M true p m) as [m'|[o' sch]]; simpl in Hs; try contradiction.
    + apply IH; exact Hs.
    + subst o'. destruct HR as (_ & H2 & _). simpl. now rewrite H2.
Qed.

Lemma init_related : forall p, exists st, init_M true p = Some st /\ R (init_S p) st.
Proof.
  intros p. eexists. split; [reflexivity|].
  unfold R, init_S. simpl. split; [reflexivity|]. split; [reflexivity|]. split; [|split].
  - unfold inv_S. simpl. split; [reflexivity|].
    assert (Hb : forall k, c_back (match k with
              | 0 => mkCoro SRunning true false VNil nil_locals (p_main p) [] None
              | S j => match nth_error (p_fibers p) j with
                       | Some d => mkCoro SNew true (fd_param d) VNil nil_locals (fd_body d) [] None
                       | None => dead_coro end end) = None).
    { intros [|j]; [reflexivity|]. destruct (nth_error (p_fibers p) j); reflexivity. }
    repeat split.
    + intros k b H. rewrite Hb in H. discriminate.
    + intros k k' b H. rewrite Hb in H. discriminate.
    + intros k b H. rewrite Hb in H. discriminate.
    + intros [|j] Hk Ha; [congruence|]. destruct (nth_error (p_fibers p) j); simpl in Ha; contradiction.
  - intros [|j].
    + rewrite upd_same. unfold fiber_rel. simpl. split; [reflexivity|]. split; [reflexivity|].
      split; [|split; reflexivity]. rewrite base_new by reflexivity. reflexivity.
    + rewrite !upd_other by discriminate. simpl. destruct (nth_error (p_fibers p) j) as [d|].
      * unfold fiber_rel. simpl. unfold ar. simpl. destruct (fd_param d); simpl; repeat split; reflexivity.
      * unfold fiber_rel. simpl. repeat split; reflexivity.
  - intros k. unfold cap_rel. exact I.
Qed.

(* M delivers what S delivers: for EVERY program of the mini-language - any number of fibers, every
   interleaving of call / yield / return / throw among them, fibers calling fibers, yields and calls from
   nested function frames, try blocks spanning switches, locals captured by closures, abandoned
   suspended fibers - the printed output and the outcome of the mechanism equal those of the
   coroutine Spec (with the repaired `load_fiber`: poke_nil_on_resume = true). *)
Theorem transfer_faithful : forall p, eval_mech true p = eval_coroutine p.
Proof.
  intros p. unfold eval_mech, eval_mech_full, eval_coroutine.
  destruct (init_related p) as (st & Hi & HR). rewrite Hi. apply run_sim. exact HR.
Qed.

(* the schedule-insensitive corollary with any fuel *)
Corollary transfer_faithful_fuel : forall p fuel st, init_M true p = Some st ->
  fst (run_M true p fuel st) = run_S p fuel (init_S p).
Proof.
  intros p fuel st Hi. destruct (init_related p) as (st' & Hi' & HR). rewrite Hi in Hi'. inversion Hi'; subst.
  apply run_sim. exact HR.
Qed.

(* with the unrepaired `load_fiber` (argument poked only when given) the pending yield of a fiber
   resumed by `f.call()` evaluates to the receiver of `Fiber.yield`, the class Fiber *)
Definition resume_without_arg_witness : prog :=
  mkProg [ACall None 1 None false; ACall None 1 None false]
         [mkFdef false [AYield (Some X0) (Some (EConst 1)) false; APrint (EVar X0)]].

Theorem resume_without_arg_refuted : exists p, eval_mech false p <> eval_coroutine p.
Proof. exists resume_without_arg_witness. vm_compute. discriminate. Qed.

Example resume_without_arg_values :
  eval_mech false resume_without_arg_witness = ([EvPrint VFiberClass], ODone) /\
  eval_coroutine resume_without_arg_witness = ([EvPrint VNil], ODone).
Proof. split; vm_compute; reflexivity. Qed.

(* the hypotheses of the simulation are satisfiable by a non-trivial state: two fibers suspended at once *)
Example transfer_nontrivial :
  let p := mkProg [ACall (Some X0) 1 (Some (EConst 5)) true; APrint (EVar X0); ACall (Some X1) 2 None false;
                   ACall (Some X0) 1 (Some (EVar X1)) false; APrint (EVar X0)]
                  [mkFdef true [ATry; AYield (Some X0) (Some EParam) true; AThrow 9; AEndTry; AReturn (Some (EVar X0))];
                   mkFdef false [AYield None (Some (EConst 7)) false]] in
  eval_coroutine p = ([EvPrint (VNum 5); EvCaught (VNum 9); EvPrint (VNum 7)], ODone).
Proof. vm_compute. reflexivity. Qed.

Print Assumptions transfer_faithful.
Print Assumptions resume_without_arg_refuted.
