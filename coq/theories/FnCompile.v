(* C05, function fragment - ONE compiler model for the union fragment: the emitters of CompileExpr.v plus
   function() / lambda() / fn_declaration / return_statement / resolve_upvalue / add_upvalue / emit_scope_end with
   CloseUpvalue, transliterated from compiler.rs.  DEFINITIONS ONLY.

   What compiler.rs mutates while it compiles the inside of a function and consults later is threaded as a state
   [cst]: which locals have been captured so far (decides CloseUpvalue vs Pop at a scope end, break, continue), the
   upvalue lists of the function being compiled and of all its enclosing functions (an inner function adds upvalues
   to every function between itself and the owner of the variable), the lambda counters.  What is lexically scoped
   (locals in scope, depth, pending local, loop) stays an environment, one per enclosing function. *)
From Coq Require Import Strings.String.
From Coq Require Import List NArith ZArith Bool Arith.
From Coq Require Import Strings.Byte Floats.SpecFloat.
From YV Require Import Ast Num Show Bytecode CompileExpr.
Import ListNotations.
Local Open Scope nat_scope.
Local Open Scope list_scope.

Inductive xinstr :=
| XI (i : instr)
| XClosure (f : fobj) (ups : list (bool * N))     (* Closure idx16 (is_local, index)* *)
with fobj :=
| mkF (fname : name) (farity : N) (fnups : nat) (fcode : list xinstr).

Definition fo_name (f : fobj) : name := match f with mkF n _ _ _ => n end.
Definition fo_arity (f : fobj) : N := match f with mkF _ a _ _ => a end.
Definition fo_nups (f : fobj) : nat := match f with mkF _ _ u _ => u end.
Definition fo_code (f : fobj) : list xinstr := match f with mkF _ _ _ c => c end.

Definition xi (l : list instr) : list xinstr := map XI l.

(* ------------------------------------------------------------------ *)
(* state                                                               *)

Record cst := mkSt {
  caps : list (list nat);            (* per function (head = the one being compiled): captured slots *)
  upss : list (list (N * bool));     (* per function: its upvalues in creation order, (index, is_local) *)
  lams : list nat                    (* per function: lambda_count *)
}.

Definition cst0 : cst := mkSt [[]] [[]] [0].

Definition push_fn (st : cst) : cst := mkSt ([] :: caps st) ([] :: upss st) (0 :: lams st).
Definition pop_fn (st : cst) : cst := mkSt (tl (caps st)) (tl (upss st)) (tl (lams st)).

Fixpoint set_nth' {A} (n : nat) (x : A) (l : list A) : list A :=
  match l, n with
  | [], _ => []
  | _ :: r, O => x :: r
  | y :: r, S n' => y :: set_nth' n' x r
  end.

Fixpoint mem_nat (x : nat) (l : list nat) : bool :=
  match l with [] => false | y :: r => Nat.eqb x y || mem_nat x r end.
Fixpoint remove_nat (x : nat) (l : list nat) : list nat :=
  match l with [] => [] | y :: r => if Nat.eqb x y then remove_nat x r else y :: remove_nat x r end.

(* Compiler::add_upvalue: reuse an equal entry, else append *)
Fixpoint up_index (ups : list (N * bool)) (idx : N) (isl : bool) (k : nat) : option nat :=
  match ups with
  | [] => None
  | (i, l) :: r => if N.eqb i idx && Bool.eqb l isl then Some k else up_index r idx isl (S k)
  end.
Definition add_up (ups : list (N * bool)) (idx : N) (isl : bool) : list (N * bool) * N :=
  match up_index ups idx isl 0 with
  | Some k => (ups, N.of_nat k)
  | None => (ups ++ [(idx, isl)], N.of_nat (length ups))
  end.

(* the inner loop of resolve_upvalue: levels j, j-1, .., 0; only level j captures a local *)
Fixpoint add_chain (j : nat) (isl : bool) (idx : N) (us : list (list (N * bool))) : list (list (N * bool)) * N :=
  let (u', i) := add_up (nth j us []) idx isl in
  let us' := set_nth' j u' us in
  match j with
  | O => (us', i)
  | S j' => add_chain j' false i us'
  end.

(* Compiler::resolve_local of an ENCLOSING compiler: an uninitialised newest match is "not found" *)
Definition find_in_outer (env : cenv) (x : name) : option nat :=
  match cpending env with
  | Some p => if bytes_eqb x p then None else find_local (clocals env) x
  | None => find_local (clocals env) x
  end.

Fixpoint find_outer (outers : list cenv) (x : name) (j : nat) : option (nat * nat) :=
  match outers with
  | [] => None
  | env :: r =>
    match find_in_outer env x with
    | Some k => Some (j, k)
    | None => find_outer r x (S j)
    end
  end.

Inductive rvar :=
| RLocal (k : N)
| RUp (k : N)
| RGlobal.

(* the static part of resolve_variable *)
Inductive rkind := KLocal (k : N) | KOuter (j slot : nat) | KGlobal.
Definition rkind_of (env : cenv) (outers : list cenv) (x : name) : rkind :=
  match resolve env x with
  | Some k => KLocal k
  | None =>
    match find_outer outers x 0 with
    | Some (j, slot) => KOuter j slot
    | None => KGlobal
    end
  end.

Definition mark_captured (cs : list (list nat)) (lvl slot : nat) : list (list nat) :=
  let l := nth lvl cs [] in
  if mem_nat slot l then cs else set_nth' lvl (slot :: l) cs.

Definition resolve_var (env : cenv) (outers : list cenv) (st : cst) (x : name) : rvar * cst :=
  match rkind_of env outers x with
  | KLocal k => (RLocal k, st)
  | KGlobal => (RGlobal, st)
  | KOuter j slot =>
    let (us, i) := add_chain j true (N.of_nat slot) (upss st) in
    (RUp i, mkSt (mark_captured (caps st) (S j) slot) us (lams st))
  end.

(* ------------------------------------------------------------------ *)
(* scope ends                                                          *)

(* emit_scope_end over the n newest locals (slots total-1 down to total-n) of the current function *)
Fixpoint scope_end_code (cap : list nat) (total n : nat) : list instr :=
  match n with
  | O => []
  | S n' =>
    (if mem_nat (total - 1) cap then IOp OpCloseUpvalue else IOp OpPop) :: scope_end_code cap (total - 1) n'
  end.
Fixpoint forget_slots (cap : list nat) (total n : nat) : list nat :=
  match n with
  | O => cap
  | S n' => forget_slots (remove_nat (total - 1) cap) (total - 1) n'
  end.

Definition cur_caps (st : cst) : list nat := nth 0 (caps st) [].
Definition set_cur_caps (st : cst) (c : list nat) : cst := mkSt (set_nth' 0 c (caps st)) (upss st) (lams st).

(* ------------------------------------------------------------------ *)
(* lengths (instruction counts; independent of the state)              *)

Definition fn_env (ps : list name) : cenv :=
  mkEnv (map (fun p => (p, 1)) (rev ps) ++ [([], 0)]) 1 None None.

Fixpoint xelen (env : cenv) (outers : list cenv) (e : expr) {struct e} : nat :=
  let ll := fix go (l : list expr) : nat := match l with [] => 0 | x :: r => xelen env outers x + go r end in
  match e with
  | ENil | ETrue | EFalse | ENum _ | EStr _ | EVar _ => 1
  | EInterp parts =>
    (fix go (ps : list interp_part) : nat :=
       match ps with
       | [] => 0
       | IPStr _ :: r => S (go r)
       | IPExpr e1 :: r => xelen env outers e1 + S (go r)
       end) parts + 1
  | EAssign x e1 =>
    match rkind_of env outers x with
    | KGlobal => S (xelen env outers e1 + 1)
    | _ => xelen env outers e1 + 1
    end
  | ECompound x op e1 => S (xelen env outers e1 + length (compound_code op) + 1)
  | EUnary op e1 => xelen env outers e1 + 1
  | EBinary op a b => xelen env outers a + xelen env outers b + length (binop_code op)
  | EAnd a b => xelen env outers a + 2 + xelen env outers b
  | EOr a b => xelen env outers a + 3 + xelen env outers b
  | ERange a b | EIndex a b => xelen env outers a + xelen env outers b + 1
  | ECall f args => xelen env outers f + ll args + 1
  | ESetIndex o i e1 => xelen env outers o + xelen env outers i + xelen env outers e1 + 1
  | ETuple es | EVec es => ll es + 1
  | ELambda _ _ => 1
  | _ => 0
  end.

(* the environment after a statement: a local `var` or `fn` adds a local *)
Definition env_after' (env : cenv) (s : stmt) : cenv :=
  match s with
  | SVar _ x _ | SFn _ x _ _ => match cdepth env with O => env | S _ => add_local env x end
  | _ => env
  end.

Fixpoint count_decls' (l : list stmt) : nat :=
  match l with
  | SVar _ _ _ :: r | SFn _ _ _ _ :: r => S (count_decls' r)
  | _ :: r => count_decls' r
  | [] => 0
  end.

Fixpoint xslen (env : cenv) (outers : list cenv) (s : stmt) {struct s} : nat :=
  let lens := fix go (env : cenv) (l : list stmt) : nat :=
    match l with
    | [] => 0
    | x :: r => xslen env outers x + go (env_after' env x) r
    end in
  let blen := fun (env : cenv) (b : list stmt) => lens (begin_scope env) b + count_decls' b in
  match s with
  | SExpr _ e => S (xelen env outers e)
  | SVar _ x init =>
    let il := match init with
              | Some e => xelen (match cdepth env with O => env | S _ => with_pending env x end) outers e
              | None => 1
              end in
    match cdepth env with O => S (S il) | S _ => il end
  | SFn _ _ _ _ => match cdepth env with O => 3 | S _ => 1 end
  | SReturn _ e => match e with Some e1 => S (xelen env outers e1) | None => 2 end
  | SBlock _ b => blen env b
  | SIf _ c t e =>
    xelen env outers c + 2 + blen env t + 2 + match e with Some s' => xslen env outers s' | None => 0 end
  | SWhile _ c b => xelen env outers c + 2 + blen (push_loop env) b + 2
  | SBreak _ => S (loop_pops env)
  | SContinue _ => S (loop_pops env)
  | _ => 0
  end.

Fixpoint xslens (env : cenv) (outers : list cenv) (l : list stmt) : nat :=
  match l with
  | [] => 0
  | x :: r => xslen env outers x + xslens (env_after' env x) outers r
  end.
Definition xblen (env : cenv) (outers : list cenv) (b : list stmt) : nat :=
  xslens (begin_scope env) outers b + count_decls' b.

(* ------------------------------------------------------------------ *)
(* emitters                                                            *)

Definition var_get (r : rvar) (x : name) : instr :=
  match r with
  | RLocal k => IOp8 OpGetLocal k
  | RUp k => IOp8 OpGetUpvalue k
  | RGlobal => IGlobal OpGetGlobal x
  end.
Definition var_set (r : rvar) (x : name) : instr :=
  match r with
  | RLocal k => IOp8 OpSetLocal k
  | RUp k => IOp8 OpSetUpvalue k
  | RGlobal => IGlobal OpSetGlobal x
  end.

Definition lambda_fname (k : nat) : name := list_byte_of_string ("lambda-" ++ show_nat k).
Definition is_lambda_name (nm : name) : bool :=
  match nm with
  | x6c :: x61 :: x6d :: x62 :: x64 :: x61 :: x2d :: _ => true      (* "lambda-" : not an identifier *)
  | _ => false
  end%byte.

Definition bump_lambda (st : cst) : nat * cst :=
  let k := nth 0 (lams st) 0 in (k, mkSt (caps st) (upss st) (set_nth' 0 (S k) (lams st))).

(* finalise_compiler + `Closure const (is_local, index)*` *)
Definition closure_of (nm : name) (ps : list name) (code : list xinstr) (st : cst) : xinstr * cst :=
  let ups := nth 0 (upss st) [] in
  (XClosure (mkF nm (N.of_nat (S (length ps))) (length ups) code) (map (fun u => (snd u, fst u)) ups),
   pop_fn st).

(* [brk]/[cont] as in CompileExpr.cstmt; the scope-end pops of break/continue and of blocks consult the state *)
Fixpoint xcexpr (env : cenv) (outers : list cenv) (st : cst) (e : expr) {struct e} : list xinstr * cst :=
  let clist := fix go (l : list expr) (st : cst) : list xinstr * cst :=
    match l with
    | [] => ([], st)
    | x :: r => let (c1, st1) := xcexpr env outers st x in
                let (c2, st2) := go r st1 in (c1 ++ c2, st2)
    end in
  let xcstmts := fix go (env : cenv) (outers : list cenv) (st : cst) (brk cont : nat) (l : list stmt)
    : list xinstr * cst :=
    match l with
    | [] => ([], st)
    | x :: r =>
      let env' := env_after' env x in
      let (c1, st1) := xcstmt env outers st (xslens env' outers r + brk) cont x in
      let (c2, st2) := go env' outers st1 brk (cont + xslen env outers x) r in
      (c1 ++ c2, st2)
    end in
  match e with
  | ENil => (xi [IOp OpNil], st)
  | ETrue => (xi [IOp OpTrue], st)
  | EFalse => (xi [IOp OpFalse], st)
  | ENum x => (xi [IConst (CNum x)], st)
  | EStr s => (xi [IConst (CStr s)], st)
  | EInterp parts =>
    let (c, st1) :=
      (fix go (ps : list interp_part) (st : cst) : list xinstr * cst :=
         match ps with
         | [] => ([], st)
         | IPStr s :: r => let (c2, st2) := go r st in (XI (IConst (CStr s)) :: c2, st2)
         | IPExpr e1 :: r =>
           let (c1, st1) := xcexpr env outers st e1 in
           let (c2, st2) := go r st1 in (c1 ++ XI (IOp OpFormatString) :: c2, st2)
         end) parts st in
    (c ++ xi [IOp8 OpBuildString (nlen parts)], st1)
  | EVar x =>
    let (r, st1) := resolve_var env outers st x in (xi [var_get r x], st1)
  | EAssign x e1 =>
    let (r, st1) := resolve_var env outers st x in
    let (c, st2) := xcexpr env outers st1 e1 in
    match r with
    | RGlobal => (XI (ITouch (CStr x)) :: c ++ xi [var_set r x], st2)
    | _ => (c ++ xi [var_set r x], st2)
    end
  | ECompound x op e1 =>
    let (r, st1) := resolve_var env outers st x in
    let (c, st2) := xcexpr env outers st1 e1 in
    (XI (var_get r x) :: c ++ xi (compound_code op ++ [var_set r x]), st2)
  | EUnary op e1 =>
    let (c, st1) := xcexpr env outers st e1 in (c ++ xi (unop_code op), st1)
  | EBinary op a b =>
    let (ca, st1) := xcexpr env outers st a in
    let (cb, st2) := xcexpr env outers st1 b in (ca ++ cb ++ xi (binop_code op), st2)
  | EAnd a b =>
    let (ca, st1) := xcexpr env outers st a in
    let (cb, st2) := xcexpr env outers st1 b in
    (ca ++ XI (IJump OpJumpIfFalse (S (length cb))) :: XI (IOp OpPop) :: cb, st2)
  | EOr a b =>
    let (ca, st1) := xcexpr env outers st a in
    let (cb, st2) := xcexpr env outers st1 b in
    (ca ++ XI (IJump OpJumpIfFalse 1) :: XI (IJump OpJump (S (length cb))) :: XI (IOp OpPop) :: cb, st2)
  | ERange a b =>
    let (ca, st1) := xcexpr env outers st a in
    let (cb, st2) := xcexpr env outers st1 b in (ca ++ cb ++ xi [IOp OpBuildRange], st2)
  | ECall f args =>
    let (cf, st1) := xcexpr env outers st f in
    let (ca, st2) := clist args st1 in (cf ++ ca ++ xi [IOp8 OpCall (nlen args)], st2)
  | EIndex o i =>
    let (co, st1) := xcexpr env outers st o in
    let (ci, st2) := xcexpr env outers st1 i in (co ++ ci ++ xi [IOp OpGetItem], st2)
  | ESetIndex o i e1 =>
    let (co, st1) := xcexpr env outers st o in
    let (ci, st2) := xcexpr env outers st1 i in
    let (ce, st3) := xcexpr env outers st2 e1 in (co ++ ci ++ ce ++ xi [IOp OpSetItem], st3)
  | ETuple es => let (c, st1) := clist es st in (c ++ xi [IOp8 OpBuildTuple (nlen es)], st1)
  | EVec es => let (c, st1) := clist es st in (c ++ xi [IOp8 OpBuildVec (nlen es)], st1)
  | ELambda ps b =>
    let (k, st0) := bump_lambda st in
    let fenv := fn_env ps in
    let (code, st1) :=
      match b with
      | LExpr e1 =>
        let (c, st1) := xcexpr fenv (env :: outers) (push_fn st0) e1 in
        (c ++ xi [IOp OpReturn; IOp OpNil; IOp OpReturn], st1)
      | LBlock body =>
        let (c, st1) := xcstmts fenv (env :: outers) (push_fn st0) 0 0 body in
        (c ++ xi [IOp OpNil; IOp OpReturn], st1)
      end in
    let (ins, st2) := closure_of (lambda_fname k) ps code st1 in ([ins], st2)
  | _ => ([], st)
  end

with xcstmt (env : cenv) (outers : list cenv) (st : cst) (brk cont : nat) (s : stmt) {struct s} : list xinstr * cst :=
  let xcstmts := fix go (env : cenv) (outers : list cenv) (st : cst) (brk cont : nat) (l : list stmt)
    : list xinstr * cst :=
    match l with
    | [] => ([], st)
    | x :: r =>
      let env' := env_after' env x in
      let (c1, st1) := xcstmt env outers st (xslens env' outers r + brk) cont x in
      let (c2, st2) := go env' outers st1 brk (cont + xslen env outers x) r in
      (c1 ++ c2, st2)
    end in
  let cblock := fun (env : cenv) (st : cst) (brk cont : nat) (b : list stmt) =>
    let n := count_decls' b in
    let (c, st1) := xcstmts (begin_scope env) outers st (n + brk) cont b in
    let total := length (clocals env) + n in
    (c ++ xi (scope_end_code (cur_caps st1) total n), set_cur_caps st1 (forget_slots (cur_caps st1) total n)) in
  match s with
  | SExpr _ e => let (c, st1) := xcexpr env outers st e in (c ++ xi [IOp OpPop], st1)
  | SVar _ x init =>
    match cdepth env with
    | O =>
      let (c, st1) := match init with
                      | Some e => xcexpr env outers st e
                      | None => (xi [IOp OpNil], st)
                      end in
      (XI (ITouch (CStr x)) :: c ++ xi [IGlobal OpDefineGlobal x], st1)
    | S _ =>
      match init with
      | Some e => xcexpr (with_pending env x) outers st e
      | None => (xi [IOp OpNil], st)
      end
    end
  | SFn _ fname ps body =>
    let env1 := match cdepth env with O => env | S _ => add_local env fname end in
    let (c, st1) := xcstmts (fn_env ps) (env1 :: outers) (push_fn st) 0 0 body in
    let (ins, st2) := closure_of fname ps (c ++ xi [IOp OpNil; IOp OpReturn]) st1 in
    match cdepth env with
    | O => ([XI (ITouch (CStr fname)); ins; XI (IGlobal OpDefineGlobal fname)], st2)
    | S _ => ([ins], st2)
    end
  | SReturn _ e =>
    match e with
    | Some e1 => let (c, st1) := xcexpr env outers st e1 in (c ++ xi [IOp OpReturn], st1)
    | None => (xi [IOp OpNil; IOp OpReturn], st)
    end
  | SBlock _ b => cblock env st brk cont b
  | SIf _ c t e =>
    let (cc, st1) := xcexpr env outers st c in
    let tl := xblen env outers t in
    let el := match e with Some s' => xslen env outers s' | None => 0 end in
    let (ct, st2) := cblock env st1 (2 + el + brk) (cont + length cc + 2) t in
    let (ce, st3) := match e with
                     | Some s' => xcstmt env outers st2 brk (cont + length cc + 2 + tl + 2) s'
                     | None => ([], st2)
                     end in
    (cc ++ XI (IJump OpJumpIfFalse (tl + 2)) :: XI (IOp OpPop) :: ct ++
        XI (IJump OpJump (S el)) :: XI (IOp OpPop) :: ce, st3)
  | SWhile _ c b =>
    let (cc, st1) := xcexpr env outers st c in
    let bl := xblen (push_loop env) outers b in
    let (cb, st2) := cblock (push_loop env) st1 2 (length cc + 2) b in
    (cc ++ XI (IJump OpJumpIfFalse (bl + 2)) :: XI (IOp OpPop) :: cb ++
        xi [ILoop (length cc + 2 + bl + 1); IOp OpPop], st2)
  | SBreak _ =>
    let n := loop_pops env in
    (xi (scope_end_code (cur_caps st) (length (clocals env)) n ++ [IJump OpJump brk]), st)
  | SContinue _ =>
    let n := loop_pops env in
    (xi (scope_end_code (cur_caps st) (length (clocals env)) n ++ [ILoop (cont + n + 1)]), st)
  | _ => ([], st)
  end.

Fixpoint xcstmts (env : cenv) (outers : list cenv) (st : cst) (brk cont : nat) (l : list stmt)
  : list xinstr * cst :=
  match l with
  | [] => ([], st)
  | x :: r =>
    let env' := env_after' env x in
    let (c1, st1) := xcstmt env outers st (xslens env' outers r + brk) cont x in
    let (c2, st2) := xcstmts env' outers st1 brk (cont + xslen env outers x) r in
    (c1 ++ c2, st2)
  end.

(* a whole script: the root function *)
Definition xprogram (p : Ast.program) : fobj :=
  let (c, st) := xcstmts cenv0 [] cst0 0 0 p in
  mkF [] 1 0 (c ++ xi [IOp OpNil; IOp OpReturn]).

(* ------------------------------------------------------------------ *)
(* Assembler: bytes and constant table of every function                *)

Inductive xconst :=
| XC (c : const)
| XF (f : fobj).       (* a function object: never equal to another constant (compared by address) *)

Fixpoint xconst_index (tbl : list xconst) (c : const) : option nat :=
  match tbl with
  | [] => None
  | XC d :: r => if const_eqb c d then Some 0
                 else match xconst_index r c with Some k => Some (S k) | None => None end
  | XF _ :: r => match xconst_index r c with Some k => Some (S k) | None => None end
  end.

Definition xadd_constant (tbl : list xconst) (c : const) : list xconst :=
  match xconst_index tbl c with
  | Some _ => tbl
  | None => tbl ++ [XC c]
  end.

Definition xisize (i : xinstr) : nat :=
  match i with
  | XI j => isize j
  | XClosure _ ups => 3 + 2 * length ups
  end.
Definition xcode_size (c : list xinstr) : nat := fold_right (fun i a => xisize i + a) 0 c.

Definition xidx_bytes (tbl : list xconst) (c : const) : list N :=
  match xconst_index tbl c with
  | Some k => u16le (N.of_nat k)
  | None => [255%N; 255%N]
  end.

(* bytes of the instruction at index i; the table as it is AFTER this instruction's make_constant *)
Definition xasm_instr (all : list xinstr) (tbl : list xconst) (i : nat) (ins : xinstr) : list N :=
  match ins with
  | XI (IConst c) => N_of_opcode OpConstant :: xidx_bytes tbl c
  | XI (IOp o) => [N_of_opcode o]
  | XI (IOp8 o n) => [N_of_opcode o; n]
  | XI (IGlobal o x) => N_of_opcode o :: xidx_bytes tbl (CStr x)
  | XI (IJump o n) => N_of_opcode o :: u16le (N.of_nat (xcode_size (firstn n (skipn (S i) all))))
  | XI (ILoop n) => N_of_opcode OpLoop :: u16le (N.of_nat (xcode_size (firstn n (skipn (S i - n) all))))
  | XI (ITouch _) => []
  | XClosure _ ups =>
    N_of_opcode OpClosure :: u16le (N.of_nat (length tbl - 1)) ++
    flat_map (fun u : bool * N => [if fst u then 1%N else 0%N; snd u]) ups
  end.

Definition xtable_step (tbl : list xconst) (ins : xinstr) : list xconst :=
  match ins with
  | XI j => match instr_const j with Some c => xadd_constant tbl c | None => tbl end
  | XClosure f _ => tbl ++ [XF f]
  end.

Fixpoint xasm_from (all : list xinstr) (tbl : list xconst) (i : nat) (l : list xinstr) : list N * list xconst :=
  match l with
  | [] => ([], tbl)
  | ins :: r =>
    let tbl1 := xtable_step tbl ins in
    let (bs, tbl2) := xasm_from all tbl1 (S i) r in
    (xasm_instr all tbl1 i ins ++ bs, tbl2)
  end.

(* (code bytes, constant table) of one function *)
Definition xassemble (f : fobj) : list N * list xconst := xasm_from (fo_code f) [] 0 (fo_code f).

(* ------------------------------------------------------------------ *)
(* what the real compiler rejects, for the union fragment                *)

Fixpoint nodup_names (l : list name) : bool :=
  match l with
  | [] => true
  | x :: r => negb (existsb (bytes_eqb x) r) && nodup_names r
  end.

(* [pend]: names being initialised in ENCLOSING functions (`var x = || ..x..`): resolve_upvalue skips such an
   uninitialised local and keeps looking further out - programs that mention one are left out of the fragment *)
Definition var_ok (env : cenv) (pend : list name) (x : name) : bool :=
  not_pending env x &&
  (match find_local (clocals env) x with Some _ => true | None => false end || negb (existsb (bytes_eqb x) pend)).
Definition pend_of (env : cenv) (pend : list name) : list name :=
  match cpending env with Some p => p :: pend | None => pend end.

Fixpoint xexpr_ok (env : cenv) (pend : list name) (e : expr) {struct e} : bool :=
  let xstmts_ok := fix go (env : cenv) (pend : list name) (infn : bool) (l : list stmt) : bool :=
    match l with
    | [] => true
    | x :: r => xstmt_ok env pend infn x && go (env_after' env x) pend infn r
    end in
  match e with
  | ENil | ETrue | EFalse | ENum _ | EStr _ => true
  | EInterp parts =>
    (fix go (ps : list interp_part) : bool :=
       match ps with
       | [] => true
       | IPStr s :: r => nonempty s && go r
       | IPExpr e1 :: r => xexpr_ok env pend e1 && go r
       end) parts && (length parts <=? 255)
  | EVar x => var_ok env pend x
  | EAssign x e1 => var_ok env pend x && xexpr_ok env pend e1
  | ECompound x op e1 => var_ok env pend x && is_compound_op op && xexpr_ok env pend e1
  | EUnary _ e1 => xexpr_ok env pend e1
  | EBinary _ a b | EAnd a b | EOr a b | ERange a b | EIndex a b => xexpr_ok env pend a && xexpr_ok env pend b
  | ECall f args => xexpr_ok env pend f && forallb (xexpr_ok env pend) args && (length args <=? 255)
  | ESetIndex o i e1 => xexpr_ok env pend o && xexpr_ok env pend i && xexpr_ok env pend e1
  | ETuple es | EVec es => forallb (xexpr_ok env pend) es && (length es <=? 255)
  | ELambda ps b =>
    nodup_names ps && (length ps <=? 255) &&
    match b with
    | LExpr e1 => xexpr_ok (fn_env ps) (pend_of env pend) e1
    | LBlock body => xstmts_ok (fn_env ps) (pend_of env pend) true body
    end
  | _ => false
  end

with xstmt_ok (env : cenv) (pend : list name) (infn : bool) (s : stmt) {struct s} : bool :=
  let xstmts_ok := fix go (env : cenv) (pend : list name) (infn : bool) (l : list stmt) : bool :=
    match l with
    | [] => true
    | x :: r => xstmt_ok env pend infn x && go (env_after' env x) pend infn r
    end in
  match s with
  | SExpr _ e => xexpr_ok env pend e
  | SVar _ x init =>
    match cdepth env with
    | O => match init with Some e => xexpr_ok env pend e | None => true end
    | S _ =>
      negb (declared_here (cdepth env) (clocals env) x) && (length (clocals env) <? 256) &&
      match init with Some e => xexpr_ok (with_pending env x) pend e | None => true end
    end
  | SFn _ fname ps body =>
    match cdepth env with
    | O => true
    | S _ => negb (declared_here (cdepth env) (clocals env) fname) && (length (clocals env) <? 256)
    end && negb (is_lambda_name fname) && nodup_names ps && (length ps <=? 255) &&
    xstmts_ok (fn_env ps) (pend_of (match cdepth env with O => env | S _ => add_local env fname end) pend) true body
  | SReturn _ e => infn && match e with Some e1 => xexpr_ok env pend e1 | None => true end
  | SBlock _ b => xstmts_ok (begin_scope env) pend infn b
  | SIf _ c t e =>
    xexpr_ok env pend c && xstmts_ok (begin_scope env) pend infn t &&
    match e with
    | Some s' => match s' with
                 | SBlock _ _ | SIf _ _ _ _ => xstmt_ok env pend infn s'
                 | _ => false
                 end
    | None => true
    end
  | SWhile _ c b => xexpr_ok env pend c && xstmts_ok (begin_scope (push_loop env)) pend infn b
  | SBreak _ | SContinue _ => match cloop env with Some _ => true | None => false end
  | _ => false
  end.

Fixpoint xstmts_ok (env : cenv) (pend : list name) (infn : bool) (l : list stmt) : bool :=
  match l with
  | [] => true
  | x :: r => xstmt_ok env pend infn x && xstmts_ok (env_after' env x) pend infn r
  end.

Definition xprogram_ok (p : Ast.program) : bool := xstmts_ok cenv0 [] false p.

(* the compiled code captures nothing: no upvalue instruction, every Closure without descriptors *)
Fixpoint nocap_instr (i : xinstr) : bool :=
  match i with
  | XI (IOp8 OpGetUpvalue _) | XI (IOp8 OpSetUpvalue _) | XI (IOp OpCloseUpvalue) => false
  | XI _ => true
  | XClosure f ups =>
    match ups with [] => true | _ => false end &&
    (fix go (c : list xinstr) : bool := match c with [] => true | x :: r => nocap_instr x && go r end) (fo_code f)
  end.
Definition nocap_code (c : list xinstr) : bool := forallb nocap_instr c.
