(* C05, function fragment - bounded families for the stages that are NOT proved in general (closures that capture):
   the reference evaluator with cells and the machine agree on every program of the families (by computation).
   Programs are given as source text and parsed by the parser model. *)
From Coq Require Import Strings.String.
From Coq Require Import List NArith ZArith Bool Arith.
From YV Require Import Ast Show Parser ParseRun ExprSem CompileExpr FragVM FnSem FnCompile FnVM.
Import ListNotations.
Local Open Scope string_scope.

Definition prog_of (src : string) : Ast.program :=
  match parse_source (list_byte_of_string src) with POk p => p | _ => [SBreak 0%N] end.

(* the compiled program contains an instruction with one of the given opcodes *)
Fixpoint uses_i (ops : list Bytecode.opcode) (i : xinstr) {struct i} : bool :=
  match i with
  | XI (IOp o) | XI (IOp8 o _) =>
    existsb (fun o' => N.eqb (Bytecode.N_of_opcode o) (Bytecode.N_of_opcode o')) ops
  | XI _ => false
  | XClosure f _ =>
    (fix go (c : list xinstr) : bool := match c with [] => false | x :: r => uses_i ops x || go r end) (fo_code f)
  end.
Definition uses_op (ops : list Bytecode.opcode) (c : list xinstr) : bool := existsb (uses_i ops) c.

(* both sides finish (or fail) identically: printed lines and outcome *)
Definition agrees (p : Ast.program) : bool :=
  xprogram_ok p &&
  let (s, o) := frun_program 3000 p in
  let ev := show_fout s o in
  let vm := show_mout (mrun (300 * 200) (mstate0 (xprogram p))) in
  String.eqb ev vm &&
  match o with FNormal | FErr _ => true | _ => false end.

(* stage 2: captured variables are only READ after their capture (GetUpvalue, no SetUpvalue; the owner does not
   assign them afterwards either) - values captured by reference or by copy are indistinguishable *)
Definition family_readonly : list string := [
  "{ var x = 1; var g = || x; print(g()); }";
  "fn mk(a) { return || a; } var f = mk(5); var g = mk(6); print(f()); print(g()); print(f());";
  "fn mk(a, b) { return |c| a + b * c; } print(mk(1, 2)(3)); print(mk(4, 5)(6));";
  "fn outer() { var a = 1; var b = 2; fn inner() { return a + b; } return inner; } print(outer()());";
  "fn f(x) { return || || x; } print(f(7)()());";
  "fn f(x) { { var y = x * 2; return || y + x; } } print(f(10)());";
  "var fs = []; var i = 0; while i < 3 { i += 1; var j = i * 10; fs = [|| j, fs]; } print(fs[0]()); print(fs[1][0]()); print(fs[1][1][0]());";
  "fn f() { var i = 0; var acc = []; while i < 3 { i += 1; var k = i; if k == 2 { continue; } acc = [|| k, acc]; } return acc; } var a = f(); print(a[0]()); print(a[1][0]());";
  "fn f() { var r = nil; var i = 0; while true { i += 1; var k = i * i; r = || k; if i == 3 { break; } } return r; } print(f()());";
  "{ fn fib(n) { if n < 2 { return n; } return fib(n - 1) + fib(n - 2); } print(fib(12)); }";
  "fn f(a) { var g = || a + 1; var h = || g() * 2; return h; } print(f(4)());";
  "fn compose(f, g) { return |x| f(g(x)); } var inc = |x| x + 1; var dbl = |x| x * 2; print(compose(inc, dbl)(5)); print(compose(dbl, inc)(5));";
  "fn f(s) { return || ""<${s}>""; } print(f(""a"")()); print(f(1.5)());";
  "fn f(v) { return |i| v[i]; } var g = f([10, 20, 30]); print(g(0)); print(g(-1)); print(g(3));";
  "fn f(a) { fn g(b) { fn h(c) { return (a, b, c); } return h; } return g; } print(f(1)(2)(3));";
  "fn f(x) { var t = (|| x, || x + 1); return t; } var t = f(3); print(t[0]() + t[1]());";
  "{ var a = 1; { var b = 2; { var c = 3; var g = || a + b + c; print(g()); } } }";
  "fn f(x) { if x { var y = 1; return || y; } else { var z = 2; return || z; } } print(f(true)()); print(f(false)());";
  "fn f(n) { return || n(); } print(f(|| 42)());";
  "fn f(a) { return |b| a(b); } print(f(|x| x + 100)(1)); print(f(print)(2));"
].

(* stage 3: full closures - shared mutable captured variables, closures that outlive the frame of their variable,
   several closures over one variable, assignment through the owner after capture, loops closing per iteration *)
Definition family_closures : list string := [
  "fn mk() { var c = 0; return || { c += 1; return c; }; } var a = mk(); var b = mk(); print(a()); print(a()); print(b()); print(a());";
  "fn counter() { var n = 0; fn inc() { n += 1; return n; } fn get() { return n; } return (inc, get); } var c = counter(); c[0](); c[0](); print(c[1]());";
  "{ var x = 1; var g = || x; x = 2; print(g()); var h = || { x = x * 10; return x; }; print(h()); print(x); print(g()); }";
  "fn outer() { var a = 1; fn mid() { fn inner() { a += 1; return a; } return inner; } return mid(); } var i = outer(); print(i()); print(i());";
  "var fs = []; var k = 0; while k < 3 { k += 1; var j = k; fs = [|| { j += 100; return j; }, fs]; } print(fs[0]()); print(fs[0]()); print(fs[1][0]());";
  "fn f() { var a = 0; var inc = || { a += 1; return a; }; var r = inc() + inc(); a = a * 10; return (r, a, inc()); } print(f());";
  "fn f() { var i = 0; var fs = nil; while i < 3 { i += 1; var a = i; var g = || { a += 1; return a; }; if i == 2 { break; } fs = g; g(); } return fs; } print(f()());";
  "fn acc(start) { var total = start; return |x| { total += x; return total; }; } var a = acc(10); print(a(1)); print(a(2)); var b = acc(0); print(b(5)); print(a(3));";
  "fn f() { var x = 0; var setx = |v| { x = v; return nil; }; var getx = || x; setx(5); var r1 = getx(); x = 7; return (r1, getx()); } print(f());";
  "fn mk() { var v = [0]; var n = 0; return (|| { n += 1; v[0] = n; return v; }, || n); } var p = mk(); print(p[0]()); print(p[0]()); print(p[1]());";
  "fn f(a) { var g = || { a = a + 1; return a; }; g(); g(); return a; } print(f(1));";
  "fn f() { var a = 1; { var b = 2; var g = || { a += b; b += 1; return (a, b); }; g(); print(g()); print(b); } return a; } print(f());";
  "fn gen() { var i = 0; return || { i += 1; if i > 2 { return nil; } return i; }; } var g = gen(); print(g()); print(g()); print(g()); print(g());";
  "fn f() { var a = 0; fn bump() { a += 1; return bump; } bump()()(); return a; } print(f());";
  "fn f(n) { var total = 0; var i = 0; var adders = nil; while i < n { i += 1; var step = i; adders = (|| { total += step; return total; }, adders); } adders[0](); adders[1][0](); return total; } print(f(3));";
  "fn pair() { var x = 0; return (|| { x += 1; return x; }, || { x += 10; return x; }); } var p = pair(); print(p[0]()); print(p[1]()); print(p[0]());";
  "fn f() { var s = ""a""; var add = |t| { s = s + t; return s; }; add(""b""); add(""c""); return s; } print(f());";
  "fn f() { var x = 1; var g = || { var y = x; x = y + 1; return || { x += y; return x; }; }; var h = g(); print(h()); print(h()); return x; } print(f());";
  "fn f(a) { return || { a = a + nil; return a; }; } var g = f(1); g();";
  "fn deep(n) { var c = 0; fn rec(k) { if k == 0 { return c; } c += k; return rec(k - 1); } return rec(n); } print(deep(10));"
].

Definition family_ok (l : list string) : bool := forallb (fun src => agrees (prog_of src)) l.

(* the families really use the machinery they are named after *)
Definition family_uses (ops : list Bytecode.opcode) (l : list string) : nat :=
  length (filter (fun src => uses_op ops (fo_code (xprogram (prog_of src)))) l).
