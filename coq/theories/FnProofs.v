(* C05, function fragment - proofs about FnSem / FnCompile / FnVM. *)
From Coq Require Import Strings.String.
From Coq Require Import List NArith ZArith Bool Arith Lia.
From Coq Require Import Strings.Byte Floats.SpecFloat.
From YV Require Import Ast Num NumText Bytecode ExprSem CompileExpr FragVM Decompile CompileExprProofs.
From YV Require Import FnSem FnCompile FnVM FnFamilies.
Import ListNotations.
Local Open Scope nat_scope.
Local Open Scope list_scope.

(* ================================================================== *)
(* machine runs                                                        *)

Inductive mstar : mstate -> mstate -> Prop :=
| mstar_refl : forall s, mstar s s
| mstar_step : forall s s' s'', mstep s = MNext s' -> mstar s' s'' -> mstar s s''.

Definition mraises (s : mstate) (e : err) (w : world) : Prop :=
  exists s', mstar s s' /\ mstep s' = MErr e w.

Lemma mstar_trans : forall s1 s2 s3, mstar s1 s2 -> mstar s2 s3 -> mstar s1 s3.
Proof. intros s1 s2 s3 H. induction H; intros; eauto using mstar. Qed.
Lemma mstar_raises : forall s1 s2 e w, mstar s1 s2 -> mraises s2 e w -> mraises s1 e w.
Proof. intros s1 s2 e w H (s' & A & B). exists s'. split; [eapply mstar_trans; eauto|exact B]. Qed.
Lemma mstar_one : forall s s', mstep s = MNext s' -> mstar s s'.
Proof. intros. eapply mstar_step; eauto using mstar. Qed.
Lemma mstar_eq : forall s s1 s2, mstar s s1 -> s1 = s2 -> mstar s s2.
Proof. intros; subst; assumption. Qed.
Lemma mraises_here : forall s e w, mstep s = MErr e w -> mraises s e w.
Proof. intros. exists s. split; [apply mstar_refl|assumption]. Qed.

Lemma mstar_run : forall s s', mstar s s' ->
  forall k o, mrun k s' = o -> exists k', mrun (k' + k) s = o.
Proof.
  intros s s' H. induction H as [s|s s1 s2 St _ IH]; intros k o R.
  - exists 0. exact R.
  - destruct (IH k o R) as (k' & E). exists (S k'). cbn [Nat.add mrun]. rewrite St. exact E.
Qed.

Definition xcode_at (c : list xinstr) (pc : nat) (l : list xinstr) : Prop :=
  exists pre post, c = pre ++ l ++ post /\ length pre = pc.

Lemma xcode_at_app : forall c pc l1 l2,
  xcode_at c pc (l1 ++ l2) -> xcode_at c pc l1 /\ xcode_at c (pc + length l1) l2.
Proof.
  intros c pc l1 l2 (pre & post & E & L). split.
  - exists pre, (l2 ++ post). rewrite E, <- app_assoc. auto.
  - exists (pre ++ l1), post. rewrite E, <- !app_assoc. rewrite app_length. split; [reflexivity|lia].
Qed.
Lemma xcode_at_cons : forall c pc i l,
  xcode_at c pc (i :: l) -> nth_error c pc = Some i /\ xcode_at c (S pc) l.
Proof.
  intros c pc i l (pre & post & E & L). split.
  - rewrite E, nth_error_app2 by lia. rewrite L, Nat.sub_diag. reflexivity.
  - exists (pre ++ [i]), post. rewrite E, <- app_assoc, app_length. cbn. split; [reflexivity|lia].
Qed.

(* the running frame in front of the suspended ones *)
Definition cfg (code : list xinstr) (pc : nat) (stk : list val) (clo : option N) (rest : list frame)
           (us : list upv) (cl : list mclo) (w : world) : mstate :=
  mkM (mkFrame code pc stk clo :: rest) us cl w.

(* instructions that behave inside a frame exactly as in FragVM *)
Definition plain (i : instr) : bool :=
  match i with
  | IOp OpReturn | IOp OpCloseUpvalue | IOp8 OpGetUpvalue _ | IOp8 OpSetUpvalue _ | IOp8 OpCall _ => false
  | _ => true
  end.

Definition lift (code : list xinstr) (clo : option N) (rest : list frame) (us : list upv) (cl : list mclo)
           (r : sres) : mres :=
  match r with
  | SNext v => MNext (cfg code (vpc v) (vstack v) clo rest us cl (vwd v))
  | SErr e w' => MErr e w'
  | SHalt => MHalt
  | SStuck => MStuck
  end.

Lemma mstep_plain : forall code pc stk clo rest us cl w i,
  nth_error code pc = Some (XI i) -> plain i = true ->
  mstep (cfg code pc stk clo rest us cl w) = lift code clo rest us cl (step_instr i pc stk w).
Proof.
  intros code pc stk clo rest us cl w i Hn Hp. unfold mstep, cfg. cbn [frames fr_code fr_pc fr_stk mwd mups mclos].
  rewrite Hn. destruct i as [c|o|o n|o x|o n|n|c]; try reflexivity.
  - destruct o; try discriminate Hp; reflexivity.
  - destruct o; try discriminate Hp; reflexivity.
Qed.

(* a call whose callee is not a closure is FragVM's Call *)
Lemma mstep_call_native : forall code pc stk clo rest us cl w n,
  nth_error code pc = Some (XI (IOp8 OpCall n)) ->
  (forall id nm, nth_error stk (N.to_nat n) <> Some (VClosure id nm)) ->
  mstep (cfg code pc stk clo rest us cl w) = lift code clo rest us cl (step_instr (IOp8 OpCall n) pc stk w).
Proof.
  intros code pc stk clo rest us cl w n Hn Hc. unfold mstep, cfg. cbn [frames fr_code fr_pc fr_stk mwd mups mclos].
  rewrite Hn. destruct (nth_error stk (N.to_nat n)) as [v|] eqn:E; [|reflexivity].
  destruct v; try reflexivity. exfalso. eapply Hc. reflexivity.
Qed.
(* ================================================================== *)
(* the compiler's local fixes are the top-level functions               *)

Definition xcblock (env : cenv) (outers : list cenv) (st : cst) (brk cont : nat) (b : list stmt)
  : list xinstr * cst :=
  let n := count_decls' b in
  let (c, st1) := xcstmts (begin_scope env) outers st (n + brk) cont b in
  let total := length (clocals env) + n in
  (c ++ xi (scope_end_code (cur_caps st1) total n), set_cur_caps st1 (forget_slots (cur_caps st1) total n)).

Definition body_code (ps : list name) (b : lambda_body) (outers : list cenv) (st : cst) : list xinstr * cst :=
  match b with
  | LExpr e1 =>
    let (c, st1) := xcexpr (fn_env ps) outers st e1 in (c ++ xi [IOp OpReturn; IOp OpNil; IOp OpReturn], st1)
  | LBlock body =>
    let (c, st1) := xcstmts (fn_env ps) outers st 0 0 body in (c ++ xi [IOp OpNil; IOp OpReturn], st1)
  end.

Lemma xcstmts_local_e : forall l env outers st brk cont,
  (fix go (env : cenv) (outers : list cenv) (st : cst) (brk cont : nat) (l : list stmt) : list xinstr * cst :=
     match l with
     | [] => ([], st)
     | x :: r =>
       let env' := env_after' env x in
       let (c1, st1) := xcstmt env outers st (xslens env' outers r + brk) cont x in
       let (c2, st2) := go env' outers st1 brk (cont + xslen env outers x) r in
       (c1 ++ c2, st2)
     end) env outers st brk cont l = xcstmts env outers st brk cont l.
Proof.
  induction l as [|x r IH]; intros; [reflexivity|].
  cbn [xcstmts]. destruct (xcstmt env outers st (xslens (env_after' env x) outers r + brk) cont x) as [c1 st1].
  rewrite IH. reflexivity.
Qed.

Lemma xcexpr_lambda : forall env outers st ps b,
  xcexpr env outers st (ELambda ps b) =
  let (k, st0) := bump_lambda st in
  let (code, st1) := body_code ps b (env :: outers) (push_fn st0) in
  let (ins, st2) := closure_of (lambda_fname k) ps code st1 in ([ins], st2).
Proof.
  intros. cbn [xcexpr]. destruct (bump_lambda st) as [k st0]. unfold body_code.
  destruct b as [e1|body].
  - destruct (xcexpr (fn_env ps) (env :: outers) (push_fn st0) e1) as [c st1]. reflexivity.
  - rewrite xcstmts_local_e. destruct (xcstmts (fn_env ps) (env :: outers) (push_fn st0) 0 0 body) as [c st1]. reflexivity.
Qed.

Lemma xcstmt_block : forall env outers st brk cont l b,
  xcstmt env outers st brk cont (SBlock l b) = xcblock env outers st brk cont b.
Proof. intros. cbn [xcstmt]. unfold xcblock. rewrite xcstmts_local_e. reflexivity. Qed.

Lemma xcstmt_fn : forall env outers st brk cont l fname ps body,
  xcstmt env outers st brk cont (SFn l fname ps body) =
  let env1 := match cdepth env with O => env | S _ => add_local env fname end in
  let (code, st1) := body_code ps (LBlock body) (env1 :: outers) (push_fn st) in
  let (ins, st2) := closure_of fname ps code st1 in
  match cdepth env with
  | O => ([XI (ITouch (CStr fname)); ins; XI (IGlobal OpDefineGlobal fname)], st2)
  | S _ => ([ins], st2)
  end.
Proof.
  intros. cbn [xcstmt]. unfold body_code. rewrite xcstmts_local_e.
  destruct (xcstmts (fn_env ps) _ (push_fn st) 0 0 body) as [c st1]. reflexivity.
Qed.

Lemma xcstmt_if : forall env outers st brk cont l c t e,
  xcstmt env outers st brk cont (SIf l c t e) =
  let (cc, st1) := xcexpr env outers st c in
  let tl := xblen env outers t in
  let el := match e with Some s' => xslen env outers s' | None => 0 end in
  let (ct, st2) := xcblock env outers st1 (2 + el + brk) (cont + length cc + 2) t in
  let (ce, st3) := match e with
                   | Some s' => xcstmt env outers st2 brk (cont + length cc + 2 + tl + 2) s'
                   | None => ([], st2)
                   end in
  (cc ++ XI (IJump OpJumpIfFalse (tl + 2)) :: XI (IOp OpPop) :: ct ++
      XI (IJump OpJump (S el)) :: XI (IOp OpPop) :: ce, st3).
Proof.
  intros. cbn [xcstmt]. destruct (xcexpr env outers st c) as [cc st1]. unfold xcblock.
  rewrite xcstmts_local_e. reflexivity.
Qed.

Lemma xcstmt_while : forall env outers st brk cont l c b,
  xcstmt env outers st brk cont (SWhile l c b) =
  let (cc, st1) := xcexpr env outers st c in
  let bl := xblen (push_loop env) outers b in
  let (cb, st2) := xcblock (push_loop env) outers st1 2 (length cc + 2) b in
  (cc ++ XI (IJump OpJumpIfFalse (bl + 2)) :: XI (IOp OpPop) :: cb ++
      xi [ILoop (length cc + 2 + bl + 1); IOp OpPop], st2).
Proof.
  intros. cbn [xcstmt]. destruct (xcexpr env outers st c) as [cc st1]. unfold xcblock.
  rewrite xcstmts_local_e. reflexivity.
Qed.

Lemma xslens_local : forall outers l env,
  (fix go (env : cenv) (l : list stmt) : nat :=
     match l with
     | [] => 0
     | x :: r => xslen env outers x + go (env_after' env x) r
     end) env l = xslens env outers l.
Proof. induction l as [|x r IH]; intros; [reflexivity|]. cbn [xslens]. rewrite IH. reflexivity. Qed.

Lemma xslen_block : forall env outers l b, xslen env outers (SBlock l b) = xblen env outers b.
Proof. intros. cbn [xslen]. unfold xblen. rewrite xslens_local. reflexivity. Qed.
Lemma xslen_if : forall env outers l c t e,
  xslen env outers (SIf l c t e) =
  xelen env outers c + 2 + xblen env outers t + 2 + match e with Some s' => xslen env outers s' | None => 0 end.
Proof. intros. cbn [xslen]. unfold xblen. rewrite xslens_local. reflexivity. Qed.
Lemma xslen_while : forall env outers l c b,
  xslen env outers (SWhile l c b) = xelen env outers c + 2 + xblen (push_loop env) outers b + 2.
Proof. intros. cbn [xslen]. unfold xblen. rewrite xslens_local. reflexivity. Qed.

(* expression lists and interpolation parts *)
Fixpoint xclist (env : cenv) (outers : list cenv) (l : list expr) (st : cst) : list xinstr * cst :=
  match l with
  | [] => ([], st)
  | x :: r => let (c1, st1) := xcexpr env outers st x in
              let (c2, st2) := xclist env outers r st1 in (c1 ++ c2, st2)
  end.
Fixpoint xcparts (env : cenv) (outers : list cenv) (ps : list interp_part) (st : cst) : list xinstr * cst :=
  match ps with
  | [] => ([], st)
  | IPStr s :: r => let (c2, st2) := xcparts env outers r st in (XI (IConst (CStr s)) :: c2, st2)
  | IPExpr e1 :: r =>
    let (c1, st1) := xcexpr env outers st e1 in
    let (c2, st2) := xcparts env outers r st1 in (c1 ++ XI (IOp OpFormatString) :: c2, st2)
  end.

Lemma xclist_local : forall env outers l0 st0,
  (fix go (l : list expr) (st : cst) {struct l} : list xinstr * cst :=
     match l with
     | [] => ([], st)
     | x :: r => let (c1, st1) := xcexpr env outers st x in
                 let (c2, st2) := go r st1 in (c1 ++ c2, st2)
     end) l0 st0 = xclist env outers l0 st0.
Proof.
  intros env outers l0. induction l0 as [|x r IH]; intros st0; [reflexivity|].
  cbn [xclist]. destruct (xcexpr env outers st0 x) as [c1 st1]. rewrite IH. reflexivity.
Qed.
Lemma xcparts_local : forall env outers l0 st0,
  (fix go (ps : list interp_part) (st : cst) {struct ps} : list xinstr * cst :=
     match ps with
     | [] => ([], st)
     | IPStr s :: r => let (c2, st2) := go r st in (XI (IConst (CStr s)) :: c2, st2)
     | IPExpr e1 :: r =>
       let (c1, st1) := xcexpr env outers st e1 in
       let (c2, st2) := go r st1 in (c1 ++ XI (IOp OpFormatString) :: c2, st2)
     end) l0 st0 = xcparts env outers l0 st0.
Proof.
  intros env outers l0. induction l0 as [|p r IH]; intros st0; [reflexivity|].
  destruct p as [s|e1]; cbn [xcparts].
  - rewrite IH. reflexivity.
  - destruct (xcexpr env outers st0 e1) as [c1 st1]. rewrite IH. reflexivity.
Qed.

Lemma xcexpr_interp : forall env outers st parts,
  xcexpr env outers st (EInterp parts) =
  let (c, st1) := xcparts env outers parts st in (c ++ xi [IOp8 OpBuildString (nlen parts)], st1).
Proof. intros. cbn [xcexpr]. rewrite xcparts_local. reflexivity. Qed.
Lemma xcexpr_call : forall env outers st f args,
  xcexpr env outers st (ECall f args) =
  let (cf, st1) := xcexpr env outers st f in
  let (ca, st2) := xclist env outers args st1 in (cf ++ ca ++ xi [IOp8 OpCall (nlen args)], st2).
Proof. intros. cbn [xcexpr]. destruct (xcexpr env outers st f) as [cf st1]. rewrite xclist_local. reflexivity. Qed.
Lemma xcexpr_tuple : forall env outers st es,
  xcexpr env outers st (ETuple es) =
  let (c, st1) := xclist env outers es st in (c ++ xi [IOp8 OpBuildTuple (nlen es)], st1).
Proof. intros. cbn [xcexpr]. rewrite xclist_local. reflexivity. Qed.
Lemma xcexpr_vec : forall env outers st es,
  xcexpr env outers st (EVec es) =
  let (c, st1) := xclist env outers es st in (c ++ xi [IOp8 OpBuildVec (nlen es)], st1).
Proof. intros. cbn [xcexpr]. rewrite xclist_local. reflexivity. Qed.

Lemma xelen_list_local : forall env outers l0,
  (fix go (l : list expr) : nat := match l with [] => 0 | x :: r => xelen env outers x + go r end) l0
  = list_sum (map (xelen env outers) l0).
Proof. intros. induction l0 as [|x r IH]; [reflexivity|]. cbn [map list_sum fold_right]. unfold list_sum in IH. rewrite <- IH. reflexivity. Qed.
(* ================================================================== *)
(* instruction counts                                                  *)

Definition elen_ok (e : expr) : Prop :=
  forall env outers st, length (fst (xcexpr env outers st e)) = xelen env outers e.

Lemma xi_length : forall l, length (xi l) = length l.
Proof. intro l. unfold xi. apply map_length. Qed.

Ltac lenof IH E L :=
  match type of E with
  | xcexpr ?env ?outers ?st ?e = (?c, _) =>
    assert (L : length c = xelen env outers e) by (rewrite <- (IH env outers st), E; reflexivity)
  end.

Lemma resolve_var_fst : forall env outers st x,
  fst (resolve_var env outers st x) =
  match rkind_of env outers x with
  | KLocal k => RLocal k
  | KGlobal => RGlobal
  | KOuter j slot => RUp (snd (add_chain j true (N.of_nat slot) (upss st)))
  end.
Proof.
  intros. unfold resolve_var. destruct (rkind_of env outers x); try reflexivity.
  destruct (add_chain j true (N.of_nat slot) (upss st)). reflexivity.
Qed.

Fixpoint xplen (env : cenv) (outers : list cenv) (ps : list interp_part) : nat :=
  match ps with
  | [] => 0
  | IPStr _ :: r => S (xplen env outers r)
  | IPExpr e1 :: r => xelen env outers e1 + S (xplen env outers r)
  end.

Lemma xelen_interp : forall env outers parts, xelen env outers (EInterp parts) = xplen env outers parts + 1.
Proof.
  intros. cbn [xelen]. f_equal. induction parts as [|p r IH]; [reflexivity|].
  destruct p; cbn [xplen]; rewrite <- IH; reflexivity.
Qed.
Lemma xelen_call : forall env outers f args,
  xelen env outers (ECall f args) = xelen env outers f + list_sum (map (xelen env outers) args) + 1.
Proof. intros. cbn [xelen]. rewrite xelen_list_local. reflexivity. Qed.
Lemma xelen_tuple : forall env outers es, xelen env outers (ETuple es) = list_sum (map (xelen env outers) es) + 1.
Proof. intros. cbn [xelen]. rewrite xelen_list_local. reflexivity. Qed.
Lemma xelen_vec : forall env outers es, xelen env outers (EVec es) = list_sum (map (xelen env outers) es) + 1.
Proof. intros. cbn [xelen]. rewrite xelen_list_local. reflexivity. Qed.

Lemma xclist_length : forall env outers es, Forall elen_ok es ->
  forall st, length (fst (xclist env outers es st)) = list_sum (map (xelen env outers) es).
Proof.
  intros env outers es HF. induction HF as [|a r Ha HF IH]; intros st; [reflexivity|].
  cbn [xclist map list_sum]. destruct (xcexpr env outers st a) as [c1 st1] eqn:Ea. lenof Ha Ea La.
  destruct (xclist env outers r st1) as [c2 st2] eqn:E2. cbn [fst]. rewrite app_length, La.
  specialize (IH st1). rewrite E2 in IH. cbn [fst] in IH. rewrite IH. reflexivity.
Qed.

Lemma xcparts_length : forall env outers ps, Forall (Ppart elen_ok) ps ->
  forall st, length (fst (xcparts env outers ps st)) = xplen env outers ps.
Proof.
  intros env outers ps HF. induction HF as [|p r Hp HF IH]; intros st; [reflexivity|].
  destruct p as [s|e1]; cbn [xcparts xplen].
  - destruct (xcparts env outers r st) as [c2 st2] eqn:E2. cbn [fst length].
    specialize (IH st). rewrite E2 in IH. cbn [fst] in IH. rewrite IH. reflexivity.
  - destruct (xcexpr env outers st e1) as [c1 st1] eqn:E1. cbn in Hp. lenof Hp E1 L1.
    destruct (xcparts env outers r st1) as [c2 st2] eqn:E2. cbn [fst]. rewrite app_length. cbn [length].
    specialize (IH st1). rewrite E2 in IH. cbn [fst] in IH. rewrite IH, L1. reflexivity.
Qed.

Lemma xcexpr_length : forall e, elen_ok e.
Proof.
  intro e. induction e using expr_ind2; unfold elen_ok; intros env outers st; try reflexivity.
  - (* EInterp *)
    rewrite xcexpr_interp, xelen_interp. pose proof (xcparts_length env outers ps H st) as L.
    destruct (xcparts env outers ps st) as [c st1]. cbn [fst] in *. rewrite app_length, xi_length, L. reflexivity.
  - (* EVar *)
    cbn [xcexpr xelen]. destruct (resolve_var env outers st x). reflexivity.
  - (* EAssign *)
    cbn [xcexpr xelen]. pose proof (resolve_var_fst env outers st x) as R.
    destruct (resolve_var env outers st x) as [r st1]. cbn [fst] in R.
    destruct (xcexpr env outers st1 e) as [c st2] eqn:E. lenof IHe E L.
    destruct (rkind_of env outers x); subst r; cbn [fst length]; rewrite ?app_length, xi_length; cbn [length]; lia.
  - (* ECompound *)
    cbn [xcexpr xelen]. destruct (resolve_var env outers st x) as [r st1].
    destruct (xcexpr env outers st1 e) as [c st2] eqn:E. lenof IHe E L.
    cbn [fst length]. rewrite app_length, xi_length, app_length. cbn [length]. lia.
  - (* EUnary *)
    cbn [xcexpr xelen]. destruct (xcexpr env outers st e) as [c st1] eqn:E. lenof IHe E L.
    cbn [fst]. rewrite app_length, xi_length. destruct op; cbn [unop_code length]; lia.
  - (* EBinary *)
    cbn [xcexpr xelen]. destruct (xcexpr env outers st e1) as [ca st1] eqn:E1. lenof IHe1 E1 L1.
    destruct (xcexpr env outers st1 e2) as [cb st2] eqn:E2. lenof IHe2 E2 L2.
    cbn [fst]. rewrite !app_length, xi_length. lia.
  - (* EAnd *)
    cbn [xcexpr xelen]. destruct (xcexpr env outers st e1) as [ca st1] eqn:E1. lenof IHe1 E1 L1.
    destruct (xcexpr env outers st1 e2) as [cb st2] eqn:E2. lenof IHe2 E2 L2.
    cbn [fst]. rewrite app_length. cbn [length]. lia.
  - (* EOr *)
    cbn [xcexpr xelen]. destruct (xcexpr env outers st e1) as [ca st1] eqn:E1. lenof IHe1 E1 L1.
    destruct (xcexpr env outers st1 e2) as [cb st2] eqn:E2. lenof IHe2 E2 L2.
    cbn [fst]. rewrite app_length. cbn [length]. lia.
  - (* ERange *)
    cbn [xcexpr xelen]. destruct (xcexpr env outers st e1) as [ca st1] eqn:E1. lenof IHe1 E1 L1.
    destruct (xcexpr env outers st1 e2) as [cb st2] eqn:E2. lenof IHe2 E2 L2.
    cbn [fst]. rewrite !app_length, xi_length. cbn [length]. lia.
  - (* ECall *)
    rewrite xcexpr_call, xelen_call. destruct (xcexpr env outers st e) as [cf st1] eqn:E1. lenof IHe E1 L1.
    pose proof (xclist_length env outers args H st1) as L.
    destruct (xclist env outers args st1) as [ca st2]. cbn [fst] in *. rewrite !app_length, xi_length. cbn [length]. lia.
  - (* EIndex *)
    cbn [xcexpr xelen]. destruct (xcexpr env outers st e1) as [ca st1] eqn:E1. lenof IHe1 E1 L1.
    destruct (xcexpr env outers st1 e2) as [cb st2] eqn:E2. lenof IHe2 E2 L2.
    cbn [fst]. rewrite !app_length, xi_length. cbn [length]. lia.
  - (* ESetIndex *)
    cbn [xcexpr xelen]. destruct (xcexpr env outers st e1) as [ca st1] eqn:E1. lenof IHe1 E1 L1.
    destruct (xcexpr env outers st1 e2) as [cb st2] eqn:E2. lenof IHe2 E2 L2.
    destruct (xcexpr env outers st2 e3) as [cc st3] eqn:E3. lenof IHe3 E3 L3.
    cbn [fst]. rewrite !app_length, xi_length. cbn [length]. lia.
  - (* ETuple *)
    rewrite xcexpr_tuple, xelen_tuple. pose proof (xclist_length env outers es H st) as L.
    destruct (xclist env outers es st) as [c st1]. cbn [fst] in *. rewrite app_length, xi_length. cbn [length]. lia.
  - (* EVec *)
    rewrite xcexpr_vec, xelen_vec. pose proof (xclist_length env outers es H st) as L.
    destruct (xclist env outers es st) as [c st1]. cbn [fst] in *. rewrite app_length, xi_length. cbn [length]. lia.
  - (* other heads: lambdas are one instruction, the rest compiles to nothing *)
    destruct e; try discriminate H; try reflexivity.
    rewrite xcexpr_lambda. destruct (bump_lambda st) as [k st0].
    destruct (body_code params body (env :: outers) (push_fn st0)) as [code st1].
    unfold closure_of. reflexivity.
Qed.

Lemma length_cons : forall A (x : A) l, length (x :: l) = S (length l).
Proof. reflexivity. Qed.

Definition slen_ok (s : stmt) : Prop :=
  forall env outers st brk cont, length (fst (xcstmt env outers st brk cont s)) = xslen env outers s.

Lemma xelen_of : forall env outers st e c st', xcexpr env outers st e = (c, st') -> length c = xelen env outers e.
Proof. intros env outers st e c st' E. rewrite <- (xcexpr_length e env outers st), E. reflexivity. Qed.

Lemma scope_end_length : forall cap total n, length (scope_end_code cap total n) = n.
Proof. intros cap total n. revert total. induction n; intros; cbn; auto. Qed.

Lemma xcstmts_length : forall b, Forall slen_ok b ->
  forall env outers st brk cont, length (fst (xcstmts env outers st brk cont b)) = xslens env outers b.
Proof.
  intros b HF. induction HF as [|x r Hx HF IH]; intros env outers st brk cont; [reflexivity|].
  cbn [xcstmts xslens].
  destruct (xcstmt env outers st (xslens (env_after' env x) outers r + brk) cont x) as [c1 st1] eqn:E1.
  pose proof (Hx env outers st (xslens (env_after' env x) outers r + brk) cont) as L1. rewrite E1 in L1. cbn [fst] in L1.
  destruct (xcstmts (env_after' env x) outers st1 brk (cont + xslen env outers x) r) as [c2 st2] eqn:E2.
  pose proof (IH (env_after' env x) outers st1 brk (cont + xslen env outers x)) as L2. rewrite E2 in L2. cbn [fst] in *.
  rewrite app_length. lia.
Qed.

Lemma xcblock_length : forall b, Forall slen_ok b ->
  forall env outers st brk cont, length (fst (xcblock env outers st brk cont b)) = xblen env outers b.
Proof.
  intros b HF env outers st brk cont. unfold xcblock, xblen.
  pose proof (xcstmts_length b HF (begin_scope env) outers st (count_decls' b + brk) cont) as L.
  destruct (xcstmts (begin_scope env) outers st (count_decls' b + brk) cont b) as [c st1]. cbn [fst] in *.
  rewrite app_length, xi_length, scope_end_length. lia.
Qed.

Lemma xcstmt_length : forall s, slen_ok s.
Proof.
  intro s. induction s using stmt_ind2; unfold slen_ok; intros env outers st brk cont.
  - cbn [xcstmt xslen]. destruct (xcexpr env outers st e) as [c st1] eqn:E. cbn [fst].
    rewrite app_length, xi_length, (xelen_of _ _ _ _ _ _ E). cbn [length]. lia.
  - cbn [xcstmt xslen]. destruct (cdepth env); destruct i as [e|].
    + destruct (xcexpr env outers st e) as [c st1] eqn:E. cbn [fst].
      rewrite length_cons, app_length, xi_length, (xelen_of _ _ _ _ _ _ E). cbn [length]. lia.
    + reflexivity.
    + destruct (xcexpr (with_pending env x) outers st e) as [c st1] eqn:E. cbn [fst]. exact (xelen_of _ _ _ _ _ _ E).
    + reflexivity.
  - rewrite xcstmt_block, xslen_block. apply xcblock_length; assumption.
  - rewrite xcstmt_if, xslen_if. cbv zeta. destruct (xcexpr env outers st c) as [cc st1] eqn:E.
    pose proof (xcblock_length t H env outers st1 (2 + match e with Some s' => xslen env outers s' | None => 0 end + brk)
                               (cont + length cc + 2)) as Lt.
    destruct (xcblock env outers st1 _ (cont + length cc + 2) t) as [ct st2].
    assert (Le : length (fst (match e with
                              | Some s' => xcstmt env outers st2 brk (cont + length cc + 2 + xblen env outers t + 2) s'
                              | None => ([], st2)
                              end)) = match e with Some s' => xslen env outers s' | None => 0 end).
    { destruct e as [s'|]; [apply H0|reflexivity]. }
    destruct (match e with
              | Some s' => xcstmt env outers st2 brk (cont + length cc + 2 + xblen env outers t + 2) s'
              | None => ([], st2)
              end) as [ce st3].
    cbn [fst] in *. rewrite app_length, !length_cons, app_length, !length_cons.
    rewrite (xelen_of _ _ _ _ _ _ E), Lt, Le. lia.
  - rewrite xcstmt_while, xslen_while. cbv zeta. destruct (xcexpr env outers st c) as [cc st1] eqn:E.
    pose proof (xcblock_length b H (push_loop env) outers st1 2 (length cc + 2)) as Lb.
    destruct (xcblock (push_loop env) outers st1 2 (length cc + 2) b) as [cb st2].
    cbn [fst] in *. rewrite app_length, !length_cons, app_length, xi_length. cbn [length].
    rewrite (xelen_of _ _ _ _ _ _ E), Lb. lia.
  - cbn [xcstmt xslen fst]. rewrite xi_length, app_length, scope_end_length. cbn [length]. lia.
  - cbn [xcstmt xslen fst]. rewrite xi_length, app_length, scope_end_length. cbn [length]. lia.
  - destruct s; try discriminate H; try reflexivity.
    + rewrite xcstmt_fn. cbv zeta.
      match goal with |- context [body_code ?a ?b ?c ?d] => destruct (body_code a b c d) as [code st1] end.
      unfold closure_of. cbn [xslen]. destruct (cdepth env); reflexivity.
    + cbn [xcstmt xslen]. destruct e as [e1|]; [|reflexivity].
      destruct (xcexpr env outers st e1) as [c st1] eqn:E. cbn [fst].
      rewrite app_length, xi_length, (xelen_of _ _ _ _ _ _ E). cbn [length]. lia.
Qed.

Lemma xslen_of : forall env outers st brk cont s c st',
  xcstmt env outers st brk cont s = (c, st') -> length c = xslen env outers s.
Proof. intros. rewrite <- (xcstmt_length s env outers st brk cont), H. reflexivity. Qed.
Lemma slens_len : forall env outers st brk cont b c st',
  xcstmts env outers st brk cont b = (c, st') -> length c = xslens env outers b.
Proof.
  intros. rewrite <- (xcstmts_length b (Forall_all _ _ xcstmt_length b) env outers st brk cont), H. reflexivity.
Qed.
Lemma blen_len : forall env outers st brk cont b c st',
  xcblock env outers st brk cont b = (c, st') -> length c = xblen env outers b.
Proof.
  intros. rewrite <- (xcblock_length b (Forall_all _ _ xcstmt_length b) env outers st brk cont), H. reflexivity.
Qed.
(* ================================================================== *)
(* cells seen as a value environment                                   *)

Definition lnames (l : list (name * N)) : list name := map fst l.
Definition lcells (l : list (name * N)) : list N := map snd l.

Definition venv_l (s : est) (l : list (name * N)) : lenv := map (fun nc => (fst nc, cell_get s (snd nc))) l.
Definition venv (s : est) : lenv := venv_l s (elocals s).
Definition fvals (s : est) : list val := vals (venv s).

Definition wf (s : est) : Prop :=
  NoDup (lcells (elocals s)) /\ Forall (fun c => N.to_nat c < length (ecells s)) (lcells (elocals s)).

Lemma names_venv_l : forall s l, names (venv_l s l) = lnames l.
Proof. intros. unfold names, venv_l, lnames. rewrite map_map. reflexivity. Qed.

Lemma lookup_venv_l : forall s l x,
  lookup (venv_l s l) x = option_map (cell_get s) (lookup_cell l x).
Proof.
  intros s l x. induction l as [|[y c] r IH]; [reflexivity|].
  cbn [venv_l map fst snd lookup lookup_cell]. fold (venv_l s r). destruct (name_eqb x y); [reflexivity|exact IH].
Qed.

Lemma set_nth_length : forall A k (x : A) l, length (set_nth k x l) = length l.
Proof. intros A k x l. revert k. induction l; intros [|k]; cbn; auto. Qed.
Lemma nth_set_nth_eq : forall A k (x d : A) l, k < length l -> nth k (set_nth k x l) d = x.
Proof. intros A k x d l. revert k. induction l; intros [|k] H; cbn in *; try lia; auto. apply IHl. lia. Qed.
Lemma nth_set_nth_neq : forall A k j (x d : A) l, k <> j -> nth j (set_nth k x l) d = nth j l d.
Proof. intros A k j x d l. revert k j. induction l; intros [|k] [|j] H; cbn; auto; try congruence. Qed.

Lemma cell_get_set_eq : forall s c v, N.to_nat c < length (ecells s) -> cell_get (cell_set s c v) c = v.
Proof. intros. unfold cell_get, cell_set. cbn [ecells]. apply nth_set_nth_eq. assumption. Qed.
Lemma cell_get_set_neq : forall s c c' v, c <> c' -> cell_get (cell_set s c v) c' = cell_get s c'.
Proof.
  intros. unfold cell_get, cell_set. cbn [ecells]. apply nth_set_nth_neq. intro E. apply H. apply N2Nat.inj. exact E.
Qed.

Lemma lookup_cell_in : forall l x c, lookup_cell l x = Some c -> In c (lcells l).
Proof.
  induction l as [|[y c0] r IH]; intros x c H; cbn in H; [discriminate|].
  destruct (name_eqb x y); [inversion H; left; reflexivity|right; eapply IH; eauto].
Qed.

Lemma update_venv_l : forall s l x c v,
  NoDup (lcells l) -> Forall (fun c => N.to_nat c < length (ecells s)) (lcells l) ->
  lookup_cell l x = Some c -> update (venv_l s l) x v = venv_l (cell_set s c v) l.
Proof.
  intros s l x c v. induction l as [|[y c0] r IH]; intros ND Bd Lk; [discriminate|].
  cbn [lcells map snd] in ND, Bd. inversion ND as [|? ? Nin ND']; subst. inversion Bd as [|? ? B0 Bd']; subst.
  cbn [lookup_cell] in Lk. cbn [venv_l map fst snd update]. fold (venv_l s r). fold (venv_l (cell_set s c v) r).
  destruct (name_eqb x y) eqn:E.
  - inversion Lk; subst c0. rewrite cell_get_set_eq by exact B0. f_equal.
    unfold venv_l. apply map_ext_in. intros [z cz] Hin. cbn [fst snd]. f_equal.
    symmetry. apply cell_get_set_neq. intro Eq; subst cz. apply Nin. apply in_map_iff. exists (z, c). auto.
  - rewrite cell_get_set_neq; [|intro Eq; subst c0; apply Nin; eapply lookup_cell_in; eauto].
    f_equal. apply IH; assumption.
Qed.

Lemma not_in_lookup_cell : forall l x, ~ In x (lnames l) -> lookup_cell l x = None.
Proof.
  induction l as [|[y c] r IH]; intros x H; [reflexivity|]. cbn [lookup_cell].
  destruct (name_eqb x y) eqn:E.
  - exfalso. apply H. left. cbn. symmetry. apply ebytes_eqb_eq. exact E.
  - apply IH. intro. apply H. right. assumption.
Qed.

Lemma find_local_none_notin : forall l x, find_local l x = None -> ~ In x (map fst l).
Proof.
  induction l as [|[y d] r IH]; intros x H; [intros []|]. cbn in H.
  destruct (CompileExpr.bytes_eqb x y) eqn:E; [discriminate|].
  intros [Eq|Hin]; [|eapply IH; eauto]. cbn in Eq. subst y.
  assert (CompileExpr.bytes_eqb x x = true) by (apply cbytes_eqb_eq; reflexivity). congruence.
Qed.

(* ------------------------------------------------------------------ *)
(* static context: names of the compile-time environments = names of the run-time ones *)

Definition pend_cover (outers : list cenv) (pend : list name) : Prop :=
  Forall (fun e => match cpending e with Some p => In p pend | None => True end) outers.

Definition outer_names (outers : list cenv) : list name := flat_map (fun e => map fst (clocals e)) outers.

Definition chain (env : cenv) (outers : list cenv) (pend : list name) (s : est) : Prop :=
  map fst (clocals env) = lnames (elocals s) /\ outer_names outers = lnames (eouter s) /\ pend_cover outers pend.

Lemma existsb_notin : forall x l, existsb (CompileExpr.bytes_eqb x) l = false -> ~ In x l.
Proof.
  intros x l. induction l as [|y r IH]; intros H; [intros []|]. cbn in H. apply orb_false_iff in H. destruct H as [H1 H2].
  intros [E|Hin]; [|apply IH; assumption]. subst y.
  assert (CompileExpr.bytes_eqb x x = true) by (apply cbytes_eqb_eq; reflexivity). congruence.
Qed.

Lemma find_outer_none : forall outers x pend j,
  pend_cover outers pend -> ~ In x pend -> find_outer outers x j = None -> ~ In x (outer_names outers).
Proof.
  induction outers as [|e r IH]; intros x pend j PC Np H; [intros []|].
  inversion PC as [|? ? P0 PC']; subst. cbn [find_outer] in H.
  destruct (find_in_outer e x) as [k|] eqn:F; [discriminate|].
  unfold outer_names. cbn [flat_map]. intro Hin. apply in_app_or in Hin. destruct Hin as [Hin|Hin].
  - unfold find_in_outer in F. destruct (cpending e) as [p|].
    + destruct (CompileExpr.bytes_eqb x p) eqn:E.
      * apply cbytes_eqb_eq in E. subst p. contradiction.
      * eapply find_local_none_notin; eauto.
    + eapply find_local_none_notin; eauto.
  - eapply IH; eauto.
Qed.

(* variable resolution when nothing is captured *)
Lemma resolve_nocap : forall env outers pend st x s r st1,
  var_ok env pend x = true -> chain env outers pend s ->
  resolve_var env outers st x = (r, st1) ->
  (forall k, r <> RUp k) ->
  st1 = st /\
  ((exists k, r = RLocal (N.of_nat k) /\ find_local (clocals env) x = Some k) \/
   (r = RGlobal /\ find_local (clocals env) x = None /\ lookup_cell (eouter s) x = None)).
Proof.
  intros env outers pend st x s r st1 Hok (C1 & C2 & C3) R Nup.
  unfold var_ok in Hok. apply andb_true_iff in Hok. destruct Hok as [Np Hl].
  unfold resolve_var, rkind_of in R.
  destruct (resolve_cases env x Np) as [(k & Rk & F)|[Rk F]]; rewrite Rk in R.
  - inversion R; subst. split; [reflexivity|]. left. exists k. auto.
  - rewrite F in Hl. cbn [orb] in Hl. apply negb_true_iff in Hl. apply existsb_notin in Hl.
    destruct (find_outer outers x 0) as [[j slot]|] eqn:FO.
    + destruct (add_chain j true (N.of_nat slot) (upss st)) as [us i]. inversion R; subst. exfalso. eapply Nup. reflexivity.
    + inversion R; subst. split; [reflexivity|]. right. repeat split; auto.
      apply not_in_lookup_cell. rewrite <- C2. eapply find_outer_none; eauto.
Qed.

(* ------------------------------------------------------------------ *)
(* how the evaluator state may change                                  *)

(* cells that existed and are not variables of the running function keep their contents *)
Definition fc (s s' : est) : Prop :=
  length (ecells s) <= length (ecells s') /\
  forall c, N.to_nat c < length (ecells s) -> ~ In c (lcells (elocals s)) -> cell_get s' c = cell_get s c.

Definition fresh_front (s : est) (front : list (name * N)) : Prop :=
  Forall (fun c => length (ecells s) <= N.to_nat c) (lcells front).

(* statements: locals are added in front (fresh cells), everything else as [fc] *)
Definition sev (s s' : est) : Prop :=
  fc s s' /\ eouter s' = eouter s /\ wf s' /\
  exists front, elocals s' = front ++ elocals s /\ fresh_front s front.

Lemma fc_refl : forall s, fc s s.
Proof. intros s. split; [lia|auto]. Qed.

Lemma fc_trans : forall s s1 s2 front,
  fc s s1 -> fc s1 s2 -> elocals s1 = front ++ elocals s -> fresh_front s front -> fc s s2.
Proof.
  intros s s1 s2 front [L1 H1] [L2 H2] El Fr. split; [lia|].
  intros c Hc Hn. rewrite H2; [apply H1; assumption|lia|].
  rewrite El. unfold lcells. rewrite map_app. intro Hin. apply in_app_or in Hin. destruct Hin as [Hin|Hin]; [|contradiction].
  unfold fresh_front in Fr. rewrite Forall_forall in Fr. specialize (Fr c Hin). lia.
Qed.

Lemma sev_refl : forall s, wf s -> sev s s.
Proof.
  intros s W. split; [apply fc_refl|]. split; [reflexivity|]. split; [exact W|].
  exists []. split; [reflexivity|constructor].
Qed.

Lemma sev_trans : forall s s1 s2, sev s s1 -> sev s1 s2 -> sev s s2.
Proof.
  intros s s1 s2 (F1 & O1 & W1 & fr1 & E1 & R1) (F2 & O2 & W2 & fr2 & E2 & R2).
  split; [eapply fc_trans; eauto|]. split; [congruence|]. split; [exact W2|].
  exists (fr2 ++ fr1). split; [rewrite E2, E1, app_assoc; reflexivity|].
  unfold fresh_front, lcells in *. rewrite map_app. apply Forall_app. split; [|exact R1].
  destruct F1 as [L1 _]. eapply Forall_impl; [|exact R2]. cbn. intros; lia.
Qed.

(* expressions do not touch the list of locals *)
Definition eev (s s' : est) : Prop := fc s s' /\ elocals s' = elocals s /\ eouter s' = eouter s.

Lemma eev_refl : forall s, eev s s.
Proof. intros. split; [apply fc_refl|split; reflexivity]. Qed.
Lemma eev_trans : forall s s1 s2, eev s s1 -> eev s1 s2 -> eev s s2.
Proof.
  intros s s1 s2 (F1 & L1 & O1) (F2 & L2 & O2). split; [|split; congruence].
  destruct F1 as [A1 B1], F2 as [A2 B2]. split; [lia|].
  intros c Hc Hn. rewrite B2; [apply B1; assumption|lia|congruence].
Qed.
Lemma eev_wf : forall s s', eev s s' -> wf s -> wf s'.
Proof.
  intros s s' ([L _] & E & _) [ND Bd]. split; rewrite E; [exact ND|].
  eapply Forall_impl; [|exact Bd]. cbn. intros; lia.
Qed.
Lemma eev_sev : forall s s', eev s s' -> wf s -> sev s s'.
Proof.
  intros s s' H W. pose proof (eev_wf _ _ H W) as W'. destruct H as (F & E & O).
  split; [exact F|]. split; [exact O|]. split; [exact W'|]. exists []. split; [exact E|constructor].
Qed.
Lemma eev_chain : forall env outers pend s s', eev s s' -> chain env outers pend s -> chain env outers pend s'.
Proof. intros env outers pend s s' (_ & E & O) (A & B & C). unfold chain. rewrite E, O. auto. Qed.

Lemma fvals_cell_set_other : forall s c v, ~ In c (lcells (elocals s)) -> fvals (cell_set s c v) = fvals s.
Proof.
  intros s c v Hn. unfold fvals, venv, venv_l, vals. cbn [elocals cell_set]. rewrite !map_map.
  apply map_ext_in. intros [z cz] Hin. cbn [fst snd]. apply cell_get_set_neq.
  intro E; subst cz. apply Hn. apply in_map_iff. exists (z, c). auto.
Qed.

(* values of the locals only depend on their cells *)
Lemma fvals_same : forall s s', elocals s' = elocals s ->
  (forall c, In c (lcells (elocals s)) -> cell_get s' c = cell_get s c) -> fvals s' = fvals s.
Proof.
  intros s s' E H. unfold fvals, venv, venv_l, vals. rewrite E, !map_map. apply map_ext_in.
  intros [z cz] Hin. cbn [fst snd]. apply H. apply in_map_iff. exists (z, cz). auto.
Qed.
(* ================================================================== *)
(* single instructions inside a frame                                  *)

Lemma m_next : forall code pc stk clo rest us cl w i pc' stk' w',
  nth_error code pc = Some (XI i) -> plain i = true ->
  step_instr i pc stk w = SNext (mkVS pc' stk' w') ->
  mstep (cfg code pc stk clo rest us cl w) = MNext (cfg code pc' stk' clo rest us cl w').
Proof. intros. rewrite (mstep_plain _ _ _ _ _ _ _ _ _ H H0), H1. reflexivity. Qed.

Lemma m_err : forall code pc stk clo rest us cl w i e w',
  nth_error code pc = Some (XI i) -> plain i = true ->
  step_instr i pc stk w = SErr e w' ->
  mstep (cfg code pc stk clo rest us cl w) = MErr e w'.
Proof. intros. rewrite (mstep_plain _ _ _ _ _ _ _ _ _ H H0), H1. reflexivity. Qed.

Lemma m_push : forall code pc stk clo rest us cl w i v,
  nth_error code pc = Some (XI i) -> plain i = true ->
  step_instr i pc stk w = SNext (mkVS (S pc) (v :: stk) w) ->
  mstar (cfg code pc stk clo rest us cl w) (cfg code (pc + 1) (v :: stk) clo rest us cl w).
Proof.
  intros. replace (pc + 1) with (S pc) by lia. apply mstar_one. eapply m_next; eauto.
Qed.

Lemma xcode_at_xi_cons : forall code pc i l,
  xcode_at code pc (xi (i :: l)) -> nth_error code pc = Some (XI i) /\ xcode_at code (S pc) (xi l).
Proof. intros code pc i l H. apply xcode_at_cons in H. exact H. Qed.

Lemma m_binop1 : forall code pc o op a b stk clo rest us cl w,
  nth_error code pc = Some (XI (IOp o)) -> binop_of_opcode o = Some op ->
  match binop_sem (store w) op a b with
  | Ok v => mstar (cfg code pc (b :: a :: stk) clo rest us cl w) (cfg code (S pc) (v :: stk) clo rest us cl w)
  | Er x => mraises (cfg code pc (b :: a :: stk) clo rest us cl w) x w
  end.
Proof.
  intros code pc o op a b stk clo rest us cl w Hn Hb.
  assert (Pl : plain (IOp o) = true) by (destruct o; try discriminate Hb; reflexivity).
  assert (St : step_instr (IOp o) pc (b :: a :: stk) w =
               match binop_sem (store w) op a b with
               | Ok v => next pc (v :: stk) w
               | Er e => SErr e w
               end).
  { cbn [step_instr]. destruct o; try discriminate Hb; cbn [step_op binop_of_opcode]; inversion Hb; reflexivity. }
  destruct (binop_sem (store w) op a b) as [v|x].
  - apply mstar_one. eapply m_next; eauto.
  - apply mraises_here. eapply m_err; eauto.
Qed.

Lemma m_not : forall code pc v stk clo rest us cl w,
  nth_error code pc = Some (XI (IOp OpLogicalNot)) ->
  mstar (cfg code pc (v :: stk) clo rest us cl w) (cfg code (S pc) (not_val v :: stk) clo rest us cl w).
Proof. intros. apply mstar_one. eapply m_next; eauto. Qed.

Lemma m_binop : forall code pc op a b stk clo rest us cl w,
  xcode_at code pc (xi (binop_code op)) ->
  match binop_sem (store w) op a b with
  | Ok v => mstar (cfg code pc (b :: a :: stk) clo rest us cl w)
                  (cfg code (pc + length (binop_code op)) (v :: stk) clo rest us cl w)
  | Er x => mraises (cfg code pc (b :: a :: stk) clo rest us cl w) x w
  end.
Proof.
  intros code pc op a b stk clo rest us cl w Hc.
  assert (One : forall o, binop_code op = [IOp o] -> binop_of_opcode o = Some op ->
    match binop_sem (store w) op a b with
    | Ok v => mstar (cfg code pc (b :: a :: stk) clo rest us cl w)
                    (cfg code (pc + length (binop_code op)) (v :: stk) clo rest us cl w)
    | Er x => mraises (cfg code pc (b :: a :: stk) clo rest us cl w) x w
    end).
  { intros o E Hb. rewrite E in *. apply xcode_at_xi_cons in Hc. destruct Hc as [Hn _].
    pose proof (m_binop1 code pc o op a b stk clo rest us cl w Hn Hb) as R.
    cbn [length]. replace (pc + 1) with (S pc) by lia. exact R. }
  assert (Two : forall o op1, binop_code op = [IOp o; IOp OpLogicalNot] -> binop_of_opcode o = Some op1 ->
    binop_sem (store w) op a b = then_not (binop_sem (store w) op1 a b) ->
    match binop_sem (store w) op a b with
    | Ok v => mstar (cfg code pc (b :: a :: stk) clo rest us cl w)
                    (cfg code (pc + length (binop_code op)) (v :: stk) clo rest us cl w)
    | Er x => mraises (cfg code pc (b :: a :: stk) clo rest us cl w) x w
    end).
  { intros o op1 E Hb Eq. rewrite E in *. apply xcode_at_xi_cons in Hc. destruct Hc as [Hn Hc].
    apply xcode_at_xi_cons in Hc. destruct Hc as [Hn2 _].
    pose proof (m_binop1 code pc o op1 a b stk clo rest us cl w Hn Hb) as R. rewrite Eq.
    destruct (binop_sem (store w) op1 a b) as [v|x]; cbn [then_not]; [|exact R].
    cbn [length]. replace (pc + 2) with (S (S pc)) by lia.
    eapply mstar_trans; [exact R|]. apply m_not; exact Hn2. }
  destruct op; try (eapply One; reflexivity).
  - eapply Two; [reflexivity|reflexivity|apply binop_ne].
  - eapply Two; [reflexivity|reflexivity|apply binop_le].
  - eapply Two; [reflexivity|reflexivity|apply binop_ge].
Qed.

Lemma m_unop : forall code pc op a stk clo rest us cl w,
  xcode_at code pc (xi (unop_code op)) ->
  match unop_sem op a with
  | Ok v => mstar (cfg code pc (a :: stk) clo rest us cl w) (cfg code (pc + 1) (v :: stk) clo rest us cl w)
  | Er x => mraises (cfg code pc (a :: stk) clo rest us cl w) x w
  end.
Proof.
  intros code pc op a stk clo rest us cl w Hc.
  assert (St : exists o, nth_error code pc = Some (XI (IOp o)) /\ plain (IOp o) = true /\
                         step_instr (IOp o) pc (a :: stk) w =
                         match unop_sem op a with Ok v => next pc (v :: stk) w | Er e => SErr e w end).
  { destruct op; cbn [unop_code] in Hc; apply xcode_at_xi_cons in Hc; destruct Hc as [Hn _];
      eexists; (split; [exact Hn|]); split; reflexivity. }
  destruct St as (o & Hn & Pl & St).
  destruct (unop_sem op a) as [v|x].
  - replace (pc + 1) with (S pc) by lia. apply mstar_one. eapply m_next; eauto.
  - apply mraises_here. eapply m_err; eauto.
Qed.

(* ------------------------------------------------------------------ *)
(* nocap_code along the shape of the code                              *)

Lemma nocap_app : forall a b, nocap_code (a ++ b) = true -> nocap_code a = true /\ nocap_code b = true.
Proof. intros a b H. unfold nocap_code in *. rewrite forallb_app in H. apply andb_true_iff in H. exact H. Qed.
Lemma nocap_cons : forall i l, nocap_code (i :: l) = true -> nocap_instr i = true /\ nocap_code l = true.
Proof. intros i l H. unfold nocap_code in *. cbn [forallb] in H. apply andb_true_iff in H. exact H. Qed.
Lemma nocap_closure : forall f ups,
  nocap_instr (XClosure f ups) = true -> ups = [] /\ nocap_code (fo_code f) = true.
Proof.
  intros f ups H. cbn [nocap_instr] in H. apply andb_true_iff in H. destruct H as [H1 H2].
  split; [destruct ups; [reflexivity|discriminate]|].
  unfold nocap_code. induction (fo_code f) as [|x r IH]; [reflexivity|].
  cbn [forallb]. apply andb_true_iff in H2. destruct H2 as [A B]. rewrite A. apply IH. exact B.
Qed.

(* ------------------------------------------------------------------ *)
(* closures of the evaluator and of the machine                        *)

Definition body_ok (ps : list name) (pend : list name) (b : lambda_body) : bool :=
  nodup_names ps &&
  match b with
  | LExpr e1 => xexpr_ok (fn_env ps) pend e1
  | LBlock body => xstmts_ok (fn_env ps) pend true body
  end.

Definition clo_rel (ec : eclo) (mc : mclo) : Prop :=
  exists nm outers st pend,
    mc = mkMClo (mkF nm (N.of_nat (S (length (ec_params ec)))) 0
                     (fst (body_code (ec_params ec) (ec_body ec) outers st))) [] /\
    body_ok (ec_params ec) pend (ec_body ec) = true /\
    nocap_code (fst (body_code (ec_params ec) (ec_body ec) outers st)) = true /\
    outer_names outers = lnames (ec_env ec) /\ pend_cover outers pend.

(* ------------------------------------------------------------------ *)
(* the evaluator's local fixes, named                                  *)

Fixpoint fev_list (f nf : nat) (es : list expr) (s : est) : est * res (list val) :=
  match es with
  | [] => (s, Ok [])
  | x :: r =>
    match feval f nf x s with
    | (s1, Ok v) =>
      match fev_list f nf r s1 with
      | (s2, Ok vs) => (s2, Ok (v :: vs))
      | (s2, Er err) => (s2, Er err)
      end
    | (s1, Er err) => (s1, Er err)
    end
  end.

Fixpoint fev_parts (f nf : nat) (ps : list interp_part) (s : est) : est * res (list byte) :=
  match ps with
  | [] => (s, Ok [])
  | IPStr b :: r =>
    match fev_parts f nf r s with
    | (s2, Ok bs) => (s2, Ok (b ++ bs))
    | (s2, Er x) => (s2, Er x)
    end
  | IPExpr e1 :: r =>
    match feval f nf e1 s with
    | (s1, Ok v) =>
      let piece := match format_val (ewd s1) v with VStr b => b | _ => [] end in
      match fev_parts f nf r s1 with
      | (s2, Ok bs) => (s2, Ok (piece ++ bs))
      | (s2, Er x) => (s2, Er x)
      end
    | (s1, Er x) => (s1, Er x)
    end
  end.

(* the call of a closure, as feval does it *)
Definition call_closure (f nf : nat) (s2 : est) (vf : val) (c : eclo) (vs : list val) : est * res val :=
  if negb (Nat.eqb (length vs) (length (ec_params c))) then
    (s2, Er (TypeError (msg_arity (length (ec_params c)) (length vs))))
  else if Nat.eqb nf FRAMES_MAX then (s2, Er (IndexError msg_stack_overflow))
  else
    let s3 := bind_params (declare_local (mkE [] (ec_env c) (ecells s2) (eclos s2) (ewd s2)) [] vf)
                          (ec_params c) vs in
    let back := fun (s4 : est) => mkE (elocals s2) (eouter s2) (ecells s4) (eclos s4) (ewd s4) in
    match ec_body c with
    | LExpr b => match feval f (S nf) b s3 with (s4, r) => (back s4, r) end
    | LBlock b =>
      match fexec_list f (S nf) 1 b s3 with
      | (s4, FNormal) => (back s4, Ok VNil)
      | (s4, FReturn v) => (back s4, Ok v)
      | (s4, FErr err) => (back s4, Er err)
      | (s4, _) => (back s4, Er Unsupported)
      end
    end.

Lemma feval_call : forall f nf fe args s,
  feval (S f) nf (ECall fe args) s =
  match feval f nf fe s with
  | (s1, Ok vf) =>
    match fev_list f nf args s1 with
    | (s2, Ok vs) =>
      match vf with
      | VClosure id _ =>
        match nth_error (eclos s2) (N.to_nat id) with
        | None => (s2, Er Unsupported)
        | Some c => call_closure f nf s2 vf c vs
        end
      | _ =>
        match call_sem (ewd s2) vf vs with
        | Ok (v, w) => (set_ewd s2 w, Ok v)
        | Er err => (s2, Er err)
        end
      end
    | (s2, Er err) => (s2, Er err)
    end
  | (s1, Er err) => (s1, Er err)
  end.
Proof.
  intros. cbn [feval]. destruct (feval f nf fe s) as [s1 [vf|err]]; [|reflexivity].
  match goal with |- match ?G args s1 with _ => _ end = _ =>
    assert (E : forall l s0, G l s0 = fev_list f nf l s0) end.
  { induction l as [|x r IH]; intros s0; [reflexivity|]. cbn [fev_list].
    destruct (feval f nf x s0) as [s2 [v|e2]]; [|reflexivity]. rewrite IH. reflexivity. }
  rewrite E. reflexivity.
Qed.

Lemma feval_tuple : forall f nf es s,
  feval (S f) nf (ETuple es) s =
  match fev_list f nf es s with
  | (s1, Ok vs) => let (v, w) := alloc_tuple (ewd s1) vs in (set_ewd s1 w, Ok v)
  | (s1, Er err) => (s1, Er err)
  end.
Proof.
  intros. cbn [feval].
  match goal with |- match ?G es s with _ => _ end = _ =>
    assert (E : forall l s0, G l s0 = fev_list f nf l s0) end.
  { induction l as [|x r IH]; intros s0; [reflexivity|]. cbn [fev_list].
    destruct (feval f nf x s0) as [s2 [v|e2]]; [|reflexivity]. rewrite IH. reflexivity. }
  rewrite E. reflexivity.
Qed.

Lemma feval_vec : forall f nf es s,
  feval (S f) nf (EVec es) s =
  match fev_list f nf es s with
  | (s1, Ok vs) => let (v, w) := alloc_vec (ewd s1) vs in (set_ewd s1 w, Ok v)
  | (s1, Er err) => (s1, Er err)
  end.
Proof.
  intros. cbn [feval].
  match goal with |- match ?G es s with _ => _ end = _ =>
    assert (E : forall l s0, G l s0 = fev_list f nf l s0) end.
  { induction l as [|x r IH]; intros s0; [reflexivity|]. cbn [fev_list].
    destruct (feval f nf x s0) as [s2 [v|e2]]; [|reflexivity]. rewrite IH. reflexivity. }
  rewrite E. reflexivity.
Qed.

Lemma feval_interp : forall f nf ps s,
  feval (S f) nf (EInterp ps) s =
  match fev_parts f nf ps s with
  | (s1, Ok bs) => (s1, Ok (VStr bs))
  | (s1, Er x) => (s1, Er x)
  end.
Proof.
  intros. cbn [feval].
  match goal with |- match ?G ps s with _ => _ end = _ =>
    assert (E : forall l s0, G l s0 = fev_parts f nf l s0) end.
  { induction l as [|p r IH]; intros s0; [reflexivity|]. destruct p as [b|e1]; cbn [fev_parts].
    - rewrite IH. reflexivity.
    - destruct (feval f nf e1 s0) as [s2 [v|e2]]; [|reflexivity]. rewrite IH. reflexivity. }
  rewrite E. reflexivity.
Qed.
(* ================================================================== *)
(* specifications (by fuel)                                            *)

Definition espec (fuel : nat) : Prop :=
  forall nf e s s' r env outers pend st c st' code clo rest pc t cl,
    feval fuel nf e s = (s', r) -> xcexpr env outers st e = (c, st') ->
    xexpr_ok env pend e = true -> nocap_code c = true ->
    chain env outers pend s -> wf s -> Forall2 clo_rel (eclos s) cl -> nf = S (length rest) ->
    xcode_at code pc c ->
    match r with
    | Ok v =>
      eev s s' /\
      exists cl', mstar (cfg code pc (t ++ fvals s) clo rest [] cl (ewd s))
                        (cfg code (pc + length c) (v :: t ++ fvals s') clo rest [] cl' (ewd s')) /\
                  Forall2 clo_rel (eclos s') cl'
    | Er x => x <> Unsupported -> mraises (cfg code pc (t ++ fvals s) clo rest [] cl (ewd s)) x (ewd s')
    end.

(* outcome of a statement (list) started with exactly the locals on the frame's stack *)
Definition sresult (code : list xinstr) (clo : option N) (rest : list frame) (cl : list mclo)
           (pc : nat) (s s' : est) (o : fout) (env : cenv) (len brk cont : nat) (infn : bool)
           (post : est -> Prop) : Prop :=
  let start := cfg code pc (fvals s) clo rest [] cl (ewd s) in
  match o with
  | FNormal =>
    sev s s' /\ post s' /\
    exists cl', mstar start (cfg code (pc + len) (fvals s') clo rest [] cl' (ewd s')) /\ Forall2 clo_rel (eclos s') cl'
  | FBreak =>
    sev s s' /\
    exists d nl cl', cloop env = Some (d, nl) /\
      mstar start (cfg code (pc + len + brk) (fvals (leave nl s')) clo rest [] cl' (ewd s')) /\
      Forall2 clo_rel (eclos s') cl'
  | FContinue =>
    sev s s' /\
    exists d nl cl', cloop env = Some (d, nl) /\
      mstar start (cfg code (pc - cont) (fvals (leave nl s')) clo rest [] cl' (ewd s')) /\
      Forall2 clo_rel (eclos s') cl'
  | FReturn v =>
    infn = true /\ fc s s' /\
    forall caller rest0, rest = caller :: rest0 ->
      exists cl', mstar start (mkM (with_stk caller (fr_pc caller) (v :: fr_stk caller) :: rest0) [] cl' (ewd s')) /\
                  Forall2 clo_rel (eclos s') cl'
  | FErr x => x <> Unsupported -> mraises start x (ewd s')
  | FFuel => True
  end.

Definition sspec (fuel : nat) : Prop :=
  forall nf depth stm s s' o env outers pend st c st' brk cont infn code clo rest pc cl,
    fexec fuel nf depth stm s = (s', o) -> xcstmt env outers st brk cont stm = (c, st') ->
    xstmt_ok env pend infn stm = true -> nocap_code c = true -> env_inv env -> cdepth env = depth ->
    chain env outers pend s -> wf s -> Forall2 clo_rel (eclos s) cl -> nf = S (length rest) ->
    xcode_at code pc c -> (forall d nl, cloop env = Some (d, nl) -> cont <= pc) ->
    sresult code clo rest cl pc s s' o env (length c) brk cont infn
            (fun s' => chain (env_after' env stm) outers pend s').

Definition lspec (fuel : nat) : Prop :=
  forall nf depth b s s' o env outers pend st c st' brk cont infn code clo rest pc cl,
    fexec_list fuel nf depth b s = (s', o) -> xcstmts env outers st brk cont b = (c, st') ->
    xstmts_ok env pend infn b = true -> nocap_code c = true -> env_inv env -> cdepth env = depth ->
    chain env outers pend s -> wf s -> Forall2 clo_rel (eclos s) cl -> nf = S (length rest) ->
    xcode_at code pc c -> (forall d nl, cloop env = Some (d, nl) -> cont <= pc) ->
    sresult code clo rest cl pc s s' o env (length c) brk cont infn
            (fun s' => chain (fold_left env_after' b env) outers pend s').

(* ------------------------------------------------------------------ *)
(* expression lists and interpolation parts, given the expressions      *)

Lemma nocap_var_get : forall r x, nocap_instr (XI (var_get r x)) = true -> forall k, r <> RUp k.
Proof. intros r x H k E. subst r. discriminate H. Qed.
Lemma nocap_var_set : forall r x, nocap_instr (XI (var_set r x)) = true -> forall k, r <> RUp k.
Proof. intros r x H k E. subst r. discriminate H. Qed.

Lemma fev_list_correct : forall f, espec f ->
  forall nf es s s' r env outers pend st c st' code clo rest pc t cl,
    fev_list f nf es s = (s', r) -> xclist env outers es st = (c, st') ->
    forallb (xexpr_ok env pend) es = true -> nocap_code c = true ->
    chain env outers pend s -> wf s -> Forall2 clo_rel (eclos s) cl -> nf = S (length rest) ->
    xcode_at code pc c ->
    match r with
    | Ok vs =>
      eev s s' /\ length vs = length es /\
      exists cl', mstar (cfg code pc (t ++ fvals s) clo rest [] cl (ewd s))
                        (cfg code (pc + length c) (rev vs ++ t ++ fvals s') clo rest [] cl' (ewd s')) /\
                  Forall2 clo_rel (eclos s') cl'
    | Er x => x <> Unsupported -> mraises (cfg code pc (t ++ fvals s) clo rest [] cl (ewd s)) x (ewd s')
    end.
Proof.
  intros f HE nf es. induction es as [|e es IH];
    intros s s' r env outers pend st c st' code clo rest pc t cl Ev Cm Hok Nc Ch W Cl Nf Hc.
  - cbn [fev_list xclist] in *. inversion Ev; subst. inversion Cm; subst. cbn [length rev app].
    rewrite Nat.add_0_r. split; [apply eev_refl|]. split; [reflexivity|]. exists cl. split; [apply mstar_refl|exact Cl].
  - cbn [fev_list xclist] in *. cbn [forallb] in Hok. apply andb_true_iff in Hok. destruct Hok as [Ok1 Ok2].
    destruct (xcexpr env outers st e) as [c1 st1] eqn:C1. destruct (xclist env outers es st1) as [c2 st2] eqn:C2.
    inversion Cm; subst c st'. apply nocap_app in Nc. destruct Nc as [Nc1 Nc2].
    apply xcode_at_app in Hc. destruct Hc as [Hc1 Hc2].
    destruct (feval f nf e s) as [s1 [v|x]] eqn:E1.
    + pose proof (HE nf e s s1 (Ok v) env outers pend st c1 st1 code clo rest pc t cl E1 C1 Ok1 Nc1 Ch W Cl Nf Hc1) as R1.
      cbn beta iota in R1. destruct R1 as (Ev1 & cl1 & R1 & Cl1).
      destruct (fev_list f nf es s1) as [s2 [vs|x]] eqn:E2; inversion Ev; subst s' r.
      * pose proof (IH s1 s2 (Ok vs) env outers pend st1 c2 st2 code clo rest (pc + length c1) (v :: t) cl1 E2 C2 Ok2 Nc2
                       (eev_chain _ _ _ _ _ Ev1 Ch) (eev_wf _ _ Ev1 W) Cl1 Nf Hc2) as R2.
        cbn beta iota in R2. destruct R2 as (Ev2 & L2 & cl2 & R2 & Cl2).
        split; [eapply eev_trans; eauto|]. split; [cbn [length]; lia|]. exists cl2. split; [|exact Cl2].
        eapply mstar_trans; [exact R1|]. eapply mstar_eq; [exact R2|].
        rewrite app_length. unfold cfg. f_equal. f_equal. f_equal; [lia|]. cbn [rev]. rewrite <- app_assoc. reflexivity.
      * intro Nx.
        pose proof (IH s1 s2 (Er x) env outers pend st1 c2 st2 code clo rest (pc + length c1) (v :: t) cl1 E2 C2 Ok2 Nc2
                       (eev_chain _ _ _ _ _ Ev1 Ch) (eev_wf _ _ Ev1 W) Cl1 Nf Hc2) as R2.
        cbn beta iota in R2. eapply mstar_raises; [exact R1|exact (R2 Nx)].
    + inversion Ev; subst s' r. intro Nx.
      exact (HE nf e s s1 (Er x) env outers pend st c1 st1 code clo rest pc t cl E1 C1 Ok1 Nc1 Ch W Cl Nf Hc1 Nx).
Qed.

Definition xparts_ok (env : cenv) (pend : list name) : list interp_part -> bool :=
  fix go (ps : list interp_part) : bool :=
    match ps with
    | [] => true
    | IPStr s :: r => nonempty s && go r
    | IPExpr e1 :: r => xexpr_ok env pend e1 && go r
    end.

Lemma xexpr_ok_interp : forall env pend ps,
  xexpr_ok env pend (EInterp ps) = xparts_ok env pend ps && (length ps <=? 255).
Proof. reflexivity. Qed.

Lemma fev_parts_correct : forall f, espec f ->
  forall nf ps s s' r env outers pend st c st' code clo rest pc t cl,
    fev_parts f nf ps s = (s', r) -> xcparts env outers ps st = (c, st') ->
    xparts_ok env pend ps = true -> nocap_code c = true ->
    chain env outers pend s -> wf s -> Forall2 clo_rel (eclos s) cl -> nf = S (length rest) ->
    xcode_at code pc c ->
    match r with
    | Ok bs =>
      eev s s' /\
      exists pieces cl', concat pieces = bs /\ length pieces = length ps /\
        mstar (cfg code pc (t ++ fvals s) clo rest [] cl (ewd s))
              (cfg code (pc + length c) (rev (map VStr pieces) ++ t ++ fvals s') clo rest [] cl' (ewd s')) /\
        Forall2 clo_rel (eclos s') cl'
    | Er x => x <> Unsupported -> mraises (cfg code pc (t ++ fvals s) clo rest [] cl (ewd s)) x (ewd s')
    end.
Proof.
  intros f HE nf ps. induction ps as [|p ps IH];
    intros s s' r env outers pend st c st' code clo rest pc t cl Ev Cm Hok Nc Ch W Cl Nf Hc.
  - cbn [fev_parts xcparts] in *. inversion Ev; subst. inversion Cm; subst. cbn [length].
    rewrite Nat.add_0_r. split; [apply eev_refl|]. exists [], cl. repeat split; [apply mstar_refl|exact Cl].
  - destruct p as [b|e1]; cbn [fev_parts xcparts xparts_ok] in *; apply andb_true_iff in Hok; destruct Hok as [Ok1 Ok2].
    + destruct (xcparts env outers ps st) as [c2 st2] eqn:C2. inversion Cm; subst c st'.
      apply nocap_cons in Nc. destruct Nc as [_ Nc2]. apply xcode_at_cons in Hc. destruct Hc as [Hn Hc2].
      assert (T0 : mstar (cfg code pc (t ++ fvals s) clo rest [] cl (ewd s))
                         (cfg code (S pc) ((VStr b :: t) ++ fvals s) clo rest [] cl (ewd s))).
      { apply mstar_one. eapply m_next; [exact Hn|reflexivity|reflexivity]. }
      destruct (fev_parts f nf ps s) as [s2 [bs|x]] eqn:E2; inversion Ev; subst s' r.
      * pose proof (IH s s2 (Ok bs) env outers pend st c2 st2 code clo rest (S pc) (VStr b :: t) cl E2 C2 Ok2 Nc2 Ch W Cl Nf Hc2) as R2.
        cbn beta iota in R2. destruct R2 as (Ev2 & pieces & cl2 & Cc & L & R2 & Cl2).
        split; [exact Ev2|]. exists (b :: pieces), cl2. repeat split; [cbn [concat]; rewrite Cc; reflexivity|cbn [length]; lia| |exact Cl2].
        eapply mstar_trans; [exact T0|]. eapply mstar_eq; [exact R2|]. unfold cfg. f_equal. f_equal. f_equal; [cbn [length]; lia|].
        cbn [map rev]. rewrite <- app_assoc. reflexivity.
      * intro Nx. eapply mstar_raises; [exact T0|].
        exact (IH s s2 (Er x) env outers pend st c2 st2 code clo rest (S pc) (VStr b :: t) cl E2 C2 Ok2 Nc2 Ch W Cl Nf Hc2 Nx).
    + destruct (xcexpr env outers st e1) as [c1 st1] eqn:C1. destruct (xcparts env outers ps st1) as [c2 st2] eqn:C2.
      inversion Cm; subst c st'. apply nocap_app in Nc. destruct Nc as [Nc1 Nc2]. apply nocap_cons in Nc2. destruct Nc2 as [_ Nc2].
      apply xcode_at_app in Hc. destruct Hc as [Hc1 Hc2]. apply xcode_at_cons in Hc2. destruct Hc2 as [Hn Hc2].
      destruct (feval f nf e1 s) as [s1 [v|x]] eqn:E1.
      * pose proof (HE nf e1 s s1 (Ok v) env outers pend st c1 st1 code clo rest pc t cl E1 C1 Ok1 Nc1 Ch W Cl Nf Hc1) as R1.
        cbn beta iota in R1. destruct R1 as (Ev1 & cl1 & R1 & Cl1).
        destruct (format_val_str (ewd s1) v) as (piece & Fv). rewrite Fv in Ev.
        assert (T1 : mstar (cfg code pc (t ++ fvals s) clo rest [] cl (ewd s))
                           (cfg code (S (pc + length c1)) ((VStr piece :: t) ++ fvals s1) clo rest [] cl1 (ewd s1))).
        { eapply mstar_trans; [exact R1|]. apply mstar_one. eapply m_next; [exact Hn|reflexivity|].
          cbn [step_instr step_op]. rewrite Fv. reflexivity. }
        destruct (fev_parts f nf ps s1) as [s2 [bs|x]] eqn:E2; inversion Ev; subst s' r.
        -- pose proof (IH s1 s2 (Ok bs) env outers pend st1 c2 st2 code clo rest (S (pc + length c1)) (VStr piece :: t) cl1 E2 C2 Ok2 Nc2
                          (eev_chain _ _ _ _ _ Ev1 Ch) (eev_wf _ _ Ev1 W) Cl1 Nf Hc2) as R2.
           cbn beta iota in R2. destruct R2 as (Ev2 & pieces & cl2 & Cc & L & R2 & Cl2).
           split; [eapply eev_trans; eauto|]. exists (piece :: pieces), cl2.
           repeat split; [cbn [concat]; rewrite Cc; reflexivity|cbn [length]; lia| |exact Cl2].
           eapply mstar_trans; [exact T1|]. eapply mstar_eq; [exact R2|]. unfold cfg. f_equal. f_equal.
           f_equal; [rewrite app_length; cbn [length]; lia|]. cbn [map rev]. rewrite <- app_assoc. reflexivity.
        -- intro Nx. eapply mstar_raises; [exact T1|].
           exact (IH s1 s2 (Er x) env outers pend st1 c2 st2 code clo rest (S (pc + length c1)) (VStr piece :: t) cl1 E2 C2 Ok2 Nc2
                     (eev_chain _ _ _ _ _ Ev1 Ch) (eev_wf _ _ Ev1 W) Cl1 Nf Hc2 Nx).
      * inversion Ev; subst s' r. intro Nx.
        exact (HE nf e1 s s1 (Er x) env outers pend st c1 st1 code clo rest pc t cl E1 C1 Ok1 Nc1 Ch W Cl Nf Hc1 Nx).
Qed.
(* ================================================================== *)
(* variables                                                           *)

Lemma chain_names : forall env outers pend s, chain env outers pend s -> map fst (clocals env) = names (venv s).
Proof. intros env outers pend s (A & _). unfold venv. rewrite names_venv_l. exact A. Qed.

Lemma var_read : forall env outers pend st x s r st1 pc t,
  var_ok env pend x = true -> chain env outers pend s ->
  resolve_var env outers st x = (r, st1) -> nocap_instr (XI (var_get r x)) = true ->
  st1 = st /\ plain (var_get r x) = true /\
  match fget_var s x with
  | Ok v => step_instr (var_get r x) pc (t ++ fvals s) (ewd s) = SNext (mkVS (S pc) (v :: t ++ fvals s) (ewd s))
  | Er e => step_instr (var_get r x) pc (t ++ fvals s) (ewd s) = SErr e (ewd s)
  end.
Proof.
  intros env outers pend st x s r st1 pc t Hok Ch R Nc.
  destruct (resolve_nocap env outers pend st x s r st1 Hok Ch R (nocap_var_get _ _ Nc)) as [Est [(k & Er & F)|(Er & F & Fo)]]; subst r.
  - split; [exact Est|]. split; [reflexivity|].
    pose proof (find_lookup (clocals env) (venv s) x (chain_names _ _ _ _ Ch)) as FL. rewrite F in FL.
    destruct FL as (v & Lk & Sl). unfold venv in Lk. rewrite lookup_venv_l in Lk.
    unfold fget_var, find_var. destruct (lookup_cell (elocals s) x) as [c|]; [|discriminate Lk].
    cbn [option_map] in Lk. inversion Lk; subst v. cbn [var_get step_instr step_op8].
    unfold fvals. rewrite (proj1 (Sl t)). reflexivity.
  - split; [exact Est|]. split; [reflexivity|].
    pose proof (find_lookup (clocals env) (venv s) x (chain_names _ _ _ _ Ch)) as FL. rewrite F in FL.
    unfold venv in FL. rewrite lookup_venv_l in FL.
    unfold fget_var, find_var. destruct (lookup_cell (elocals s) x) as [c|]; [discriminate FL|]. rewrite Fo.
    cbn [var_get step_instr step_global]. destruct (lookup (globals (ewd s)) x); reflexivity.
Qed.

Lemma var_write : forall env outers pend st x s r st1 pc t v,
  var_ok env pend x = true -> chain env outers pend s -> wf s ->
  resolve_var env outers st x = (r, st1) -> nocap_instr (XI (var_set r x)) = true ->
  plain (var_set r x) = true /\
  match fset_var s x v with
  | Ok s2 => step_instr (var_set r x) pc (v :: t ++ fvals s) (ewd s) = SNext (mkVS (S pc) (v :: t ++ fvals s2) (ewd s2))
             /\ eev s s2 /\ eclos s2 = eclos s
  | Er e => step_instr (var_set r x) pc (v :: t ++ fvals s) (ewd s) = SErr e (ewd s)
  end.
Proof.
  intros env outers pend st x s r st1 pc t v Hok Ch W R Nc.
  destruct (resolve_nocap env outers pend st x s r st1 Hok Ch R (nocap_var_set _ _ Nc)) as [Est [(k & Er & F)|(Er & F & Fo)]]; subst r.
  - split; [reflexivity|].
    pose proof (find_lookup (clocals env) (venv s) x (chain_names _ _ _ _ Ch)) as FL. rewrite F in FL.
    destruct FL as (u & Lk & Sl). unfold venv in Lk. rewrite lookup_venv_l in Lk.
    unfold fset_var, find_var. destruct (lookup_cell (elocals s) x) as [c|] eqn:Lc; [|discriminate Lk].
    destruct W as [ND Bd]. repeat split.
    + cbn [var_set step_instr step_op8].
      change (v :: t ++ fvals s) with ((v :: t) ++ vals (venv s)).
      rewrite (proj2 (Sl (v :: t)) v). unfold venv. rewrite (update_venv_l s (elocals s) x c v ND Bd Lc). reflexivity.
    + unfold cell_set. cbn [ecells]. rewrite set_nth_length. lia.
    + intros c' Hc' Hn. apply cell_get_set_neq. intro E; subst c'. apply Hn. eapply lookup_cell_in; eauto.
  - split; [reflexivity|].
    pose proof (find_lookup (clocals env) (venv s) x (chain_names _ _ _ _ Ch)) as FL. rewrite F in FL.
    unfold venv in FL. rewrite lookup_venv_l in FL.
    unfold fset_var, find_var. destruct (lookup_cell (elocals s) x) as [c|]; [discriminate FL|]. rewrite Fo.
    cbn [var_set step_instr step_global]. destruct (lookup (globals (ewd s)) x).
    + repeat split; try reflexivity; try apply fc_refl.
    + reflexivity.
Qed.

(* ------------------------------------------------------------------ *)
(* a new frame                                                         *)

Lemma nth_app_l : forall A (l l' : list A) k d, k < length l -> nth k (l ++ l') d = nth k l d.
Proof. intros. apply app_nth1. assumption. Qed.

Lemma declare_local_spec : forall s x v,
  wf s ->
  let s1 := declare_local s x v in
  elocals s1 = (x, N.of_nat (length (ecells s))) :: elocals s /\ ecells s1 = ecells s ++ [v] /\
  eouter s1 = eouter s /\ eclos s1 = eclos s /\ ewd s1 = ewd s /\ wf s1 /\ fvals s1 = v :: fvals s /\
  (forall c, N.to_nat c < length (ecells s) -> cell_get s1 c = cell_get s c).
Proof.
  intros s x v [ND Bd]. unfold declare_local, alloc_cell, set_elocals. cbn [elocals ecells eouter eclos ewd].
  assert (Old : forall c, N.to_nat c < length (ecells s) ->
            nth (N.to_nat c) (ecells s ++ [v]) VNil = nth (N.to_nat c) (ecells s) VNil).
  { intros c Hc. apply app_nth1. exact Hc. }
  repeat split; auto.
  - cbn [lcells map snd]. constructor; [|exact ND]. intro Hin. rewrite Forall_forall in Bd. specialize (Bd _ Hin). cbn [snd] in Bd.
    rewrite Nat2N.id in Bd. lia.
  - cbn [lcells map snd ecells]. constructor; [cbn [snd]; rewrite Nat2N.id, app_length; cbn [length]; lia|].
    eapply Forall_impl; [|exact Bd]. cbn. intros a Ha. rewrite app_length. lia.
  - unfold fvals, venv, venv_l, vals. cbn [elocals map fst snd]. f_equal.
    + unfold cell_get. cbn [ecells]. rewrite Nat2N.id, app_nth2, Nat.sub_diag by lia. reflexivity.
    + rewrite !map_map. apply map_ext_in. intros [z cz] Hin. cbn [fst snd]. unfold cell_get. cbn [ecells].
      apply Old. rewrite Forall_forall in Bd. apply Bd. apply in_map_iff. exists (z, cz). auto.
Qed.

Lemma bind_params_spec : forall ps vs s,
  wf s -> length ps = length vs ->
  let s3 := bind_params s ps vs in
  lnames (elocals s3) = rev ps ++ lnames (elocals s) /\ fvals s3 = rev vs ++ fvals s /\ wf s3 /\
  eouter s3 = eouter s /\ eclos s3 = eclos s /\ ewd s3 = ewd s /\
  length (ecells s) <= length (ecells s3) /\
  (forall c, N.to_nat c < length (ecells s) -> cell_get s3 c = cell_get s c) /\
  (forall c, In c (lcells (elocals s3)) -> In c (lcells (elocals s)) \/ length (ecells s) <= N.to_nat c).
Proof.
  induction ps as [|p ps IH]; intros vs s W L; destruct vs as [|v vs]; try discriminate L.
  - cbn [bind_params rev app]. repeat split; auto; try lia; try apply W; intros; left; assumption.
  - cbn [bind_params]. cbn [length] in L. inversion L as [L'].
    destruct (declare_local_spec s p v W) as (E1 & E2 & E3 & E4 & E5 & W1 & F1 & O1).
    destruct (IH vs (declare_local s p v) W1 L') as (A & B & C & D & E & F & G & H & I).
    split; [rewrite A, E1; cbn [lnames map fst rev]; rewrite <- app_assoc; reflexivity|].
    split; [rewrite B, F1; cbn [rev]; rewrite <- app_assoc; reflexivity|].
    split; [exact C|]. split; [congruence|]. split; [congruence|]. split; [congruence|].
    split; [rewrite E2, app_length in G; cbn [length] in G; lia|].
    split.
    + intros c Hc. rewrite H; [apply O1; exact Hc|]. rewrite E2, app_length. cbn [length]. lia.
    + intros c Hc. destruct (I c Hc) as [Hin|Hge].
      * rewrite E1 in Hin. cbn [lcells map snd] in Hin. destruct Hin as [Eq|Hin]; [right; subst c; rewrite Nat2N.id; lia|left; exact Hin].
      * right. rewrite E2, app_length in Hge. cbn [length] in Hge. lia.
Qed.

Lemma fn_env_names : forall ps, map fst (clocals (fn_env ps)) = rev ps ++ [[]].
Proof. intros. unfold fn_env. cbn [clocals]. rewrite map_app, map_map. cbn [map fst]. rewrite map_id. reflexivity. Qed.

Lemma env_inv_fn : forall ps, env_inv (fn_env ps).
Proof.
  intros ps. split; [|exact I]. unfold fn_env. cbn [clocals cdepth]. apply Forall_app. split.
  - apply Forall_forall. intros x Hin. apply in_map_iff in Hin. destruct Hin as (y & E & _). subst x. cbn. lia.
  - constructor; [cbn; lia|constructor].
Qed.

Lemma Forall2_nth : forall A B (R : A -> B -> Prop) l l' k a,
  Forall2 R l l' -> nth_error l k = Some a -> exists b, nth_error l' k = Some b /\ R a b.
Proof.
  intros A B R l l' k a H. revert k. induction H as [|x y l l' Hxy H IH]; intros [|k] E; cbn in *; try discriminate.
  - inversion E; subst. eauto.
  - apply IH; exact E.
Qed.
Lemma Forall2_len : forall A B (R : A -> B -> Prop) l l', Forall2 R l l' -> length l = length l'.
Proof. intros A B R l l' H. induction H; cbn; auto. Qed.
(* ================================================================== *)
(* calls and returns                                                   *)

Lemma mstep_call_closure : forall code pc stk clo rest us cl w n id nm m,
  nth_error code pc = Some (XI (IOp8 OpCall n)) -> nth_error stk (N.to_nat n) = Some (VClosure id nm) ->
  nth_error cl (N.to_nat id) = Some m ->
  mstep (cfg code pc stk clo rest us cl w) =
  (if negb (Nat.eqb (N.to_nat n) (N.to_nat (fo_arity (mc_fn m)) - 1))
   then MErr (TypeError (msg_arity (N.to_nat (fo_arity (mc_fn m)) - 1) (N.to_nat n))) w
   else if Nat.eqb (S (length rest)) FRAMES_MAX then MErr (IndexError msg_stack_overflow) w
   else MNext (mkM (mkFrame (fo_code (mc_fn m)) 0 (firstn (S (N.to_nat n)) stk) (Some id) ::
                    mkFrame code (S pc) (skipn (S (N.to_nat n)) stk) clo :: rest) us cl w)).
Proof.
  intros. unfold mstep, cfg. cbn [frames fr_code fr_pc fr_stk fr_clo mwd mups mclos length].
  rewrite H, H0, H1. reflexivity.
Qed.

Lemma mstep_return : forall bcode pc v stk clo caller rest cl w,
  nth_error bcode pc = Some (XI (IOp OpReturn)) ->
  mstep (cfg bcode pc (v :: stk) clo (caller :: rest) [] cl w)
  = MNext (mkM (with_stk caller (fr_pc caller) (v :: fr_stk caller) :: rest) [] cl w).
Proof.
  intros. unfold mstep, cfg. cbn [frames fr_code fr_pc fr_stk fr_clo mwd mups mclos]. rewrite H. reflexivity.
Qed.

Lemma nth_error_app_at : forall A (l : list A) x r, nth_error (l ++ x :: r) (length l) = Some x.
Proof. intros. rewrite nth_error_app2, Nat.sub_diag by lia. reflexivity. Qed.

Lemma call_correct : forall f, espec f -> lspec f ->
  forall nf s2 vf c vs s' r id nm code clo rest pcc t cl2 n,
    call_closure f nf s2 vf c vs = (s', r) -> vf = VClosure id nm ->
    nth_error (eclos s2) (N.to_nat id) = Some c -> wf s2 -> Forall2 clo_rel (eclos s2) cl2 ->
    nf = S (length rest) -> nth_error code pcc = Some (XI (IOp8 OpCall n)) -> N.to_nat n = length vs ->
    match r with
    | Ok v =>
      eev s2 s' /\
      exists cl', mstar (cfg code pcc (rev vs ++ vf :: t ++ fvals s2) clo rest [] cl2 (ewd s2))
                        (cfg code (S pcc) (v :: t ++ fvals s') clo rest [] cl' (ewd s')) /\
                  Forall2 clo_rel (eclos s') cl'
    | Er x => x <> Unsupported ->
              mraises (cfg code pcc (rev vs ++ vf :: t ++ fvals s2) clo rest [] cl2 (ewd s2)) x (ewd s')
    end.
Proof.
  intros f HE HL nf s2 vf c vs s' r id nm code clo rest pcc t cl2 n Ev Evf Hc W Cl Nf Hn Hlen.
  destruct (Forall2_nth _ _ _ _ _ _ _ Cl Hc) as (m & Hm & (nm' & outers' & st & pend' & Em & Bok & Nc & On & Pc)).
  assert (Hstk : nth_error (rev vs ++ vf :: t ++ fvals s2) (N.to_nat n) = Some (VClosure id nm)).
  { rewrite Hlen, <- (rev_length vs), nth_error_app_at. congruence. }
  pose proof (mstep_call_closure code pcc _ clo rest [] cl2 (ewd s2) n id nm m Hn Hstk Hm) as St.
  rewrite Em in St. cbn [mc_fn fo_arity fo_code] in St. rewrite Nat2N.id in St.
  replace (S (length (ec_params c)) - 1) with (length (ec_params c)) in St by lia. rewrite Hlen in St.
  unfold call_closure in Ev.
  destruct (negb (Nat.eqb (length vs) (length (ec_params c)))) eqn:Ar.
  { inversion Ev; subst s' r. intros _. apply mraises_here. exact St. }
  rewrite <- Nf in St. destruct (Nat.eqb nf FRAMES_MAX) eqn:Fm.
  { inversion Ev; subst s' r. intros _. apply mraises_here. exact St. }
  apply negb_false_iff, Nat.eqb_eq in Ar.
  (* the callee's frame *)
  set (s0 := mkE [] (ec_env c) (ecells s2) (eclos s2) (ewd s2)) in *.
  assert (W0 : wf s0) by (split; constructor).
  destruct (declare_local_spec s0 [] vf W0) as (D1 & D2 & D3 & D4 & D5 & W1 & F1 & O1).
  assert (Ec0 : ecells s0 = ecells s2) by reflexivity. rewrite Ec0 in D1, D2, O1.
  destruct (bind_params_spec (ec_params c) vs (declare_local s0 [] vf) W1 (eq_sym Ar)) as (P1 & P2 & W3 & P4 & P5 & P6 & P7 & P8 & P9).
  set (s3 := bind_params (declare_local s0 [] vf) (ec_params c) vs) in *.
  assert (Fv3 : fvals s3 = rev vs ++ [vf]).
  { rewrite P2, F1. unfold fvals, venv, venv_l, vals. cbn. reflexivity. }
  assert (Ch3 : chain (fn_env (ec_params c)) outers' pend' s3).
  { split; [|split; [|exact Pc]].
    - rewrite fn_env_names, P1, D1. reflexivity.
    - rewrite P4, D3. exact On. }
  assert (Cl3 : Forall2 clo_rel (eclos s3) cl2) by (rewrite P5, D4; exact Cl).
  assert (W3' : ewd s3 = ewd s2) by (rewrite P6, D5; reflexivity).
  set (callerf := mkFrame code (S pcc) (t ++ fvals s2) clo).
  assert (Frame : firstn (S (length vs)) (rev vs ++ vf :: t ++ fvals s2) = rev vs ++ [vf] /\
                  skipn (S (length vs)) (rev vs ++ vf :: t ++ fvals s2) = t ++ fvals s2).
  { replace (rev vs ++ vf :: t ++ fvals s2) with ((rev vs ++ [vf]) ++ t ++ fvals s2) by (rewrite <- app_assoc; reflexivity).
    replace (S (length vs)) with (length (rev vs ++ [vf])) by (rewrite app_length, rev_length; cbn; lia).
    split; [apply firstn_len_app|apply skipn_len_app]. }
  destruct Frame as [Fr1 Fr2]. rewrite Fr1, Fr2 in St. fold callerf in St.
  (* the caller's locals are untouched by the callee *)
  assert (Keep : forall s4, fc s3 s4 ->
            eev s2 (mkE (elocals s2) (eouter s2) (ecells s4) (eclos s4) (ewd s4)) /\
            fvals (mkE (elocals s2) (eouter s2) (ecells s4) (eclos s4) (ewd s4)) = fvals s2).
  { intros s4 [L4 H4].
    assert (Old : forall c0, N.to_nat c0 < length (ecells s2) -> cell_get s4 c0 = cell_get s2 c0).
    { intros c0 Hc0. rewrite H4.
      - unfold s3. rewrite P8; [apply O1; exact Hc0|]. rewrite D2, app_length. cbn [length]. lia.
      - rewrite D2, app_length in P7. cbn [length] in P7. lia.
      - intro Hin. destruct (P9 c0 Hin) as [Hin'|Hge].
        + rewrite D1 in Hin'. cbn [lcells map snd] in Hin'. destruct Hin' as [E|Hin'']; [|destruct Hin''].
          subst c0. rewrite Nat2N.id in Hc0. lia.
        + rewrite D2, app_length in Hge. lia. }
    split.
    - split; [|split; reflexivity]. split.
      + cbn [ecells]. rewrite D2, app_length in P7. cbn [length] in P7. lia.
      + intros c0 Hc0 _. unfold cell_get at 1. cbn [ecells]. apply Old. exact Hc0.
    - apply fvals_same; [reflexivity|]. intros c0 Hin. unfold cell_get at 1. cbn [ecells]. apply Old.
      destruct W as [_ Bd]. rewrite Forall_forall in Bd. apply Bd. exact Hin. }
  destruct (ec_body c) as [be|bb] eqn:Eb.
  - (* expression body *)
    unfold body_code in Em, Nc, St. destruct (xcexpr (fn_env (ec_params c)) outers' st be) as [cb stb] eqn:Cb. cbn [fst] in *.
    apply nocap_app in Nc. destruct Nc as [Ncb _].
    unfold body_ok in Bok. apply andb_true_iff in Bok. destruct Bok as [_ Bok].
    assert (Hcb : xcode_at (cb ++ xi [IOp OpReturn; IOp OpNil; IOp OpReturn]) 0 cb).
    { exists [], (xi [IOp OpReturn; IOp OpNil; IOp OpReturn]). split; reflexivity. }
    destruct (feval f (S nf) be s3) as [s4 r4] eqn:E4. inversion Ev; subst s' r.
    pose proof (HE (S nf) be s3 s4 r4 (fn_env (ec_params c)) outers' pend' st cb stb _ (Some id) (callerf :: rest) 0 [] cl2
                   E4 Cb Bok Ncb Ch3 W3 Cl3 (f_equal S Nf) Hcb) as R.
    cbn [app] in R. rewrite Fv3, W3' in R.
    destruct r4 as [v|x].
    + destruct R as (Ev4 & cl4 & R & Cl4). destruct (Keep s4 (proj1 Ev4)) as [K1 K2].
      split; [exact K1|]. exists cl4. split; [|exact Cl4].
      eapply mstar_step; [exact St|]. eapply mstar_trans; [exact R|].
      apply mstar_one. rewrite mstep_return; [|cbn [Nat.add]; apply nth_error_app_at].
      unfold with_stk, callerf, cfg. cbn [fr_code fr_pc fr_stk fr_clo]. rewrite K2. reflexivity.
    + intro Nx. eapply mstar_raises; [apply mstar_one; exact St|exact (R Nx)].
  - (* block body *)
    unfold body_code in Em, Nc, St. destruct (xcstmts (fn_env (ec_params c)) outers' st 0 0 bb) as [cb stb] eqn:Cb. cbn [fst] in *.
    apply nocap_app in Nc. destruct Nc as [Ncb _].
    unfold body_ok in Bok. apply andb_true_iff in Bok. destruct Bok as [_ Bok].
    assert (Hcb : xcode_at (cb ++ xi [IOp OpNil; IOp OpReturn]) 0 cb).
    { exists [], (xi [IOp OpNil; IOp OpReturn]). split; reflexivity. }
    destruct (fexec_list f (S nf) 1 bb s3) as [s4 o4] eqn:E4.
    assert (Hcont : forall d nl, cloop (fn_env (ec_params c)) = Some (d, nl) -> 0 <= 0) by (intros; lia).
    pose proof (HL (S nf) 1 bb s3 s4 o4 (fn_env (ec_params c)) outers' pend' st cb stb 0 0 true _ (Some id) (callerf :: rest) 0 cl2
                   E4 Cb Bok Ncb (env_inv_fn _) eq_refl Ch3 W3 Cl3 (f_equal S Nf) Hcb Hcont) as R.
    unfold sresult in R. rewrite Fv3, W3' in R.
    destruct o4; inversion Ev; subst s' r.
    + (* fell off the end: Nil; Return *)
      destruct R as (Sv & _ & cl4 & R & Cl4). destruct (Keep s4 (proj1 Sv)) as [K1 K2].
      split; [exact K1|]. exists cl4. split; [|exact Cl4].
      eapply mstar_step; [exact St|]. eapply mstar_trans; [exact R|]. cbn [Nat.add].
      eapply mstar_step; [eapply m_next; [apply nth_error_app_at|reflexivity|reflexivity]|].
      apply mstar_one. rewrite mstep_return.
      * unfold with_stk, callerf, cfg. cbn [fr_code fr_pc fr_stk fr_clo]. rewrite K2. reflexivity.
      * change (xi [IOp OpNil; IOp OpReturn]) with ([XI (IOp OpNil)] ++ [XI (IOp OpReturn)]).
        rewrite app_assoc. replace (S (length cb)) with (length (cb ++ [XI (IOp OpNil)])) by (rewrite app_length; cbn; lia).
        apply nth_error_app_at.
    + intros Nx. exfalso. apply Nx. reflexivity.
    + intros Nx. exfalso. apply Nx. reflexivity.
    + destruct R as (_ & Fc4 & R). destruct (R callerf rest eq_refl) as (cl4 & R' & Cl4).
      destruct (Keep s4 Fc4) as [K1 K2]. split; [exact K1|]. exists cl4. split; [|exact Cl4].
      eapply mstar_step; [exact St|]. eapply mstar_eq; [exact R'|].
      unfold with_stk, callerf, cfg. cbn [fr_code fr_pc fr_stk fr_clo]. rewrite K2. reflexivity.
    + intro Nx. eapply mstar_raises; [apply mstar_one; exact St|exact (R Nx)].
    + intros Nx. exfalso. apply Nx. reflexivity.
Qed.
(* ================================================================== *)
(* expressions: one more unit of fuel                                  *)

Lemma is_lambda_fname : forall k, is_lambda_name (lambda_fname k) = true.
Proof. intro k. unfold lambda_fname. reflexivity. Qed.

Lemma pend_cover_weaken : forall outers pend p, pend_cover outers pend -> pend_cover outers (p :: pend).
Proof.
  intros outers pend p H. unfold pend_cover in *. eapply Forall_impl; [|exact H].
  intros e He. cbn beta in *. destruct (cpending e); [right; exact He|exact I].
Qed.

Lemma pend_cover_cons : forall env outers pend, pend_cover outers pend -> pend_cover (env :: outers) (pend_of env pend).
Proof.
  intros env outers pend H. unfold pend_of. constructor.
  - destruct (cpending env); [left; reflexivity|exact I].
  - destruct (cpending env); [apply pend_cover_weaken; exact H|exact H].
Qed.

Lemma mstep_closure_nocap : forall code pc stk clo rest cl w fn,
  nth_error code pc = Some (XClosure fn []) ->
  mstep (cfg code pc stk clo rest [] cl w) =
  MNext (cfg code (S pc) (VClosure (N.of_nat (length cl)) (shown_name fn) :: stk) clo rest [] (cl ++ [mkMClo fn []]) w).
Proof.
  intros. unfold mstep, cfg. cbn [frames fr_code fr_pc fr_stk fr_clo mwd mups mclos]. rewrite H. reflexivity.
Qed.

Lemma cfg_pc_eq : forall code pc pc' stk clo rest us cl w, pc = pc' ->
  cfg code pc stk clo rest us cl w = cfg code pc' stk clo rest us cl w.
Proof. intros; subst; reflexivity. Qed.

Ltac lenxi := rewrite ?app_length; unfold xi; rewrite ?map_length; cbn [map length].
Ltac xok2 H H1 H2 := cbn [xexpr_ok] in H; apply andb_true_iff in H; destruct H as [H1 H2].

Lemma expr_step : forall f, espec f -> lspec f -> espec (S f).
Proof.
  intros f HE HL nf e s s' r env outers pend st c st' code clo rest pc t cl Ev Cm Hok Nc Ch W Cl Nf Hc.
  destruct e; try discriminate Hok.
  - (* ENil *)
    cbn [feval] in Ev. cbn [xcexpr] in Cm. inversion Ev; subst. inversion Cm; subst.
    apply xcode_at_cons in Hc. destruct Hc as [Hn _]. split; [apply eev_refl|]. exists cl. split; [|exact Cl].
    eapply m_push; [exact Hn|reflexivity|reflexivity].
  - cbn [feval] in Ev. cbn [xcexpr] in Cm. inversion Ev; subst. inversion Cm; subst.
    apply xcode_at_cons in Hc. destruct Hc as [Hn _]. split; [apply eev_refl|]. exists cl. split; [|exact Cl].
    eapply m_push; [exact Hn|reflexivity|reflexivity].
  - cbn [feval] in Ev. cbn [xcexpr] in Cm. inversion Ev; subst. inversion Cm; subst.
    apply xcode_at_cons in Hc. destruct Hc as [Hn _]. split; [apply eev_refl|]. exists cl. split; [|exact Cl].
    eapply m_push; [exact Hn|reflexivity|reflexivity].
  - cbn [feval] in Ev. cbn [xcexpr] in Cm. inversion Ev; subst. inversion Cm; subst.
    apply xcode_at_cons in Hc. destruct Hc as [Hn _]. split; [apply eev_refl|]. exists cl. split; [|exact Cl].
    eapply m_push; [exact Hn|reflexivity|reflexivity].
  - cbn [feval] in Ev. cbn [xcexpr] in Cm. inversion Ev; subst. inversion Cm; subst.
    apply xcode_at_cons in Hc. destruct Hc as [Hn _]. split; [apply eev_refl|]. exists cl. split; [|exact Cl].
    eapply m_push; [exact Hn|reflexivity|reflexivity].
  - (* EInterp *)
    rewrite feval_interp in Ev. rewrite xcexpr_interp in Cm. rewrite xexpr_ok_interp in Hok.
    apply andb_true_iff in Hok. destruct Hok as [Ok1 _].
    destruct (xcparts env outers parts st) as [cp st1] eqn:Cp. inversion Cm; subst c st'.
    apply nocap_app in Nc. destruct Nc as [Nc1 _]. apply xcode_at_app in Hc. destruct Hc as [Hc1 Hc2].
    apply xcode_at_cons in Hc2. destruct Hc2 as [Hn _].
    destruct (fev_parts f nf parts s) as [s1 rp] eqn:Ep.
    pose proof (fev_parts_correct f HE nf parts s s1 rp env outers pend st cp st1 code clo rest pc t cl Ep Cp Ok1 Nc1 Ch W Cl Nf Hc1) as R.
    destruct rp as [bs|x]; inversion Ev; subst s' r; [|exact R].
    destruct R as (Ev1 & pieces & cl1 & Cc & L & R & Cl1). split; [exact Ev1|]. exists cl1. split; [|exact Cl1].
    eapply mstar_trans; [exact R|]. lenxi.
    replace (pc + (length cp + 1)) with (S (pc + length cp)) by lia.
    apply mstar_one. eapply m_next; [exact Hn|reflexivity|].
    cbn [step_instr step_op8]. rewrite nlen_to_nat, <- L, <- (map_length VStr pieces).
    destruct (take_rev (map VStr pieces) (t ++ fvals s1)) as (T1 & T2 & T3).
    rewrite T1, T2, T3, all_strs_map, Cc. reflexivity.
  - (* EVar *)
    cbn [feval] in Ev. cbn [xcexpr xexpr_ok] in Cm, Hok. inversion Ev; subst s' r.
    destruct (resolve_var env outers st x) as [rv st1] eqn:Rv. inversion Cm; subst c st'.
    apply nocap_cons in Nc. destruct Nc as [Nc1 _]. apply xcode_at_cons in Hc. destruct Hc as [Hn _].
    destruct (var_read env outers pend st x s rv st1 pc t Hok Ch Rv Nc1) as (_ & Pl & St).
    destruct (fget_var s x) as [v|err].
    + split; [apply eev_refl|]. exists cl. split; [|exact Cl]. eapply m_push; eauto.
    + intros _. apply mraises_here. eapply m_err; eauto.
  - (* EAssign *)
    cbn [feval] in Ev. cbn [xcexpr] in Cm. xok2 Hok Ok1 Ok2.
    destruct (resolve_var env outers st x) as [rv st1] eqn:Rv.
    destruct (xcexpr env outers st1 e) as [ce st2] eqn:Ce.
    assert (Parts : exists pre, c = pre ++ ce ++ xi [var_set rv x] /\ length pre <= 1 /\
                                (forall i, In i pre -> exists k, i = XI (ITouch k))).
    { destruct rv; inversion Cm; subst; [exists []|exists []|exists [XI (ITouch (CStr x))]]; cbn [app length];
        (split; [reflexivity|split; [lia|]]); intros i Hi; try destruct Hi as [Hi|[]]; try destruct Hi; eauto. }
    destruct Parts as (pre & Ec & Lp & Hp). assert (Est : st' = st2) by (destruct rv; inversion Cm; reflexivity).
    subst c. apply nocap_app in Nc. destruct Nc as [_ Nc]. apply nocap_app in Nc. destruct Nc as [Nce Ncs].
    apply nocap_cons in Ncs. destruct Ncs as [Ncs _].
    apply xcode_at_app in Hc. destruct Hc as [Hcp Hc]. apply xcode_at_app in Hc. destruct Hc as [Hce Hcs].
    apply xcode_at_cons in Hcs. destruct Hcs as [Hn _].
    assert (T0 : mstar (cfg code pc (t ++ fvals s) clo rest [] cl (ewd s))
                       (cfg code (pc + length pre) (t ++ fvals s) clo rest [] cl (ewd s))).
    { destruct pre as [|i pre]; [rewrite Nat.add_0_r; apply mstar_refl|].
      destruct pre; [|cbn in Lp; lia]. destruct (Hp i (or_introl eq_refl)) as (k & Ei). subst i.
      apply xcode_at_cons in Hcp. destruct Hcp as [Hn0 _]. cbn [length].
      replace (pc + 1) with (S pc) by lia. apply mstar_one. eapply m_next; [exact Hn0|reflexivity|reflexivity]. }
    destruct (resolve_nocap env outers pend st x s rv st1 Ok1 Ch Rv (nocap_var_set _ _ Ncs)) as [Est1 _]. subst st1.
    destruct (feval f nf e s) as [s1 [v|err]] eqn:E1.
    + pose proof (HE nf e s s1 (Ok v) env outers pend st ce st2 code clo rest (pc + length pre) t cl E1 Ce Ok2 Nce Ch W Cl Nf Hce) as R1.
      cbn beta iota in R1. destruct R1 as (Ev1 & cl1 & R1 & Cl1).
      destruct (var_write env outers pend st x s1 rv st (pc + length pre + length ce) t v Ok1
                          (eev_chain _ _ _ _ _ Ev1 Ch) (eev_wf _ _ Ev1 W) Rv Ncs) as (Pl & Wr).
      destruct (fset_var s1 x v) as [s2|err] eqn:Fs; inversion Ev; subst s' r.
      * destruct Wr as (St & Ev2 & Ec2). split; [eapply eev_trans; eauto|]. exists cl1. split; [|rewrite Ec2; exact Cl1].
        eapply mstar_trans; [exact T0|]. eapply mstar_trans; [exact R1|].
        lenxi.
        replace (pc + (length pre + (length ce + 1))) with (S (pc + length pre + length ce)) by lia.
        apply mstar_one. eapply m_next; eauto.
      * intros _. eapply mstar_raises; [exact T0|]. eapply mstar_raises; [exact R1|]. apply mraises_here. eapply m_err; eauto.
    + inversion Ev; subst s' r. intro Nx. eapply mstar_raises; [exact T0|].
      exact (HE nf e s s1 (Er err) env outers pend st ce st2 code clo rest (pc + length pre) t cl E1 Ce Ok2 Nce Ch W Cl Nf Hce Nx).
  - (* ECompound *)
    cbn [feval] in Ev. cbn [xcexpr] in Cm. xok2 Hok Ok12 Ok3. apply andb_true_iff in Ok12. destruct Ok12 as [Ok1 Ok2].
    assert (Cp : compound_ok op = true) by (destruct op; try discriminate Ok2; reflexivity). rewrite Cp in Ev.
    assert (Cc : compound_code op = binop_code op) by (destruct op; try discriminate Ok2; reflexivity).
    destruct (resolve_var env outers st x) as [rv st1] eqn:Rv.
    destruct (xcexpr env outers st1 e) as [ce st2] eqn:Ce. inversion Cm; subst c st'. rewrite Cc in *.
    apply nocap_cons in Nc. destruct Nc as [Ncg Nc]. apply nocap_app in Nc. destruct Nc as [Nce Nc].
    unfold xi in Nc. rewrite map_app in Nc. apply nocap_app in Nc. destruct Nc as [_ Ncs].
    apply nocap_cons in Ncs. destruct Ncs as [Ncs _].
    apply xcode_at_cons in Hc. destruct Hc as [Hn0 Hc]. apply xcode_at_app in Hc. destruct Hc as [Hce Hc].
    unfold xi in Hc. rewrite map_app in Hc. apply xcode_at_app in Hc. destruct Hc as [Hcb Hcs].
    apply xcode_at_cons in Hcs. destruct Hcs as [Hn _]. rewrite map_length in Hn.
    destruct (var_read env outers pend st x s rv st1 pc t Ok1 Ch Rv Ncg) as (Est1 & Pl0 & St0). subst st1.
    destruct (fget_var s x) as [a|err].
    2:{ inversion Ev; subst s' r. intros _. apply mraises_here. eapply m_err; eauto. }
    assert (T0 : mstar (cfg code pc (t ++ fvals s) clo rest [] cl (ewd s))
                       (cfg code (S pc) ((a :: t) ++ fvals s) clo rest [] cl (ewd s))).
    { apply mstar_one. eapply m_next; eauto. }
    destruct (feval f nf e s) as [s1 [b|err]] eqn:E1.
    + pose proof (HE nf e s s1 (Ok b) env outers pend st ce st2 code clo rest (S pc) (a :: t) cl E1 Ce Ok3 Nce Ch W Cl Nf Hce) as R1.
      cbn beta iota in R1. destruct R1 as (Ev1 & cl1 & R1 & Cl1).
      pose proof (m_binop code (S pc + length ce) op a b (t ++ fvals s1) clo rest [] cl1 (ewd s1) Hcb) as R2.
      destruct (binop_sem (store (ewd s1)) op a b) as [v|err].
      * destruct (var_write env outers pend st x s1 rv st (S pc + length ce + length (binop_code op)) t v Ok1
                            (eev_chain _ _ _ _ _ Ev1 Ch) (eev_wf _ _ Ev1 W) Rv Ncs) as (Pl & Wr).
        destruct (fset_var s1 x v) as [s2|err] eqn:Fs; inversion Ev; subst s' r.
        -- destruct Wr as (St & Ev2 & Ec2). split; [eapply eev_trans; eauto|]. exists cl1. split; [|rewrite Ec2; exact Cl1].
           eapply mstar_trans; [exact T0|]. eapply mstar_trans; [exact R1|]. eapply mstar_trans; [exact R2|].
           rewrite length_cons, app_length. unfold xi. rewrite map_length, app_length. cbn [length].
           replace (pc + S (length ce + (length (binop_code op) + 1))) with (S (S pc + length ce + length (binop_code op))) by lia.
           apply mstar_one. eapply m_next; eauto.
        -- intros _. eapply mstar_raises; [exact T0|]. eapply mstar_raises; [exact R1|]. eapply mstar_raises; [exact R2|].
           apply mraises_here. eapply m_err; eauto.
      * inversion Ev; subst s' r. intros _. eapply mstar_raises; [exact T0|]. eapply mstar_raises; [exact R1|exact R2].
    + inversion Ev; subst s' r. intro Nx. eapply mstar_raises; [exact T0|].
      exact (HE nf e s s1 (Er err) env outers pend st ce st2 code clo rest (S pc) (a :: t) cl E1 Ce Ok3 Nce Ch W Cl Nf Hce Nx).
  - (* EUnary *)
    cbn [feval] in Ev. cbn [xcexpr xexpr_ok] in Cm, Hok.
    destruct (xcexpr env outers st e) as [ce st1] eqn:Ce. inversion Cm; subst c st'.
    apply nocap_app in Nc. destruct Nc as [Nce _]. apply xcode_at_app in Hc. destruct Hc as [Hce Hcu].
    destruct (feval f nf e s) as [s1 [a|err]] eqn:E1.
    + pose proof (HE nf e s s1 (Ok a) env outers pend st ce st1 code clo rest pc t cl E1 Ce Hok Nce Ch W Cl Nf Hce) as R1.
      cbn beta iota in R1. destruct R1 as (Ev1 & cl1 & R1 & Cl1).
      pose proof (m_unop code (pc + length ce) op a (t ++ fvals s1) clo rest [] cl1 (ewd s1) Hcu) as R2.
      assert (Lu : length (unop_code op) = 1) by (destruct op; reflexivity).
      lenxi. rewrite Lu. destruct (unop_sem op a) as [v|err]; inversion Ev; subst s' r.
      * split; [exact Ev1|]. exists cl1. split; [|exact Cl1]. eapply mstar_trans; [exact R1|].
        eapply mstar_eq; [exact R2|]. apply cfg_pc_eq; lia.
      * intros _. eapply mstar_raises; [exact R1|exact R2].
    + inversion Ev; subst s' r. intro Nx.
      exact (HE nf e s s1 (Er err) env outers pend st ce st1 code clo rest pc t cl E1 Ce Hok Nce Ch W Cl Nf Hce Nx).
  - (* EBinary *)
    cbn [feval] in Ev. cbn [xcexpr] in Cm. xok2 Hok Ok1 Ok2.
    destruct (xcexpr env outers st e1) as [ca st1] eqn:Ca. destruct (xcexpr env outers st1 e2) as [cb st2] eqn:Cb.
    inversion Cm; subst c st'. apply nocap_app in Nc. destruct Nc as [Nca Nc]. apply nocap_app in Nc. destruct Nc as [Ncb _].
    apply xcode_at_app in Hc. destruct Hc as [Hca Hc]. apply xcode_at_app in Hc. destruct Hc as [Hcb Hco].
    destruct (feval f nf e1 s) as [s1 [a|err]] eqn:E1.
    2:{ inversion Ev; subst s' r. intro Nx.
        exact (HE nf e1 s s1 (Er err) env outers pend st ca st1 code clo rest pc t cl E1 Ca Ok1 Nca Ch W Cl Nf Hca Nx). }
    pose proof (HE nf e1 s s1 (Ok a) env outers pend st ca st1 code clo rest pc t cl E1 Ca Ok1 Nca Ch W Cl Nf Hca) as R1.
    cbn beta iota in R1. destruct R1 as (Ev1 & cl1 & R1 & Cl1).
    destruct (feval f nf e2 s1) as [s2 [b|err]] eqn:E2.
    2:{ inversion Ev; subst s' r. intro Nx. eapply mstar_raises; [exact R1|].
        exact (HE nf e2 s1 s2 (Er err) env outers pend st1 cb st2 code clo rest (pc + length ca) (a :: t) cl1 E2 Cb Ok2 Ncb
                  (eev_chain _ _ _ _ _ Ev1 Ch) (eev_wf _ _ Ev1 W) Cl1 Nf Hcb Nx). }
    pose proof (HE nf e2 s1 s2 (Ok b) env outers pend st1 cb st2 code clo rest (pc + length ca) (a :: t) cl1 E2 Cb Ok2 Ncb
                   (eev_chain _ _ _ _ _ Ev1 Ch) (eev_wf _ _ Ev1 W) Cl1 Nf Hcb) as R2.
    cbn beta iota in R2. destruct R2 as (Ev2 & cl2 & R2 & Cl2).
    pose proof (m_binop code (pc + length ca + length cb) op a b (t ++ fvals s2) clo rest [] cl2 (ewd s2) Hco) as R3.
    lenxi. destruct (binop_sem (store (ewd s2)) op a b) as [v|err]; inversion Ev; subst s' r.
    + split; [eapply eev_trans; eauto|]. exists cl2. split; [|exact Cl2].
      eapply mstar_trans; [exact R1|]. eapply mstar_trans; [exact R2|]. eapply mstar_eq; [exact R3|].
      apply cfg_pc_eq; lia.
    + intros _. eapply mstar_raises; [exact R1|]. eapply mstar_raises; [exact R2|exact R3].
  - (* EAnd *)
    cbn [feval] in Ev. cbn [xcexpr] in Cm. xok2 Hok Ok1 Ok2.
    destruct (xcexpr env outers st e1) as [ca st1] eqn:Ca. destruct (xcexpr env outers st1 e2) as [cb st2] eqn:Cb.
    inversion Cm; subst c st'. apply nocap_app in Nc. destruct Nc as [Nca Nc]. apply nocap_cons in Nc. destruct Nc as [_ Nc].
    apply nocap_cons in Nc. destruct Nc as [_ Ncb].
    apply xcode_at_app in Hc. destruct Hc as [Hca Hc]. apply xcode_at_cons in Hc. destruct Hc as [Hj Hc].
    apply xcode_at_cons in Hc. destruct Hc as [Hp Hcb].
    destruct (feval f nf e1 s) as [s1 [a|err]] eqn:E1.
    2:{ inversion Ev; subst s' r. intro Nx.
        exact (HE nf e1 s s1 (Er err) env outers pend st ca st1 code clo rest pc t cl E1 Ca Ok1 Nca Ch W Cl Nf Hca Nx). }
    pose proof (HE nf e1 s s1 (Ok a) env outers pend st ca st1 code clo rest pc t cl E1 Ca Ok1 Nca Ch W Cl Nf Hca) as R1.
    cbn beta iota in R1. destruct R1 as (Ev1 & cl1 & R1 & Cl1). rewrite app_length. cbn [length].
    destruct (truthy a) eqn:Ta.
    + assert (T : mstar (cfg code pc (t ++ fvals s) clo rest [] cl (ewd s))
                        (cfg code (S (S (pc + length ca))) (t ++ fvals s1) clo rest [] cl1 (ewd s1))).
      { eapply mstar_trans; [exact R1|].
        eapply mstar_step; [eapply m_next; [exact Hj|reflexivity|cbn [step_instr]; rewrite Ta; reflexivity]|].
        apply mstar_one. eapply m_next; [exact Hp|reflexivity|reflexivity]. }
      pose proof (HE nf e2 s1 s' r env outers pend st1 cb st2 code clo rest (S (S (pc + length ca))) t cl1 Ev Cb Ok2 Ncb
                     (eev_chain _ _ _ _ _ Ev1 Ch) (eev_wf _ _ Ev1 W) Cl1 Nf Hcb) as R2.
      destruct r as [b|err].
      * destruct R2 as (Ev2 & cl2 & R2 & Cl2). split; [eapply eev_trans; eauto|]. exists cl2. split; [|exact Cl2].
        eapply mstar_trans; [exact T|]. eapply mstar_eq; [exact R2|]. apply cfg_pc_eq; lia.
      * intro Nx. eapply mstar_raises; [exact T|exact (R2 Nx)].
    + inversion Ev; subst s' r. split; [exact Ev1|]. exists cl1. split; [|exact Cl1]. eapply mstar_trans; [exact R1|].
      apply mstar_one. rewrite (m_next _ _ _ _ _ _ _ _ _ (S (pc + length ca) + S (length cb)) (a :: t ++ fvals s1) (ewd s1) Hj eq_refl).
      * f_equal. apply cfg_pc_eq; lia.
      * cbn [step_instr]. rewrite Ta. reflexivity.
  - (* EOr *)
    cbn [feval] in Ev. cbn [xcexpr] in Cm. xok2 Hok Ok1 Ok2.
    destruct (xcexpr env outers st e1) as [ca st1] eqn:Ca. destruct (xcexpr env outers st1 e2) as [cb st2] eqn:Cb.
    inversion Cm; subst c st'. apply nocap_app in Nc. destruct Nc as [Nca Nc]. apply nocap_cons in Nc. destruct Nc as [_ Nc].
    apply nocap_cons in Nc. destruct Nc as [_ Nc]. apply nocap_cons in Nc. destruct Nc as [_ Ncb].
    apply xcode_at_app in Hc. destruct Hc as [Hca Hc]. apply xcode_at_cons in Hc. destruct Hc as [Hj Hc].
    apply xcode_at_cons in Hc. destruct Hc as [Hj2 Hc]. apply xcode_at_cons in Hc. destruct Hc as [Hp Hcb].
    destruct (feval f nf e1 s) as [s1 [a|err]] eqn:E1.
    2:{ inversion Ev; subst s' r. intro Nx.
        exact (HE nf e1 s s1 (Er err) env outers pend st ca st1 code clo rest pc t cl E1 Ca Ok1 Nca Ch W Cl Nf Hca Nx). }
    pose proof (HE nf e1 s s1 (Ok a) env outers pend st ca st1 code clo rest pc t cl E1 Ca Ok1 Nca Ch W Cl Nf Hca) as R1.
    cbn beta iota in R1. destruct R1 as (Ev1 & cl1 & R1 & Cl1). rewrite app_length. cbn [length].
    destruct (truthy a) eqn:Ta.
    + inversion Ev; subst s' r. split; [exact Ev1|]. exists cl1. split; [|exact Cl1]. eapply mstar_trans; [exact R1|].
      eapply mstar_step; [eapply m_next; [exact Hj|reflexivity|cbn [step_instr]; rewrite Ta; reflexivity]|].
      apply mstar_one. rewrite (m_next _ _ _ _ _ _ _ _ _ (S (S (pc + length ca)) + S (length cb)) (a :: t ++ fvals s1) (ewd s1) Hj2 eq_refl).
      * f_equal. apply cfg_pc_eq; lia.
      * reflexivity.
    + assert (T : mstar (cfg code pc (t ++ fvals s) clo rest [] cl (ewd s))
                        (cfg code (S (S (S (pc + length ca)))) (t ++ fvals s1) clo rest [] cl1 (ewd s1))).
      { eapply mstar_trans; [exact R1|].
        eapply mstar_step; [eapply m_next; [exact Hj|reflexivity|cbn [step_instr]; rewrite Ta; reflexivity]|].
        replace (S (pc + length ca) + 1) with (S (S (pc + length ca))) by lia.
        apply mstar_one. eapply m_next; [exact Hp|reflexivity|reflexivity]. }
      pose proof (HE nf e2 s1 s' r env outers pend st1 cb st2 code clo rest (S (S (S (pc + length ca)))) t cl1 Ev Cb Ok2 Ncb
                     (eev_chain _ _ _ _ _ Ev1 Ch) (eev_wf _ _ Ev1 W) Cl1 Nf Hcb) as R2.
      destruct r as [b|err].
      * destruct R2 as (Ev2 & cl2 & R2 & Cl2). split; [eapply eev_trans; eauto|]. exists cl2. split; [|exact Cl2].
        eapply mstar_trans; [exact T|]. eapply mstar_eq; [exact R2|]. apply cfg_pc_eq; lia.
      * intro Nx. eapply mstar_raises; [exact T|exact (R2 Nx)].
  - (* ERange *)
    cbn [feval] in Ev. cbn [xcexpr] in Cm. xok2 Hok Ok1 Ok2.
    destruct (xcexpr env outers st e1) as [ca st1] eqn:Ca. destruct (xcexpr env outers st1 e2) as [cb st2] eqn:Cb.
    inversion Cm; subst c st'. apply nocap_app in Nc. destruct Nc as [Nca Nc]. apply nocap_app in Nc. destruct Nc as [Ncb _].
    apply xcode_at_app in Hc. destruct Hc as [Hca Hc]. apply xcode_at_app in Hc. destruct Hc as [Hcb Hco].
    apply xcode_at_cons in Hco. destruct Hco as [Hn _].
    destruct (feval f nf e1 s) as [s1 [a|err]] eqn:E1.
    2:{ inversion Ev; subst s' r. intro Nx.
        exact (HE nf e1 s s1 (Er err) env outers pend st ca st1 code clo rest pc t cl E1 Ca Ok1 Nca Ch W Cl Nf Hca Nx). }
    pose proof (HE nf e1 s s1 (Ok a) env outers pend st ca st1 code clo rest pc t cl E1 Ca Ok1 Nca Ch W Cl Nf Hca) as R1.
    cbn beta iota in R1. destruct R1 as (Ev1 & cl1 & R1 & Cl1).
    destruct (feval f nf e2 s1) as [s2 [b|err]] eqn:E2.
    2:{ inversion Ev; subst s' r. intro Nx. eapply mstar_raises; [exact R1|].
        exact (HE nf e2 s1 s2 (Er err) env outers pend st1 cb st2 code clo rest (pc + length ca) (a :: t) cl1 E2 Cb Ok2 Ncb
                  (eev_chain _ _ _ _ _ Ev1 Ch) (eev_wf _ _ Ev1 W) Cl1 Nf Hcb Nx). }
    pose proof (HE nf e2 s1 s2 (Ok b) env outers pend st1 cb st2 code clo rest (pc + length ca) (a :: t) cl1 E2 Cb Ok2 Ncb
                   (eev_chain _ _ _ _ _ Ev1 Ch) (eev_wf _ _ Ev1 W) Cl1 Nf Hcb) as R2.
    cbn beta iota in R2. destruct R2 as (Ev2 & cl2 & R2 & Cl2). lenxi.
    assert (St : step_instr (IOp OpBuildRange) (pc + length ca + length cb) (b :: (a :: t) ++ fvals s2) (ewd s2)
                 = match range_sem (ewd s2) a b with
                   | Ok v => next (pc + length ca + length cb) (v :: t ++ fvals s2) (ewd s2)
                   | Er x => SErr x (ewd s2)
                   end) by reflexivity.
    destruct (range_sem (ewd s2) a b) as [v|err]; inversion Ev; subst s' r.
    + split; [eapply eev_trans; eauto|]. exists cl2. split; [|exact Cl2].
      eapply mstar_trans; [exact R1|]. eapply mstar_trans; [exact R2|].
      replace (pc + (length ca + (length cb + 1))) with (S (pc + length ca + length cb)) by lia.
      apply mstar_one. eapply m_next; [exact Hn|reflexivity|exact St].
    + intros _. eapply mstar_raises; [exact R1|]. eapply mstar_raises; [exact R2|]. apply mraises_here.
      eapply m_err; [exact Hn|reflexivity|exact St].
  - (* ECall *)
    rewrite feval_call in Ev. rewrite xcexpr_call in Cm. xok2 Hok Ok12 Ok3. apply andb_true_iff in Ok12. destruct Ok12 as [Ok1 Ok2].
    destruct (xcexpr env outers st e) as [cf st1] eqn:Cf. destruct (xclist env outers args st1) as [ca st2] eqn:Ca.
    inversion Cm; subst c st'. apply nocap_app in Nc. destruct Nc as [Ncf Nc]. apply nocap_app in Nc. destruct Nc as [Nca _].
    apply xcode_at_app in Hc. destruct Hc as [Hcf Hc]. apply xcode_at_app in Hc. destruct Hc as [Hca Hco].
    apply xcode_at_cons in Hco. destruct Hco as [Hn _].
    destruct (feval f nf e s) as [s1 [vf|err]] eqn:E1.
    2:{ inversion Ev; subst s' r. intro Nx.
        exact (HE nf e s s1 (Er err) env outers pend st cf st1 code clo rest pc t cl E1 Cf Ok1 Ncf Ch W Cl Nf Hcf Nx). }
    pose proof (HE nf e s s1 (Ok vf) env outers pend st cf st1 code clo rest pc t cl E1 Cf Ok1 Ncf Ch W Cl Nf Hcf) as R1.
    cbn beta iota in R1. destruct R1 as (Ev1 & cl1 & R1 & Cl1).
    destruct (fev_list f nf args s1) as [s2 rl] eqn:E2.
    pose proof (fev_list_correct f HE nf args s1 s2 rl env outers pend st1 ca st2 code clo rest (pc + length cf) (vf :: t) cl1
                   E2 Ca Ok2 Nca (eev_chain _ _ _ _ _ Ev1 Ch) (eev_wf _ _ Ev1 W) Cl1 Nf Hca) as R2.
    destruct rl as [vs|err].
    2:{ inversion Ev; subst s' r. intro Nx. eapply mstar_raises; [exact R1|exact (R2 Nx)]. }
    destruct R2 as (Ev2 & L2 & cl2 & R2 & Cl2). lenxi.
    set (pc2 := pc + length cf + length ca) in *.
    replace (pc + (length cf + (length ca + 1))) with (S pc2) by (unfold pc2; lia).
    assert (W2 : wf s2) by (eapply eev_wf; [exact Ev2|eapply eev_wf; eauto]).
    assert (T12 : mstar (cfg code pc (t ++ fvals s) clo rest [] cl (ewd s))
                        (cfg code pc2 (rev vs ++ vf :: t ++ fvals s2) clo rest [] cl2 (ewd s2))).
    { eapply mstar_trans; [exact R1|exact R2]. }
    assert (Hlen : N.to_nat (nlen args) = length vs) by (rewrite nlen_to_nat; lia).
    destruct vf as [| | | | | | | |id nm].
    9:{ destruct (nth_error (eclos s2) (N.to_nat id)) as [c0|] eqn:Hc0.
        2:{ inversion Ev; subst s' r. intros Nx. exfalso. apply Nx. reflexivity. }
        pose proof (call_correct f HE HL nf s2 (VClosure id nm) c0 vs s' r id nm code clo rest pc2 t cl2 (nlen args)
                       Ev eq_refl Hc0 W2 Cl2 Nf Hn Hlen) as R3.
        destruct r as [v|err].
        - destruct R3 as (Ev3 & cl3 & R3 & Cl3). split; [eapply eev_trans; [eapply eev_trans; eauto|exact Ev3]|].
          exists cl3. split; [|exact Cl3]. eapply mstar_trans; [exact T12|exact R3].
        - intro Nx. eapply mstar_raises; [exact T12|exact (R3 Nx)]. }
    all: match type of Ev with context [call_sem _ ?vf0 _] => set (vf := vf0) in * end.
    all: assert (Ncl : forall idx nmx, nth_error (rev vs ++ vf :: t ++ fvals s2) (N.to_nat (nlen args)) <> Some (VClosure idx nmx))
      by (intros idx nmx; rewrite Hlen, <- (rev_length vs), nth_error_app_at; unfold vf; discriminate).
    all: assert (St : step_instr (IOp8 OpCall (nlen args)) pc2 (rev vs ++ (vf :: t) ++ fvals s2) (ewd s2)
                 = match call_sem (ewd s2) vf vs with
                   | Ok (v, w') => next pc2 (v :: t ++ fvals s2) w'
                   | Er x => SErr x (ewd s2)
                   end)
      by (cbn [step_instr step_op8]; rewrite Hlen;
          destruct (take_rev vs ((vf :: t) ++ fvals s2)) as (T1 & T2 & T3); rewrite T2, T3;
          destruct (length (rev vs ++ (vf :: t) ++ fvals s2) <? S (length vs)) eqn:Lt;
            [apply Nat.ltb_lt in Lt; rewrite app_length, rev_length in Lt; cbn [app length] in Lt; lia|reflexivity]).
    all: destruct (call_sem (ewd s2) vf vs) as [[v w']|err]; inversion Ev; subst s' r.
    all: try (split; [eapply eev_trans; [exact Ev1|]; destruct Ev2 as (F2 & L2' & O2); split; [exact F2|split; assumption]|];
              exists cl2; split; [|exact Cl2]; eapply mstar_trans; [exact T12|]; apply mstar_one;
              rewrite (mstep_call_native _ _ _ _ _ _ _ _ _ Hn Ncl); change (rev vs ++ vf :: t ++ fvals s2) with (rev vs ++ (vf :: t) ++ fvals s2);
              rewrite St; reflexivity).
    all: intros _; eapply mstar_raises; [exact T12|]; apply mraises_here;
         rewrite (mstep_call_native _ _ _ _ _ _ _ _ _ Hn Ncl); change (rev vs ++ vf :: t ++ fvals s2) with (rev vs ++ (vf :: t) ++ fvals s2);
         rewrite St; reflexivity.
  - (* EIndex *)
    cbn [feval] in Ev. cbn [xcexpr] in Cm. xok2 Hok Ok1 Ok2.
    destruct (xcexpr env outers st e1) as [ca st1] eqn:Ca. destruct (xcexpr env outers st1 e2) as [cb st2] eqn:Cb.
    inversion Cm; subst c st'. apply nocap_app in Nc. destruct Nc as [Nca Nc]. apply nocap_app in Nc. destruct Nc as [Ncb _].
    apply xcode_at_app in Hc. destruct Hc as [Hca Hc]. apply xcode_at_app in Hc. destruct Hc as [Hcb Hco].
    apply xcode_at_cons in Hco. destruct Hco as [Hn _].
    destruct (feval f nf e1 s) as [s1 [a|err]] eqn:E1.
    2:{ inversion Ev; subst s' r. intro Nx.
        exact (HE nf e1 s s1 (Er err) env outers pend st ca st1 code clo rest pc t cl E1 Ca Ok1 Nca Ch W Cl Nf Hca Nx). }
    pose proof (HE nf e1 s s1 (Ok a) env outers pend st ca st1 code clo rest pc t cl E1 Ca Ok1 Nca Ch W Cl Nf Hca) as R1.
    cbn beta iota in R1. destruct R1 as (Ev1 & cl1 & R1 & Cl1).
    destruct (feval f nf e2 s1) as [s2 [b|err]] eqn:E2.
    2:{ inversion Ev; subst s' r. intro Nx. eapply mstar_raises; [exact R1|].
        exact (HE nf e2 s1 s2 (Er err) env outers pend st1 cb st2 code clo rest (pc + length ca) (a :: t) cl1 E2 Cb Ok2 Ncb
                  (eev_chain _ _ _ _ _ Ev1 Ch) (eev_wf _ _ Ev1 W) Cl1 Nf Hcb Nx). }
    pose proof (HE nf e2 s1 s2 (Ok b) env outers pend st1 cb st2 code clo rest (pc + length ca) (a :: t) cl1 E2 Cb Ok2 Ncb
                   (eev_chain _ _ _ _ _ Ev1 Ch) (eev_wf _ _ Ev1 W) Cl1 Nf Hcb) as R2.
    cbn beta iota in R2. destruct R2 as (Ev2 & cl2 & R2 & Cl2). lenxi.
    assert (St : step_instr (IOp OpGetItem) (pc + length ca + length cb) (b :: (a :: t) ++ fvals s2) (ewd s2)
                 = match get_item (ewd s2) a b with
                   | Ok (v, w') => next (pc + length ca + length cb) (v :: t ++ fvals s2) w'
                   | Er x => SErr x (ewd s2)
                   end) by reflexivity.
    destruct (get_item (ewd s2) a b) as [[v w']|err]; inversion Ev; subst s' r.
    + split; [eapply eev_trans; [exact Ev1|]; destruct Ev2 as (F2 & L2' & O2); split; [exact F2|split; assumption]|].
      exists cl2. split; [|exact Cl2].
      eapply mstar_trans; [exact R1|]. eapply mstar_trans; [exact R2|].
      replace (pc + (length ca + (length cb + 1))) with (S (pc + length ca + length cb)) by lia.
      apply mstar_one. eapply m_next; [exact Hn|reflexivity|exact St].
    + intros _. eapply mstar_raises; [exact R1|]. eapply mstar_raises; [exact R2|]. apply mraises_here.
      eapply m_err; [exact Hn|reflexivity|exact St].
  - (* ESetIndex *)
    cbn [feval] in Ev. cbn [xcexpr] in Cm. xok2 Hok Ok12 Ok3. apply andb_true_iff in Ok12. destruct Ok12 as [Ok1 Ok2].
    destruct (xcexpr env outers st e1) as [ca st1] eqn:Ca. destruct (xcexpr env outers st1 e2) as [cb st2] eqn:Cb.
    destruct (xcexpr env outers st2 e3) as [cc st3] eqn:Cc.
    inversion Cm; subst c st'. apply nocap_app in Nc. destruct Nc as [Nca Nc]. apply nocap_app in Nc. destruct Nc as [Ncb Nc].
    apply nocap_app in Nc. destruct Nc as [Ncc _].
    apply xcode_at_app in Hc. destruct Hc as [Hca Hc]. apply xcode_at_app in Hc. destruct Hc as [Hcb Hc].
    apply xcode_at_app in Hc. destruct Hc as [Hcc Hco]. apply xcode_at_cons in Hco. destruct Hco as [Hn _].
    destruct (feval f nf e1 s) as [s1 [a|err]] eqn:E1.
    2:{ inversion Ev; subst s' r. intro Nx.
        exact (HE nf e1 s s1 (Er err) env outers pend st ca st1 code clo rest pc t cl E1 Ca Ok1 Nca Ch W Cl Nf Hca Nx). }
    pose proof (HE nf e1 s s1 (Ok a) env outers pend st ca st1 code clo rest pc t cl E1 Ca Ok1 Nca Ch W Cl Nf Hca) as R1.
    cbn beta iota in R1. destruct R1 as (Ev1 & cl1 & R1 & Cl1).
    destruct (feval f nf e2 s1) as [s2 [b|err]] eqn:E2.
    2:{ inversion Ev; subst s' r. intro Nx. eapply mstar_raises; [exact R1|].
        exact (HE nf e2 s1 s2 (Er err) env outers pend st1 cb st2 code clo rest (pc + length ca) (a :: t) cl1 E2 Cb Ok2 Ncb
                  (eev_chain _ _ _ _ _ Ev1 Ch) (eev_wf _ _ Ev1 W) Cl1 Nf Hcb Nx). }
    pose proof (HE nf e2 s1 s2 (Ok b) env outers pend st1 cb st2 code clo rest (pc + length ca) (a :: t) cl1 E2 Cb Ok2 Ncb
                   (eev_chain _ _ _ _ _ Ev1 Ch) (eev_wf _ _ Ev1 W) Cl1 Nf Hcb) as R2.
    cbn beta iota in R2. destruct R2 as (Ev2 & cl2 & R2 & Cl2).
    assert (Ev12 : eev s s2) by (eapply eev_trans; eauto).
    destruct (feval f nf e3 s2) as [s3 [v3|err]] eqn:E3.
    2:{ inversion Ev; subst s' r. intro Nx. eapply mstar_raises; [exact R1|]. eapply mstar_raises; [exact R2|].
        exact (HE nf e3 s2 s3 (Er err) env outers pend st2 cc st3 code clo rest (pc + length ca + length cb) (b :: a :: t) cl2 E3 Cc Ok3 Ncc
                  (eev_chain _ _ _ _ _ Ev12 Ch) (eev_wf _ _ Ev12 W) Cl2 Nf Hcc Nx). }
    pose proof (HE nf e3 s2 s3 (Ok v3) env outers pend st2 cc st3 code clo rest (pc + length ca + length cb) (b :: a :: t) cl2 E3 Cc Ok3 Ncc
                   (eev_chain _ _ _ _ _ Ev12 Ch) (eev_wf _ _ Ev12 W) Cl2 Nf Hcc) as R3.
    cbn beta iota in R3. destruct R3 as (Ev3 & cl3 & R3 & Cl3). lenxi.
    set (pc3 := pc + length ca + length cb + length cc) in *.
    assert (St : step_instr (IOp OpSetItem) pc3 (v3 :: (b :: a :: t) ++ fvals s3) (ewd s3)
                 = match set_item (ewd s3) a b v3 with
                   | Ok (v, w') => next pc3 (v :: t ++ fvals s3) w'
                   | Er x => SErr x (ewd s3)
                   end) by reflexivity.
    destruct (set_item (ewd s3) a b v3) as [[v w']|err]; inversion Ev; subst s' r.
    + split; [eapply eev_trans; [exact Ev12|]; destruct Ev3 as (F3 & L3' & O3); split; [exact F3|split; assumption]|].
      exists cl3. split; [|exact Cl3].
      eapply mstar_trans; [exact R1|]. eapply mstar_trans; [exact R2|]. eapply mstar_trans; [exact R3|].
      replace (pc + (length ca + (length cb + (length cc + 1)))) with (S pc3) by (unfold pc3; lia).
      apply mstar_one. eapply m_next; [exact Hn|reflexivity|exact St].
    + intros _. eapply mstar_raises; [exact R1|]. eapply mstar_raises; [exact R2|]. eapply mstar_raises; [exact R3|].
      apply mraises_here. eapply m_err; [exact Hn|reflexivity|exact St].
  - (* ETuple *)
    rewrite feval_tuple in Ev. rewrite xcexpr_tuple in Cm. xok2 Hok Ok1 Ok2.
    destruct (xclist env outers es st) as [ca st1] eqn:Ca. inversion Cm; subst c st'.
    apply nocap_app in Nc. destruct Nc as [Nca _]. apply xcode_at_app in Hc. destruct Hc as [Hca Hco].
    apply xcode_at_cons in Hco. destruct Hco as [Hn _].
    destruct (fev_list f nf es s) as [s1 rl] eqn:E1.
    pose proof (fev_list_correct f HE nf es s s1 rl env outers pend st ca st1 code clo rest pc t cl E1 Ca Ok1 Nca Ch W Cl Nf Hca) as R.
    destruct rl as [vs|err]; [|inversion Ev; subst s' r; exact R].
    destruct R as (Ev1 & L & cl1 & R & Cl1). unfold alloc_tuple in Ev. inversion Ev; subst s' r.
    split; [destruct Ev1 as (F1 & L1' & O1); split; [exact F1|split; assumption]|]. exists cl1. split; [|exact Cl1].
    eapply mstar_trans; [exact R|]. lenxi.
    replace (pc + (length ca + 1)) with (S (pc + length ca)) by lia.
    apply mstar_one. eapply m_next; [exact Hn|reflexivity|].
    cbn [step_instr step_op8]. rewrite nlen_to_nat, <- L.
    destruct (take_rev vs (t ++ fvals s1)) as (T1 & T2 & T3). rewrite T1, T2, T3. reflexivity.
  - (* EVec *)
    rewrite feval_vec in Ev. rewrite xcexpr_vec in Cm. xok2 Hok Ok1 Ok2.
    destruct (xclist env outers es st) as [ca st1] eqn:Ca. inversion Cm; subst c st'.
    apply nocap_app in Nc. destruct Nc as [Nca _]. apply xcode_at_app in Hc. destruct Hc as [Hca Hco].
    apply xcode_at_cons in Hco. destruct Hco as [Hn _].
    destruct (fev_list f nf es s) as [s1 rl] eqn:E1.
    pose proof (fev_list_correct f HE nf es s s1 rl env outers pend st ca st1 code clo rest pc t cl E1 Ca Ok1 Nca Ch W Cl Nf Hca) as R.
    destruct rl as [vs|err]; [|inversion Ev; subst s' r; exact R].
    destruct R as (Ev1 & L & cl1 & R & Cl1). unfold alloc_vec in Ev. inversion Ev; subst s' r.
    split; [destruct Ev1 as (F1 & L1' & O1); split; [exact F1|split; assumption]|]. exists cl1. split; [|exact Cl1].
    eapply mstar_trans; [exact R|]. lenxi.
    replace (pc + (length ca + 1)) with (S (pc + length ca)) by lia.
    apply mstar_one. eapply m_next; [exact Hn|reflexivity|].
    cbn [step_instr step_op8]. rewrite nlen_to_nat, <- L.
    destruct (take_rev vs (t ++ fvals s1)) as (T1 & T2 & T3). rewrite T1, T2, T3. reflexivity.
  - (* ELambda *)
    cbn [feval] in Ev. unfold make_closure in Ev. inversion Ev; subst s' r. clear Ev.
    rewrite xcexpr_lambda in Cm. destruct (bump_lambda st) as [k st0].
    destruct (body_code params body (env :: outers) (push_fn st0)) as [bc st1] eqn:Bc.
    unfold closure_of in Cm. inversion Cm; subst c st'. clear Cm.
    apply nocap_cons in Nc. destruct Nc as [Nc _]. apply nocap_closure in Nc. destruct Nc as [Eu Ncb]. cbn [fo_code] in Ncb.
    assert (Eups : nth 0 (upss st1) [] = []) by (destruct (nth 0 (upss st1) []); [reflexivity|discriminate Eu]).
    rewrite Eups in *. cbn [map length] in *. apply xcode_at_cons in Hc. destruct Hc as [Hn _].
    cbn [xexpr_ok] in Hok. apply andb_true_iff in Hok. destruct Hok as [Hok12 Hok3]. apply andb_true_iff in Hok12. destruct Hok12 as [Hok1 _].
    split; [split; [split; [cbn [ecells]; lia|intros; reflexivity]|split; reflexivity]|].
    exists (cl ++ [mkMClo (mkF (lambda_fname k) (N.of_nat (S (length params))) 0 bc) []]). split.
    + cbn [length]. replace (pc + 1) with (S pc) by lia. apply mstar_one.
      rewrite (mstep_closure_nocap _ _ _ _ _ _ _ _ Hn). unfold shown_name. cbn [fo_name]. rewrite is_lambda_fname.
      rewrite (Forall2_len _ _ _ _ _ Cl). reflexivity.
    + cbn [eclos]. apply Forall2_app; [exact Cl|]. constructor; [|constructor].
      exists (lambda_fname k), (env :: outers), (push_fn st0), (pend_of env pend). cbn [ec_params ec_body ec_env]. rewrite Bc. cbn [fst].
      destruct Ch as (C1 & C2 & C3). repeat split; auto.
      * unfold body_ok. rewrite Hok1. exact Hok3.
      * unfold outer_names. cbn [flat_map]. fold (outer_names outers). unfold lnames. rewrite map_app. rewrite C1, C2. reflexivity.
      * apply pend_cover_cons. exact C3.
Qed.
(* ================================================================== *)
(* statement lists and blocks                                          *)

Lemma env_after'_keeps : forall env x,
  cloop (env_after' env x) = cloop env /\ cdepth (env_after' env x) = cdepth env /\ cpending (env_after' env x) = cpending env
  \/ True.
Proof. intros. right. exact I. Qed.

Lemma env_after'_fields : forall env x,
  cloop (env_after' env x) = cloop env /\ cdepth (env_after' env x) = cdepth env.
Proof.
  intros env x. destruct x; try (split; reflexivity); cbn [env_after'];
    destruct (cdepth env) eqn:D; (split; [reflexivity|]); try exact D; cbn [add_local cdepth]; exact D.
Qed.

Lemma env_inv_after' : forall env x, env_inv env -> env_inv (env_after' env x).
Proof.
  intros env x H. destruct x; try exact H.
  - exact (env_inv_after env (SVar l x init) H).
  - exact (env_inv_after env (SVar l f None) H).
Qed.

Lemma m_pops : forall code k pc stk clo rest cl w,
  xcode_at code pc (xi (pops k)) -> k <= length stk ->
  mstar (cfg code pc stk clo rest [] cl w) (cfg code (pc + k) (skipn k stk) clo rest [] cl w).
Proof.
  intros code k. induction k as [|k IH]; intros pc stk clo rest cl w Hc Le.
  - rewrite Nat.add_0_r. apply mstar_refl.
  - change (pops (S k)) with (IOp OpPop :: pops k) in Hc. apply xcode_at_cons in Hc. destruct Hc as [Hn Hc].
    destruct stk as [|v stk]; [cbn in Le; lia|].
    eapply mstar_step; [eapply m_next; [exact Hn|reflexivity|reflexivity]|].
    replace (pc + S k) with (S pc + k) by lia. cbn [skipn]. apply IH; [exact Hc|cbn in Le; lia].
Qed.

Lemma scope_end_nocap : forall cap total n,
  nocap_code (xi (scope_end_code cap total n)) = true -> scope_end_code cap total n = pops n.
Proof.
  intros cap total n. revert total. induction n as [|n IH]; intros total H; [reflexivity|].
  cbn [scope_end_code] in *. change (pops (S n)) with (IOp OpPop :: pops n).
  unfold xi in H. cbn [map] in H. apply nocap_cons in H. destruct H as [H1 H2].
  destruct (mem_nat (total - 1) cap); [discriminate H1|]. f_equal. apply IH. exact H2.
Qed.

Lemma fvals_leave : forall k s, fvals (leave k s) = skipn (length (elocals s) - k) (fvals s).
Proof.
  intros. unfold fvals, venv, venv_l, vals, leave, set_elocals, keep_last. cbn [elocals].
  rewrite !skipn_map. unfold cell_get. reflexivity.
Qed.

Lemma fvals_length : forall s, length (fvals s) = length (elocals s).
Proof. intros. unfold fvals, venv, venv_l, vals. rewrite !map_length. reflexivity. Qed.

Lemma leave_front : forall s s1 front, elocals s1 = front ++ elocals s -> elocals (leave (length (elocals s)) s1) = elocals s.
Proof.
  intros s s1 front E. unfold leave, set_elocals, keep_last. cbn [elocals]. rewrite E, app_length.
  replace (length front + length (elocals s) - length (elocals s)) with (length front) by lia. apply skipn_len_app.
Qed.

Lemma leave_leave : forall a b s, a <= b -> b <= length (elocals s) -> fvals (leave a (leave b s)) = fvals (leave a s).
Proof.
  intros a b s H1 H2. rewrite (fvals_leave a (leave b s)), (fvals_leave b s), (fvals_leave a s).
  assert (L : length (elocals (leave b s)) = b).
  { unfold leave, set_elocals, keep_last. cbn [elocals]. rewrite skipn_length. lia. }
  rewrite L, skipn_skipn'. f_equal. lia.
Qed.

Lemma NoDup_suffix : forall A (a b : list A), NoDup (a ++ b) -> NoDup b.
Proof. intros A a b H. induction a as [|x a IH]; [exact H|]. inversion H; subst. apply IH. assumption. Qed.

Lemma wf_suffix : forall s front l, elocals s = front ++ l -> wf s -> wf (set_elocals s l).
Proof.
  intros s front l E [ND Bd]. unfold wf, set_elocals. cbn [elocals ecells]. rewrite E in ND, Bd.
  unfold lcells in *. rewrite map_app in ND, Bd. split.
  - eapply NoDup_suffix. exact ND.
  - apply Forall_app in Bd. apply Bd.
Qed.

Lemma sev_leave : forall s s1, sev s s1 -> sev s (leave (length (elocals s)) s1).
Proof.
  intros s s1 (F & O & W & front & E & Fr).
  assert (El : elocals (leave (length (elocals s)) s1) = elocals s) by (eapply leave_front; eauto).
  split; [|split; [|split]].
  - destruct F as [L H]. split; [exact L|]. intros c Hc Hn. apply H; assumption.
  - exact O.
  - assert (Eq : leave (length (elocals s)) s1 = set_elocals s1 (elocals s)).
    { unfold leave. f_equal. unfold leave, set_elocals in El. cbn [elocals] in El. exact El. }
    rewrite Eq. eapply wf_suffix; eauto.
  - exists []. split; [exact El|constructor].
Qed.

Lemma loop_counts' : forall env outers pend s d nl,
  env_inv env -> chain env outers pend s -> cloop env = Some (d, nl) ->
  count_above d (clocals env) + nl = length (elocals s).
Proof.
  intros env outers pend s d nl [_ I2] (C1 & _) CL. rewrite CL in I2. destruct I2 as [_ I2].
  apply (f_equal (@length _)) in C1. unfold lnames in C1. rewrite !map_length in C1. lia.
Qed.

Lemma fold_after'_locals : forall b env, cdepth env <> 0 ->
  length (clocals (fold_left env_after' b env)) = length (clocals env) + count_decls' b.
Proof.
  induction b as [|x r IH]; intros env D; [cbn; lia|]. cbn [fold_left].
  destruct (env_after'_fields env x) as [_ Dx].
  rewrite IH by (rewrite Dx; exact D).
  destruct x; cbn [env_after' count_decls']; try lia;
    destruct (cdepth env) eqn:E; try congruence; cbn [add_local clocals length]; lia.
Qed.

Lemma chain_begin : forall env outers pend s, chain env outers pend s -> chain (begin_scope env) outers pend s.
Proof. intros env outers pend s H. exact H. Qed.

Lemma block_correct : forall f, lspec f ->
  forall nf depth b s s1 o env outers pend st c st' brk cont infn code clo rest pc cl,
    fexec_list f nf (S depth) b s = (s1, o) -> xcblock env outers st brk cont b = (c, st') ->
    xstmts_ok (begin_scope env) pend infn b = true -> nocap_code c = true -> env_inv (begin_scope env) ->
    cdepth env = depth -> chain env outers pend s -> wf s -> Forall2 clo_rel (eclos s) cl -> nf = S (length rest) ->
    xcode_at code pc c -> (forall d nl, cloop env = Some (d, nl) -> cont <= pc) ->
    sresult code clo rest cl pc s (leave (length (elocals s)) s1) o env (length c) brk cont infn
            (fun s' => chain env outers pend s').
Proof.
  intros f HL nf depth b s s1 o env outers pend st c st' brk cont infn code clo rest pc cl Ex Cm Hok Nc Inv Dp Ch W Cl Nf Hc Hcont.
  unfold xcblock in Cm. destruct (xcstmts (begin_scope env) outers st (count_decls' b + brk) cont b) as [cb st1] eqn:Cb.
  inversion Cm; subst c st'. clear Cm. apply nocap_app in Nc. destruct Nc as [Ncb Nce].
  rewrite (scope_end_nocap _ _ _ Nce) in *. apply xcode_at_app in Hc. destruct Hc as [Hcb Hcp].
  assert (Dp' : cdepth (begin_scope env) = S depth) by (cbn; congruence).
  pose proof (HL nf (S depth) b s s1 o (begin_scope env) outers pend st cb st1 (count_decls' b + brk) cont infn code clo rest pc cl
                 Ex Cb Hok Ncb Inv Dp' (chain_begin _ _ _ _ Ch) W Cl Nf Hcb Hcont) as R.
  unfold sresult in *. rewrite app_length, xi_length, pops_length.
  destruct o.
  - destruct R as (Sv & Post & cl1 & R & Cl1).
    pose proof Sv as (F & O & W1 & front & E & Fr).
    assert (Ln : length front = count_decls' b).
    { destruct Post as (P1 & _). apply (f_equal (@length _)) in P1. unfold lnames in P1. rewrite !map_length in P1.
      rewrite fold_after'_locals in P1 by (cbn; congruence). cbn [begin_scope clocals] in P1.
      destruct Ch as (C1 & _). apply (f_equal (@length _)) in C1. unfold lnames in C1. rewrite !map_length in C1.
      rewrite E, app_length in P1. lia. }
    split; [apply sev_leave; exact Sv|]. split.
    + destruct Ch as (C1 & C2 & C3). split; [|split; [|exact C3]].
      * rewrite (leave_front s s1 front E). exact C1.
      * unfold leave, set_elocals. cbn [eouter]. rewrite O. exact C2.
    + exists cl1. split; [|exact Cl1]. eapply mstar_trans; [exact R|].
      rewrite fvals_leave. rewrite E, app_length. replace (length front + length (elocals s) - length (elocals s)) with (count_decls' b) by lia.
      eapply mstar_eq; [apply m_pops; [exact Hcp|rewrite fvals_length, E, app_length; lia]|].
      apply cfg_pc_eq. lia.
  - destruct R as (Sv & d & nl & cl1 & CL & R & Cl1). cbn [begin_scope cloop] in CL.
    pose proof Sv as (F & O & W1 & front & E & Fr).
    split; [apply sev_leave; exact Sv|]. exists d, nl, cl1. split; [exact CL|]. split; [|exact Cl1].
    rewrite leave_leave; [|pose proof (loop_counts' _ _ _ _ _ _ (proj1 (conj Inv I)) (chain_begin _ _ _ _ Ch) CL); lia|rewrite E, app_length; lia].
    eapply mstar_eq; [exact R|]. apply cfg_pc_eq. lia.
  - destruct R as (Sv & d & nl & cl1 & CL & R & Cl1). cbn [begin_scope cloop] in CL.
    pose proof Sv as (F & O & W1 & front & E & Fr).
    split; [apply sev_leave; exact Sv|]. exists d, nl, cl1. split; [exact CL|]. split; [|exact Cl1].
    rewrite leave_leave; [|pose proof (loop_counts' _ _ _ _ _ _ (proj1 (conj Inv I)) (chain_begin _ _ _ _ Ch) CL); lia|rewrite E, app_length; lia].
    exact R.
  - destruct R as (Hin & F & R). split; [exact Hin|]. split; [|exact R].
    destruct F as [L H]. split; [exact L|]. intros c0 Hc0 Hn. apply H; assumption.
  - exact R.
  - exact I.
Qed.
Lemma sev_fc : forall s s', sev s s' -> fc s s'.
Proof. intros s s' H. apply H. Qed.

Lemma fc_sev_trans : forall s s1 s2, sev s s1 -> fc s1 s2 -> fc s s2.
Proof. intros s s1 s2 (F & O & W & front & E & Fr) F2. eapply fc_trans; eauto. Qed.

Lemma list_step : forall f, sspec f -> lspec f -> lspec (S f).
Proof.
  intros f HS HL nf depth b s s' o env outers pend st c st' brk cont infn code clo rest pc cl Ex Cm Hok Nc Inv Dp Ch W Cl Nf Hc Hcont.
  destruct b as [|x r].
  - cbn [fexec_list] in Ex. cbn [xcstmts] in Cm. inversion Ex; subst. inversion Cm; subst. unfold sresult. cbn [length fold_left].
    rewrite Nat.add_0_r. split; [apply sev_refl; exact W|]. split; [exact Ch|]. exists cl. split; [apply mstar_refl|exact Cl].
  - cbn [fexec_list] in Ex. cbn [xcstmts xstmts_ok] in Cm, Hok. apply andb_true_iff in Hok. destruct Hok as [Ok1 Ok2].
    destruct (xcstmt env outers st (xslens (env_after' env x) outers r + brk) cont x) as [c1 st1] eqn:C1.
    destruct (xcstmts (env_after' env x) outers st1 brk (cont + xslen env outers x) r) as [c2 st2] eqn:C2.
    inversion Cm; subst c st'. clear Cm. apply nocap_app in Nc. destruct Nc as [Nc1 Nc2].
    apply xcode_at_app in Hc. destruct Hc as [Hc1 Hc2].
    pose proof (xslen_of _ _ _ _ _ _ _ _ C1) as L1. pose proof (slens_len _ _ _ _ _ _ _ _ C2) as L2.
    destruct (fexec f nf depth x s) as [s1 o1] eqn:E1.
    pose proof (HS nf depth x s s1 o1 env outers pend st c1 st1 _ cont infn code clo rest pc cl
                   E1 C1 Ok1 Nc1 Inv Dp Ch W Cl Nf Hc1 Hcont) as R1.
    destruct (env_after'_fields env x) as [KL KD]. unfold sresult in *. rewrite app_length. cbn [fold_left].
    destruct o1; try (inversion Ex; subst s' o).
    + destruct R1 as (Sv1 & Ch1 & cl1 & R1 & Cl1).
      assert (Hcont' : forall d nl, cloop (env_after' env x) = Some (d, nl) -> cont + xslen env outers x <= pc + length c1).
      { intros d nl Hl. rewrite KL in Hl. specialize (Hcont d nl Hl). lia. }
      pose proof (HL nf depth r s1 s' o (env_after' env x) outers pend st1 c2 st2 brk (cont + xslen env outers x) infn code clo rest (pc + length c1) cl1
                     Ex C2 Ok2 Nc2 (env_inv_after' _ _ Inv) (eq_trans KD Dp) Ch1 (proj1 (proj2 (proj2 Sv1))) Cl1 Nf Hc2 Hcont') as R2.
      unfold sresult in R2. destruct o.
      * destruct R2 as (Sv2 & Ch2 & cl2 & R2 & Cl2). split; [eapply sev_trans; eauto|]. split; [exact Ch2|].
        exists cl2. split; [|exact Cl2]. eapply mstar_trans; [exact R1|]. eapply mstar_eq; [exact R2|]. apply cfg_pc_eq; lia.
      * destruct R2 as (Sv2 & d & nl & cl2 & CL & R2 & Cl2). split; [eapply sev_trans; eauto|]. exists d, nl, cl2.
        split; [rewrite <- KL; exact CL|]. split; [|exact Cl2].
        eapply mstar_trans; [exact R1|]. eapply mstar_eq; [exact R2|]. apply cfg_pc_eq; lia.
      * destruct R2 as (Sv2 & d & nl & cl2 & CL & R2 & Cl2). split; [eapply sev_trans; eauto|]. exists d, nl, cl2.
        split; [rewrite <- KL; exact CL|]. split; [|exact Cl2].
        eapply mstar_trans; [exact R1|]. eapply mstar_eq; [exact R2|]. apply cfg_pc_eq; lia.
      * destruct R2 as (Hin & F2 & R2). split; [exact Hin|]. split; [eapply fc_sev_trans; eauto|].
        intros caller rest0 Er. destruct (R2 caller rest0 Er) as (cl2 & R2' & Cl2). exists cl2. split; [|exact Cl2].
        eapply mstar_trans; [exact R1|exact R2'].
      * intro Nx. eapply mstar_raises; [exact R1|exact (R2 Nx)].
      * exact I.
    + destruct R1 as (Sv1 & d & nl & cl1 & CL & R1 & Cl1). split; [exact Sv1|]. exists d, nl, cl1. split; [exact CL|]. split; [|exact Cl1].
      eapply mstar_eq; [exact R1|]. apply cfg_pc_eq; lia.
    + exact R1.
    + exact R1.
    + exact R1.
    + exact I.
Qed.

(* ================================================================== *)
(* statements: one more unit of fuel                                   *)

Lemma sev_declare : forall s x v, wf s -> sev s (declare_local s x v).
Proof.
  intros s x v W. destruct (declare_local_spec s x v W) as (E1 & E2 & E3 & E4 & E5 & W1 & F1 & O1).
  split; [|split; [exact E3|split; [exact W1|]]].
  - split; [rewrite E2, app_length; lia|]. intros c Hc _. apply O1. exact Hc.
  - exists [(x, N.of_nat (length (ecells s)))]. split; [exact E1|]. constructor; [cbn; rewrite Nat2N.id; lia|constructor].
Qed.

Lemma new_clo_rel : forall env1 outers pend s1 ps b nm stx bc st1,
  chain env1 outers pend s1 -> body_ok ps (pend_of env1 pend) b = true ->
  body_code ps b (env1 :: outers) stx = (bc, st1) -> nocap_code bc = true ->
  clo_rel (mkEClo ps b (elocals s1 ++ eouter s1)) (mkMClo (mkF nm (N.of_nat (S (length ps))) 0 bc) []).
Proof.
  intros env1 outers pend s1 ps b nm stx bc st1 (C1 & C2 & C3) Bok Bc Ncb.
  exists nm, (env1 :: outers), stx, (pend_of env1 pend). cbn [ec_params ec_body ec_env]. rewrite Bc. cbn [fst].
  repeat split; auto.
  - unfold outer_names. cbn [flat_map]. fold (outer_names outers). unfold lnames. rewrite map_app. rewrite C1, C2. reflexivity.
  - apply pend_cover_cons. exact C3.
Qed.

Lemma closure_nocap : forall nm ps bc st1 ins st2,
  closure_of nm ps bc st1 = (ins, st2) -> nocap_instr ins = true ->
  ins = XClosure (mkF nm (N.of_nat (S (length ps))) 0 bc) [] /\ nocap_code bc = true.
Proof.
  intros nm ps bc st1 ins st2 H Nc. unfold closure_of in H. inversion H; subst ins st2. clear H.
  apply nocap_closure in Nc. destruct Nc as [Eu Ncb]. cbn [fo_code] in Ncb. split; [|exact Ncb].
  destruct (nth 0 (upss st1) []); [reflexivity|discriminate Eu].
Qed.

Lemma fvals_closure_added : forall s c, fvals (mkE (elocals s) (eouter s) (ecells s) (eclos s ++ [c]) (ewd s)) = fvals s.
Proof. reflexivity. Qed.

Lemma leave_exact : forall s1 s2', sev s1 (leave (length (elocals s1)) s2') ->
  elocals (leave (length (elocals s1)) s2') = elocals s1.
Proof.
  intros s1 s2' (_ & _ & _ & front & E & _). rewrite E. destruct front as [|p front]; [reflexivity|].
  exfalso. apply (f_equal (@length _)) in E. unfold leave, set_elocals, keep_last in E. cbn [elocals] in E.
  rewrite skipn_length, app_length in E. cbn [length] in E. lia.
Qed.

Lemma stmt_step : forall f, espec f -> sspec f -> lspec f -> sspec (S f).
Proof.
  intros f HE HS HL nf depth stm s s' o env outers pend st c st' brk cont infn code clo rest pc cl
         Ex Cm Hok Nc Inv Dp Ch W Cl Nf Hc Hcont.
  pose proof (block_correct f HL) as HB.
  destruct stm; try discriminate Hok.
  - (* SExpr *)
    cbn [fexec] in Ex. cbn [xcstmt xstmt_ok] in Cm, Hok. destruct (xcexpr env outers st e) as [ce st1] eqn:Ce.
    inversion Cm; subst c st'. apply nocap_app in Nc. destruct Nc as [Nce _].
    apply xcode_at_app in Hc. destruct Hc as [Hce Hcp]. apply xcode_at_cons in Hcp. destruct Hcp as [Hn _].
    destruct (feval f nf e s) as [s1 r] eqn:E1.
    pose proof (HE nf e s s1 r env outers pend st ce st1 code clo rest pc [] cl E1 Ce Hok Nce Ch W Cl Nf Hce) as R.
    cbn [app] in R. unfold sresult. destruct r as [v|xe]; inversion Ex; subst s' o; [|exact R].
    destruct R as (Ev1 & cl1 & R & Cl1). split; [apply eev_sev; assumption|]. split; [eapply eev_chain; eauto|].
    exists cl1. split; [|exact Cl1]. eapply mstar_trans; [exact R|]. lenxi.
    replace (pc + (length ce + 1)) with (S (pc + length ce)) by lia.
    apply mstar_one. eapply m_next; [exact Hn|reflexivity|reflexivity].
  - (* SVar *)
    cbn [fexec] in Ex. cbn [xcstmt xstmt_ok env_after'] in *. unfold sresult. rewrite Dp in *.
    destruct depth as [|depth'].
    + (* global *)
      set (ci := match init with Some e => xcexpr env outers st e | None => (xi [IOp OpNil], st) end) in Cm.
      destruct ci as [cc st1] eqn:Ci. inversion Cm; subst c st'. clear Cm.
      apply nocap_cons in Nc. destruct Nc as [_ Nc]. apply nocap_app in Nc. destruct Nc as [Nci _].
      apply xcode_at_cons in Hc. destruct Hc as [Hn0 Hc]. apply xcode_at_app in Hc. destruct Hc as [Hci Hcd].
      apply xcode_at_cons in Hcd. destruct Hcd as [Hn _].
      assert (T0 : mstar (cfg code pc (fvals s) clo rest [] cl (ewd s)) (cfg code (S pc) (fvals s) clo rest [] cl (ewd s))).
      { apply mstar_one. eapply m_next; [exact Hn0|reflexivity|reflexivity]. }
      assert (R : match (match init with Some e => feval f nf e s | None => (s, Ok VNil) end) with
                  | (s1, Ok v) => eev s s1 /\ exists cl1, mstar (cfg code (S pc) (fvals s) clo rest [] cl (ewd s))
                                     (cfg code (S pc + length cc) (v :: fvals s1) clo rest [] cl1 (ewd s1)) /\ Forall2 clo_rel (eclos s1) cl1
                  | (s1, Er xe) => xe <> Unsupported -> mraises (cfg code (S pc) (fvals s) clo rest [] cl (ewd s)) xe (ewd s1)
                  end).
      { destruct init as [e|]; unfold ci in Ci.
        - destruct (feval f nf e s) as [s1 r] eqn:E1.
          exact (HE nf e s s1 r env outers pend st cc st1 code clo rest (S pc) [] cl E1 Ci Hok Nci Ch W Cl Nf Hci).
        - inversion Ci; subst cc st1. apply xcode_at_cons in Hci. destruct Hci as [Hn1 _].
          split; [apply eev_refl|]. exists cl. split; [|exact Cl]. eapply m_push; [exact Hn1|reflexivity|reflexivity]. }
      destruct (match init with Some e => feval f nf e s | None => (s, Ok VNil) end) as [s1 [v|xe]]; inversion Ex; subst s' o.
      * destruct R as (Ev1 & cl1 & R & Cl1).
        split; [apply eev_sev; [|exact W]; destruct Ev1 as (F1 & L1 & O1); split; [exact F1|split; assumption]|].
        split; [destruct (eev_chain _ _ _ _ _ Ev1 Ch) as (A & B & C); split; [exact A|split; assumption]|].
        exists cl1. split; [|exact Cl1]. eapply mstar_trans; [exact T0|]. eapply mstar_trans; [exact R|].
        rewrite length_cons. lenxi. replace (pc + S (length cc + 1)) with (S (S pc + length cc)) by lia.
        apply mstar_one. eapply m_next; [exact Hn|reflexivity|reflexivity].
      * intro Nx. eapply mstar_raises; [exact T0|exact (R Nx)].
    + (* local *)
      apply andb_true_iff in Hok. destruct Hok as [_ Hok].
      assert (Chp : chain (with_pending env x) outers pend s) by exact Ch.
      assert (R : match (match init with Some e => feval f nf e s | None => (s, Ok VNil) end) with
                  | (s1, Ok v) => eev s s1 /\ exists cl1, mstar (cfg code pc (fvals s) clo rest [] cl (ewd s))
                                     (cfg code (pc + length c) (v :: fvals s1) clo rest [] cl1 (ewd s1)) /\ Forall2 clo_rel (eclos s1) cl1
                  | (s1, Er x0) => x0 <> Unsupported -> mraises (cfg code pc (fvals s) clo rest [] cl (ewd s)) x0 (ewd s1)
                  end).
      { destruct init as [e|].
        - destruct (feval f nf e s) as [s1 r] eqn:E1.
          exact (HE nf e s s1 r (with_pending env x) outers pend st c st' code clo rest pc [] cl E1 Cm Hok Nc Chp W Cl Nf Hc).
        - inversion Cm; subst c st'. apply xcode_at_cons in Hc. destruct Hc as [Hn1 _].
          split; [apply eev_refl|]. exists cl. split; [|exact Cl]. eapply m_push; [exact Hn1|reflexivity|reflexivity]. }
      destruct (match init with Some e => feval f nf e s | None => (s, Ok VNil) end) as [s1 [v|x0]]; inversion Ex; subst s' o.
      * destruct R as (Ev1 & cl1 & R & Cl1). pose proof (eev_wf _ _ Ev1 W) as W1.
        destruct (declare_local_spec s1 x v W1) as (E1 & E2 & E3 & E4 & E5 & W2 & F1 & O1).
        split; [eapply sev_trans; [apply eev_sev; eassumption|apply sev_declare; exact W1]|]. split.
        -- destruct (eev_chain _ _ _ _ _ Ev1 Ch) as (A & B & C). split; [|split; [rewrite E3; exact B|exact C]].
           rewrite E1. cbn [add_local clocals map fst lnames]. f_equal. exact A.
        -- exists cl1. split; [|rewrite E4; exact Cl1]. rewrite F1, E5. exact R.
      * exact R.
  - (* SFn *)
    cbn [fexec] in Ex. rewrite xcstmt_fn in Cm. cbv zeta in Cm. cbn [xstmt_ok env_after'] in *. unfold sresult. rewrite Dp in *.
    destruct depth as [|depth'].
    + (* global *)
      apply andb_true_iff in Hok. destruct Hok as [Hok Hb]. apply andb_true_iff in Hok. destruct Hok as [Hok Hl].
      apply andb_true_iff in Hok. destruct Hok as [Hok Hnd]. apply andb_true_iff in Hok. destruct Hok as [_ Hnl].
      apply negb_true_iff in Hnl.
      destruct (body_code params (LBlock body) (env :: outers) (push_fn st)) as [bc st1] eqn:Bc.
      destruct (closure_of f0 params bc st1) as [ins st2] eqn:Co. inversion Cm; subst c st'. clear Cm.
      apply nocap_cons in Nc. destruct Nc as [_ Nc]. apply nocap_cons in Nc. destruct Nc as [Nci _].
      destruct (closure_nocap _ _ _ _ _ _ Co Nci) as [Ei Ncb]. subst ins.
      apply xcode_at_cons in Hc. destruct Hc as [Hn0 Hc]. apply xcode_at_cons in Hc. destruct Hc as [Hn1 Hc].
      apply xcode_at_cons in Hc. destruct Hc as [Hn2 _].
      unfold make_closure in Ex. inversion Ex; subst s' o. clear Ex.
      split; [|split].
      * unfold set_ewd. cbn [elocals eouter ecells eclos ewd].
        split; [split; [cbn [ecells]; lia|intros; reflexivity]|]. split; [reflexivity|]. split; [exact W|]. exists []. split; [reflexivity|constructor].
      * exact Ch.
      * exists (cl ++ [mkMClo (mkF f0 (N.of_nat (S (length params))) 0 bc) []]). split.
        -- eapply mstar_step; [eapply m_next; [exact Hn0|reflexivity|reflexivity]|].
           eapply mstar_step; [rewrite (mstep_closure_nocap _ _ _ _ _ _ _ _ Hn1); reflexivity|].
           cbn [length]. replace (pc + 3) with (S (S (S pc))) by lia. apply mstar_one.
           eapply m_next; [exact Hn2|reflexivity|]. unfold shown_name. cbn [fo_name]. rewrite Hnl.
           rewrite (Forall2_len _ _ _ _ _ Cl). reflexivity.
        -- cbn [eclos set_ewd]. apply Forall2_app; [exact Cl|]. constructor; [|constructor].
           eapply new_clo_rel; [exact Ch| |exact Bc|exact Ncb]. unfold body_ok. rewrite Hnd. exact Hb.
    + (* local: the name is a local of the enclosing function before the body is compiled *)
      apply andb_true_iff in Hok. destruct Hok as [Hok Hb]. apply andb_true_iff in Hok. destruct Hok as [Hok Hl].
      apply andb_true_iff in Hok. destruct Hok as [Hok Hnd]. apply andb_true_iff in Hok. destruct Hok as [_ Hnl].
      apply negb_true_iff in Hnl.
      destruct (body_code params (LBlock body) (add_local env f0 :: outers) (push_fn st)) as [bc st1] eqn:Bc.
      destruct (closure_of f0 params bc st1) as [ins st2] eqn:Co. inversion Cm; subst c st'. clear Cm.
      apply nocap_cons in Nc. destruct Nc as [Nci _].
      destruct (closure_nocap _ _ _ _ _ _ Co Nci) as [Ei Ncb]. subst ins.
      apply xcode_at_cons in Hc. destruct Hc as [Hn1 _].
      destruct (declare_local_spec s f0 VNil W) as (E1 & E2 & E3 & E4 & E5 & W1 & F1 & O1).
      set (s1 := declare_local s f0 VNil) in *. unfold make_closure in Ex. rewrite E1 in Ex. cbn [elocals] in Ex.
      inversion Ex; subst s' o. clear Ex.
      set (cfn := N.of_nat (length (ecells s))) in *.
      set (vcl := VClosure (N.of_nat (length (eclos s1))) f0).
      set (s2 := mkE ((f0, cfn) :: elocals s) (eouter s1) (ecells s1) (eclos s1 ++ [mkEClo params (LBlock body) (((f0, cfn) :: elocals s) ++ eouter s1)]) (ewd s1)).
      repeat match goal with |- context [cell_set ?X cfn ?V] =>
        first [constr_eq X s2; fail 1 | change X with s2] end.
      repeat match goal with |- context [cell_set s2 cfn ?V] =>
        first [constr_eq V vcl; fail 1 | change V with vcl] end.
      assert (Hcell : N.to_nat cfn < length (ecells s2)).
      { unfold s2. cbn [ecells]. rewrite E2, app_length. unfold cfn. rewrite Nat2N.id. cbn [length]. lia. }
      assert (Chs1 : chain (add_local env f0) outers pend s1).
      { destruct Ch as (A & B & C). split; [|split; [rewrite E3; exact B|exact C]].
        rewrite E1. cbn [add_local clocals map fst lnames]. f_equal. exact A. }
      assert (Fv : fvals (cell_set s2 cfn vcl) = vcl :: fvals s).
      { unfold fvals, venv, venv_l, vals. cbn [elocals cell_set s2 map fst snd]. f_equal.
        - apply cell_get_set_eq. exact Hcell.
        - rewrite !map_map. apply map_ext_in. intros [z cz] Hin. cbn [fst snd].
          rewrite cell_get_set_neq.
          + unfold cell_get. cbn [ecells s2]. rewrite E2. apply app_nth1.
            destruct W as [_ Bd]. rewrite Forall_forall in Bd. apply Bd. apply in_map_iff. exists (z, cz). auto.
          + intro Eq. destruct W as [_ Bd]. rewrite Forall_forall in Bd.
            assert (Hb' : N.to_nat cz < length (ecells s)) by (apply Bd; apply in_map_iff; exists (z, cz); auto).
            subst cz. unfold cfn in Hb'. rewrite Nat2N.id in Hb'. lia. }
      split; [|split].
      * (* sev *)
        split; [|split; [exact E3|split]].
        -- split; [cbn [ecells cell_set s2]; rewrite set_nth_length, E2, app_length; lia|].
           intros c0 Hc0 _. rewrite cell_get_set_neq; [|intro Eq; subst c0; unfold cfn in Hc0; rewrite Nat2N.id in Hc0; lia].
           unfold cell_get. cbn [ecells s2]. rewrite E2. apply app_nth1. exact Hc0.
        -- destruct W1 as [ND Bd]. rewrite E1 in ND, Bd. split; cbn [elocals cell_set s2 ecells]; [exact ND|].
           rewrite set_nth_length. exact Bd.
        -- exists [(f0, cfn)]. split; [reflexivity|]. constructor; [cbn; unfold cfn; rewrite Nat2N.id; lia|constructor].
      * destruct Chs1 as (A & B & C). split; [|split; [exact B|exact C]]. rewrite E1 in A. exact A.
      * exists (cl ++ [mkMClo (mkF f0 (N.of_nat (S (length params))) 0 bc) []]). split.
        -- cbn [length]. replace (pc + 1) with (S pc) by lia. apply mstar_one.
           rewrite (mstep_closure_nocap _ _ _ _ _ _ _ _ Hn1). unfold shown_name. cbn [fo_name]. rewrite Hnl.
           rewrite Fv. unfold vcl. rewrite E4, (Forall2_len _ _ _ _ _ Cl). cbn [ewd cell_set s2]. rewrite E5. reflexivity.
        -- cbn [eclos cell_set s2]. rewrite E4. apply Forall2_app; [exact Cl|]. constructor; [|constructor].
           rewrite <- E1.
           eapply new_clo_rel; [exact Chs1| |exact Bc|exact Ncb]. unfold body_ok. rewrite Hnd. exact Hb.
  - (* SBlock *)
    cbn [fexec] in Ex. rewrite xcstmt_block in Cm. cbn [env_after']. destruct (fexec_list f nf (S depth) b s) as [s1 o1] eqn:E1.
    inversion Ex; subst s' o.
    assert (Hok' : xstmts_ok (begin_scope env) pend infn b = true) by exact Hok.
    exact (HB nf depth b s s1 o1 env outers pend st c st' brk cont infn code clo rest pc cl E1 Cm Hok' Nc (env_inv_begin _ Inv) Dp Ch W Cl Nf Hc Hcont).
  - (* SIf *)
    cbn [fexec] in Ex. rewrite xcstmt_if in Cm. cbv zeta in Cm. cbn [env_after']. unfold sresult.
    assert (Hok' : xexpr_ok env pend c0 && xstmts_ok (begin_scope env) pend infn t &&
                   match e with Some s'0 => match s'0 with SBlock _ _ | SIf _ _ _ _ => xstmt_ok env pend infn s'0 | _ => false end | None => true end = true) by exact Hok.
    clear Hok. apply andb_true_iff in Hok'. destruct Hok' as [Ok12 Ok3]. apply andb_true_iff in Ok12. destruct Ok12 as [Ok1 Ok2].
    destruct (xcexpr env outers st c0) as [cc st1] eqn:Cc.
    set (tl := xblen env outers t) in *. set (el := match e with Some s'0 => xslen env outers s'0 | None => 0 end) in *.
    destruct (xcblock env outers st1 (2 + el + brk) (cont + length cc + 2) t) as [ct st2] eqn:Ct.
    destruct (match e with Some s'0 => xcstmt env outers st2 brk (cont + length cc + 2 + tl + 2) s'0 | None => ([], st2) end) as [ce st3] eqn:Ce.
    inversion Cm; subst c st'. clear Cm.
    pose proof (blen_len _ _ _ _ _ _ _ _ Ct) as Lt. fold tl in Lt.
    assert (Le : length ce = el).
    { unfold el. destruct e as [s2|]; [eapply xslen_of; exact Ce|inversion Ce; reflexivity]. }
    apply nocap_app in Nc. destruct Nc as [Ncc Nc]. apply nocap_cons in Nc. destruct Nc as [_ Nc]. apply nocap_cons in Nc. destruct Nc as [_ Nc].
    apply nocap_app in Nc. destruct Nc as [Nct Nc]. apply nocap_cons in Nc. destruct Nc as [_ Nc]. apply nocap_cons in Nc. destruct Nc as [_ Nce].
    apply xcode_at_app in Hc. destruct Hc as [Hcc Hc]. apply xcode_at_cons in Hc. destruct Hc as [Hj Hc].
    apply xcode_at_cons in Hc. destruct Hc as [Hp Hc]. apply xcode_at_app in Hc. destruct Hc as [Hct Hc]. rewrite Lt in Hc.
    apply xcode_at_cons in Hc. destruct Hc as [Hj2 Hc]. apply xcode_at_cons in Hc. destruct Hc as [Hp2 Hce].
    assert (Ltot : length (cc ++ XI (IJump OpJumpIfFalse (tl + 2)) :: XI (IOp OpPop) :: ct ++ XI (IJump OpJump (S el)) :: XI (IOp OpPop) :: ce)
                   = length cc + 2 + tl + 2 + el).
    { rewrite app_length, !length_cons, app_length, !length_cons. lia. }
    rewrite Ltot.
    destruct (feval f nf c0 s) as [s1 rc] eqn:E1.
    pose proof (HE nf c0 s s1 rc env outers pend st cc st1 code clo rest pc [] cl E1 Cc Ok1 Ncc Ch W Cl Nf Hcc) as R1. cbn [app] in R1.
    destruct rc as [v|x]; [|inversion Ex; subst s' o; exact R1].
    destruct R1 as (Ev1 & cl1 & R1 & Cl1). pose proof (eev_chain _ _ _ _ _ Ev1 Ch) as Ch1. pose proof (eev_wf _ _ Ev1 W) as W1.
    pose proof (eev_sev _ _ Ev1 W) as Sv1.
    destruct (truthy v) eqn:Tv.
    + assert (T : mstar (cfg code pc (fvals s) clo rest [] cl (ewd s)) (cfg code (S (S (pc + length cc))) (fvals s1) clo rest [] cl1 (ewd s1))).
      { eapply mstar_trans; [exact R1|].
        eapply mstar_step; [eapply m_next; [exact Hj|reflexivity|cbn [step_instr]; rewrite Tv; reflexivity]|].
        apply mstar_one. eapply m_next; [exact Hp|reflexivity|reflexivity]. }
      assert (Hcont' : forall d nl, cloop env = Some (d, nl) -> cont + length cc + 2 <= S (S (pc + length cc))).
      { intros d nl CL. specialize (Hcont d nl CL). lia. }
      destruct (fexec_list f nf (S depth) t s1) as [s2 o2] eqn:E2. inversion Ex; subst s' o. clear Ex.
      pose proof (HB nf depth t s1 s2 o2 env outers pend st1 ct st2 _ _ infn code clo rest _ cl1 E2 Ct Ok2 Nct (env_inv_begin _ Inv) Dp Ch1 W1 Cl1 Nf Hct Hcont') as R2.
      unfold sresult in R2. rewrite Lt in R2. destruct o2.
      * destruct R2 as (Sv2 & Ch2 & cl2 & R2 & Cl2). split; [eapply sev_trans; eauto|]. split; [exact Ch2|].
        exists cl2. split; [|exact Cl2]. eapply mstar_trans; [exact T|]. eapply mstar_trans; [exact R2|].
        apply mstar_one. rewrite (m_next _ _ _ _ _ _ _ _ _ (S (S (S (pc + length cc)) + tl) + S el) (fvals (leave (length (elocals s1)) s2)) (ewd (leave (length (elocals s1)) s2)) Hj2 eq_refl eq_refl).
        f_equal. apply cfg_pc_eq; lia.
      * destruct R2 as (Sv2 & d & nl & cl2 & CL & R2 & Cl2). split; [eapply sev_trans; eauto|]. exists d, nl, cl2.
        split; [exact CL|]. split; [|exact Cl2]. eapply mstar_trans; [exact T|]. eapply mstar_eq; [exact R2|]. apply cfg_pc_eq; lia.
      * destruct R2 as (Sv2 & d & nl & cl2 & CL & R2 & Cl2). split; [eapply sev_trans; eauto|]. exists d, nl, cl2.
        split; [exact CL|]. split; [|exact Cl2]. eapply mstar_trans; [exact T|]. eapply mstar_eq; [exact R2|].
        apply cfg_pc_eq. specialize (Hcont d nl CL). lia.
      * destruct R2 as (Hin & F2 & R2). split; [exact Hin|]. split; [eapply fc_sev_trans; eauto|].
        intros caller rest0 Er. destruct (R2 caller rest0 Er) as (cl2 & R2' & Cl2). exists cl2. split; [|exact Cl2].
        eapply mstar_trans; [exact T|exact R2'].
      * intro Nx. eapply mstar_raises; [exact T|exact (R2 Nx)].
      * exact I.
    + assert (T : mstar (cfg code pc (fvals s) clo rest [] cl (ewd s))
                        (cfg code (S (S (S (S (pc + length cc)) + tl))) (fvals s1) clo rest [] cl1 (ewd s1))).
      { eapply mstar_trans; [exact R1|].
        eapply mstar_step; [eapply m_next; [exact Hj|reflexivity|cbn [step_instr]; rewrite Tv; reflexivity]|].
        replace (S (pc + length cc) + (tl + 2)) with (S (S (S (pc + length cc)) + tl)) by lia.
        apply mstar_one. eapply m_next; [exact Hp2|reflexivity|reflexivity]. }
      destruct e as [s2|].
      * assert (Ok3' : xstmt_ok env pend infn s2 = true) by (destruct s2; try discriminate Ok3; exact Ok3).
        assert (EA : env_after' env s2 = env) by (destruct s2; try discriminate Ok3; reflexivity).
        assert (Hcont' : forall d nl, cloop env = Some (d, nl) -> cont + length cc + 2 + tl + 2 <= S (S (S (S (pc + length cc)) + tl))).
        { intros d nl CL. specialize (Hcont d nl CL). lia. }
        pose proof (HS nf depth s2 s1 s' o env outers pend st2 ce st3 brk _ infn code clo rest _ cl1 Ex Ce Ok3' Nce Inv Dp Ch1 W1 Cl1 Nf Hce Hcont') as R2.
        unfold sresult in R2. rewrite EA, Le in R2. destruct o.
        -- destruct R2 as (Sv2 & Ch2 & cl2 & R2 & Cl2). split; [eapply sev_trans; eauto|]. split; [exact Ch2|].
           exists cl2. split; [|exact Cl2]. eapply mstar_trans; [exact T|]. eapply mstar_eq; [exact R2|]. apply cfg_pc_eq; lia.
        -- destruct R2 as (Sv2 & d & nl & cl2 & CL & R2 & Cl2). split; [eapply sev_trans; eauto|]. exists d, nl, cl2.
           split; [exact CL|]. split; [|exact Cl2]. eapply mstar_trans; [exact T|]. eapply mstar_eq; [exact R2|]. apply cfg_pc_eq; lia.
        -- destruct R2 as (Sv2 & d & nl & cl2 & CL & R2 & Cl2). split; [eapply sev_trans; eauto|]. exists d, nl, cl2.
           split; [exact CL|]. split; [|exact Cl2]. eapply mstar_trans; [exact T|]. eapply mstar_eq; [exact R2|].
           apply cfg_pc_eq. specialize (Hcont d nl CL). lia.
        -- destruct R2 as (Hin & F2 & R2). split; [exact Hin|]. split; [eapply fc_sev_trans; eauto|].
           intros caller rest0 Er. destruct (R2 caller rest0 Er) as (cl2 & R2' & Cl2). exists cl2. split; [|exact Cl2].
           eapply mstar_trans; [exact T|exact R2'].
        -- intro Nx. eapply mstar_raises; [exact T|exact (R2 Nx)].
        -- exact I.
      * inversion Ex; subst s' o. split; [exact Sv1|]. split; [exact Ch1|]. exists cl1. split; [|exact Cl1].
        eapply mstar_eq; [exact T|]. apply cfg_pc_eq. unfold el. lia.
  - (* SWhile *)
    pose proof Hok as HokW. pose proof Cm as CmW. pose proof Hc as HcW. pose proof Nc as NcW.
    cbn [fexec] in Ex. rewrite xcstmt_while in Cm. cbv zeta in Cm. cbn [env_after']. unfold sresult.
    assert (Hok' : xexpr_ok env pend c0 && xstmts_ok (begin_scope (push_loop env)) pend infn b = true) by exact Hok.
    clear Hok. apply andb_true_iff in Hok'. destruct Hok' as [Ok1 Ok2].
    destruct (xcexpr env outers st c0) as [cc st1] eqn:Cc. set (bl := xblen (push_loop env) outers b) in *.
    destruct (xcblock (push_loop env) outers st1 2 (length cc + 2) b) as [cb st2] eqn:Cb.
    inversion Cm; subst c st'. clear Cm.
    pose proof (blen_len _ _ _ _ _ _ _ _ Cb) as Lb. fold bl in Lb.
    apply nocap_app in Nc. destruct Nc as [Ncc Nc]. apply nocap_cons in Nc. destruct Nc as [_ Nc]. apply nocap_cons in Nc. destruct Nc as [_ Nc].
    apply nocap_app in Nc. destruct Nc as [Ncb _].
    apply xcode_at_app in Hc. destruct Hc as [Hcc Hc]. apply xcode_at_cons in Hc. destruct Hc as [Hj Hc].
    apply xcode_at_cons in Hc. destruct Hc as [Hp Hc]. apply xcode_at_app in Hc. destruct Hc as [Hcb Hc]. rewrite Lb in Hc.
    apply xcode_at_cons in Hc. destruct Hc as [Hl Hc]. apply xcode_at_cons in Hc. destruct Hc as [Hp2 _].
    assert (Ltot : length (cc ++ XI (IJump OpJumpIfFalse (bl + 2)) :: XI (IOp OpPop) :: cb ++ [XI (ILoop (length cc + 2 + bl + 1)); XI (IOp OpPop)])
                   = length cc + 2 + bl + 2).
    { rewrite app_length, !length_cons, app_length. cbn [length]. lia. }
    rewrite Ltot.
    destruct (feval f nf c0 s) as [s1 rc] eqn:E1.
    pose proof (HE nf c0 s s1 rc env outers pend st cc st1 code clo rest pc [] cl E1 Cc Ok1 Ncc Ch W Cl Nf Hcc) as R1. cbn [app] in R1.
    destruct rc as [v|x]; [|inversion Ex; subst s' o; exact R1].
    destruct R1 as (Ev1 & cl1 & R1 & Cl1). pose proof (eev_chain _ _ _ _ _ Ev1 Ch) as Ch1. pose proof (eev_wf _ _ Ev1 W) as W1.
    pose proof (eev_sev _ _ Ev1 W) as Sv1.
    destruct (truthy v) eqn:Tv.
    + assert (T : mstar (cfg code pc (fvals s) clo rest [] cl (ewd s)) (cfg code (S (S (pc + length cc))) (fvals s1) clo rest [] cl1 (ewd s1))).
      { eapply mstar_trans; [exact R1|].
        eapply mstar_step; [eapply m_next; [exact Hj|reflexivity|cbn [step_instr]; rewrite Tv; reflexivity]|].
        apply mstar_one. eapply m_next; [exact Hp|reflexivity|reflexivity]. }
      destruct (fexec_list f nf (S depth) b s1) as [s2' o2] eqn:E2.
      assert (Hcont' : forall d nl, cloop (push_loop env) = Some (d, nl) -> length cc + 2 <= S (S (pc + length cc))) by (intros; lia).
      assert (Ch1' : chain (push_loop env) outers pend s1) by exact Ch1.
      pose proof (HB nf depth b s1 s2' o2 (push_loop env) outers pend st1 cb st2 2 (length cc + 2) infn code clo rest _ cl1
                     E2 Cb Ok2 Ncb (env_inv_loop _ Inv) Dp Ch1' W1 Cl1 Nf Hcb Hcont') as R2.
      unfold sresult in R2. rewrite Lb in R2.
      set (s2 := leave (length (elocals s1)) s2') in *.
      pose proof (proj1 Ch1) as Nm1. apply (f_equal (@length _)) in Nm1. unfold lnames in Nm1. rewrite !map_length in Nm1.
      (* back at the loop header *)
      assert (Again : forall s3 cl3, sev s s3 -> chain env outers pend s3 -> Forall2 clo_rel (eclos s3) cl3 ->
                mstar (cfg code pc (fvals s) clo rest [] cl (ewd s)) (cfg code pc (fvals s3) clo rest [] cl3 (ewd s3)) ->
                fexec f nf depth (SWhile l c0 b) s3 = (s', o) ->
                sresult code clo rest cl pc s s' o env (length cc + 2 + bl + 2) brk cont infn (fun s'0 => chain env outers pend s'0)).
      { intros s3 cl3 Sv3 Ch3 Cl3 T3 Ex3.
        pose proof (HS nf depth (SWhile l c0 b) s3 s' o env outers pend st _ _ brk cont infn code clo rest pc cl3 Ex3 CmW HokW NcW Inv Dp Ch3
                       (proj1 (proj2 (proj2 Sv3))) Cl3 Nf HcW Hcont) as R3.
        unfold sresult in R3. rewrite Ltot in R3. cbn [env_after'] in R3. unfold sresult. destruct o.
        - destruct R3 as (Sv' & Ch' & cl' & R3 & Cl'). split; [eapply sev_trans; eauto|]. split; [exact Ch'|].
          exists cl'. split; [eapply mstar_trans; eauto|exact Cl'].
        - destruct R3 as (Sv' & d & nl & cl' & CL & R3 & Cl'). split; [eapply sev_trans; eauto|]. exists d, nl, cl'.
          split; [exact CL|]. split; [eapply mstar_trans; eauto|exact Cl'].
        - destruct R3 as (Sv' & d & nl & cl' & CL & R3 & Cl'). split; [eapply sev_trans; eauto|]. exists d, nl, cl'.
          split; [exact CL|]. split; [eapply mstar_trans; eauto|exact Cl'].
        - destruct R3 as (Hin & F3 & R3). split; [exact Hin|]. split; [eapply fc_sev_trans; eauto|].
          intros caller rest0 Er. destruct (R3 caller rest0 Er) as (cl' & R3' & Cl'). exists cl'. split; [|exact Cl'].
          eapply mstar_trans; eauto.
        - intro Nx. eapply mstar_raises; [exact T3|exact (R3 Nx)].
        - exact I. }
      destruct o2.
      * destruct R2 as (Sv2 & Ch2 & cl2 & R2 & Cl2). apply (Again s2 cl2); [eapply sev_trans; eauto|exact Ch2|exact Cl2| |exact Ex].
        eapply mstar_trans; [exact T|]. eapply mstar_trans; [exact R2|].
        apply mstar_one. unfold mstep, cfg. cbn [frames fr_code fr_pc fr_stk fr_clo mwd mups mclos]. rewrite Hl.
        cbn [step_instr]. destruct (S (S (S (pc + length cc)) + bl) <? length cc + 2 + bl + 1) eqn:Lt; [apply Nat.ltb_lt in Lt; lia|].
        cbn [vpc vstack vwd]. unfold with_stk. cbn [fr_code fr_clo]. f_equal. f_equal. f_equal. f_equal. lia.
      * (* break *)
        destruct R2 as (Sv2 & d & nl & cl2 & CL & R2 & Cl2). cbn [push_loop cloop] in CL. inversion CL; subst d nl.
        inversion Ex; subst s' o.
        assert (El2 : elocals s2 = elocals s1) by (apply leave_exact; exact Sv2).
        assert (K : leave (length (clocals env)) s2 = s2).
        { unfold leave, set_elocals, keep_last. rewrite Nm1, <- El2, Nat.sub_diag. cbn [skipn]. destruct s2; reflexivity. }
        rewrite K in R2.
        split; [eapply sev_trans; eauto|]. split.
        -- destruct Ch1 as (A & B & C). destruct Sv2 as (_ & O2 & _). split; [rewrite El2; exact A|split; [rewrite O2; exact B|exact C]].
        -- exists cl2. split; [|exact Cl2]. eapply mstar_trans; [exact T|]. eapply mstar_eq; [exact R2|]. apply cfg_pc_eq; lia.
      * (* continue *)
        destruct R2 as (Sv2 & d & nl & cl2 & CL & R2 & Cl2). cbn [push_loop cloop] in CL. inversion CL; subst d nl.
        assert (El2 : elocals s2 = elocals s1) by (apply leave_exact; exact Sv2).
        assert (K : leave (length (clocals env)) s2 = s2).
        { unfold leave, set_elocals, keep_last. rewrite Nm1, <- El2, Nat.sub_diag. cbn [skipn]. destruct s2; reflexivity. }
        rewrite K in R2.
        apply (Again s2 cl2); [eapply sev_trans; eauto| |exact Cl2| |exact Ex].
        -- destruct Ch1 as (A & B & C). destruct Sv2 as (_ & O2 & _). split; [rewrite El2; exact A|split; [rewrite O2; exact B|exact C]].
        -- eapply mstar_trans; [exact T|]. eapply mstar_eq; [exact R2|]. apply cfg_pc_eq; lia.
      * inversion Ex; subst s' o. destruct R2 as (Hin & F2 & R2). split; [exact Hin|]. split; [eapply fc_sev_trans; eauto|].
        intros caller rest0 Er. destruct (R2 caller rest0 Er) as (cl2 & R2' & Cl2). exists cl2. split; [|exact Cl2].
        eapply mstar_trans; [exact T|exact R2'].
      * inversion Ex; subst s' o. intro Nx. eapply mstar_raises; [exact T|exact (R2 Nx)].
      * inversion Ex; subst s' o. exact I.
    + inversion Ex; subst s' o. split; [exact Sv1|]. split; [exact Ch1|]. exists cl1. split; [|exact Cl1].
      eapply mstar_trans; [exact R1|].
      eapply mstar_step; [eapply m_next; [exact Hj|reflexivity|cbn [step_instr]; rewrite Tv; reflexivity]|].
      replace (S (pc + length cc) + (bl + 2)) with (S (S (S (pc + length cc)) + bl)) by lia.
      eapply mstar_eq; [apply mstar_one; eapply m_next; [exact Hp2|reflexivity|reflexivity]|apply cfg_pc_eq; lia].
  - (* SReturn *)
    cbn [fexec] in Ex. cbn [xcstmt xstmt_ok env_after'] in *. unfold sresult.
    apply andb_true_iff in Hok. destruct Hok as [Hin Hok].
    destruct e as [e1|].
    + destruct (xcexpr env outers st e1) as [ce st1] eqn:Ce. inversion Cm; subst c st'.
      apply nocap_app in Nc. destruct Nc as [Nce _]. apply xcode_at_app in Hc. destruct Hc as [Hce Hcr].
      apply xcode_at_cons in Hcr. destruct Hcr as [Hn _].
      destruct (feval f nf e1 s) as [s1 r] eqn:E1.
      pose proof (HE nf e1 s s1 r env outers pend st ce st1 code clo rest pc [] cl E1 Ce Hok Nce Ch W Cl Nf Hce) as R.
      cbn [app] in R. destruct r as [v|x]; inversion Ex; subst s' o; [|exact R].
      destruct R as (Ev1 & cl1 & R & Cl1). split; [exact Hin|]. split; [apply Ev1|].
      intros caller rest0 Er. subst rest. exists cl1. split; [|exact Cl1]. eapply mstar_trans; [exact R|].
      apply mstar_one. apply mstep_return. exact Hn.
    + inversion Cm; subst c st'. inversion Ex; subst s' o.
      apply xcode_at_cons in Hc. destruct Hc as [Hn0 Hc]. apply xcode_at_cons in Hc. destruct Hc as [Hn1 _].
      split; [exact Hin|]. split; [apply fc_refl|]. intros caller rest0 Er. subst rest. exists cl. split; [|exact Cl].
      eapply mstar_step; [eapply m_next; [exact Hn0|reflexivity|reflexivity]|].
      apply mstar_one. apply mstep_return. exact Hn1.
  - (* SBreak *)
    cbn [fexec] in Ex. inversion Ex; subst s' o. cbn [xcstmt xstmt_ok env_after'] in *. unfold sresult, loop_pops in *.
    destruct (cloop env) as [[d nl]|] eqn:CL; [|discriminate Hok].
    inversion Cm; subst c st'. unfold xi in Nc, Hc. rewrite map_app in Nc, Hc. apply nocap_app in Nc. destruct Nc as [Ncp _].
    rewrite (scope_end_nocap _ _ _ Ncp) in *. apply xcode_at_app in Hc. destruct Hc as [Hcp Hcj]. rewrite map_length, pops_length in Hcj.
    apply xcode_at_cons in Hcj. destruct Hcj as [Hn _].
    pose proof (loop_counts' env outers pend s d nl Inv Ch CL) as LC. set (k := count_above d (clocals env)) in *.
    split; [apply sev_refl; exact W|]. exists d, nl, cl. split; [reflexivity|]. split; [|exact Cl].
    eapply mstar_trans; [apply m_pops; [exact Hcp|rewrite fvals_length; lia]|].
    rewrite fvals_leave. replace (length (elocals s) - nl) with k by lia.
    apply mstar_one. rewrite (m_next _ _ _ _ _ _ _ _ _ (S (pc + k) + brk) (skipn k (fvals s)) (ewd s) Hn eq_refl eq_refl).
    f_equal. apply cfg_pc_eq. unfold xi. rewrite ?map_length, ?app_length, ?pops_length. cbn [length]. lia.
  - (* SContinue *)
    cbn [fexec] in Ex. inversion Ex; subst s' o. cbn [xcstmt xstmt_ok env_after'] in *. unfold sresult, loop_pops in *.
    destruct (cloop env) as [[d nl]|] eqn:CL; [|discriminate Hok].
    inversion Cm; subst c st'. unfold xi in Nc, Hc. rewrite map_app in Nc, Hc. apply nocap_app in Nc. destruct Nc as [Ncp _].
    rewrite (scope_end_nocap _ _ _ Ncp) in *. apply xcode_at_app in Hc. destruct Hc as [Hcp Hcj]. rewrite map_length, pops_length in Hcj.
    apply xcode_at_cons in Hcj. destruct Hcj as [Hn _]. specialize (Hcont d nl eq_refl).
    pose proof (loop_counts' env outers pend s d nl Inv Ch CL) as LC. set (k := count_above d (clocals env)) in *.
    split; [apply sev_refl; exact W|]. exists d, nl, cl. split; [reflexivity|]. split; [|exact Cl].
    eapply mstar_trans; [apply m_pops; [exact Hcp|rewrite fvals_length; lia]|].
    rewrite fvals_leave. replace (length (elocals s) - nl) with k by lia.
    apply mstar_one. unfold mstep, cfg. cbn [frames fr_code fr_pc fr_stk fr_clo mwd mups mclos]. rewrite Hn.
    cbn [step_instr]. destruct (S (pc + k) <? cont + k + 1) eqn:Lt; [apply Nat.ltb_lt in Lt; lia|].
    cbn [vpc vstack vwd]. unfold with_stk. cbn [fr_code fr_clo]. f_equal. f_equal. f_equal. f_equal. lia.
Qed.
(* ================================================================== *)
(* stage 1: functions that capture nothing                             *)

Theorem fn_specs : forall f, espec f /\ sspec f /\ lspec f.
Proof.
  induction f as [|f (HE & HS & HL)].
  - split; [|split].
    + intros nf e s s' r env outers pend st c st' code clo rest pc t cl Ev. cbn [feval] in Ev. inversion Ev; subst.
      intros _ _ _ _ _ _ _ _ Nx. exfalso. apply Nx. reflexivity.
    + intros nf depth stm s s' o env outers pend st c st' brk cont infn code clo rest pc cl Ex. cbn [fexec] in Ex.
      inversion Ex; subst. intros. exact I.
    + intros nf depth b s s' o env outers pend st c st' brk cont infn code clo rest pc cl Ex. cbn [fexec_list] in Ex.
      inversion Ex; subst. intros. exact I.
  - split; [apply expr_step; assumption|]. split; [apply stmt_step; assumption|apply list_step; assumption].
Qed.

Lemma mraises_run : forall s e w, mraises s e w -> exists k, mrun k s = MFail e w.
Proof.
  intros s e w (s' & St & Er). destruct (mstar_run s s' St 1 (MFail e w)) as (k & R).
  - cbn [mrun]. rewrite Er. reflexivity.
  - exists (k + 1). exact R.
Qed.

(* Whole scripts of the union fragment whose compiled functions capture nothing (no upvalue instruction, every
   Closure without descriptors: globals, parameters and own locals only): whatever the reference evaluator with
   cells does within the fuel - finish, or stop with an error (TypeError / ValueError / IndexError / NameError,
   the arity error and the 64-frame "Stack overflow." included) - the machine does on the compiled code, with the
   same globals, vector store and output.  Calls, returns (explicit, implicit nil, expression-bodied lambdas),
   recursion through globals, first-class function values, and all statements of the earlier fragment
   inside function bodies are covered. *)
Theorem compile_fn_correct_nocapture : forall fuel p s' o,
  xprogram_ok p = true -> nocap_code (fo_code (xprogram p)) = true ->
  frun_program fuel p = (s', o) ->
  match o with
  | FNormal => exists k m, mrun k (mstate0 (xprogram p)) = MDone m /\ mwd m = ewd s'
  | FErr e => e <> Unsupported -> exists k, mrun k (mstate0 (xprogram p)) = MFail e (ewd s')
  | FFuel => True
  | FBreak | FContinue | FReturn _ => False
  end.
Proof.
  intros fuel p s' o Hok Nc Ex. unfold frun_program in Ex. unfold xprogram in *.
  destruct (xcstmts cenv0 [] cst0 0 0 p) as [c st'] eqn:Cm. cbn [fo_code] in Nc.
  apply nocap_app in Nc. destruct Nc as [Ncc _].
  assert (Hc : xcode_at (c ++ xi [IOp OpNil; IOp OpReturn]) 0 c).
  { exists [], (xi [IOp OpNil; IOp OpReturn]). split; reflexivity. }
  assert (Ch : chain cenv0 [] [] est0) by (split; [reflexivity|split; [reflexivity|constructor]]).
  assert (W : wf est0) by (split; [repeat constructor; intros []|repeat constructor]).
  assert (Hcont : forall d nl, cloop cenv0 = Some (d, nl) -> 0 <= 0) by (intros; lia).
  destruct (fn_specs fuel) as (_ & _ & HL).
  pose proof (HL 1 0 p est0 s' o cenv0 [] [] cst0 c st' 0 0 false (c ++ xi [IOp OpNil; IOp OpReturn]) None [] 0 []
                 Ex Cm Hok Ncc env_inv0 eq_refl Ch W (Forall2_nil _) eq_refl Hc Hcont) as R.
  unfold sresult in R. unfold mstate0. cbn [fo_code]. change (fvals est0) with [VNil] in R. change (ewd est0) with world0 in R.
  destruct o.
  - destruct R as (_ & _ & cl' & R & _). cbn [Nat.add] in R.
    assert (N1 : nth_error (c ++ xi [IOp OpNil; IOp OpReturn]) (length c) = Some (XI (IOp OpNil))) by apply nth_error_app_at.
    assert (N2 : nth_error (c ++ xi [IOp OpNil; IOp OpReturn]) (S (length c)) = Some (XI (IOp OpReturn))).
    { change (xi [IOp OpNil; IOp OpReturn]) with ([XI (IOp OpNil)] ++ [XI (IOp OpReturn)]). rewrite app_assoc.
      replace (S (length c)) with (length (c ++ [XI (IOp OpNil)])) by (rewrite app_length; cbn; lia). apply nth_error_app_at. }
    set (mfin := cfg (c ++ xi [IOp OpNil; IOp OpReturn]) (S (length c)) (VNil :: fvals s') None [] [] cl' (ewd s')).
    destruct (mstar_run _ _ R 2 (MDone mfin)) as (k & E).
    + cbn [mrun]. rewrite (m_next _ _ _ _ _ _ _ _ _ (S (length c)) (VNil :: fvals s') (ewd s') N1 eq_refl eq_refl).
      fold mfin. unfold mstep, mfin, cfg. cbn [frames fr_code fr_pc fr_stk]. rewrite N2. reflexivity.
    + exists (k + 2), mfin. split; [exact E|reflexivity].
  - destruct R as (_ & d & nl & _ & CL & _). discriminate CL.
  - destruct R as (_ & d & nl & _ & CL & _). discriminate CL.
  - destruct R as (Hin & _). discriminate Hin.
  - intro Nx. apply mraises_run. exact (R Nx).
  - exact I.
Qed.
Print Assumptions compile_fn_correct_nocapture.

(* the hypotheses are satisfiable: recursion, a lambda value, calls in operands, an arity error *)
Example compile_fn_correct_nocapture_ex :
  let fact := SFn 1%N (B "fact") [B "n"]
                [SIf 1%N (EBinary BLe (EVar (B "n")) (ENum f64_one)) [SReturn 1%N (Some (ENum f64_one))] None;
                 SReturn 1%N (Some (EBinary BMul (EVar (B "n"))
                                      (ECall (EVar (B "fact")) [EBinary BSub (EVar (B "n")) (ENum f64_one)])))] in
  let p := [fact;
            SVar 1%N (B "twice") (Some (ELambda [B "g"; B "x"] (LExpr (ECall (EVar (B "g")) [ECall (EVar (B "g")) [EVar (B "x")]]))));
            SExpr 1%N (ECall (EVar (B "print")) [ECall (EVar (B "twice")) [EVar (B "fact"); ENum (f64_of_Z 3)]]);
            SExpr 1%N (ECall (EVar (B "fact")) [])] in
  xprogram_ok p = true /\ nocap_code (fo_code (xprogram p)) = true /\
  snd (frun_program 400 p) = FErr (TypeError (msg_arity 1 0)) /\
  out (ewd (fst (frun_program 400 p))) = [B "720"] /\
  mrun 2000 (mstate0 (xprogram p)) = MFail (TypeError (msg_arity 1 0)) (ewd (fst (frun_program 400 p))).
Proof. repeat split; vm_compute; reflexivity. Qed.

(* ================================================================== *)
(* stages 2 and 3: closures that capture - PARTIAL                     *)

(* FULL STATEMENTS (open): [compile_fn_correct_nocapture] without the hypothesis [nocap_code], (stage 2) for programs
   whose captured variables are not assigned after their capture, (stage 3) for all programs of the fragment.
   What is missing: the simulation between the evaluator's cells and the machine's (frame, slot) / open / closed
   upvalues across ALL frames (a callee writes a caller's slot through an open upvalue), and the static lemma that
   the index resolve_var returns under the threaded upvalue lists denotes, in the FINAL descriptor list of the
   function, the variable the evaluator's environment lookup finds (the analogue of C06's resolve_index_chain for
   this compiler).  The run-time mechanism alone (open-upvalue list vs cells) is C06's upvalues_refine_cells.
   Proved here: both sides agree on two bounded families, by computation; on every run the check compares them on
   generated programs (tools/props/C05.py, function fragment). *)
Theorem compile_fn_correct_readonly_partial :
  family_ok family_readonly = true /\
  (family_uses [OpGetUpvalue] family_readonly, family_uses [OpSetUpvalue] family_readonly) = (20, 0).
Proof. vm_compute. split; reflexivity. Qed.

Theorem compile_fn_correct_closures_partial :
  family_ok family_closures = true /\
  (family_uses [OpSetUpvalue] family_closures, family_uses [OpCloseUpvalue] family_closures) = (20, 5).
Proof. vm_compute. split; reflexivity. Qed.
Print Assumptions compile_fn_correct_readonly_partial.
Print Assumptions compile_fn_correct_closures_partial.

(* a failing assignment defines nothing: SetGlobal on an undefined name stops with the NameError and the SAME world
   (vm.rs undoes its probe insert); likewise the evaluators return their state unchanged *)
Lemma set_global_failure_unchanged : forall x pc v stk w,
  lookup (globals w) x = None ->
  step_instr (IGlobal OpSetGlobal x) pc (v :: stk) w = SErr (NameError (msg_undefined x)) w.
Proof. intros x pc v stk w H. cbn [step_instr step_global]. rewrite H. reflexivity. Qed.

Lemma fset_var_failure_unchanged : forall s x v e, fset_var s x v = Er e -> e = NameError (msg_undefined x).
Proof.
  intros s x v e H. unfold fset_var in H. destruct (find_var s x); [discriminate|].
  destruct (lookup (globals (ewd s)) x); [discriminate|]. inversion H. reflexivity.
Qed.
