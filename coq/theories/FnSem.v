(* C05, function fragment - reference evaluator for the UNION fragment: everything of ExprSem.v plus
   first-class functions: `fn` declarations (global and local), lambdas, calls with arguments, `return`
   (with / without value, implicit nil), recursion, closures capturing enclosing variables.
   DEFINITIONS ONLY.

   Big-step, with an environment of CELLS: every local variable (parameters included) is a fresh heap
   cell, a closure holds the cells of its defining environment, nothing is copied or closed.  Operands
   once, left to right; callee, then arguments, then the arity check ("Expected N arguments but found
   M."), then the frame limit (64 frames: IndexError "Stack overflow.").  Fuel bounds the derivation
   (call depth and loop iterations). *)
From Coq Require Import Strings.String.
From Coq Require Import List NArith ZArith Bool Arith.
From Coq Require Import Strings.Byte Floats.SpecFloat.
From YV Require Import Ast Num NumText Show ExprSem.
Import ListNotations.
Local Open Scope nat_scope.
Local Open Scope list_scope.

Definition FRAMES_MAX : nat := 64.

Definition lambda_name : name := B "lambda".      (* shown name of every lambda (real: lambda-<k>) *)

Definition msg_arity (arity found : nat) : list byte :=
  B "Expected " ++ bytes_of_nat arity ++ B " arguments but found " ++ bytes_of_nat found ++ B ".".
Definition msg_stack_overflow : list byte := B "Stack overflow.".

(* a closure of the evaluator: the function's text and the cells of its defining environment *)
Record eclo := mkEClo {
  ec_params : list name;
  ec_body : lambda_body;
  ec_env : list (name * N)
}.

Record est := mkE {
  elocals : list (name * N);   (* variables of the running function, newest first; the last one is slot 0 *)
  eouter : list (name * N);    (* variables of the enclosing functions (the closure's environment) *)
  ecells : list val;           (* the heap of variable cells *)
  eclos : list eclo;           (* closures, by identity *)
  ewd : world
}.

Definition est0 : est := mkE [([], 0%N)] [] [VNil] [] world0.

Fixpoint lookup_cell (l : list (name * N)) (x : name) : option N :=
  match l with
  | [] => None
  | (y, c) :: r => if name_eqb x y then Some c else lookup_cell r x
  end.

Definition cell_get (s : est) (c : N) : val := nth (N.to_nat c) (ecells s) VNil.
Definition cell_set (s : est) (c : N) (v : val) : est :=
  mkE (elocals s) (eouter s) (set_nth (N.to_nat c) v (ecells s)) (eclos s) (ewd s).
Definition set_ewd (s : est) (w : world) : est := mkE (elocals s) (eouter s) (ecells s) (eclos s) w.
Definition set_elocals (s : est) (l : list (name * N)) : est := mkE l (eouter s) (ecells s) (eclos s) (ewd s).

(* a fresh cell holding v *)
Definition alloc_cell (s : est) (v : val) : N * est :=
  (N.of_nat (length (ecells s)),
   mkE (elocals s) (eouter s) (ecells s ++ [v]) (eclos s) (ewd s)).

Definition declare_local (s : est) (x : name) (v : val) : est :=
  let (c, s1) := alloc_cell s v in set_elocals s1 ((x, c) :: elocals s1).

Definition find_var (s : est) (x : name) : option N :=
  match lookup_cell (elocals s) x with
  | Some c => Some c
  | None => lookup_cell (eouter s) x
  end.

Definition fget_var (s : est) (x : name) : res val :=
  match find_var s x with
  | Some c => Ok (cell_get s c)
  | None =>
    match lookup (globals (ewd s)) x with
    | Some v => Ok v
    | None => Er (NameError (msg_undefined x))
    end
  end.

Definition fset_var (s : est) (x : name) (v : val) : res est :=
  match find_var s x with
  | Some c => Ok (cell_set s c v)
  | None =>
    match lookup (globals (ewd s)) x with
    | Some _ => Ok (set_ewd s (with_globals (ewd s) (update (globals (ewd s)) x v)))
    | None => Er (NameError (msg_undefined x))
    end
  end.

(* a new closure over the current environment *)
Definition make_closure (s : est) (nm : name) (ps : list name) (b : lambda_body) : val * est :=
  (VClosure (N.of_nat (length (eclos s))) nm,
   mkE (elocals s) (eouter s) (ecells s) (eclos s ++ [mkEClo ps b (elocals s ++ eouter s)]) (ewd s)).

Inductive fout :=
| FNormal
| FBreak
| FContinue
| FReturn (v : val)
| FErr (e : err)
| FFuel.

Definition leave (n : nat) (s : est) : est := set_elocals s (keep_last n (elocals s)).

(* bind the parameters to fresh cells, newest first; slot 0 holds the callee *)
Fixpoint bind_params (s : est) (ps : list name) (vs : list val) : est :=
  match ps, vs with
  | p :: ps', v :: vs' => bind_params (declare_local s p v) ps' vs'
  | _, _ => s
  end.

(* [nf] = number of frames of the fiber while this code runs (the script is frame 1);
   [depth] = Compiler.scope_depth: `var` / `fn` at depth 0 define globals *)
Fixpoint feval (fuel : nat) (nf : nat) (e : expr) (s : est) {struct fuel} : est * res val :=
  match fuel with
  | O => (s, Er Unsupported)
  | S f =>
    let ev := feval f nf in
    let ev_list := fix go (es : list expr) (s : est) : est * res (list val) :=
      match es with
      | [] => (s, Ok [])
      | x :: r =>
        match ev x s with
        | (s1, Ok v) =>
          match go r s1 with
          | (s2, Ok vs) => (s2, Ok (v :: vs))
          | (s2, Er err) => (s2, Er err)
          end
        | (s1, Er err) => (s1, Er err)
        end
      end in
    match e with
    | ENil => (s, Ok VNil)
    | ETrue => (s, Ok (VBool true))
    | EFalse => (s, Ok (VBool false))
    | ENum x => (s, Ok (VNum x))
    | EStr b => (s, Ok (VStr b))
    | EInterp parts =>
      let fix go (ps : list interp_part) (s : est) : est * res (list byte) :=
        match ps with
        | [] => (s, Ok [])
        | IPStr b :: r =>
          match go r s with
          | (s2, Ok bs) => (s2, Ok (b ++ bs))
          | (s2, Er x) => (s2, Er x)
          end
        | IPExpr e1 :: r =>
          match ev e1 s with
          | (s1, Ok v) =>
            let piece := match format_val (ewd s1) v with VStr b => b | _ => [] end in
            match go r s1 with
            | (s2, Ok bs) => (s2, Ok (piece ++ bs))
            | (s2, Er x) => (s2, Er x)
            end
          | (s1, Er x) => (s1, Er x)
          end
        end in
      match go parts s with
      | (s1, Ok bs) => (s1, Ok (VStr bs))
      | (s1, Er x) => (s1, Er x)
      end
    | EVar x => (s, fget_var s x)
    | EAssign x e1 =>
      match ev e1 s with
      | (s1, Ok v) =>
        match fset_var s1 x v with
        | Ok s2 => (s2, Ok v)
        | Er err => (s1, Er err)
        end
      | (s1, Er err) => (s1, Er err)
      end
    | ECompound x op e1 =>
      if compound_ok op then
        match fget_var s x with
        | Er err => (s, Er err)
        | Ok a =>
          match ev e1 s with
          | (s1, Ok b) =>
            match binop_sem (store (ewd s1)) op a b with
            | Ok v =>
              match fset_var s1 x v with
              | Ok s2 => (s2, Ok v)
              | Er err => (s1, Er err)
              end
            | Er err => (s1, Er err)
            end
          | (s1, Er err) => (s1, Er err)
          end
        end
      else (s, Er Unsupported)
    | EUnary op e1 =>
      match ev e1 s with
      | (s1, Ok v) => (s1, unop_sem op v)
      | (s1, Er err) => (s1, Er err)
      end
    | EBinary op a b =>
      match ev a s with
      | (s1, Ok va) =>
        match ev b s1 with
        | (s2, Ok vb) => (s2, binop_sem (store (ewd s2)) op va vb)
        | (s2, Er err) => (s2, Er err)
        end
      | (s1, Er err) => (s1, Er err)
      end
    | EAnd a b =>
      match ev a s with
      | (s1, Ok va) => if truthy va then ev b s1 else (s1, Ok va)
      | (s1, Er err) => (s1, Er err)
      end
    | EOr a b =>
      match ev a s with
      | (s1, Ok va) => if truthy va then (s1, Ok va) else ev b s1
      | (s1, Er err) => (s1, Er err)
      end
    | ERange a b =>
      match ev a s with
      | (s1, Ok va) =>
        match ev b s1 with
        | (s2, Ok vb) => (s2, range_sem (ewd s2) va vb)
        | (s2, Er err) => (s2, Er err)
        end
      | (s1, Er err) => (s1, Er err)
      end
    | ECall fe args =>
      match ev fe s with
      | (s1, Ok vf) =>
        match ev_list args s1 with
        | (s2, Ok vs) =>
          match vf with
          | VClosure id _ =>
            match nth_error (eclos s2) (N.to_nat id) with
            | None => (s2, Er Unsupported)
            | Some c =>
              if negb (Nat.eqb (length vs) (length (ec_params c))) then
                (s2, Er (TypeError (msg_arity (length (ec_params c)) (length vs))))
              else if Nat.eqb nf FRAMES_MAX then (s2, Er (IndexError msg_stack_overflow))
              else
                (* the callee's frame: slot 0 = the closure, then the parameters *)
                let s3 := bind_params (declare_local (mkE [] (ec_env c) (ecells s2) (eclos s2) (ewd s2)) [] vf)
                                      (ec_params c) vs in
                let back := fun (s4 : est) => mkE (elocals s2) (eouter s2) (ecells s4) (eclos s4) (ewd s4) in
                match ec_body c with
                | LExpr b =>
                  match feval f (S nf) b s3 with
                  | (s4, r) => (back s4, r)
                  end
                | LBlock b =>
                  match fexec_list f (S nf) 1 b s3 with
                  | (s4, FNormal) => (back s4, Ok VNil)
                  | (s4, FReturn v) => (back s4, Ok v)
                  | (s4, FErr err) => (back s4, Er err)
                  | (s4, _) => (back s4, Er Unsupported)
                  end
                end
            end
          | _ =>
            match call_sem (ewd s2) vf vs with
            | Ok (v, w) => (set_ewd s2 w, Ok v)
            | Er err => (s2, Er err)
            end
          end
        | (s2, Er err) => (s2, Er err)
        end
      | (s1, Er err) => (s1, Er err)
      end
    | EIndex o i =>
      match ev o s with
      | (s1, Ok vo) =>
        match ev i s1 with
        | (s2, Ok vi) =>
          match get_item (ewd s2) vo vi with
          | Ok (v, w) => (set_ewd s2 w, Ok v)
          | Er err => (s2, Er err)
          end
        | (s2, Er err) => (s2, Er err)
        end
      | (s1, Er err) => (s1, Er err)
      end
    | ESetIndex o i e1 =>
      match ev o s with
      | (s1, Ok vo) =>
        match ev i s1 with
        | (s2, Ok vi) =>
          match ev e1 s2 with
          | (s3, Ok v) =>
            match set_item (ewd s3) vo vi v with
            | Ok (r, w) => (set_ewd s3 w, Ok r)
            | Er err => (s3, Er err)
            end
          | (s3, Er err) => (s3, Er err)
          end
        | (s2, Er err) => (s2, Er err)
        end
      | (s1, Er err) => (s1, Er err)
      end
    | ETuple es =>
      match ev_list es s with
      | (s1, Ok vs) => let (v, w) := alloc_tuple (ewd s1) vs in (set_ewd s1 w, Ok v)
      | (s1, Er err) => (s1, Er err)
      end
    | EVec es =>
      match ev_list es s with
      | (s1, Ok vs) => let (v, w) := alloc_vec (ewd s1) vs in (set_ewd s1 w, Ok v)
      | (s1, Er err) => (s1, Er err)
      end
    | ELambda ps b =>
      let (v, s1) := make_closure s lambda_name ps b in (s1, Ok v)
    | _ => (s, Er Unsupported)
    end
  end

with fexec (fuel : nat) (nf : nat) (depth : nat) (stm : stmt) (s : est) {struct fuel} : est * fout :=
  match fuel with
  | O => (s, FFuel)
  | S f =>
    let block := fun (b : list stmt) (s : est) =>
      let n := length (elocals s) in
      let (s1, o) := fexec_list f nf (S depth) b s in (leave n s1, o) in
    match stm with
    | SExpr _ e =>
      match feval f nf e s with
      | (s1, Ok _) => (s1, FNormal)
      | (s1, Er x) => (s1, FErr x)
      end
    | SVar _ x init =>
      let (s1, r) := match init with
                     | Some e => feval f nf e s
                     | None => (s, Ok VNil)
                     end in
      match r with
      | Ok v =>
        match depth with
        | O => (set_ewd s1 (with_globals (ewd s1) (upsert (globals (ewd s1)) x v)), FNormal)
        | S _ => (declare_local s1 x v, FNormal)
        end
      | Er e => (s1, FErr e)
      end
    | SFn _ fname ps b =>
      match depth with
      | O =>
        let (v, s1) := make_closure s fname ps (LBlock b) in
        (set_ewd s1 (with_globals (ewd s1) (upsert (globals (ewd s1)) fname v)), FNormal)
      | S _ =>
        (* the name is in scope inside the body: declared first, then the closure is stored into its cell *)
        let s1 := declare_local s fname VNil in
        let (v, s2) := make_closure s1 fname ps (LBlock b) in
        match elocals s2 with
        | (_, c) :: _ => (cell_set s2 c v, FNormal)
        | [] => (s2, FErr Unsupported)
        end
      end
    | SReturn _ e =>
      match e with
      | None => (s, FReturn VNil)
      | Some e1 =>
        match feval f nf e1 s with
        | (s1, Ok v) => (s1, FReturn v)
        | (s1, Er x) => (s1, FErr x)
        end
      end
    | SBlock _ b => block b s
    | SIf _ c t e =>
      match feval f nf c s with
      | (s1, Ok v) =>
        if truthy v then block t s1
        else match e with
             | Some s' => fexec f nf depth s' s1
             | None => (s1, FNormal)
             end
      | (s1, Er x) => (s1, FErr x)
      end
    | SWhile _ c b =>
      match feval f nf c s with
      | (s1, Ok v) =>
        if truthy v then
          match block b s1 with
          | (s2, FNormal) | (s2, FContinue) => fexec f nf depth stm s2
          | (s2, FBreak) => (s2, FNormal)
          | (s2, o) => (s2, o)
          end
        else (s1, FNormal)
      | (s1, Er x) => (s1, FErr x)
      end
    | SBreak _ => (s, FBreak)
    | SContinue _ => (s, FContinue)
    | _ => (s, FErr Unsupported)
    end
  end

with fexec_list (fuel : nat) (nf : nat) (depth : nat) (l : list stmt) (s : est) {struct fuel} : est * fout :=
  match fuel with
  | O => (s, FFuel)
  | S f =>
    match l with
    | [] => (s, FNormal)
    | x :: r =>
      match fexec f nf depth x s with
      | (s1, FNormal) => fexec_list f nf depth r s1
      | (s1, o) => (s1, o)
      end
    end
  end.

Definition frun_program (fuel : nat) (p : program) : est * fout := fexec_list fuel 1 0 p est0.
