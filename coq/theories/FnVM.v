(* C05, function fragment - ONE valued machine for the union fragment: FragVM.v's instructions inside a frame, plus
   Call of closures, Return, Closure with its (is_local, index) descriptors, GetUpvalue, SetUpvalue, CloseUpvalue
   and the frame discipline (slot 0 = callee, arity check, 64-frame limit), transcribed from vm.rs
   (call_value / call_closure / return_impl / closure_impl / capture_upvalue / close_upvalues).  DEFINITIONS ONLY.

   The value stack of the fiber is kept as one segment per frame (the segment of a frame starts at its slot_base:
   slot k of the frame = k-th value from the bottom of its segment); an open upvalue names (frame number counted
   from the script, slot). *)
From Coq Require Import Strings.String.
From Coq Require Import List NArith ZArith Bool Arith.
From Coq Require Import Strings.Byte Strings.Ascii Floats.SpecFloat.
From YV Require Import Ast Num NumText Show Wire Bytecode Parser ParseRun ExprSem CompileExpr FragVM FnSem FnCompile.
Import ListNotations.
Local Open Scope nat_scope.
Local Open Scope list_scope.

Inductive upv :=
| UOpen (fr slot : nat)
| UClosed (v : val).

Record mclo := mkMClo { mc_fn : fobj; mc_ups : list N }.

Record frame := mkFrame {
  fr_code : list xinstr;
  fr_pc : nat;
  fr_stk : list val;          (* top first; the last element is slot 0 (the callee) *)
  fr_clo : option N           (* the closure running in this frame; None for the script *)
}.

Record mstate := mkM {
  frames : list frame;        (* current frame first *)
  mups : list upv;
  mclos : list mclo;
  mwd : world
}.

Inductive mres :=
| MNext (s : mstate)
| MErr (e : err) (w : world)
| MHalt
| MStuck.

Definition shown_name (f : fobj) : name := if is_lambda_name (fo_name f) then lambda_name else fo_name f.

(* frame number [k] counted from the script (the last of [frames]) *)
Definition frame_at (fs : list frame) (k : nat) : option frame := nth_error (rev fs) k.
Definition set_frame_at (fs : list frame) (k : nat) (f : frame) : list frame := rev (set_nth k f (rev fs)).

Definition with_stk (f : frame) (pc : nat) (stk : list val) : frame := mkFrame (fr_code f) pc stk (fr_clo f).

Definition read_up (fs : list frame) (u : upv) : option val :=
  match u with
  | UClosed v => Some v
  | UOpen k slot => match frame_at fs k with
                    | Some f => slot_get (fr_stk f) (N.of_nat slot)
                    | None => None
                    end
  end.

(* capture_upvalue: the open upvalue of that slot if there is one, else a new one *)
Fixpoint find_open (us : list upv) (k slot : nat) (i : nat) : option nat :=
  match us with
  | [] => None
  | UOpen k' s' :: r => if Nat.eqb k k' && Nat.eqb slot s' then Some i else find_open r k slot (S i)
  | _ :: r => find_open r k slot (S i)
  end.
Definition capture (us : list upv) (k slot : nat) : list upv * N :=
  match find_open us k slot 0 with
  | Some i => (us, N.of_nat i)
  | None => (us ++ [UOpen k slot], N.of_nat (length us))
  end.

(* close every open upvalue of frame k at slot >= lo, copying the slot's value *)
Definition close_from (us : list upv) (k lo : nat) (stk : list val) : list upv :=
  map (fun u => match u with
                | UOpen k' s => if Nat.eqb k k' && (lo <=? s)
                                then match slot_get stk (N.of_nat s) with Some v => UClosed v | None => u end
                                else u
                | _ => u
                end) us.

Fixpoint build_ups (descs : list (bool * N)) (us : list upv) (k : nat) (cur : list N) : option (list upv * list N) :=
  match descs with
  | [] => Some (us, [])
  | (true, idx) :: r =>
    let (us1, id) := capture us k (N.to_nat idx) in
    match build_ups r us1 k cur with
    | Some (us2, ids) => Some (us2, id :: ids)
    | None => None
    end
  | (false, idx) :: r =>
    match nth_error cur (N.to_nat idx) with
    | Some id => match build_ups r us k cur with
                 | Some (us2, ids) => Some (us2, id :: ids)
                 | None => None
                 end
    | None => None
    end
  end.

Definition cur_ups (s : mstate) (f : frame) : list N :=
  match fr_clo f with
  | Some c => match nth_error (mclos s) (N.to_nat c) with Some m => mc_ups m | None => [] end
  | None => []
  end.

Definition mstep (s : mstate) : mres :=
  match frames s with
  | [] => MHalt
  | f :: rest =>
    let k := length rest in                       (* number of the current frame *)
    let pc := fr_pc f in
    let stk := fr_stk f in
    let w := mwd s in
    let old := fun (i : instr) =>
      match step_instr i pc stk w with
      | SNext v => MNext (mkM (with_stk f (vpc v) (vstack v) :: rest) (mups s) (mclos s) (vwd v))
      | SErr e w' => MErr e w'
      | SHalt => MHalt
      | SStuck => MStuck
      end in
    match nth_error (fr_code f) pc with
    | None => MStuck
    | Some (XClosure fn descs) =>
      match build_ups descs (mups s) k (cur_ups s f) with
      | Some (us, ids) =>
        let id := N.of_nat (length (mclos s)) in
        MNext (mkM (with_stk f (S pc) (VClosure id (shown_name fn) :: stk) :: rest) us
                   (mclos s ++ [mkMClo fn ids]) w)
      | None => MStuck
      end
    | Some (XI (IOp8 OpCall n)) =>
      let a := N.to_nat n in
      match nth_error stk a with
      | Some (VClosure id _) =>
        match nth_error (mclos s) (N.to_nat id) with
        | None => MStuck
        | Some m =>
          let arity := N.to_nat (fo_arity (mc_fn m)) - 1 in
          if negb (Nat.eqb a arity) then MErr (TypeError (msg_arity arity a)) w
          else if Nat.eqb (length (frames s)) FRAMES_MAX then MErr (IndexError msg_stack_overflow) w
          else
            MNext (mkM (mkFrame (fo_code (mc_fn m)) 0 (firstn (S a) stk) (Some id) ::
                        with_stk f (S pc) (skipn (S a) stk) :: rest) (mups s) (mclos s) w)
        end
      | _ => old (IOp8 OpCall n)
      end
    | Some (XI (IOp OpReturn)) =>
      match stk with
      | [] => MStuck
      | result :: _ =>
        let us := close_from (mups s) k 0 stk in
        match rest with
        | [] => MHalt
        | caller :: rest' =>
          MNext (mkM (with_stk caller (fr_pc caller) (result :: fr_stk caller) :: rest') us (mclos s) w)
        end
      end
    | Some (XI (IOp8 OpGetUpvalue n)) =>
      match nth_error (cur_ups s f) (N.to_nat n) with
      | Some id =>
        match nth_error (mups s) (N.to_nat id) with
        | Some u => match read_up (frames s) u with
                    | Some v => MNext (mkM (with_stk f (S pc) (v :: stk) :: rest) (mups s) (mclos s) w)
                    | None => MStuck
                    end
        | None => MStuck
        end
      | None => MStuck
      end
    | Some (XI (IOp8 OpSetUpvalue n)) =>
      match stk, nth_error (cur_ups s f) (N.to_nat n) with
      | v :: _, Some id =>
        match nth_error (mups s) (N.to_nat id) with
        | Some (UClosed _) =>
          MNext (mkM (with_stk f (S pc) stk :: rest) (set_nth (N.to_nat id) (UClosed v) (mups s)) (mclos s) w)
        | Some (UOpen k' slot) =>
          let fs := with_stk f (S pc) stk :: rest in
          match frame_at fs k' with
          | Some g =>
            match slot_set (fr_stk g) (N.of_nat slot) v with
            | Some stk' => MNext (mkM (set_frame_at fs k' (with_stk g (fr_pc g) stk')) (mups s) (mclos s) w)
            | None => MStuck
            end
          | None => MStuck
          end
        | None => MStuck
        end
      | _, _ => MStuck
      end
    | Some (XI (IOp OpCloseUpvalue)) =>
      match stk with
      | [] => MStuck
      | _ :: stk' =>
        MNext (mkM (with_stk f (S pc) stk' :: rest) (close_from (mups s) k (length stk') stk) (mclos s) w)
      end
    | Some (XI i) => old i
    end
  end.

Inductive mout :=
| MDone (s : mstate)
| MFail (e : err) (w : world)
| MStuckAt (s : mstate)
| MFuel (s : mstate).

Fixpoint mrun (fuel : nat) (s : mstate) : mout :=
  match fuel with
  | O => MFuel s
  | S f =>
    match mstep s with
    | MNext s' => mrun f s'
    | MErr e w => MFail e w
    | MHalt => MDone s
    | MStuck => MStuckAt s
    end
  end.

Definition mstate0 (f : fobj) : mstate := mkM [mkFrame (fo_code f) 0 [VNil] None] [] [] world0.

(* ------------------------------------------------------------------ *)
(* renderings for the correspondence check                              *)

Local Open Scope string_scope.

Definition show_xconst_plain (c : const) : string := show_const c.

(* the function tree in the order of the harness (`compile`): a function, then the functions among its
   constants in constant order, numbered in that pre-order.
   one function: "F<idx> <arity> <nups> <namehex|-> <codehex> K <consts>" with function constants as f<idx> *)
Fixpoint show_fn (f : fobj) (idx : nat) {struct f} : string * nat :=
  match f with
  | mkF nm ar nu code =>
    let (bytes, tbl) := xassemble f in
    (* children: in the order of the Closure instructions = order of their constants *)
    let '(kids, kidx, next) :=
      (fix go (c : list xinstr) (next : nat) : string * list nat * nat :=
         match c with
         | [] => (EmptyString, [], next)
         | XClosure g _ :: r =>
           let (sg, n1) := show_fn g next in
           let '(sr, ir, n2) := go r n1 in
           (";" ++ sg ++ sr, next :: ir, n2)
         | _ :: r => go r next
         end) code (S idx) in
    let consts :=
      (fix go (t : list xconst) (ks : list nat) : list string :=
         match t with
         | [] => []
         | XC c :: r => show_const c :: go r ks
         | XF _ :: r => match ks with
                        | k :: ks' => ("f" ++ show_nat k) :: go r ks'
                        | [] => "f?" :: go r []
                        end
         end) tbl kidx in
    ("F" ++ show_nat idx ++ " " ++ show_N ar ++ " " ++ show_nat nu ++ " " ++
     (match nm with [] => "-" | _ => hex_of_bytes nm end) ++ " " ++ show_bytes_N bytes ++
     " K " ++ show_sep "," (fun x => x) consts ++ kids, next)
  end.

Definition show_program_tree (p : Ast.program) : string := fst (show_fn (xprogram p) 0).

Definition show_fout (s : est) (o : fout) : string :=
  "O " ++ show_out (ewd s) ++ "|R " ++
  match o with
  | FNormal => "ok"
  | FBreak => "BREAK"
  | FContinue => "CONTINUE"
  | FReturn _ => "RETURN"
  | FErr e => show_err e
  | FFuel => "FUEL"
  end.

Definition show_mout (o : mout) : string :=
  match o with
  | MDone s => "O " ++ show_out (mwd s) ++ "|R ok"
  | MFail e w => "O " ++ show_out w ++ "|R " ++ show_err e
  | MStuckAt s => "O " ++ show_out (mwd s) ++ "|R STUCK"
  | MFuel s => "O " ++ show_out (mwd s) ++ "|R FUEL"
  end.

(* "F|<function tree>#<evaluator>#<machine>" | "N" | "P:<message>" *)
Definition fn_case (fe fv : nat) (hex : string) : string :=
  match parse_source (bytes_of_hex hex) with
  | POk p =>
    if xprogram_ok p then
      "F|" ++ show_program_tree p ++ "#" ++ (let (s, o) := frun_program fe p in show_fout s o) ++ "#" ++
      show_mout (mrun fv (mstate0 (xprogram p)))
    else "N"
  | PErr _ _ m => "P:" ++ m
  | POutOfFuel => "P:fuel"
  end.
