(* C05 — a deterministic VALUED stack machine for exactly the opcodes the fragment emits,
   transcribed from the *_impl functions of vm.rs (pop order, what stays on the stack).
   DEFINITIONS ONLY.

   The machine runs the SYMBOLIC instructions of CompileExpr.v (pc = instruction index).
   [disasm] turns real `chunk.code` bytes + constant table back into symbolic instructions, so
   the harness runs the machine on the bytes the real compiler produced. *)
From Coq Require Import Strings.String.
From Coq Require Import List NArith ZArith Bool Arith.
From Coq Require Import Strings.Byte Floats.SpecFloat.
From YV Require Import Ast Num NumText Show Bytecode ExprSem CompileExpr.
Import ListNotations.
Local Open Scope nat_scope.
Local Open Scope list_scope.

Definition code := list instr.

(* operand stack, TOP FIRST; the locals are its bottom (slot k = k-th from the bottom) *)
Record vstate := mkVS { vpc : nat; vstack : list val; vwd : world }.

Inductive sres :=
| SNext (s : vstate)
| SErr (e : err) (w : world)     (* the run ends with an unhandled error *)
| SHalt                          (* Return at script level *)
| SStuck.                        (* never happens on compiled code: malformed stack / operand *)

Definition val_of_const (c : const) : val :=
  match c with
  | CNum x => VNum x
  | CStr s => VStr s
  end.

Definition slot_get (stk : list val) (k : N) : option val := nth_error (rev stk) (N.to_nat k).
Definition slot_set (stk : list val) (k : N) (v : val) : option (list val) :=
  let n := N.to_nat k in
  if n <? length stk then Some (set_nth (length stk - 1 - n) v stk) else None.

Definition binop_of_opcode (o : opcode) : option binop :=
  match o with
  | OpEqual => Some BEq | OpGreater => Some BGt | OpLess => Some BLt
  | OpAdd => Some BAdd | OpSubtract => Some BSub | OpMultiply => Some BMul
  | OpDivide => Some BDiv | OpBitwiseAnd => Some BBitAnd | OpBitwiseOr => Some BBitOr
  | OpBitwiseXor => Some BBitXor | OpModulo => Some BMod
  | OpBitShiftLeft => Some BShl | OpBitShiftRight => Some BShr
  | _ => None
  end.

Definition unop_of_opcode (o : opcode) : option unop :=
  match o with
  | OpLogicalNot => Some UNot | OpBitwiseNot => Some UBitNot | OpNegate => Some UNeg
  | _ => None
  end.

Fixpoint all_strs (l : list val) : option (list byte) :=
  match l with
  | [] => Some []
  | VStr s :: r => match all_strs r with Some t => Some (s ++ t) | None => None end
  | _ :: _ => None
  end.

Definition next (pc : nat) (stk : list val) (w : world) : sres := SNext (mkVS (S pc) stk w).

Definition step_op (o : opcode) (pc : nat) (stk : list val) (w : world) : sres :=
  match o with
  | OpNil => next pc (VNil :: stk) w
  | OpTrue => next pc (VBool true :: stk) w
  | OpFalse => next pc (VBool false :: stk) w
  | OpPop => match stk with _ :: r => next pc r w | [] => SStuck end
  | OpCopyTop => match stk with v :: r => next pc (v :: v :: r) w | [] => SStuck end
  | OpGetItem =>
    match stk with
    | i :: o' :: r =>
      match get_item w o' i with
      | Ok (v, w') => next pc (v :: r) w'
      | Er e => SErr e w
      end
    | _ => SStuck
    end
  | OpSetItem =>
    match stk with
    | v :: i :: o' :: r =>
      match set_item w o' i v with
      | Ok (x, w') => next pc (x :: r) w'
      | Er e => SErr e w
      end
    | _ => SStuck
    end
  | OpFormatString =>
    match stk with v :: r => next pc (format_val w v :: r) w | [] => SStuck end
  | OpBuildRange =>
    match stk with
    | e :: b :: r =>
      match range_sem w b e with
      | Ok v => next pc (v :: r) w
      | Er x => SErr x w
      end
    | _ => SStuck
    end
  | OpReturn => SHalt
  | _ =>
    match binop_of_opcode o with
    | Some op =>
      match stk with
      | b :: a :: r =>
        match binop_sem (store w) op a b with
        | Ok v => next pc (v :: r) w
        | Er e => SErr e w
        end
      | _ => SStuck
      end
    | None =>
      match unop_of_opcode o with
      | Some op =>
        match stk with
        | a :: r =>
          match unop_sem op a with
          | Ok v => next pc (v :: r) w
          | Er e => SErr e w
          end
        | _ => SStuck
        end
      | None => SStuck
      end
    end
  end.

Definition step_op8 (o : opcode) (n : N) (pc : nat) (stk : list val) (w : world) : sres :=
  let k := N.to_nat n in
  match o with
  | OpGetLocal =>
    match slot_get stk n with Some v => next pc (v :: stk) w | None => SStuck end
  | OpSetLocal =>
    match stk with
    | v :: _ => match slot_set stk n v with Some stk' => next pc stk' w | None => SStuck end
    | [] => SStuck
    end
  | OpBuildString =>
    if length stk <? k then SStuck
    else match all_strs (rev (firstn k stk)) with
         | Some s => next pc (VStr s :: skipn k stk) w
         | None => SStuck
         end
  | OpBuildTuple =>
    if length stk <? k then SStuck
    else let (v, w') := alloc_tuple w (rev (firstn k stk)) in next pc (v :: skipn k stk) w'
  | OpBuildVec =>
    if length stk <? k then SStuck
    else let (v, w') := alloc_vec w (rev (firstn k stk)) in next pc (v :: skipn k stk) w'
  | OpCall =>
    if length stk <? S k then SStuck
    else match skipn k stk with
         | f :: r =>
           match call_sem w f (rev (firstn k stk)) with
           | Ok (v, w') => next pc (v :: r) w'
           | Er e => SErr e w
           end
         | [] => SStuck
         end
  | _ => SStuck
  end.

Definition step_global (o : opcode) (x : name) (pc : nat) (stk : list val) (w : world) : sres :=
  match o with
  | OpGetGlobal =>
    match lookup (globals w) x with
    | Some v => next pc (v :: stk) w
    | None => SErr (NameError (msg_undefined x)) w
    end
  | OpDefineGlobal =>
    match stk with
    | v :: r => next pc r (with_globals w (upsert (globals w) x v))
    | [] => SStuck
    end
  | OpSetGlobal =>
    match stk with
    | v :: _ =>
      match lookup (globals w) x with
      | Some _ => next pc stk (with_globals w (update (globals w) x v))
      | None => SErr (NameError (msg_undefined x)) w
      end
    | [] => SStuck
    end
  | _ => SStuck
  end.

Definition step_instr (i : instr) (pc : nat) (stk : list val) (w : world) : sres :=
  match i with
  | IConst c => next pc (val_of_const c :: stk) w
  | ITouch _ => next pc stk w
  | IOp o => step_op o pc stk w
  | IOp8 o n => step_op8 o n pc stk w
  | IGlobal o x => step_global o x pc stk w
  | IJump OpJump n => SNext (mkVS (S pc + n) stk w)
  | IJump OpJumpIfFalse n =>
    match stk with
    | v :: _ => if truthy v then next pc stk w else SNext (mkVS (S pc + n) stk w)
    | [] => SStuck
    end
  | IJump _ _ => SStuck
  | ILoop n => if S pc <? n then SStuck else SNext (mkVS (S pc - n) stk w)
  end.

(* running off the end of the code halts too (code fragments) *)
Definition step (c : code) (s : vstate) : sres :=
  match nth_error c (vpc s) with
  | Some i => step_instr i (vpc s) (vstack s) (vwd s)
  | None => SHalt
  end.

Inductive voutcome :=
| VDone (s : vstate)
| VErr (e : err) (w : world)
| VStuck (s : vstate)
| VFuel (s : vstate).

Fixpoint run_vm (fuel : nat) (c : code) (s : vstate) : voutcome :=
  match fuel with
  | O => VFuel s
  | S f =>
    match step c s with
    | SNext s' => run_vm f c s'
    | SErr e w => VErr e w
    | SHalt => VDone s
    | SStuck => VStuck s
    end
  end.

Definition vstate0 : vstate := mkVS 0 (map snd lenv0) world0.

(* ------------------------------------------------------------------ *)
(* Disassembler: bytes + typed constant table -> symbolic instructions                        *)

Inductive raw :=
| RInstr (i : instr)
| RJump (o : opcode) (target : nat)     (* absolute byte offset *)
| RLoop (target : nat).

Definition op8_opcode (o : opcode) : bool :=
  match o with
  | OpGetLocal | OpSetLocal | OpBuildString | OpBuildTuple | OpBuildVec | OpCall => true
  | _ => false
  end.

Definition op0_opcode (o : opcode) : bool :=
  match o with
  | OpNil | OpTrue | OpFalse | OpPop | OpCopyTop | OpEqual | OpGreater | OpLess | OpAdd
  | OpSubtract | OpMultiply | OpDivide | OpBitwiseAnd | OpBitwiseOr | OpBitwiseXor | OpModulo
  | OpLogicalNot | OpBitwiseNot | OpBitShiftLeft | OpBitShiftRight | OpNegate | OpGetItem
  | OpSetItem | OpFormatString | OpBuildRange | OpReturn => true
  | _ => false
  end.

(* decode the byte list; [off] = offset of the head of [bs] *)
Fixpoint decode_raw (fuel : nat) (tbl : list const) (off : nat) (bs : list N)
  : option (list (nat * raw)) :=
  match fuel with
  | O => None
  | S f =>
    match bs with
    | [] => Some []
    | b :: r =>
      match opcode_of_N b with
      | None => None
      | Some o =>
        if op0_opcode o then
          match decode_raw f tbl (off + 1) r with
          | Some l => Some ((off, RInstr (IOp o)) :: l)
          | None => None
          end
        else if op8_opcode o then
          match r with
          | a :: r' =>
            match decode_raw f tbl (off + 2) r' with
            | Some l => Some ((off, RInstr (IOp8 o a)) :: l)
            | None => None
            end
          | [] => None
          end
        else
          match r with
          | lo :: hi :: r' =>
            let a := N.to_nat (lo + 256 * hi)%N in
            let ins :=
              match o with
              | OpConstant =>
                match nth_error tbl a with Some c => Some (RInstr (IConst c)) | None => None end
              | OpGetGlobal | OpSetGlobal | OpDefineGlobal =>
                match nth_error tbl a with
                | Some (CStr x) => Some (RInstr (IGlobal o x))
                | _ => None
                end
              | OpJump | OpJumpIfFalse => Some (RJump o (off + 3 + a))
              | OpLoop => if off + 3 <? a then None else Some (RLoop (off + 3 - a))
              | _ => None
              end in
            match ins, decode_raw f tbl (off + 3) r' with
            | Some i, Some l => Some ((off, i) :: l)
            | _, _ => None
            end
          | _ => None
          end
      end
    end
  end.

(* index of the instruction that starts at byte offset [t]; [total] maps to the length *)
Fixpoint index_of_off (l : list (nat * raw)) (t : nat) (k : nat) (total : nat) : option nat :=
  match l with
  | [] => if t =? total then Some k else None
  | (o, _) :: r => if o =? t then Some k else index_of_off r t (S k) total
  end.

Definition disasm (bytes : list N) (tbl : list const) : option (list instr) :=
  match decode_raw (S (length bytes)) tbl 0 bytes with
  | None => None
  | Some l =>
    let total := length bytes in
    (fix go (k : nat) (rest : list (nat * raw)) : option (list instr) :=
       match rest with
       | [] => Some []
       | (_, r) :: rest' =>
         let i :=
           match r with
           | RInstr i => Some i
           | RJump o t =>
             match index_of_off l t 0 total with
             | Some j => if j <? S k then None else Some (IJump o (j - S k))
             | None => None
             end
           | RLoop t =>
             match index_of_off l t 0 total with
             | Some j => if S k <? j then None else Some (ILoop (S k - j))
             | None => None
             end
           end in
         match i, go (S k) rest' with
         | Some i', Some is => Some (i' :: is)
         | _, _ => None
         end
       end) 0 l
  end.

(* ------------------------------------------------------------------ *)
(* Printable renderings for the correspondence check                                          *)

Local Open Scope string_scope.

Definition show_bytes_N (l : list N) : string :=
  hex_of_bytes (map (fun n => match Byte.of_N n with Some b => b | None => x00%byte end) l).

Definition show_const (c : const) : string :=
  match c with
  | CNum x => "N" ++ show_Z (bits_of_f64 x)
  | CStr s => "S" ++ hex_of_bytes s
  end.

Definition show_err (e : err) : string :=
  match e with
  | TypeError m => "TypeError " ++ hex_of_bytes m
  | ValueError m => "ValueError " ++ hex_of_bytes m
  | IndexError m => "IndexError " ++ hex_of_bytes m
  | NameError m => "NameError " ++ hex_of_bytes m
  | Unsupported => "UNSUPPORTED"
  end.

(* every printed line as "=<hex>" (an empty line is not the same as no line) *)
Definition show_out (w : world) : string := show_sep "," (fun l => "=" ++ hex_of_bytes l) (rev (out w)).

(* "C <code hex>|K <constants>" *)
Definition show_compiled (bpf : bool) (p : Ast.program) : string :=
  let c := cprogram bpf p in
  "C " ++ show_bytes_N (assemble c) ++ "|K " ++ show_sep "," show_const (const_table c).

(* reference evaluator: "O <lines>|R ok" / "O <lines>|R <kind> <msg hex>" *)
Definition show_eval (fuel : nat) (p : Ast.program) : string :=
  let (s, o) := run_program fuel p in
  "O " ++ show_out (wd s) ++ "|R " ++
  match o with
  | ONormal => "ok"
  | OBreak => "BREAK"
  | OContinue => "CONTINUE"
  | OErr e => show_err e
  | OFuel => "FUEL"
  end.

Definition show_voutcome (o : voutcome) : string :=
  match o with
  | VDone s => "O " ++ show_out (vwd s) ++ "|R ok"
  | VErr e w => "O " ++ show_out w ++ "|R " ++ show_err e
  | VStuck s => "O " ++ show_out (vwd s) ++ "|R STUCK@" ++ show_nat (vpc s)
  | VFuel s => "O " ++ show_out (vwd s) ++ "|R FUEL"
  end.

Definition show_run (fuel : nat) (bpf : bool) (p : Ast.program) : string :=
  show_voutcome (run_vm fuel (cprogram bpf p) vstate0).

(* run the machine on REAL bytes *)
Definition show_run_bytes (fuel : nat) (bytes : list N) (tbl : list const) : string :=
  match disasm bytes tbl with
  | Some c => show_voutcome (run_vm fuel c vstate0)
  | None => "DISASM-FAILED"
  end.
