(* General fuel sufficiency for the parser model (property C03): with default_fuel the open-recursion knot never
   bottoms out, for EVERY token list.
   Fuel is the nesting depth of calls through the record `rec`.  Measure: (tokens left, rank of the entry point),
   lexicographic: every call through `rec` either happens after a token was consumed since the caller was entered,
   or goes to an entry point of strictly smaller rank.  Ranks: parse_precedence, infix_loop, param_loop, method_loop,
   attr_args_loop, attrs_loop = 0; args_loop, group_loop, map_loop, interp_loop, statement, declaration = 1;
   block_loop, program_loop = 2.  Budget: CF * msr s + rank + 1 <= fuel. *)
From Coq Require Import Strings.Byte Strings.String.
From Coq Require Import List NArith Bool Arith Lia.
From YV Require Import Show Utf8 NumText Ast Scanner ParserRules Parser ParseRun TotalityProofs.
Import ListNotations.
Local Open Scope string_scope.
Local Open Scope list_scope.

(* tokens left: 0 exactly when the scanner is exhausted and `current` is Eof (then advance changes nothing) *)
Definition msr (s : pstate) : nat :=
  match p_rest s with
  | [] => if tkind_eqb (tk (p_cur s)) TEof then 0 else 1
  | _ :: r => S (S (length r))
  end.
Definition CF : nat := 8.

Lemma tkind_eqb_eq : forall a b, tkind_eqb a b = true -> a = b.
Proof. intros a b; destruct a; destruct b; cbn; intros H; try reflexivity; discriminate. Qed.
Lemma tkind_eqb_refl : forall a, tkind_eqb a a = true.
Proof. destruct a; reflexivity. Qed.

(* ---------- functions that leave (current, rest) alone and never run out of fuel ---------- *)
Definition keeps {A} (m : M A) : Prop :=
  forall s, match m s with
            | POutOfFuel => False
            | PErr _ _ _ => True
            | POk (_, s') => p_cur s' = p_cur s /\ p_rest s' = p_rest s
            end.
Lemma keeps_bind : forall A B (m : M A) (k : A -> M B), keeps m -> (forall a, keeps (k a)) -> keeps (bind m k).
Proof.
  intros A B m k H1 H2 s. unfold bind. specialize (H1 s). destruct (m s) as [[a s1]|l a msg|]; auto.
  specialize (H2 a s1). destruct (k a s1) as [[b s2]|l b msg|]; auto.
  destruct H1 as [E1 E2], H2 as [E3 E4]. split; congruence.
Qed.
Ltac kprim := intros s; cbn; auto.
Lemma keeps_ret : forall A (a : A), keeps (ret a). Proof. intros; kprim. Qed.
Lemma keeps_get : keeps get. Proof. kprim. Qed.
Lemma keeps_error_at : forall A t msg, keeps (@error_at A t msg). Proof. intros; kprim. Qed.
Lemma keeps_error : forall A msg, keeps (@error A msg). Proof. intros; kprim. Qed.
Lemma keeps_error_at_current : forall A msg, keeps (@error_at_current A msg). Proof. intros; kprim. Qed.
Lemma keeps_model_error : forall A msg, keeps (@model_error A msg). Proof. intros; kprim. Qed.
Lemma keeps_check : forall k, keeps (check k). Proof. intros; kprim. Qed.
Lemma keeps_check_any : forall k, keeps (check_any k). Proof. intros; kprim. Qed.
Lemma keeps_previous : keeps previous. Proof. kprim. Qed.
Lemma keeps_current : keeps current. Proof. kprim. Qed.
Lemma keeps_set_previous : forall t, keeps (set_previous t). Proof. intros; kprim. Qed.
Lemma keeps_set_stm : forall b, keeps (set_stm b). Proof. intros; kprim. Qed.
Lemma keeps_set_comps : forall b, keeps (set_comps b). Proof. intros; kprim. Qed.
Lemma keeps_set_classes : forall b, keeps (set_classes b). Proof. intros; kprim. Qed.
Lemma keeps_set_attrs : forall a o, keeps (set_attrs a o). Proof. intros; kprim. Qed.
Lemma keeps_compiler : keeps compiler_. Proof. kprim. Qed.
Lemma keeps_in_class : keeps in_class. Proof. kprim. Qed.
Lemma keeps_update_comp : forall f, keeps (update_comp f).
Proof. intros f s. unfold update_comp. destruct (p_comps s); cbn; auto. Qed.
Lemma keeps_new_compiler : forall k, keeps (new_compiler k). Proof. intros; kprim. Qed.
Lemma keeps_finalise_compiler : keeps finalise_compiler. Proof. kprim. Qed.

Create HintDb keepdb.
#[global] Hint Resolve keeps_ret keeps_get keeps_error_at keeps_error keeps_error_at_current keeps_model_error keeps_check
  keeps_check_any keeps_previous keeps_current keeps_set_previous keeps_set_stm keeps_set_comps keeps_set_classes
  keeps_set_attrs keeps_compiler keeps_in_class keeps_update_comp keeps_new_compiler keeps_finalise_compiler : keepdb.
Ltac kgo :=
  lazymatch goal with
  | |- keeps (bind _ _) => apply keeps_bind; [ kgo | intros ?; kgo ]
  | |- keeps (match ?x with _ => _ end) => destruct x; kgo
  | |- keeps (let '(_, _) := ?x in _) => destruct x; kgo
  | |- keeps _ => try solve [auto with keepdb]
  end.
Lemma keeps_begin_scope : keeps begin_scope. Proof. unfold begin_scope; kgo. Qed.
Lemma keeps_end_scope : keeps end_scope. Proof. unfold end_scope; kgo. Qed.
Lemma keeps_push_loop : keeps push_loop. Proof. unfold push_loop; kgo. Qed.
Lemma keeps_pop_loop : keeps pop_loop. Proof. unfold pop_loop; kgo. Qed.
Lemma keeps_mark_last_initialised : keeps mark_last_initialised. Proof. unfold mark_last_initialised; kgo. Qed.
#[global] Hint Resolve keeps_begin_scope keeps_end_scope keeps_push_loop keeps_pop_loop keeps_mark_last_initialised : keepdb.
Lemma keeps_add_local : forall n, keeps (add_local n). Proof. intros; unfold add_local; kgo. Qed.
Lemma keeps_mark_initialised : keeps mark_initialised. Proof. unfold mark_initialised; kgo. Qed.
#[global] Hint Resolve keeps_add_local keeps_mark_initialised : keepdb.
Lemma keeps_define_variable : keeps define_variable. Proof. unfold define_variable; kgo. Qed.
#[global] Hint Resolve keeps_define_variable : keepdb.
Lemma keeps_declare_variable : keeps declare_variable. Proof. unfold declare_variable; kgo. Qed.
Lemma keeps_resolve_variable : forall n, keeps (resolve_variable n). Proof. intros; unfold resolve_variable; kgo. Qed.
Lemma keeps_check_no_attributes : keeps check_no_attributes. Proof. unfold check_no_attributes; kgo. Qed.
Lemma keeps_check_supported_attributes : forall k, keeps (check_supported_attributes k).
Proof. intros; unfold check_supported_attributes; kgo. Qed.
Lemma keeps_take_attribute : forall n k, keeps (take_attribute n k). Proof. intros; unfold take_attribute; kgo. Qed.
#[global] Hint Resolve keeps_declare_variable keeps_resolve_variable keeps_check_no_attributes
  keeps_check_supported_attributes keeps_take_attribute : keepdb.

(* ---------- advance ---------- *)
Lemma cur_not_eof_msr : forall s, tk (p_cur s) <> TEof -> 1 <= msr s.
Proof.
  intros s H. unfold msr. destruct (p_rest s); [|lia].
  destruct (tkind_eqb (tk (p_cur s)) TEof) eqn:E; [|lia]. apply tkind_eqb_eq in E. contradiction.
Qed.
(* what advance does to the measure: never up; strictly down unless the input is exhausted, in which case the
   new `previous` is an Eof token *)
Lemma advance_msr : forall s,
  match advance s with
  | POutOfFuel => False
  | PErr _ _ _ => True
  | POk (_, s') => msr s' <= msr s /\ (1 <= msr s -> msr s' < msr s) /\ (msr s = 0 -> tk (p_prev s') = TEof)
  end.
Proof.
  intros s. unfold advance, msr. destruct (p_rest s) as [|t r] eqn:Er.
  - cbn [p_rest p_cur p_prev tk]. rewrite tkind_eqb_refl.
    destruct (tkind_eqb (tk (p_cur s)) TEof) eqn:E.
    + split; [lia|]. split; [lia|]. intros _. apply tkind_eqb_eq; exact E.
    + split; [lia|]. split; [lia|]. intros H; discriminate.
  - assert (G : forall u : unit, (fun res : presult (unit * pstate) =>
        match res with
        | POutOfFuel => False | PErr _ _ _ => True
        | POk (_, s') => match p_rest s' with [] => if tkind_eqb (tk (p_cur s')) TEof then 0 else 1 | _ :: r0 => S (S (length r0)) end
                         <= S (S (length r)) /\
                         (1 <= S (S (length r)) ->
                          match p_rest s' with [] => if tkind_eqb (tk (p_cur s')) TEof then 0 else 1 | _ :: r0 => S (S (length r0)) end
                          < S (S (length r))) /\ (S (S (length r)) = 0 -> tk (p_prev s') = TEof)
        end) (POk (u, mkP (p_cur s) t r (p_stm s) (p_comps s) (p_classes s) (p_attrs s) (p_opener s)))).
    { intros u. cbn [p_rest p_cur]. destruct r as [|t2 r2]; [destruct (tkind_eqb (tk t) TEof)|]; cbn [length]; repeat split; try lia. }
    destruct (tk t); try exact (G tt). exact I.
Qed.

(* ---------- regimes relative to the measure n at the entry of the function under proof ---------- *)
Inductive regime := Hi | Lo.
Section Body.
Variable n : nat.
Definition inreg (p : regime) (s : pstate) : Prop := match p with Hi => msr s <= n | Lo => msr s < n end.
Definition G {A} (Q : A -> regime) (res : presult (A * pstate)) : Prop :=
  match res with POutOfFuel => False | PErr _ _ _ => True | POk (x, s') => inreg (Q x) s' end.
Definition J {A} (p : regime) (Q : A -> regime) (m : M A) : Prop := forall s, inreg p s -> G Q (m s).
Definition JL {A} (m : M A) : Prop := J Lo (fun _ : A => Lo) m.

Lemma G_bind : forall A B (m : M A) (k : A -> M B) Q1 Q s,
  G Q1 (m s) -> (forall x s', inreg (Q1 x) s' -> G Q (k x s')) -> G Q (bind m k s).
Proof. intros A B m k Q1 Q s H1 H2. unfold bind. destruct (m s) as [[x s']|l a msg|]; cbn in *; auto. Qed.
Lemma J_bind : forall A B p (m : M A) (k : A -> M B) Q1 Q,
  J p Q1 m -> (forall x, J (Q1 x) Q (k x)) -> J p Q (bind m k).
Proof. intros A B p m k Q1 Q H1 H2 s Hs. eapply G_bind; [apply H1; exact Hs|]. intros x s' H. apply H2; exact H. Qed.
Lemma JL_bind : forall A B (m : M A) (k : A -> M B), JL m -> (forall x, JL (k x)) -> JL (bind m k).
Proof. intros A B m k H1 H2. unfold JL in *. eapply J_bind; [exact H1|]. intros x; apply H2. Qed.
Lemma inreg_Lo_Hi : forall s, inreg Lo s -> inreg Hi s. Proof. cbn; intros; lia. Qed.

Lemma J_keeps : forall A (m : M A) p, keeps m -> J p (fun _ => p) m.
Proof.
  intros A m p H s Hs. specialize (H s). destruct (m s) as [[x s']|l a msg|]; cbn; auto.
  destruct H as [E1 E2]. assert (E : msr s' = msr s) by (unfold msr; rewrite E1, E2; reflexivity).
  destruct p; cbn in *; lia.
Qed.
Lemma JL_keeps : forall A (m : M A), keeps m -> JL m.
Proof. intros. apply J_keeps; assumption. Qed.
Lemma J_ret : forall A (x : A) p, J p (fun _ => p) (ret x).
Proof. intros. apply J_keeps. apply keeps_ret. Qed.
Lemma J_ret_Q : forall A (x : A) p (Q : A -> regime), Q x = p -> J p Q (ret x).
Proof. intros A x p Q E s Hs. cbn. rewrite E. exact Hs. Qed.

Lemma J_advance : forall p, J p (fun _ => p) advance.
Proof.
  intros p s Hs. pose proof (advance_msr s) as H. destruct (advance s) as [[x s']|l a msg|]; cbn; auto.
  destruct H as [H _]. destruct p; cbn in *; lia.
Qed.
(* consume: a successful consume has consumed a token *)
Lemma J_consume : forall p k msg, k <> TEof -> J p (fun _ => Lo) (consume k msg).
Proof.
  intros p k msg Hk s Hs. unfold consume, bind. cbn [check].
  destruct (tkind_eqb (tk (p_cur s)) k) eqn:E; [|cbn; exact I].
  apply tkind_eqb_eq in E. assert (Hm : 1 <= msr s) by (apply cur_not_eof_msr; congruence).
  pose proof (advance_msr s) as H. destruct (advance s) as [[x s']|l a m|]; cbn; auto.
  destruct H as [_ [H _]]. specialize (H Hm). destruct p; cbn in *; lia.
Qed.
Lemma J_match_token : forall p k, k <> TEof -> J p (fun b : bool => if b then Lo else p) (match_token k).
Proof.
  intros p k Hk s Hs. unfold match_token, bind. cbn [check].
  destruct (tkind_eqb (tk (p_cur s)) k) eqn:E; [|cbn; exact Hs].
  apply tkind_eqb_eq in E. assert (Hm : 1 <= msr s) by (apply cur_not_eof_msr; congruence).
  pose proof (advance_msr s) as H. destruct (advance s) as [[x s']|l a m|]; cbn; auto.
  destruct H as [_ [H _]]. specialize (H Hm). destruct p; cbn in *; lia.
Qed.
Lemma J_match_token_mono : forall p k, J p (fun _ => p) (match_token k).
Proof.
  intros p k. unfold match_token. eapply J_bind; [apply J_keeps; apply keeps_check|]. intros b. destruct b.
  - eapply J_bind; [apply J_advance|]. intros ?. apply J_ret.
  - apply J_ret.
Qed.
Lemma JL_match_token : forall k, JL (match_token k). Proof. intros; apply J_match_token_mono. Qed.
Lemma JL_advance : JL advance. Proof. apply J_advance. Qed.
Lemma JL_consume : forall k msg, JL (consume k msg).
Proof.
  intros k msg. unfold consume. apply JL_bind; [apply JL_keeps; apply keeps_check|]. intros b.
  destruct b; [apply JL_advance|apply JL_keeps; apply keeps_error_at_current].
Qed.
End Body.

(* ---------- the induction hypothesis on the knot ---------- *)
Definition R {A} (strict : bool) (s : pstate) (res : presult (A * pstate)) : Prop :=
  match res with
  | POutOfFuel => False
  | PErr _ _ _ => True
  | POk (_, s') => if strict then msr s' < msr s else msr s' <= msr s
  end.
Record RecFuel (f : nat) (r : rec) : Prop := mkRecFuel {
  fu_pp : forall p s, CF * msr s + 0 + 1 <= f -> R true s (r_parse_precedence r p s);
  fu_il : forall p ca e s, CF * msr s + 0 + 1 <= f -> R false s (r_infix_loop r p ca e s);
  fu_args : forall m c acc s, CF * msr s + 1 + 1 <= f -> R false s (r_args_loop r m c acc s);
  fu_group : forall c acc s, CF * msr s + 1 + 1 <= f -> R false s (r_group_loop r c acc s);
  fu_map : forall c acc s, CF * msr s + 1 + 1 <= f -> R false s (r_map_loop r c acc s);
  fu_interp : forall acc s, CF * msr s + 1 + 1 <= f -> R false s (r_interp_loop r acc s);
  fu_param : forall acc s, CF * msr s + 0 + 1 <= f -> R false s (r_param_loop r acc s);
  fu_decl : forall s, CF * msr s + 1 + 1 <= f -> R true s (r_declaration r s);
  fu_stmt : forall s, CF * msr s + 1 + 1 <= f -> R true s (r_statement r s);
  fu_block : forall s, CF * msr s + 2 + 1 <= f -> R false s (r_block_loop r s);
  fu_method : forall s, CF * msr s + 0 + 1 <= f -> R false s (r_method_loop r s);
  fu_prog : forall s, CF * msr s + 2 + 1 <= f -> R false s (r_program_loop r s);
  fu_attr_args : forall acc s, CF * msr s + 0 + 1 <= f -> R false s (r_attr_args_loop r acc s);
  fu_attrs : forall acc s, CF * msr s + 0 + 1 <= f -> R false s (r_attrs_loop r acc s)
}.

Lemma rec_bottom_fuel : RecFuel 0 rec_bottom.
Proof. constructor; intros; lia. Qed.

Section Step.
Variable f : nat.
Variable r : rec.
Hypothesis Hr : RecFuel f r.
Variable n k : nat.
Hypothesis Hn : CF * n + k <= f.

Lemma R_G_lo : forall A b s (res : presult (A * pstate)), inreg n Lo s -> R b s res -> G n (fun _ => Lo) res.
Proof. intros A b s [[x s']|l a m|] Hs H; cbn in *; auto. destruct b; lia. Qed.
Lemma R_G_strict : forall A s (res : presult (A * pstate)), inreg n Hi s -> R true s res -> G n (fun _ => Lo) res.
Proof. intros A s [[x s']|l a m|] Hs H; cbn in *; auto. lia. Qed.
Lemma R_G_hi : forall A b s (res : presult (A * pstate)), inreg n Hi s -> R b s res -> G n (fun _ => Hi) res.
Proof. intros A b s [[x s']|l a m|] Hs H; cbn in *; auto. destruct b; lia. Qed.

Ltac lo_call fld := intros; intros s Hs; eapply R_G_lo; [exact Hs|]; apply (fld _ _ Hr); cbn in Hs; unfold CF in *; lia.
Lemma JL_r_pp : forall p, JL n (r_parse_precedence r p). Proof. lo_call fu_pp. Qed.
Lemma JL_r_il : forall p ca e, JL n (r_infix_loop r p ca e). Proof. lo_call fu_il. Qed.
Lemma JL_r_args : forall m c acc, JL n (r_args_loop r m c acc). Proof. lo_call fu_args. Qed.
Lemma JL_r_group : forall c acc, JL n (r_group_loop r c acc). Proof. lo_call fu_group. Qed.
Lemma JL_r_map : forall c acc, JL n (r_map_loop r c acc). Proof. lo_call fu_map. Qed.
Lemma JL_r_interp : forall acc, JL n (r_interp_loop r acc). Proof. lo_call fu_interp. Qed.
Lemma JL_r_param : forall acc, JL n (r_param_loop r acc). Proof. lo_call fu_param. Qed.
Lemma JL_r_decl : JL n (r_declaration r). Proof. lo_call fu_decl. Qed.
Lemma JL_r_stmt : JL n (r_statement r). Proof. lo_call fu_stmt. Qed.
Lemma JL_r_block : JL n (r_block_loop r). Proof. lo_call fu_block. Qed.
Lemma JL_r_method : JL n (r_method_loop r). Proof. lo_call fu_method. Qed.
Lemma JL_r_prog : JL n (r_program_loop r). Proof. lo_call fu_prog. Qed.
Lemma JL_r_attr_args : forall acc, JL n (r_attr_args_loop r acc). Proof. lo_call fu_attr_args. Qed.
Lemma JL_r_attrs : forall acc, JL n (r_attrs_loop r acc). Proof. lo_call fu_attrs. Qed.
(* calls made before any token was consumed: to a smaller rank only *)
Lemma JH_r_pp : 0 < k -> forall p, J n Hi (fun _ => Lo) (r_parse_precedence r p).
Proof. intros Hk p s Hs. eapply R_G_strict; [exact Hs|]. apply (fu_pp _ _ Hr). cbn in Hs. unfold CF in *. lia. Qed.
Lemma JH_r_decl : 1 < k -> J n Hi (fun _ => Lo) (r_declaration r).
Proof. intros Hk s Hs. eapply R_G_strict; [exact Hs|]. apply (fu_decl _ _ Hr). cbn in Hs. unfold CF in *. lia. Qed.

Create HintDb jldb.
#[local] Hint Resolve JL_r_pp JL_r_il JL_r_args JL_r_group JL_r_map JL_r_interp JL_r_param JL_r_decl JL_r_stmt JL_r_block
  JL_r_method JL_r_prog JL_r_attr_args JL_r_attrs JL_match_token JL_advance JL_consume : jldb.
Ltac jl :=
  lazymatch goal with
  | |- JL _ (bind _ _) => apply JL_bind; [ jl | intros ?; jl ]
  | |- JL _ (match ?x with _ => _ end) => destruct x; jl
  | |- JL _ _ => try solve [ auto with jldb | apply JL_keeps; kgo ]
  end.
Lemma JL_any : forall A (m : M A) Q, JL n m -> J n Lo Q m.
Proof.
  intros A m Q H s Hs. specialize (H s Hs). destruct (m s) as [[x s']|l a msg|]; cbn in *; auto.
  destruct (Q x); cbn; lia.
Qed.

Lemma JL_match_binary_assignment : JL n match_binary_assignment. Proof. unfold match_binary_assignment. jl. Qed.
Lemma JL_parse_variable : forall msg, JL n (parse_variable msg). Proof. intros. unfold parse_variable. jl. Qed.
#[local] Hint Resolve JL_match_binary_assignment JL_parse_variable : jldb.
Lemma JL_expression : JL n (expression r).
Proof. unfold expression. jl. Qed.
#[local] Hint Resolve JL_expression : jldb.
Lemma JL_block : JL n (block r). Proof. unfold block. jl. Qed.
#[local] Hint Resolve JL_block : jldb.
Lemma JL_scoped_block : JL n (scoped_block r). Proof. unfold scoped_block. jl. Qed.
#[local] Hint Resolve JL_scoped_block : jldb.
Lemma JL_argument_list : forall a b c, JL n (argument_list r a b c). Proof. intros. unfold argument_list. jl. Qed.
#[local] Hint Resolve JL_argument_list : jldb.
Lemma JL_parameter_list : forall a, JL n (parameter_list r a). Proof. intros. unfold parameter_list. jl. Qed.
#[local] Hint Resolve JL_parameter_list : jldb.
Lemma JL_binary_assign : JL n (binary_assign r). Proof. unfold binary_assign. jl. Qed.
#[local] Hint Resolve JL_binary_assign : jldb.
Lemma JL_named_variable : forall a b, JL n (named_variable r a b). Proof. intros. unfold named_variable. jl. Qed.
#[local] Hint Resolve JL_named_variable : jldb.
Lemma JL_grouping : forall ca, JL n (grouping r ca). Proof. intros. unfold grouping. jl. Qed.
Lemma JL_hash_map : forall ca, JL n (hash_map r ca). Proof. intros. unfold hash_map. jl. Qed.
Lemma JL_vector : forall ca, JL n (vector r ca). Proof. intros. unfold vector. jl. Qed.
Lemma JL_unary : forall ca, JL n (unary r ca). Proof. intros. unfold unary. jl. Qed.
Lemma JL_lambda : forall ca, JL n (lambda r ca). Proof. intros. unfold lambda. jl. Qed.
Lemma JL_variable : forall ca, JL n (variable r ca). Proof. intros. unfold variable. jl. Qed.
Lemma JL_string : forall ca, JL n (string_ ca). Proof. intros. unfold string_. jl. Qed.
Lemma JL_interpolation : forall ca, JL n (interpolation r ca). Proof. intros. unfold interpolation. jl. Qed.
Lemma JL_number : forall ca, JL n (number ca). Proof. intros. unfold number. jl. Qed.
Lemma JL_literal : forall ca, JL n (literal ca). Proof. intros. unfold literal. jl. Qed.
Lemma JL_self : forall ca, JL n (self_ ca). Proof. intros. unfold self_. jl. Qed.
Lemma JL_cap_self : forall ca, JL n (cap_self ca). Proof. intros. unfold cap_self. jl. Qed.
Lemma JL_call_args : JL n (call_args r). Proof. unfold call_args. jl. Qed.
#[local] Hint Resolve JL_call_args : jldb.
Lemma JL_super : forall ca, JL n (super_ r ca). Proof. intros. unfold super_. jl. Qed.
#[local] Hint Resolve JL_grouping JL_hash_map JL_vector JL_unary JL_lambda JL_variable JL_string JL_interpolation JL_number
  JL_literal JL_self JL_cap_self JL_super : jldb.
Lemma JL_prefix : forall h ca, JL n (prefix r h ca). Proof. intros. unfold prefix. jl. Qed.
Lemma JL_binary : forall l ca, JL n (binary rules_ref r l ca). Proof. intros. unfold binary. jl. Qed.
Lemma JL_call : forall l ca, JL n (call r l ca). Proof. intros. unfold call. jl. Qed.
Lemma JL_dot : forall l ca, JL n (dot r l ca). Proof. intros. unfold dot. jl. Qed.
Lemma JL_dotdot : forall l ca, JL n (dotdot r l ca). Proof. intros. unfold dotdot. jl. Qed.
Lemma JL_index : forall l ca, JL n (index r l ca). Proof. intros. unfold index. jl. Qed.
Lemma JL_and : forall l ca, JL n (and_ r l ca). Proof. intros. unfold and_. jl. Qed.
Lemma JL_or : forall l ca, JL n (or_ r l ca). Proof. intros. unfold or_. jl. Qed.
#[local] Hint Resolve JL_prefix JL_binary JL_call JL_dot JL_dotdot JL_index JL_and JL_or : jldb.
Lemma JL_infix : forall h l ca, JL n (infix rules_ref r h l ca). Proof. intros. unfold infix. jl. Qed.
#[local] Hint Resolve JL_infix : jldb.
Lemma JL_function : forall kd, JL n (function_ r kd). Proof. intros. unfold function_. jl. Qed.
#[local] Hint Resolve JL_function : jldb.
Lemma JL_attribute : JL n (attribute_ r). Proof. unfold attribute_. jl. Qed.
#[local] Hint Resolve JL_attribute : jldb.
Lemma JL_attributes_declaration : JL n (attributes_declaration r). Proof. unfold attributes_declaration. jl. Qed.
#[local] Hint Resolve JL_attributes_declaration : jldb.
Lemma JL_method : JL n (method r). Proof. unfold method. jl. Qed.
#[local] Hint Resolve JL_method : jldb.
Lemma JL_class_declaration : forall l, JL n (class_declaration r l). Proof. intros. unfold class_declaration. jl. Qed.
Lemma JL_fn_declaration : forall l, JL n (fn_declaration r l). Proof. intros. unfold fn_declaration. jl. Qed.
Lemma JL_var_declaration : forall l, JL n (var_declaration r l). Proof. intros. unfold var_declaration. jl. Qed.
Lemma JL_expression_statement : forall l, JL n (expression_statement r l). Proof. intros. unfold expression_statement. jl. Qed.
Lemma JL_import_statement : forall l, JL n (import_statement l). Proof. intros. unfold import_statement. jl. Qed.
Lemma JL_for_statement : forall l, JL n (for_statement r l). Proof. intros. unfold for_statement. jl. Qed.
Lemma JL_if_statement : forall l, JL n (if_statement r l). Proof. intros. unfold if_statement. jl. Qed.
Lemma JL_return_statement : forall l, JL n (return_statement r l). Proof. intros. unfold return_statement. jl. Qed.
Lemma JL_break_statement : forall l, JL n (break_statement l). Proof. intros. unfold break_statement. jl. Qed.
Lemma JL_continue_statement : forall l, JL n (continue_statement l). Proof. intros. unfold continue_statement. jl. Qed.
Lemma JL_throw_statement : forall l, JL n (throw_statement r l). Proof. intros. unfold throw_statement. jl. Qed.
Lemma JL_try_statement : forall l, JL n (try_statement r l). Proof. intros. unfold try_statement. jl. Qed.
Lemma JL_while_statement : forall l, JL n (while_statement r l). Proof. intros. unfold while_statement. jl. Qed.

(* ---------- the entry points, entered with measure <= n and nothing consumed yet ---------- *)

Lemma JH_expression : 0 < k -> J n Hi (fun _ => Lo) (expression r).
Proof.
  intros Hk. unfold expression. eapply J_bind; [apply J_keeps; apply keeps_get|]. intros s. apply JH_r_pp; exact Hk.
Qed.

(* after an `advance` that really consumed a token everything is in the Lo regime *)
Lemma adv_then : forall A (k' : M A) Q s, inreg n Hi s -> 1 <= msr s -> JL n k' -> G n Q (bind advance (fun _ => k') s).
Proof.
  intros A k' Q s Hs Hm Hk. pose proof (advance_msr s) as H. unfold bind.
  destruct (advance s) as [[x s1]|l a m|]; cbn; auto. destruct H as [_ [H _]]. specialize (H Hm).
  apply (JL_any _ k' Q Hk). cbn in *. lia.
Qed.

Lemma body_pp : forall p, J n Hi (fun _ => Lo) (parse_precedence rules_ref r p).
Proof.
  intros p s Hs. unfold parse_precedence.
  destruct (Nat.eq_dec (msr s) 0) as [Z|NZ].
  - pose proof (advance_msr s) as H. unfold bind at 1. destruct (advance s) as [[x s1]|l a m|]; cbn; auto.
    destruct H as [_ [_ H]]. specialize (H Z). unfold bind at 1. cbn [previous]. rewrite H. cbn. exact I.
  - apply adv_then; [exact Hs|lia|]. jl.
Qed.
Lemma body_il : forall p ca l, J n Hi (fun _ => Hi) (infix_loop rules_ref r p ca l).
Proof.
  intros p ca l s Hs. unfold infix_loop. unfold bind at 1. cbn [current].
  destruct (prec_leb p (r_prec (rules_ref (tk (p_cur s))))); [|cbn; exact Hs].
  destruct (Nat.eq_dec (msr s) 0) as [Z|NZ].
  - pose proof (advance_msr s) as H. unfold bind at 1. destruct (advance s) as [[x s1]|l' a m|]; cbn; auto.
    destruct H as [_ [_ H]]. specialize (H Z). unfold bind at 1. cbn [previous]. rewrite H. cbn. exact I.
  - apply adv_then; [exact Hs|lia|]. jl.
Qed.
Lemma body_args : 0 < k -> forall m c acc, J n Hi (fun _ => Hi) (args_loop r m c acc).
Proof. intros Hk m c acc. unfold args_loop. eapply J_bind; [apply JH_expression; exact Hk|]. intros e. apply JL_any. jl. Qed.
Lemma body_group : 0 < k -> forall c acc, J n Hi (fun _ => Hi) (group_loop r c acc).
Proof. intros Hk c acc. unfold group_loop. eapply J_bind; [apply JH_expression; exact Hk|]. intros e. apply JL_any. jl. Qed.
Lemma body_map : 0 < k -> forall c acc, J n Hi (fun _ => Hi) (map_loop r c acc).
Proof. intros Hk c acc. unfold map_loop. eapply J_bind; [apply JH_expression; exact Hk|]. intros e. apply JL_any. jl. Qed.
Lemma body_interp : 0 < k -> forall acc, J n Hi (fun _ => Hi) (interp_loop r acc).
Proof.
  intros Hk acc. unfold interp_loop. eapply J_bind; [apply J_keeps; apply keeps_previous|]. intros p.
  eapply J_bind; [apply JH_expression; exact Hk|]. intros e. apply JL_any. jl.
Qed.
Lemma body_param : forall acc, J n Hi (fun _ => Hi) (param_loop r acc).
Proof.
  intros acc. unfold param_loop.
  eapply J_bind; [apply J_keeps; apply keeps_update_comp|]. intros ?.
  eapply J_bind; [apply J_keeps; apply keeps_compiler|]. intros c.
  eapply J_bind; [apply (J_keeps n _ _ Hi); kgo|]. intros ?.
  unfold parse_variable.
  eapply J_bind.
  { eapply J_bind; [apply J_consume; discriminate|]. intros ?. apply JL_any. jl. }
  intros pv. apply JL_any. jl.
Qed.
Lemma body_attr_args : forall acc, J n Hi (fun _ => Hi) (attr_args_loop r acc).
Proof.
  intros acc. unfold attr_args_loop. eapply J_bind; [apply J_match_token; discriminate|]. intros m.
  destruct m; cbn [negb].
  - apply JL_any. jl.
  - apply J_keeps. apply keeps_error_at_current.
Qed.
Lemma JH_attribute : J n Hi (fun a => match a with Some _ => Lo | None => Hi end) (attribute_ r).
Proof.
  unfold attribute_. eapply J_bind; [apply J_match_token; discriminate|]. intros m. destruct m; cbn [negb].
  - apply JL_any. jl.
  - apply J_ret_Q. reflexivity.
Qed.
Lemma body_attrs : forall acc, J n Hi (fun _ => Hi) (attrs_loop r acc).
Proof.
  intros acc. unfold attrs_loop. eapply J_bind; [apply JH_attribute|]. intros a. destruct a as [a|].
  - apply JL_any. jl.
  - apply J_ret.
Qed.
Lemma JH_method : J n Hi (fun _ => Lo) (method r).
Proof.
  unfold method. eapply J_bind; [apply J_match_token; discriminate|]. intros h. destruct h.
  - apply JL_any. jl.
  - eapply J_bind; [apply J_ret|]. intros ?.
    eapply J_bind; [apply J_keeps; apply keeps_take_attribute|]. intros sa.
    eapply J_bind; [apply J_keeps; apply keeps_take_attribute|]. intros ca.
    eapply J_bind; [apply J_keeps; apply keeps_check_supported_attributes|]. intros ?.
    eapply J_bind; [apply J_consume; discriminate|]. intros ?. apply JL_any. jl.
Qed.
Lemma body_method : J n Hi (fun _ => Hi) (method_loop r).
Proof.
  unfold method_loop.
  eapply J_bind; [apply J_keeps; apply keeps_check|]. intros rb.
  eapply J_bind; [apply J_keeps; apply keeps_check|]. intros eof.
  destruct (rb || eof); [apply J_ret|].
  eapply J_bind; [apply JH_method|]. intros m. apply JL_any. jl.
Qed.
Lemma body_block : 1 < k -> J n Hi (fun _ => Hi) (block_loop r).
Proof.
  intros Hk. unfold block_loop.
  eapply J_bind; [apply J_keeps; apply keeps_check|]. intros rb.
  eapply J_bind; [apply J_keeps; apply keeps_check|]. intros eof.
  destruct (rb || eof); [apply J_ret|].
  eapply J_bind; [apply JH_r_decl; exact Hk|]. intros d. apply JL_any. jl.
Qed.
Lemma body_prog : 1 < k -> J n Hi (fun _ => Hi) (program_loop r).
Proof.
  intros Hk. unfold program_loop.
  eapply J_bind; [apply J_match_token_mono|]. intros e. destruct e; [apply J_ret|].
  eapply J_bind; [apply JH_r_decl; exact Hk|]. intros d. apply JL_any. jl.
Qed.

Lemma JH_expression_statement : 0 < k -> forall l, J n Hi (fun _ => Lo) (expression_statement r l).
Proof. intros Hk l. unfold expression_statement. eapply J_bind; [apply JH_expression; exact Hk|]. intros e. apply JL_any. jl. Qed.

Lemma body_stmt : 0 < k -> J n Hi (fun _ => Lo) (statement r).
Proof.
  intros Hk s Hs. unfold statement.
  eapply G_bind; [apply (J_keeps n _ _ Hi keeps_check_no_attributes); exact Hs|]. intros ? s1 H1.
  unfold bind at 1. cbn [current].
  assert (Hdef : G n (fun _ : stmt => Lo) (expression_statement r (tline (p_cur s1)) s1))
    by (apply JH_expression_statement; assumption).
  destruct (tk (p_cur s1)) eqn:E; try exact Hdef;
    (apply adv_then; [exact H1|apply cur_not_eof_msr; rewrite E; discriminate|]);
    first [ apply JL_import_statement | apply JL_for_statement | apply JL_if_statement | apply JL_return_statement
          | apply JL_break_statement | apply JL_continue_statement | apply JL_throw_statement | apply JL_try_statement
          | apply JL_while_statement | jl ].
Qed.
Lemma body_decl : 0 < k -> J n Hi (fun _ => Lo) (declaration r).
Proof.
  intros Hk s Hs. unfold declaration. unfold bind at 1. cbn [current].
  assert (Hdef : G n (fun _ : option stmt => Lo) (bind (statement r) (fun st => ret (Some st)) s)).
  { eapply G_bind; [apply body_stmt; assumption|]. intros st s' H. cbn. exact H. }
  destruct (tk (p_cur s)) eqn:E; try exact Hdef;
    (apply adv_then; [exact Hs|apply cur_not_eof_msr; rewrite E; discriminate|]).
  all: apply JL_bind; [first [apply JL_class_declaration|apply JL_attributes_declaration|apply JL_fn_declaration|apply JL_var_declaration]|];
       intros ?; apply JL_keeps; apply keeps_ret.
Qed.
End Step.

(* ---------- one more level of the knot ---------- *)
Lemma G_R_strict : forall A s (res : presult (A * pstate)), G (msr s) (fun _ => Lo) res -> R true s res.
Proof. intros A s [[x s']|l a m|] H; cbn in *; auto. Qed.
Lemma G_R_mono : forall A s (res : presult (A * pstate)), G (msr s) (fun _ => Hi) res -> R false s res.
Proof. intros A s [[x s']|l a m|] H; cbn in *; auto. Qed.

Lemma step_fuel : forall f r, RecFuel f r -> RecFuel (S f) (step rules_ref r).
Proof.
  intros f r Hr.
  constructor; cbn [step r_parse_precedence r_infix_loop r_args_loop r_group_loop r_map_loop r_interp_loop
                    r_param_loop r_declaration r_statement r_block_loop r_method_loop r_program_loop
                    r_attr_args_loop r_attrs_loop]; intros.
  - apply G_R_strict. apply (body_pp f r Hr (msr s) 0); [lia|cbn; lia].
  - apply G_R_mono. apply (body_il f r Hr (msr s) 0); [lia|cbn; lia].
  - apply G_R_mono. apply (body_args f r Hr (msr s) 1); [lia|lia|cbn; lia].
  - apply G_R_mono. apply (body_group f r Hr (msr s) 1); [lia|lia|cbn; lia].
  - apply G_R_mono. apply (body_map f r Hr (msr s) 1); [lia|lia|cbn; lia].
  - apply G_R_mono. apply (body_interp f r Hr (msr s) 1); [lia|lia|cbn; lia].
  - apply G_R_mono. apply (body_param f r Hr (msr s) 0); [lia|cbn; lia].
  - apply G_R_strict. apply (body_decl f r Hr (msr s) 1); [lia|lia|cbn; lia].
  - apply G_R_strict. apply (body_stmt f r Hr (msr s) 1); [lia|lia|cbn; lia].
  - apply G_R_mono. apply (body_block f r Hr (msr s) 2); [lia|lia|cbn; lia].
  - apply G_R_mono. apply (body_method f r Hr (msr s) 0); [lia|cbn; lia].
  - apply G_R_mono. apply (body_prog f r Hr (msr s) 2); [lia|lia|cbn; lia].
  - apply G_R_mono. apply (body_attr_args f r Hr (msr s) 0); [lia|cbn; lia].
  - apply G_R_mono. apply (body_attrs f r Hr (msr s) 0); [lia|cbn; lia].
Qed.

Lemma knot_fuel : forall f, RecFuel f (knot rules_ref f).
Proof. induction f as [|f IH]; cbn [knot]; [apply rec_bottom_fuel|apply step_fuel; exact IH]. Qed.
Print Assumptions knot_fuel.

(* ---------- the whole parser ---------- *)
Lemma msr_init : forall toks, msr (init_pstate toks) = match toks with [] => 0 | _ :: _ => S (length toks) end.
Proof. intros [|t r]; reflexivity. Qed.

(* any fuel >= 8 * tokens + 3 is enough *)
Theorem parse_fuel_bound : forall toks fuel, CF * length toks + 3 <= fuel ->
  run (parse rules_ref fuel) toks <> POutOfFuel.
Proof.
  intros toks fuel Hf. unfold run, parse.
  set (s0 := init_pstate toks).
  assert (N : (advance;;; (p <- r_program_loop (knot rules_ref fuel);; check_no_attributes;;; ret p)) s0 <> POutOfFuel).
  { unfold bind at 1. pose proof (advance_msr s0) as H.
    destruct (advance s0) as [[x s1]|l a m|]; [|discriminate|contradiction].
    destruct H as [H1 [H2 _]].
    assert (Hm : msr s1 <= length toks).
    { unfold s0 in *. rewrite msr_init in *. destruct toks as [|t r]; cbn [length] in *; lia. }
    unfold bind at 1.
    pose proof (fu_prog _ _ (knot_fuel fuel) s1) as P.
    assert (B : CF * msr s1 + 2 + 1 <= fuel) by (unfold CF in *; lia). specialize (P B).
    destruct (r_program_loop (knot rules_ref fuel) s1) as [[p s2]|l a m|]; [|discriminate|contradiction].
    pose proof (keeps_bind _ _ check_no_attributes (fun _ => ret p) keeps_check_no_attributes (fun _ => keeps_ret _ p) s2) as K.
    destruct ((check_no_attributes;;; ret p) s2) as [[q s3]|l a m|]; [discriminate|discriminate|contradiction]. }
  destruct ((advance;;; (p <- r_program_loop (knot rules_ref fuel);; check_no_attributes;;; ret p)) s0) as [[p s]|l a m|];
    [discriminate|discriminate|contradiction].
Qed.

(* GENERAL FUEL SUFFICIENCY: with default_fuel the parser model never abstains, on EVERY token list *)
Theorem parse_fuel_enough : forall toks, parse_program toks <> POutOfFuel.
Proof.
  intros toks. unfold parse_program, parse_program_with. apply parse_fuel_bound. unfold default_fuel, CF. lia.
Qed.
Print Assumptions parse_fuel_enough.

Theorem parse_source_fuel_enough : forall src, parse_source src <> POutOfFuel.
Proof. intros src. unfold parse_source. apply parse_fuel_enough. Qed.

(* the bound is about nesting depth: 200 nested parentheses need depth > 200 and get it *)
Example parse_fuel_enough_ex :
  run_parse (String.concat "" (repeat "(" 200) ++ "1" ++ String.concat "" (repeat ")" 200) ++ ";") = "OK"%string.
Proof. vm_compute. reflexivity. Qed.

(* ------------------------------------------------------------------ *)
(* more fuel never changes an answer                                    *)
(* ------------------------------------------------------------------ *)
Definition le_res {A} (a b : presult A) : Prop := a = POutOfFuel \/ a = b.
Definition lem {A} (m m' : M A) : Prop := forall s, le_res (m s) (m' s).
Lemma lem_refl : forall A (m : M A), lem m m. Proof. intros A m s. right. reflexivity. Qed.
Lemma lem_bind : forall A B (m m' : M A) (k k' : A -> M B),
  lem m m' -> (forall x, lem (k x) (k' x)) -> lem (bind m k) (bind m' k').
Proof.
  intros A B m m' k k' H1 H2 s. unfold bind. destruct (H1 s) as [E|E]; rewrite E.
  - left. reflexivity.
  - destruct (m' s) as [[x s1]|l a msg|]; [apply H2|right; reflexivity|left; reflexivity].
Qed.
Lemma lem_bottom : forall A (m : M A), lem out_of_fuel m. Proof. intros A m s. left. reflexivity. Qed.

Record RecLe (r r' : rec) : Prop := mkRecLe {
  le_pp : forall p, lem (r_parse_precedence r p) (r_parse_precedence r' p);
  le_il : forall p ca e, lem (r_infix_loop r p ca e) (r_infix_loop r' p ca e);
  le_args : forall m c acc, lem (r_args_loop r m c acc) (r_args_loop r' m c acc);
  le_group : forall c acc, lem (r_group_loop r c acc) (r_group_loop r' c acc);
  le_map : forall c acc, lem (r_map_loop r c acc) (r_map_loop r' c acc);
  le_interp : forall acc, lem (r_interp_loop r acc) (r_interp_loop r' acc);
  le_param : forall acc, lem (r_param_loop r acc) (r_param_loop r' acc);
  le_decl : lem (r_declaration r) (r_declaration r');
  le_stmt : lem (r_statement r) (r_statement r');
  le_block : lem (r_block_loop r) (r_block_loop r');
  le_method : lem (r_method_loop r) (r_method_loop r');
  le_prog : lem (r_program_loop r) (r_program_loop r');
  le_attr_args : forall acc, lem (r_attr_args_loop r acc) (r_attr_args_loop r' acc);
  le_attrs : forall acc, lem (r_attrs_loop r acc) (r_attrs_loop r' acc)
}.
Lemma rec_bottom_le : forall r', RecLe rec_bottom r'.
Proof. intros r'. constructor; intros; cbn; apply lem_bottom. Qed.

Section Mono.
Variable rules : tkind -> rule.
Variables r r' : rec.
Hypothesis Hle : RecLe r r'.
Let L1 := le_pp _ _ Hle. Let L2 := le_il _ _ Hle. Let L3 := le_args _ _ Hle. Let L4 := le_group _ _ Hle.
Let L5 := le_map _ _ Hle. Let L6 := le_interp _ _ Hle. Let L7 := le_param _ _ Hle. Let L8 := le_decl _ _ Hle.
Let L9 := le_stmt _ _ Hle. Let L10 := le_block _ _ Hle. Let L11 := le_method _ _ Hle. Let L12 := le_prog _ _ Hle.
Let L13 := le_attr_args _ _ Hle. Let L14 := le_attrs _ _ Hle.
Create HintDb ledb.
#[local] Hint Resolve L1 L2 L3 L4 L5 L6 L7 L8 L9 L10 L11 L12 L13 L14 lem_refl : ledb.
Ltac lgo :=
  lazymatch goal with
  | |- lem (bind _ _) (bind _ _) => apply lem_bind; [ lgo | intros ?; lgo ]
  | |- lem (match ?x with _ => _ end) (match ?x with _ => _ end) => destruct x; lgo
  | |- lem _ _ => try solve [ apply lem_refl | auto with ledb ]
  end.
Ltac lf F := intros; unfold F; lgo.

Lemma le_expression : lem (expression r) (expression r'). Proof. lf expression. Qed.
#[local] Hint Resolve le_expression : ledb.
Lemma le_block_f : lem (block r) (block r'). Proof. lf block. Qed.
#[local] Hint Resolve le_block_f : ledb.
Lemma le_block_loop : lem (block_loop r) (block_loop r'). Proof. lf block_loop. Qed.
Lemma le_scoped_block : lem (scoped_block r) (scoped_block r'). Proof. lf scoped_block. Qed.
#[local] Hint Resolve le_scoped_block : ledb.
Lemma le_args_loop : forall m c acc, lem (args_loop r m c acc) (args_loop r' m c acc). Proof. lf args_loop. Qed.
Lemma le_argument_list : forall a b c, lem (argument_list r a b c) (argument_list r' a b c). Proof. lf argument_list. Qed.
#[local] Hint Resolve le_argument_list : ledb.
Lemma le_param_loop : forall acc, lem (param_loop r acc) (param_loop r' acc). Proof. lf param_loop. Qed.
Lemma le_parameter_list : forall a, lem (parameter_list r a) (parameter_list r' a). Proof. lf parameter_list. Qed.
#[local] Hint Resolve le_parameter_list : ledb.
Lemma le_binary_assign : lem (binary_assign r) (binary_assign r'). Proof. lf binary_assign. Qed.
#[local] Hint Resolve le_binary_assign : ledb.
Lemma le_named_variable : forall a b, lem (named_variable r a b) (named_variable r' a b). Proof. lf named_variable. Qed.
#[local] Hint Resolve le_named_variable : ledb.
Lemma le_group_loop : forall c acc, lem (group_loop r c acc) (group_loop r' c acc). Proof. lf group_loop. Qed.
Lemma le_grouping : forall ca, lem (grouping r ca) (grouping r' ca).
Proof. intros. unfold grouping. apply lem_bind; [apply lem_refl|]. intros rp. apply lem_bind; [destruct rp; lgo|]. intros [es single]. lgo. Qed.
Lemma le_map_loop : forall c acc, lem (map_loop r c acc) (map_loop r' c acc). Proof. lf map_loop. Qed.
Lemma le_hash_map : forall ca, lem (hash_map r ca) (hash_map r' ca). Proof. lf hash_map. Qed.
Lemma le_vector : forall ca, lem (vector r ca) (vector r' ca). Proof. lf vector. Qed.
Lemma le_unary : forall ca, lem (unary r ca) (unary r' ca). Proof. lf unary. Qed.
Lemma le_lambda : forall ca, lem (lambda r ca) (lambda r' ca). Proof. lf lambda. Qed.
Lemma le_variable : forall ca, lem (variable r ca) (variable r' ca). Proof. lf variable. Qed.
Lemma le_interp_loop : forall acc, lem (interp_loop r acc) (interp_loop r' acc). Proof. lf interp_loop. Qed.
Lemma le_interpolation : forall ca, lem (interpolation r ca) (interpolation r' ca). Proof. lf interpolation. Qed.
Lemma le_call_args : lem (call_args r) (call_args r'). Proof. lf call_args. Qed.
#[local] Hint Resolve le_call_args : ledb.
Lemma le_super : forall ca, lem (super_ r ca) (super_ r' ca). Proof. lf super_. Qed.
#[local] Hint Resolve le_grouping le_hash_map le_vector le_unary le_lambda le_variable le_interpolation le_super : ledb.
Lemma le_prefix : forall h ca, lem (prefix r h ca) (prefix r' h ca). Proof. intros. unfold prefix. destruct h; lgo. Qed.
Lemma le_binary : forall l ca, lem (binary rules r l ca) (binary rules r' l ca). Proof. lf binary. Qed.
Lemma le_call : forall l ca, lem (call r l ca) (call r' l ca). Proof. lf call. Qed.
Lemma le_dot : forall l ca, lem (dot r l ca) (dot r' l ca). Proof. lf dot. Qed.
Lemma le_dotdot : forall l ca, lem (dotdot r l ca) (dotdot r' l ca). Proof. lf dotdot. Qed.
Lemma le_index : forall l ca, lem (index r l ca) (index r' l ca). Proof. lf index. Qed.
Lemma le_and : forall l ca, lem (and_ r l ca) (and_ r' l ca). Proof. lf and_. Qed.
Lemma le_or : forall l ca, lem (or_ r l ca) (or_ r' l ca). Proof. lf or_. Qed.
#[local] Hint Resolve le_prefix le_binary le_call le_dot le_dotdot le_index le_and le_or : ledb.
Lemma le_infix : forall h l ca, lem (infix rules r h l ca) (infix rules r' h l ca). Proof. intros. unfold infix. destruct h; lgo. Qed.
#[local] Hint Resolve le_infix : ledb.
Lemma le_infix_loop : forall p ca l, lem (infix_loop rules r p ca l) (infix_loop rules r' p ca l). Proof. lf infix_loop. Qed.
Lemma le_parse_precedence : forall p, lem (parse_precedence rules r p) (parse_precedence rules r' p). Proof. lf parse_precedence. Qed.
Lemma le_function : forall kd, lem (function_ r kd) (function_ r' kd). Proof. lf function_. Qed.
#[local] Hint Resolve le_function : ledb.
Lemma le_attr_args_loop : forall acc, lem (attr_args_loop r acc) (attr_args_loop r' acc). Proof. lf attr_args_loop. Qed.
Lemma le_attribute : lem (attribute_ r) (attribute_ r'). Proof. lf attribute_. Qed.
#[local] Hint Resolve le_attribute : ledb.
Lemma le_attrs_loop : forall acc, lem (attrs_loop r acc) (attrs_loop r' acc). Proof. lf attrs_loop. Qed.
Lemma le_attributes_declaration : lem (attributes_declaration r) (attributes_declaration r'). Proof. lf attributes_declaration. Qed.
#[local] Hint Resolve le_attributes_declaration : ledb.
Lemma le_method_f : lem (method r) (method r'). Proof. lf method. Qed.
#[local] Hint Resolve le_method_f : ledb.
Lemma le_method_loop : lem (method_loop r) (method_loop r'). Proof. lf method_loop. Qed.
Lemma le_class_declaration : forall l, lem (class_declaration r l) (class_declaration r' l). Proof. lf class_declaration. Qed.
Lemma le_fn_declaration : forall l, lem (fn_declaration r l) (fn_declaration r' l). Proof. lf fn_declaration. Qed.
Lemma le_var_declaration : forall l, lem (var_declaration r l) (var_declaration r' l). Proof. lf var_declaration. Qed.
Lemma le_expression_statement : forall l, lem (expression_statement r l) (expression_statement r' l). Proof. lf expression_statement. Qed.
Lemma le_for_statement : forall l, lem (for_statement r l) (for_statement r' l). Proof. lf for_statement. Qed.
Lemma le_if_statement : forall l, lem (if_statement r l) (if_statement r' l). Proof. lf if_statement. Qed.
Lemma le_return_statement : forall l, lem (return_statement r l) (return_statement r' l). Proof. lf return_statement. Qed.
Lemma le_throw_statement : forall l, lem (throw_statement r l) (throw_statement r' l). Proof. lf throw_statement. Qed.
Lemma le_try_statement : forall l, lem (try_statement r l) (try_statement r' l). Proof. lf try_statement. Qed.
Lemma le_while_statement : forall l, lem (while_statement r l) (while_statement r' l). Proof. lf while_statement. Qed.
#[local] Hint Resolve le_class_declaration le_fn_declaration le_var_declaration le_expression_statement le_for_statement
  le_if_statement le_return_statement le_throw_statement le_try_statement le_while_statement : ledb.
Lemma le_statement : lem (statement r) (statement r'). Proof. lf statement. Qed.
#[local] Hint Resolve le_statement : ledb.
Lemma le_declaration : lem (declaration r) (declaration r'). Proof. lf declaration. Qed.
Lemma le_program_loop : lem (program_loop r) (program_loop r'). Proof. lf program_loop. Qed.

Lemma step_le : RecLe (step rules r) (step rules r').
Proof.
  constructor; cbn [step r_parse_precedence r_infix_loop r_args_loop r_group_loop r_map_loop r_interp_loop
                    r_param_loop r_declaration r_statement r_block_loop r_method_loop r_program_loop
                    r_attr_args_loop r_attrs_loop]; intros.
  - apply le_parse_precedence. - apply le_infix_loop. - apply le_args_loop. - apply le_group_loop.
  - apply le_map_loop. - apply le_interp_loop. - apply le_param_loop. - apply le_declaration.
  - apply le_statement. - apply le_block_loop. - apply le_method_loop. - apply le_program_loop.
  - apply le_attr_args_loop. - apply le_attrs_loop.
Qed.
End Mono.

Lemma knot_le : forall rules f f', f <= f' -> RecLe (knot rules f) (knot rules f').
Proof.
  intros rules. induction f as [|f IH]; intros f' H; cbn [knot]; [apply rec_bottom_le|].
  destruct f' as [|f']; [lia|]. cbn [knot]. apply step_le. apply IH. lia.
Qed.

(* more fuel never changes an answer other than POutOfFuel (for every Pratt table) *)
Theorem parse_fuel_monotone : forall rules toks f f', f <= f' ->
  run (parse rules f) toks <> POutOfFuel -> run (parse rules f') toks = run (parse rules f) toks.
Proof.
  intros rules toks f f' H N.
  assert (L : lem (parse rules f) (parse rules f')).
  { unfold parse. apply lem_bind; [apply lem_refl|]. intros ?.
    apply lem_bind; [apply (le_prog _ _ (knot_le rules f f' H))|]. intros p. apply lem_refl. }
  unfold run in *. destruct (L (init_pstate toks)) as [E|E]; rewrite E in *.
  - contradiction N. reflexivity.
  - reflexivity.
Qed.
Print Assumptions parse_fuel_monotone.

(* the language defined by the model does not depend on the fuel constant: any larger fuel gives the same answer *)
Theorem parse_fuel_independent : forall toks fuel, default_fuel toks <= fuel ->
  run (parse rules_ref fuel) toks = parse_program toks.
Proof.
  intros toks fuel H. unfold parse_program, parse_program_with.
  apply parse_fuel_monotone; [exact H|]. apply (parse_fuel_enough toks).
Qed.
Print Assumptions parse_fuel_independent.

(* the parser model DECIDES every source: a program or a located first error, nothing else *)
Theorem parse_source_decides : forall src,
  (exists p, parse_source src = POk p) \/ (exists l a m, parse_source src = PErr l a m /\ (1 <= l)%N).
Proof.
  intros src. destruct (parse_total src) as [H|[H|H]]; [left; exact H|right; exact H|].
  exfalso. exact (parse_source_fuel_enough src H).
Qed.
Print Assumptions parse_source_decides.
