(* FullBridge, common part: byte-level facts about FullCompile's emission primitives and the
   "code with holes" invariant used to relate back-patched jumps (emit_jump .. patch_jump, push_break ..
   pop_loop) to an assembler that knows every distance in advance.

   [agree P c X]: the code [c] emitted so far is a prefix of the FINAL byte string [X] of the function,
   except at the operand bytes p, p+1 of the still-unpatched jumps p in P.  emit_jump adds a hole, patch_jump
   removes it provided X holds the distance patch_jump computes; at the end P = [] and the lengths agree,
   hence c = X.  Nothing here depends on a fragment compiler. *)
From Coq Require Import Strings.Byte Strings.String.
From Coq Require Import List NArith ZArith Bool Arith Lia.
From YV Require Import Show Utf8 Num Ast Bytecode ParseLoc FullCompile FullCompileProofs.
Import ListNotations.
Local Open Scope nat_scope.
Local Open Scope list_scope.
Local Open Scope comp_scope.

(* ------------------------------------------------------------------ *)
(* lists                                                                *)

Lemma nth_error_set_nth_eq {A} n (v : A) l : n < length l -> nth_error (set_nth n v l) n = Some v.
Proof.
  revert n. induction l as [|x r IH]; intros [|n] H; simpl in *; try lia; auto. apply IH. lia.
Qed.

Lemma nth_error_set_nth_neq {A} n j (v : A) l : j <> n -> nth_error (set_nth n v l) j = nth_error l j.
Proof.
  revert n j. induction l as [|x r IH]; intros [|n] [|j] H; simpl in *; auto; try congruence.
Qed.

Lemma list_eq_nth_error {A} (c X : list A) :
  length c = length X -> (forall j, j < length c -> nth_error c j = nth_error X j) -> c = X.
Proof.
  revert X. induction c as [|a c IH]; intros [|x X] HL H; simpl in *; try discriminate; auto.
  f_equal.
  - specialize (H 0 ltac:(lia)). simpl in H. congruence.
  - apply IH. lia. intros j Hj. apply (H (S j)). lia.
Qed.

(* X holds the bytes bs at offset n *)
Definition has_at (X : list N) (n : nat) (bs : list N) : Prop :=
  exists pre post, X = pre ++ bs ++ post /\ length pre = n.

Lemma has_at_nth X n bs k b : has_at X n bs -> nth_error bs k = Some b -> nth_error X (n + k) = Some b.
Proof.
  intros (pre & post & -> & <-) Hk.
  rewrite nth_error_app2 by lia. replace (length pre + k - length pre) with k by lia.
  rewrite nth_error_app1. exact Hk. apply nth_error_Some. congruence.
Qed.

Lemma has_at_length X n bs : has_at X n bs -> n + length bs <= length X.
Proof. intros (pre & post & -> & <-). rewrite !app_length. lia. Qed.

Lemma has_at_app_l X n a b : has_at X n (a ++ b) -> has_at X n a.
Proof. intros (pre & post & -> & <-). exists pre, (b ++ post). rewrite <- app_assoc. auto. Qed.

Lemma has_at_app_r X n a b : has_at X n (a ++ b) -> has_at X (n + length a) b.
Proof.
  intros (pre & post & -> & <-). exists (pre ++ a), post. rewrite <- !app_assoc, app_length. auto.
Qed.

(* ------------------------------------------------------------------ *)
(* code with holes                                                      *)

Definition hole (P : list nat) (j : nat) : Prop := exists p, In p P /\ (j = p \/ j = S p).

Definition agree (P : list nat) (c X : list N) : Prop :=
  length c <= length X /\ forall j, j < length c -> ~ hole P j -> nth_error c j = nth_error X j.

Lemma agree_nil P X : agree P [] X.
Proof. split; simpl. lia. intros; lia. Qed.

Lemma agree_app P c X bs : agree P c X -> has_at X (length c) bs -> agree P (c ++ bs) X.
Proof.
  intros [HL H] Hat. split.
  - rewrite app_length. apply has_at_length in Hat. lia.
  - intros j Hj Hh. destruct (Nat.lt_ge_cases j (length c)) as [Hlt|Hge].
    + rewrite nth_error_app1 by exact Hlt. apply H; auto.
    + rewrite nth_error_app2 by exact Hge. rewrite app_length in Hj.
      destruct (nth_error bs (j - length c)) eqn:E.
      * symmetry. replace j with (length c + (j - length c)) at 1 by lia. eapply has_at_nth; eauto.
      * apply nth_error_None in E. lia.
Qed.

(* emit_jump: the opcode agrees, the two operand bytes are a new hole *)
Lemma agree_jump P c X op a b :
  agree P c X -> has_at X (length c) [op] -> length c + 3 <= length X ->
  agree (S (length c) :: P) (c ++ [op; a; b]) X.
Proof.
  intros [HL H] Hat Hlen. split.
  - rewrite app_length. simpl. lia.
  - intros j Hj Hh. rewrite app_length in Hj. simpl in Hj.
    destruct (Nat.lt_ge_cases j (length c)) as [Hlt|Hge].
    + rewrite nth_error_app1 by exact Hlt. apply H; auto.
      intros (p & Hp & Hjp). apply Hh. exists p. split; [right; exact Hp|exact Hjp].
    + assert (j = length c).
      { destruct (Nat.eq_dec j (length c)); auto. exfalso. apply Hh. exists (S (length c)). split; [left; auto|lia]. }
      subst j. rewrite nth_error_app2 by lia. rewrite Nat.sub_diag. simpl.
      symmetry. replace (length c) with (length c + 0) at 1 by lia. eapply has_at_nth; eauto.
Qed.

Lemma agree_patch P P' c X p lo hi :
  agree P c X -> (forall q, In q P -> q = p \/ In q P') -> S p < length c ->
  nth_error X p = Some lo -> nth_error X (S p) = Some hi ->
  agree P' (set_nth (S p) hi (set_nth p lo c)) X.
Proof.
  intros [HL H] Hsub Hp Hlo Hhi. split.
  - rewrite !set_nth_length. exact HL.
  - intros j Hj Hh. rewrite !set_nth_length in Hj.
    destruct (Nat.eq_dec j (S p)) as [->|N1].
    { rewrite nth_error_set_nth_eq by (rewrite set_nth_length; lia). auto. }
    rewrite nth_error_set_nth_neq by exact N1.
    destruct (Nat.eq_dec j p) as [->|N2].
    { rewrite nth_error_set_nth_eq by lia. auto. }
    rewrite nth_error_set_nth_neq by exact N2.
    apply H; auto. intros (q & Hq & Hjq). destruct (Hsub q Hq) as [->|Hq'].
    + lia.
    + apply Hh. exists q. auto.
Qed.

Lemma agree_weaken P P' c X : agree P c X -> (forall q, In q P -> In q P') -> agree P' c X.
Proof.
  intros [HL H] Hsub. split; auto. intros j Hj Hh. apply H; auto.
  intros (q & Hq & Hjq). apply Hh. exists q. auto.
Qed.

Lemma agree_done c X : agree [] c X -> length c = length X -> c = X.
Proof.
  intros [_ H] HL. apply list_eq_nth_error; auto. intros j Hj. apply H; auto.
  intros (p & [] & _).
Qed.

(* the final bytes hold, at the operand position p, the distance from p+2 to E *)
Definition good (X : list N) (E p : nat) : Prop :=
  p + 2 <= E /\
  nth_error X p = Some (N.modulo (N.of_nat (E - p - 2)) 256) /\
  nth_error X (S p) = Some (N.div (N.of_nat (E - p - 2)) 256).

(* ------------------------------------------------------------------ *)
(* what an emission leaves alone                                        *)

Definition restc (c : comp) : comp := with_consts (with_code c [] []) [].
Definition rest (s : cstate) : list comp * list bool * comp := (s_outer s, s_classes s, restc (s_cur s)).

(* s' = s plus the bytes bs (lines, s_line: whatever) *)
Definition ext (s s' : cstate) (bs : list N) : Prop :=
  rest s' = rest s /\ k_consts (s_cur s') = k_consts (s_cur s) /\ scode s' = scode s ++ bs.

Lemma ext_refl s : ext s s [].
Proof. unfold ext. rewrite app_nil_r. auto. Qed.

Lemma ext_trans s s1 s2 a b : ext s s1 a -> ext s1 s2 b -> ext s s2 (a ++ b).
Proof.
  intros (R1 & K1 & C1) (R2 & K2 & C2). unfold ext. rewrite R2, R1, K2, K1, C2, C1, app_assoc. auto.
Qed.

Lemma cbind_ok {A B} (m : C A) (k : A -> C B) s a s1 : m s = COk (a, s1) -> cbind m k s = k a s1.
Proof. intros H. unfold cbind. rewrite H. reflexivity. Qed.

Lemma emit_byte_ext b l s : exists s', emit_byte b l s = COk (tt, s') /\ ext s s' [b].
Proof. eexists. split; [apply emits_byte_step|]. unfold ext, rest, scode. simpl. auto. Qed.

Lemma emit_op_ext o l s : exists s', emit_op o l s = COk (tt, s') /\ ext s s' [N_of_opcode o].
Proof. apply emit_byte_ext. Qed.

Lemma emit_op8_ext o n l s : exists s', emit_op8 o n l s = COk (tt, s') /\ ext s s' [N_of_opcode o; n].
Proof.
  unfold emit_op8. destruct (emit_op_ext o l s) as (s1 & E1 & X1). destruct (emit_byte_ext n l s1) as (s2 & E2 & X2).
  exists s2. rewrite (cbind_ok _ _ _ _ _ E1). split; auto. apply (ext_trans _ _ _ _ _ X1 X2).
Qed.

Definition u16 (n : N) : list N := [N.modulo n 256; N.div n 256]%N.

Lemma emit_u16_ext n l s : exists s', emit_u16 n l s = COk (tt, s') /\ ext s s' (u16 n).
Proof.
  unfold emit_u16. destruct (emit_byte_ext (N.modulo n 256) l s) as (s1 & E1 & X1).
  destruct (emit_byte_ext (N.div n 256) l s1) as (s2 & E2 & X2).
  exists s2. rewrite (cbind_ok _ _ _ _ _ E1). split; auto. apply (ext_trans _ _ _ _ _ X1 X2).
Qed.

Lemma emit_op16_ext o n l s : exists s', emit_op16 o n l s = COk (tt, s') /\ ext s s' (N_of_opcode o :: u16 n).
Proof.
  unfold emit_op16. destruct (emit_op_ext o l s) as (s1 & E1 & X1). destruct (emit_u16_ext n l s1) as (s2 & E2 & X2).
  exists s2. rewrite (cbind_ok _ _ _ _ _ E1). split; auto. apply (ext_trans _ _ _ _ _ X1 X2).
Qed.

Lemma emit_ops_ext ops l : forall s, exists s', emit_ops ops l s = COk (tt, s') /\ ext s s' (map N_of_opcode ops).
Proof.
  induction ops as [|o r IH]; intros s; simpl.
  - exists s. split; auto. apply ext_refl.
  - destruct (emit_op_ext o l s) as (s1 & E1 & X1). destruct (IH s1) as (s2 & E2 & X2).
    exists s2. rewrite (cbind_ok _ _ _ _ _ E1). split; auto. apply (ext_trans _ _ _ _ _ X1 X2).
Qed.

(* emit_jump returns the position of its operand *)
Lemma emit_jump_ext o l s :
  exists s', emit_jump o l s = COk (S (length (scode s)), s') /\ ext s s' [N_of_opcode o; 255%N; 255%N].
Proof.
  unfold emit_jump.
  destruct (emit_op_ext o l s) as (s1 & E1 & X1). destruct (emit_byte_ext 255%N l s1) as (s2 & E2 & X2).
  destruct (emit_byte_ext 255%N l s2) as (s3 & E3 & X3).
  pose proof (ext_trans _ _ _ _ _ (ext_trans _ _ _ _ _ X1 X2) X3) as X. simpl in X.
  exists s3. rewrite (cbind_ok _ _ _ _ _ E1), (cbind_ok _ _ _ _ _ E2), (cbind_ok _ _ _ _ _ E3).
  unfold code_len, cbind, cret. split; auto.
  destruct X as (_ & _ & XC). unfold scode in XC. rewrite XC, app_length. simpl.
  f_equal. f_equal. unfold scode. lia.
Qed.

(* patch_jump: same state, two bytes overwritten *)
Definition patched (s s' : cstate) (p : nat) (v : N) : Prop :=
  rest s' = rest s /\ k_consts (s_cur s') = k_consts (s_cur s) /\
  scode s' = set_nth (S p) (N.div v 256) (set_nth p (N.modulo v 256) (scode s)).

Lemma patch_jump_ok p s :
  (N.of_nat (length (scode s) - p - 2) <= 65535)%N ->
  exists s', patch_jump p s = COk (tt, s') /\ patched s s' p (N.of_nat (length (scode s) - p - 2)).
Proof.
  intros Hle. unfold patch_jump, cbind, code_len. fold (scode s).
  replace (N.ltb JUMP_SIZE_MAX _) with false by (symmetry; apply N.ltb_ge; exact Hle).
  eexists. split; [reflexivity|]. unfold patched, rest, scode. simpl. auto.
Qed.

Lemma emit_loop_ext LS l s :
  (N.of_nat (length (scode s) + 1 - LS + 2) <= 65535)%N ->
  exists s', emit_loop LS l s = COk (tt, s') /\
             ext s s' (N_of_opcode OpLoop :: u16 (N.of_nat (length (scode s) + 1 - LS + 2))).
Proof.
  intros Hle. unfold emit_loop.
  destruct (emit_op_ext OpLoop l s) as (s1 & E1 & X1). rewrite (cbind_ok _ _ _ _ _ E1).
  unfold code_len at 1. unfold cbind at 1.
  assert (HL : length (k_code (s_cur s1)) = length (scode s) + 1).
  { destruct X1 as (_ & _ & XC). unfold scode in XC. rewrite XC, app_length. reflexivity. }
  rewrite HL.
  replace (N.ltb JUMP_SIZE_MAX _) with false by (symmetry; apply N.ltb_ge; exact Hle).
  destruct (emit_u16_ext (N.of_nat (length (scode s) + 1 - LS + 2)) l s1) as (s2 & E2 & X2).
  exists s2. split; auto. apply (ext_trans _ _ _ _ _ X1 X2).
Qed.

(* projections of [rest] *)
Lemma rest_outer s s' : rest s' = rest s -> s_outer s' = s_outer s.
Proof. unfold rest. congruence. Qed.
Lemma rest_classes s s' : rest s' = rest s -> s_classes s' = s_classes s.
Proof. unfold rest. congruence. Qed.
Lemma rest_cur s s' : rest s' = rest s -> restc (s_cur s') = restc (s_cur s).
Proof. unfold rest. congruence. Qed.
Lemma restc_locals c c' : restc c' = restc c -> k_locals c' = k_locals c.
Proof. intros H. apply (f_equal k_locals) in H. exact H. Qed.
Lemma restc_scope c c' : restc c' = restc c -> k_scope c' = k_scope c.
Proof. intros H. apply (f_equal k_scope) in H. exact H. Qed.
Lemma restc_loops c c' : restc c' = restc c -> k_loops c' = k_loops c.
Proof. intros H. apply (f_equal k_loops) in H. exact H. Qed.
Lemma restc_breaks c c' : restc c' = restc c -> k_breaks c' = k_breaks c.
Proof. intros H. apply (f_equal k_breaks) in H. exact H. Qed.
Lemma restc_try_depth c c' : restc c' = restc c -> k_try_depth c' = k_try_depth c.
Proof. intros H. apply (f_equal k_try_depth) in H. exact H. Qed.
Lemma restc_in_try c c' : restc c' = restc c -> k_in_try c' = k_in_try c.
Proof. intros H. apply (f_equal k_in_try) in H. exact H. Qed.
Lemma restc_kind c c' : restc c' = restc c -> k_kind c' = k_kind c.
Proof. intros H. apply (f_equal k_kind) in H. exact H. Qed.
Lemma restc_upvalues c c' : restc c' = restc c -> k_upvalues c' = k_upvalues c.
Proof. intros H. apply (f_equal k_upvalues) in H. exact H. Qed.
Lemma restc_lambdas c c' : restc c' = restc c -> k_lambdas c' = k_lambdas c.
Proof. intros H. apply (f_equal k_lambdas) in H. exact H. Qed.
Lemma restc_name c c' : restc c' = restc c -> k_name c' = k_name c.
Proof. intros H. apply (f_equal k_name) in H. exact H. Qed.
Lemma restc_arity c c' : restc c' = restc c -> k_arity c' = k_arity c.
Proof. intros H. apply (f_equal k_arity) in H. exact H. Qed.

(* a state update that touches neither code nor constants *)
Lemma upd_eq f s : upd f s = COk (tt, mkS (f (s_cur s)) (s_outer s) (s_classes s) (s_line s)).
Proof. reflexivity. Qed.
