(* FullBridge, item 1: on the statement fragment of C05 (CompileExpr.v: var, blocks, if / else-if, while, break,
   continue, every expression of expr_ok incl. && / ||, assignments, compound assignments, calls, tuples, vectors,
   interpolation) the script function FullCompile builds has code = CE.assemble (CE.cprogram true p) and
   constants = CE.const_table (CE.cprogram true p) - for EVERY program of the fragment, by induction on the located
   syntax.  Back-patched jumps (emit_jump .. patch_jump, push_break .. pop_loop, emit_loop) against the instruction-count
   jumps of CE.assemble: the "code with holes" invariant of FullBridgeBase.v over the FINAL byte string X = assemble all;
   the relocation lemma is [off_plus]: off (i + n) = off i + code_size (firstn n (skipn i all)). *)
From Coq Require Import Strings.Byte Strings.String.
From Coq Require Import List NArith ZArith Bool Arith Lia.
From Coq Require Import Floats.SpecFloat.
From YV Require Import Show Utf8 Num Ast Bytecode ParseLoc FullCompile FullCompileProofs FullBridgeBase.
From YV Require CompileExpr CompileExprProofs.
Import ListNotations.
Local Open Scope nat_scope.
Local Open Scope list_scope.
Local Open Scope comp_scope.

Module CP := CompileExprProofs.

(* ------------------------------------------------------------------ *)
(* lists                                                                *)

Lemma firstn_plus {A} (l : list A) : forall i n, firstn (i + n) l = firstn i l ++ firstn n (skipn i l).
Proof.
  induction l as [|x r IH]; intros [|i] n; simpl; auto.
  - rewrite firstn_nil. reflexivity.
  - rewrite IH. reflexivity.
Qed.

Lemma skipn_plus {A} (l : list A) : forall i n, skipn (i + n) l = skipn n (skipn i l).
Proof.
  induction l as [|x r IH]; intros [|i] n; simpl; auto.
  rewrite skipn_nil. reflexivity.
Qed.

Lemma firstn_len_app {A} (a b : list A) : firstn (length a) (a ++ b) = a.
Proof. induction a; simpl; auto. f_equal. auto. Qed.
Lemma skipn_len_app {A} (a b : list A) : skipn (length a) (a ++ b) = b.
Proof. induction a; simpl; auto. Qed.

Lemma code_size_app a b : CE.code_size (a ++ b) = CE.code_size a + CE.code_size b.
Proof. induction a; simpl; auto. rewrite IHa. lia. Qed.

Lemma asm_instr_length all T i ins : length (CE.asm_instr all T i ins) = CE.isize ins.
Proof.
  destruct ins; simpl; auto; unfold CE.idx_bytes; destruct (CE.const_index T _); reflexivity.
Qed.

Lemma asm_from_length all T l : forall i, length (CE.asm_from all T i l) = CE.code_size l.
Proof. induction l; intros; simpl; auto. rewrite app_length, asm_instr_length, IHl. reflexivity. Qed.

Lemma asm_from_split all T l1 ins l2 : forall k,
  CE.asm_from all T k (l1 ++ ins :: l2) =
  CE.asm_from all T k l1 ++ CE.asm_instr all T (k + length l1) ins ++ CE.asm_from all T (S (k + length l1)) l2.
Proof.
  induction l1 as [|x r IH]; intros k; simpl.
  - rewrite Nat.add_0_r. reflexivity.
  - rewrite IH, <- app_assoc. replace (S k + length r) with (k + S (length r)) by lia. reflexivity.
Qed.

Lemma ce_const_index_lt tbl c i : CE.const_index tbl c = Some i -> i < length tbl.
Proof.
  revert i. induction tbl; simpl; intros i E. discriminate.
  destruct (CE.const_eqb c a). inversion E; lia.
  destruct (CE.const_index tbl c); inversion E; subst. specialize (IHtbl _ eq_refl). lia.
Qed.

Lemma ce_add_constant_same tbl c k : CE.const_index tbl c = Some k -> CE.add_constant tbl c = tbl.
Proof. unfold CE.add_constant. intros ->. reflexivity. Qed.


(* ------------------------------------------------------------------ *)
(* environments: CE.cenv <-> Compiler.locals                            *)

Definition pend (o : option name) : list klocal :=
  match o with Some p => [mkKL p None false] | None => [] end.

(* slot 0 is named "self" in compiler.rs / FullCompile and "" in CE.cenv0 *)
Inductive lrel : list klocal -> list (name * nat) -> Prop :=
| lrel_base : lrel [slot0] [([], 0)]
| lrel_cons n d KL L : lrel KL L -> lrel (mkKL n (Some d) false :: KL) ((n, d) :: L).

Definition envrel (s : cstate) (env : CE.cenv) : Prop :=
  s_outer s = [] /\ exists KL, k_locals (s_cur s) = pend (CE.cpending env) ++ KL /\ lrel KL (CE.clocals env).

Lemma envrel_rest s s' env : rest s' = rest s -> envrel s env -> envrel s' env.
Proof.
  intros R [H1 H2]. split.
  - rewrite (rest_outer _ _ R); auto.
  - rewrite (restc_locals _ _ (rest_cur _ _ R)); auto.
Qed.

(* an Identifier token is never empty and never the keyword `self` *)
Definition name_ok (x : name) : bool := nonempty_name x && negb (Utf8.bytes_eqb (bs "self") x).

Lemma lrel_length KL L : lrel KL L -> length KL = length L.
Proof. induction 1; simpl; auto. Qed.

Lemma ce_bytes_eqb_nil x : nonempty_name x = true -> CE.bytes_eqb x [] = false.
Proof. destruct x; simpl; auto; discriminate. Qed.

Lemma lrel_resolve KL L x : lrel KL L -> name_ok x = true ->
  resolve_local_in x KL = match CE.find_local L x with Some k => LFound k | None => LNotFound end.
Proof.
  intros HR Hx. unfold name_ok in Hx. apply andb_prop in Hx. destruct Hx as [Hne Hself].
  apply negb_true_iff in Hself.
  induction HR.
  - unfold slot0. cbn [resolve_local_in kl_name kl_depth CE.find_local]. rewrite Hself.
    rewrite (ce_bytes_eqb_nil _ Hne). reflexivity.
  - cbn [resolve_local_in kl_name kl_depth CE.find_local]. rewrite (ce_bytes_eqb x n), (bytes_eqb_sym x n).
    destruct (Utf8.bytes_eqb n x).
    + rewrite (lrel_length _ _ HR). reflexivity.
    + exact IHHR.
Qed.

Lemma resolve_local_rel s env x : envrel s env -> name_ok x = true ->
  resolve_local_c (s_cur s) x =
  match CE.resolve_local env x with
  | CE.LFound k => LFound (N.to_nat k)
  | CE.LUninit => LUninit
  | CE.LNone => LNotFound
  end.
Proof.
  intros [_ (KL & HL & HR)] Hx. unfold resolve_local_c, CE.resolve_local. rewrite HL.
  destruct (CE.cpending env) as [p|]; cbn [pend app].
  - cbn [resolve_local_in kl_name kl_depth]. rewrite (ce_bytes_eqb x p), (bytes_eqb_sym x p).
    destruct (Utf8.bytes_eqb p x); auto.
    rewrite (lrel_resolve _ _ _ HR Hx). destruct (CE.find_local (CE.clocals env) x); auto. rewrite Nat2N.id. auto.
  - rewrite (lrel_resolve _ _ _ HR Hx). destruct (CE.find_local (CE.clocals env) x); auto. rewrite Nat2N.id. auto.
Qed.

Lemma resolve_variable_local s env x l k :
  envrel s env -> name_ok x = true -> CE.resolve_local env x = CE.LFound k ->
  resolve_variable x l s = COk ((OpGetLocal, OpSetLocal, k), s).
Proof.
  intros He Hx Hr. unfold resolve_variable, cbind, cur. rewrite (resolve_local_rel _ _ _ He Hx), Hr.
  unfold cret. rewrite N2Nat.id. reflexivity.
Qed.

Lemma resolve_variable_global s env x l :
  envrel s env -> name_ok x = true -> CE.resolve_local env x = CE.LNone ->
  resolve_variable x l s =
  cbind (make_constant (KStr x)) (fun g => cret (OpGetGlobal, OpSetGlobal, g))
        (mkS (s_cur s) (s_outer s) (s_classes s) l).
Proof.
  intros He Hx Hr. pose proof (resolve_local_rel _ _ _ He Hx) as Hres. rewrite Hr in Hres.
  destruct He as [Ho _]. destruct s as [c o cl ln]. cbn [s_cur s_outer s_classes s_line] in *. subst o.
  unfold resolve_variable, cbind, cur, cget. cbn [s_cur s_outer s_classes s_line]. rewrite Hres.
  cbn [resolve_upvalue_in s_cur s_outer]. reflexivity.
Qed.

Lemma check_count_ok n l msg s : (n <= 255)%N -> check_count n l msg s = COk (tt, s).
Proof. intros H. unfold check_count. replace (N.ltb 255 n) with false by (symmetry; apply N.ltb_ge; exact H). reflexivity. Qed.

(* ---------- side conditions on the located syntax (true of every parser output) ---------- *)
Fixpoint lok_e (e : lexpr) : bool :=
  match e with
  | LNil _ | LTrue _ | LFalse _ | LStr _ _ => true
  | LNum _ x => plain x
  | LInterp ps _ => lok_ps ps
  | LVar _ x => name_ok x
  | LAssign x e1 _ => name_ok x && lok_e e1
  | LCompound x _ _ e1 _ => name_ok x && lok_e e1
  | LUnary _ e1 _ => lok_e e1
  | LBinary _ a b _ | LRange a b _ | LIndex a b _ => lok_e a && lok_e b
  | LAnd a _ b | LOr a _ b => lok_e a && lok_e b
  | LCall f args _ => lok_e f && lok_es args
  | LSetIndex o i e1 _ => lok_e o && lok_e i && lok_e e1
  | LTuple es _ | LVec es _ => lok_es es
  | _ => false
  end
with lok_es (es : lexprs) : bool :=
  match es with LENil => true | LECons e r => lok_e e && lok_es r end
with lok_ps (ps : lparts) : bool :=
  match ps with LPNil => true | LPStr _ _ r => lok_ps r | LPExpr e _ r => lok_e e && lok_ps r end.

Fixpoint lok_s (s : lstmt) : bool :=
  match s with
  | LSExpr e _ => lok_e e
  | LSVar _ _ _ => true
  | LSVarInit _ e _ => lok_e e
  | LSBlock b _ => lok_ss b
  | LSIf c _ t _ => lok_e c && lok_ss t
  | LSIfElse c _ t _ e => lok_e c && lok_ss t && lok_s e
  | LSWhile c _ b _ => lok_e c && lok_ss b
  | LSBreak _ | LSContinue _ => true
  | _ => false
  end
with lok_ss (l : lstmts) : bool :=
  match l with LSNil => true | LSCons s r => lok_s s && lok_ss r end.

(* the local fixes of CE.cexpr / CE.expr_ok for interpolation, as top-level functions *)
Fixpoint interp_code (env : CE.cenv) (ps : list interp_part) : list CE.instr :=
  match ps with
  | [] => []
  | IPStr s :: r => CE.IConst (CE.CStr s) :: interp_code env r
  | IPExpr e1 :: r => CE.cexpr env e1 ++ CE.IOp OpFormatString :: interp_code env r
  end.
Fixpoint interp_ok (env : CE.cenv) (ps : list interp_part) : bool :=
  match ps with
  | [] => true
  | IPStr s :: r => CE.nonempty s && interp_ok env r
  | IPExpr e1 :: r => CE.expr_ok env e1 && interp_ok env r
  end.
Lemma cexpr_interp env parts :
  CE.cexpr env (EInterp parts) = interp_code env parts ++ [CE.IOp8 OpBuildString (CE.nlen parts)].
Proof.
  cbn [CE.cexpr]. f_equal. induction parts as [|p r IH]; [reflexivity|].
  destruct p; cbn [interp_code]; rewrite <- IH; reflexivity.
Qed.
Lemma expr_ok_interp env parts :
  CE.expr_ok env (EInterp parts) = interp_ok env parts && (length parts <=? 255).
Proof.
  cbn [CE.expr_ok]. f_equal. induction parts as [|p r IH]; [reflexivity|].
  destruct p; cbn [interp_ok]; rewrite <- IH; reflexivity.
Qed.


(* ---------- statement-level facts about the environment relation ---------- *)
Lemma lrel_declared KL L x d : lrel KL L -> 1 <= d ->
  declared_in_scope x d KL = CE.declared_here d L x.
Proof.
  intros HR Hd. induction HR.
  - unfold slot0. cbn [declared_in_scope kl_depth CE.declared_here].
    replace (Nat.ltb 0 d) with true by (symmetry; apply Nat.ltb_lt; lia). reflexivity.
  - cbn [declared_in_scope kl_depth kl_name CE.declared_here]. rewrite (ce_bytes_eqb x n), IHHR. reflexivity.
Qed.

Lemma lrel_scope_end KL L d : lrel KL L -> scope_end_ops d KL = repeat OpPop (CE.count_above d L).
Proof.
  intros HR. induction HR.
  - unfold slot0. cbn [scope_end_ops kl_depth kl_captured CE.count_above]. reflexivity.
  - cbn [scope_end_ops kl_depth kl_captured CE.count_above].
    destruct (Nat.leb_spec d0 d) as [H|H].
    + replace (d <? d0) with false by (symmetry; apply Nat.ltb_ge; lia). reflexivity.
    + replace (d <? d0) with true by (symmetry; apply Nat.ltb_lt; lia). cbn [repeat]. rewrite IHHR. reflexivity.
Qed.

Lemma lrel_nonempty KL L : lrel KL L -> L <> [].
Proof. destruct 1; discriminate. Qed.

Lemma lrel_skipn nd : forall KL L, lrel KL (nd ++ L) -> L <> [] -> lrel (skipn (length nd) KL) L.
Proof.
  induction nd as [|x r IH]; intros KL L HR HL; simpl in *; auto.
  inversion HR; subst.
  - symmetry in H2. apply app_eq_nil in H2. destruct H2 as [_ HL']. exact (False_ind _ (HL HL')).
  - apply IH; auto.
Qed.

Lemma map_repeat_pop n : map CE.IOp (repeat OpPop n) = CE.pops n.
Proof. unfold CE.pops. induction n; simpl; auto. rewrite IHn. reflexivity. Qed.

(* depths of the declared locals never exceed the scope depth *)
Definition dinv (env : CE.cenv) : Prop := Forall (fun l : name * nat => snd l <= CE.cdepth env) (CE.clocals env).

Lemma dinv_begin env : dinv env -> dinv (CE.begin_scope env).
Proof. unfold dinv. cbn. intros H. eapply Forall_impl; [|exact H]. cbn. intros; lia. Qed.
Lemma dinv_loop env : dinv env -> dinv (CE.push_loop env).
Proof. exact (fun H => H). Qed.
Lemma dinv_after env st : dinv env -> dinv (CE.env_after env st).
Proof.
  intros H. destruct st; auto. cbn [CE.env_after]. destruct (CE.cdepth env) eqn:E; auto.
  unfold dinv in *. rewrite E in H. unfold CE.add_local. cbn. rewrite E. constructor; [cbn; lia|]. exact H.
Qed.

(* what a statement list adds to the environment *)
Lemma envs_after_shape b : forall env, CE.cdepth env <> 0 ->
  exists nd, CE.clocals (CP.envs_after env b) = nd ++ CE.clocals env /\ length nd = CE.count_decls b /\
             Forall (fun l : name * nat => snd l = CE.cdepth env) nd /\
             CE.cdepth (CP.envs_after env b) = CE.cdepth env /\ CE.cloop (CP.envs_after env b) = CE.cloop env /\
             (CE.cpending env = None -> CE.cpending (CP.envs_after env b) = None).
Proof.
  induction b as [|x r IH]; intros env D.
  - exists []. cbn. repeat split; auto.
  - unfold CP.envs_after. cbn [fold_left]. fold (CP.envs_after (CE.env_after env x) r).
    assert (D' : CE.cdepth (CE.env_after env x) <> 0).
    { destruct x; try exact D. cbn [CE.env_after]. destruct (CE.cdepth env) eqn:E; [congruence|cbn; congruence]. }
    destruct (IH _ D') as (nd & A1 & A2 & A3 & A4 & A5 & A6).
    destruct x; try (exists nd; cbn [CE.env_after CE.count_decls] in *; repeat split; auto; fail).
    cbn [CE.env_after CE.count_decls] in *. destruct (CE.cdepth env) eqn:E; [congruence|].
    cbn [CE.add_local CE.clocals CE.cdepth CE.cloop CE.cpending] in *.
    rewrite E in *.
    exists (nd ++ [(x, S n)]). split; [rewrite A1, <- app_assoc; reflexivity|].
    split; [rewrite app_length, A2; simpl; lia|].
    split; [apply Forall_app; split; [exact A3|repeat constructor]|].
    split; [exact A4|]. split; [exact A5|]. intros _. apply A6. reflexivity.
Qed.

Lemma count_above_decls d nd L :
  Forall (fun l : name * nat => snd l = S d) nd -> Forall (fun l : name * nat => snd l <= d) L ->
  CE.count_above d (nd ++ L) = length nd.
Proof.
  intros H1 H2. induction H1 as [|[y k] r Hk _ IH]; cbn [app length].
  - apply CP.count_above_le. exact H2.
  - cbn [CE.count_above]. cbn [snd] in Hk. subst k.
    replace (d <? S d) with true by (symmetry; apply Nat.ltb_lt; lia). rewrite IH. reflexivity.
Qed.

Lemma cbind_unit (m : C unit) s s' : m s = COk (tt, s') -> (m ;;; cret tt) s = COk (tt, s').
Proof. intros H. rewrite (cbind_ok _ _ _ _ _ H). reflexivity. Qed.


(* ---------- FullCompile's declaration / scope primitives as equations ---------- *)
Lemma parse_variable_global x l s : k_scope (s_cur s) = 0 -> parse_variable x l s = make_constant (KStr x) s.
Proof.
  intros H. unfold parse_variable, declare_variable, cbind, cur. rewrite H. cbn [Nat.eqb Nat.ltb Nat.leb]. unfold cret.
  rewrite H. reflexivity.
Qed.

Lemma define_variable_global g l s : k_scope (s_cur s) = 0 -> define_variable g l s = emit_op16 OpDefineGlobal g l s.
Proof. intros H. unfold define_variable, cbind, cur. rewrite H. reflexivity. Qed.

Lemma parse_variable_local x l s d :
  k_scope (s_cur s) = S d -> declared_in_scope x (S d) (k_locals (s_cur s)) = false ->
  Nat.eqb (length (k_locals (s_cur s))) LOCALS_MAX = false ->
  parse_variable x l s =
  COk (0%N, mkS (with_locals (s_cur s) (mkKL x None false :: k_locals (s_cur s))) (s_outer s) (s_classes s) (s_line s)).
Proof.
  intros H Hd Hn. unfold parse_variable, declare_variable, add_local, cbind, cur. rewrite H. cbn [Nat.eqb].
  rewrite Hd, Hn. unfold upd, cret. cbn [s_cur k_scope with_locals]. rewrite H. reflexivity.
Qed.

Lemma define_variable_local g l s d x KL :
  k_scope (s_cur s) = S d -> k_locals (s_cur s) = mkKL x None false :: KL ->
  define_variable g l s =
  COk (tt, mkS (with_locals (s_cur s) (mkKL x (Some (S d)) false :: KL)) (s_outer s) (s_classes s) (s_line s)).
Proof.
  intros H HL. unfold define_variable, mark_initialised, mark_last_initialised, cbind, cur. rewrite H. cbn [Nat.ltb Nat.leb Nat.eqb].
  unfold upd. rewrite H. cbn [Nat.eqb]. cbv beta. rewrite HL, H. reflexivity.
Qed.

Lemma end_scope_eq l s :
  end_scope l s =
  (let s0 := mkS (with_scope (s_cur s) (pred (k_scope (s_cur s)))) (s_outer s) (s_classes s) (s_line s) in
   let ops := scope_end_ops (pred (k_scope (s_cur s))) (k_locals (s_cur s)) in
   cbind (emit_ops ops l) (fun _ => upd (fun c => with_locals c (skipn (length ops) (k_locals c)))) s0).
Proof. reflexivity. Qed.

Lemma emit_exc_handler_pops_none td l s : k_try_depth (s_cur s) = 0 -> emit_exc_handler_pops td l s = COk (tt, s).
Proof. intros H. unfold emit_exc_handler_pops, cbind, cur. rewrite H. reflexivity. Qed.

Lemma emit_scope_end_keep d l s s1 :
  emit_ops (scope_end_ops d (k_locals (s_cur s))) l s = COk (tt, s1) -> emit_scope_end false d l s = COk (tt, s1).
Proof. intros H. unfold emit_scope_end, cbind, cur. cbv zeta. rewrite H. reflexivity. Qed.

(* ================================================================== *)
Section Bridge.

Variable all : list CE.instr.
Hypothesis Hfits : CE.fits all = true.

Definition X : list N := CE.assemble all.
Definition T : list CE.const := CE.const_table all.
Definition off (i : nat) : nat := CE.code_size (firstn i all).
Definition tblat (i : nat) : list CE.const := tbl_after [] (firstn i all).
Definition at_ (i : nat) (is : list CE.instr) : Prop := exists post, skipn i all = is ++ post.

(* ---------- positions ---------- *)
(* THE RELOCATION LEMMA: the byte distance between two instruction indices *)
Lemma off_plus i n : off (i + n) = off i + CE.code_size (firstn n (skipn i all)).
Proof. unfold off. rewrite firstn_plus, code_size_app. reflexivity. Qed.

Lemma off_mono i j : i <= j -> off i <= off j.
Proof. intros H. replace j with (i + (j - i)) by lia. rewrite off_plus. lia. Qed.

Lemma off_le_all i : off i <= CE.code_size all.
Proof.
  unfold off. rewrite <- (firstn_skipn i all) at 2. rewrite code_size_app. lia.
Qed.

Lemma size_bound : (N.of_nat (CE.code_size all) < 65536)%N.
Proof. unfold CE.fits in Hfits. apply andb_prop in Hfits. destruct Hfits as [H _]. apply N.ltb_lt in H. exact H. Qed.

Lemma tbl_bound : (N.of_nat (length T) <= 65536)%N.
Proof.
  unfold CE.fits in Hfits. apply andb_prop in Hfits. destruct Hfits as [_ H]. apply N.leb_le in H. exact H.
Qed.

Lemma at_nil i : at_ i [].
Proof. exists (skipn i all). reflexivity. Qed.

Lemma at_app i a b : at_ i (a ++ b) -> at_ i a /\ at_ (i + length a) b.
Proof.
  intros [post H]. split.
  - exists (b ++ post). rewrite H, app_assoc. reflexivity.
  - exists post. rewrite skipn_plus, H, <- app_assoc, skipn_len_app. reflexivity.
Qed.

Lemma at_cons i x r : at_ i (x :: r) -> nth_error all i = Some x /\ at_ (S i) r.
Proof.
  intros H. change (x :: r) with ([x] ++ r) in H. apply at_app in H. destruct H as [[post H1] H2].
  split.
  - rewrite <- (firstn_skipn i all), H1.
    destruct (Nat.le_gt_cases i (length all)) as [Hle|Hgt].
    + rewrite nth_error_app2; rewrite firstn_length, Nat.min_l by lia; [|lia]. rewrite Nat.sub_diag. reflexivity.
    + rewrite skipn_all2 in H1 by lia. discriminate.
  - simpl in H2. replace (S i) with (i + 1) by lia. exact H2.
Qed.

Lemma at_firstn i is : at_ i is -> firstn (i + length is) all = firstn i all ++ is.
Proof. intros [post H]. rewrite firstn_plus, H, firstn_len_app. reflexivity. Qed.

Lemma off_at i is : at_ i is -> off (i + length is) = off i + CE.code_size is.
Proof. intros H. unfold off. rewrite (at_firstn _ _ H), code_size_app. reflexivity. Qed.

Lemma tblat_at i is : at_ i is -> tblat (i + length is) = tbl_after (tblat i) is.
Proof. intros H. unfold tblat. rewrite (at_firstn _ _ H), tbl_after_app. reflexivity. Qed.

Lemma at_one i ins : nth_error all i = Some ins -> at_ i [ins].
Proof.
  intros H. destruct (nth_error_split _ _ H) as (l1 & l2 & E & L). exists l2.
  rewrite E, <- L, skipn_len_app. reflexivity.
Qed.

Lemma off_S i ins : nth_error all i = Some ins -> off (S i) = off i + CE.isize ins.
Proof.
  intros H. replace (S i) with (i + length [ins]) by (simpl; lia). rewrite (off_at _ _ (at_one _ _ H)). simpl. lia.
Qed.

Lemma tblat_S i ins : nth_error all i = Some ins -> tblat (S i) = tbl_step (tblat i) ins.
Proof.
  intros H. replace (S i) with (i + length [ins]) by (simpl; lia). rewrite (tblat_at _ _ (at_one _ _ H)). reflexivity.
Qed.

(* ---------- the final byte string and the final table ---------- *)
Lemma X_length : length X = CE.code_size all.
Proof. unfold X, CE.assemble. apply asm_from_length. Qed.

Lemma X_at i ins : nth_error all i = Some ins -> has_at X (off i) (CE.asm_instr all T i ins).
Proof.
  intros H. destruct (nth_error_split _ _ H) as (l1 & l2 & E & L).
  assert (EX : X = CE.asm_from all T 0 (l1 ++ ins :: l2)).
  { unfold X, CE.assemble. fold T. f_equal. exact E. }
  rewrite asm_from_split in EX. simpl in EX. rewrite L in EX.
  eexists _, _. split; [exact EX|]. rewrite asm_from_length. unfold off.
  rewrite E, <- L, firstn_len_app. reflexivity.
Qed.

Lemma T_prefix i : exists m, T = tblat i ++ m.
Proof.
  unfold T, tblat. change (CE.const_table all) with (tbl_after [] all).
  assert (E : tbl_after [] all = tbl_after [] (firstn i all ++ skipn i all)) by (rewrite firstn_skipn; reflexivity).
  rewrite E, tbl_after_app. apply tbl_after_prefix.
Qed.

Lemma tblat_bound i : (N.of_nat (length (tblat i)) <= 65536)%N.
Proof. destruct (T_prefix i) as [m E]. pose proof tbl_bound as B. rewrite E, app_length in B. lia. Qed.

Lemma T_index i c k : CE.const_index (tblat i) c = Some k -> CE.const_index T c = Some k.
Proof. intros H. destruct (T_prefix i) as [m E]. rewrite E. apply ce_const_index_app. exact H. Qed.

Lemma tblat_index_mono i j c k : i <= j -> CE.const_index (tblat i) c = Some k -> CE.const_index (tblat j) c = Some k.
Proof.
  intros Hij H. unfold tblat in *. replace j with (i + (j - i)) by lia.
  rewrite firstn_plus, tbl_after_app. destruct (tbl_after_prefix (firstn (j - i) (skipn i all)) (tbl_after [] (firstn i all))) as [m E].
  rewrite E. apply ce_const_index_app. exact H.
Qed.

(* ---------- the state invariant ---------- *)
Definition cpos (s : cstate) (i : nat) : Prop := length (scode s) = off i.
Definition kpos (s : cstate) (i : nat) : Prop :=
  k_consts (s_cur s) = map conv (tblat i) /\ Forall cplain (tblat i).
Definition St (s : cstate) (i : nat) (P : list nat) : Prop :=
  cpos s i /\ kpos s i /\ agree P (scode s) X.

Lemma kpos_none s i ins : nth_error all i = Some ins -> CE.instr_const ins = None -> kpos s i -> kpos s (S i).
Proof.
  intros H Hn [K1 K2]. unfold kpos. rewrite (tblat_S _ _ H). unfold tbl_step. rewrite Hn. auto.
Qed.

Lemma kpos_known s i ins c k :
  nth_error all i = Some ins -> CE.instr_const ins = Some c -> CE.const_index (tblat i) c = Some k ->
  kpos s i -> kpos s (S i).
Proof.
  intros H Hc Hk [K1 K2]. unfold kpos. rewrite (tblat_S _ _ H). unfold tbl_step. rewrite Hc.
  rewrite (ce_add_constant_same _ _ _ Hk). auto.
Qed.

(* one instruction's bytes appended *)
Lemma St_step s s' i P ins :
  nth_error all i = Some ins -> cpos s i -> agree P (scode s) X -> kpos s (S i) ->
  ext s s' (CE.asm_instr all T i ins) -> St s' (S i) P /\ rest s' = rest s.
Proof.
  intros H Hc Ha [K1 K2] (R & K & C). split; [|exact R]. unfold St, cpos, kpos. rewrite C, K.
  split; [|split; [split; assumption|]].
  - rewrite app_length, asm_instr_length, (off_S _ _ H). unfold cpos in Hc. lia.
  - apply agree_app; auto. unfold cpos in Hc. rewrite Hc. apply X_at. exact H.
Qed.

Lemma op_step s i P o l :
  nth_error all i = Some (CE.IOp o) -> St s i P ->
  exists s', emit_op o l s = COk (tt, s') /\ St s' (S i) P /\ rest s' = rest s.
Proof.
  intros H (Hc & Hk & Ha). destruct (emit_op_ext o l s) as (s' & E & Hx). exists s'. split; auto.
  eapply St_step; eauto. eapply kpos_none; eauto.
Qed.

Lemma op8_step s i P o n l :
  nth_error all i = Some (CE.IOp8 o n) -> St s i P ->
  exists s', emit_op8 o n l s = COk (tt, s') /\ St s' (S i) P /\ rest s' = rest s.
Proof.
  intros H (Hc & Hk & Ha). destruct (emit_op8_ext o n l s) as (s' & E & Hx). exists s'. split; auto.
  eapply St_step; eauto. eapply kpos_none; eauto.
Qed.

(* make_constant = the table step of the instruction at index i *)
Lemma mkconst_step s i ins c :
  nth_error all i = Some ins -> CE.instr_const ins = Some c -> cplain c -> kpos s i ->
  exists g s', make_constant (conv c) s = COk (g, s') /\ rest s' = rest s /\ scode s' = scode s /\
               kpos s' (S i) /\ CE.const_index (tblat (S i)) c = Some (N.to_nat g).
Proof.
  intros H Hc Hp [K1 K2]. unfold make_constant, cbind, cur.
  rewrite K1, const_index_agree by auto.
  pose proof (tblat_bound (S i)) as HB. rewrite (tblat_S _ _ H) in HB. unfold kpos. rewrite (tblat_S _ _ H).
  unfold tbl_step in *. rewrite Hc in *. unfold CE.add_constant in *.
  destruct (CE.const_index (tblat i) c) as [k|] eqn:E.
  - pose proof (ce_const_index_lt _ _ _ E) as Hlt.
    replace (N.ltb 65535 (N.of_nat k)) with false by (symmetry; apply N.ltb_ge; lia).
    exists (N.of_nat k), s. unfold cret. rewrite Nat2N.id. repeat split; auto.
  - rewrite app_length in HB. simpl in HB. rewrite map_length.
    unfold upd. cbn [s_cur s_outer s_classes s_line].
    replace (N.ltb 65535 (N.of_nat (length (tblat i)))) with false by (symmetry; apply N.ltb_ge; lia).
    eexists _, _. split; [reflexivity|]. rewrite Nat2N.id.
    unfold rest, scode. simpl. rewrite K1, map_app. simpl. repeat split; auto.
    + apply Forall_app; auto.
    + apply ce_const_index_snoc; auto.
Qed.

Lemma idx_bytes_T i c g : CE.const_index (tblat i) c = Some (N.to_nat g) -> CE.idx_bytes T c = u16 g.
Proof. intros H. unfold CE.idx_bytes. rewrite (T_index _ _ _ H), N2Nat.id. reflexivity. Qed.

(* `Constant idx` / `*Global idx` with the index make_constant returned *)
Lemma const16_step s i P ins c o g l :
  nth_error all i = Some ins -> CE.instr_const ins = Some c ->
  CE.asm_instr all T i ins = N_of_opcode o :: CE.idx_bytes T c ->
  CE.const_index (tblat (S i)) c = Some (N.to_nat g) ->
  cpos s i -> agree P (scode s) X -> kpos s (S i) ->
  exists s', emit_op16 o g l s = COk (tt, s') /\ St s' (S i) P /\ rest s' = rest s.
Proof.
  intros H Hc Hasm Hg Hcp Ha Hk. destruct (emit_op16_ext o g l s) as (s' & E & Hx). exists s'. split; auto.
  eapply St_step; eauto. rewrite Hasm, (idx_bytes_T _ _ _ Hg). exact Hx.
Qed.

(* ---------- jumps ---------- *)
Lemma jump_step s i P o n l :
  nth_error all i = Some (CE.IJump o n) -> St s i P ->
  exists s' p, emit_jump o l s = COk (p, s') /\ St s' (S i) (p :: P) /\ rest s' = rest s /\
               good X (off (S i + n)) p.
Proof.
  intros H (Hc & Hk & Ha). destruct (emit_jump_ext o l s) as (s' & E & (R & K & C)).
  exists s', (S (length (scode s))). split; auto.
  pose proof (X_at _ _ H) as Hat. unfold cpos in Hc.
  pose proof (off_S _ _ H) as HS. cbn [CE.isize] in HS.
  pose proof (has_at_length _ _ _ Hat) as HL. rewrite asm_instr_length in HL. cbn [CE.isize] in HL.
  cbn [CE.asm_instr] in Hat.
  split; [|split; [exact R|]].
  - unfold St, cpos, kpos. rewrite C, K. split; [|split; [split|]].
    + rewrite app_length. simpl. lia.
    + destruct Hk as [K1 K2]. rewrite (tblat_S _ _ H). exact K1.
    + destruct Hk as [K1 K2]. rewrite (tblat_S _ _ H). exact K2.
    + apply agree_jump; auto.
      * rewrite Hc. change (N_of_opcode o :: CE.u16le _) with ([N_of_opcode o] ++ CE.u16le (N.of_nat (CE.code_size (firstn n (skipn (S i) all))))) in Hat.
        apply has_at_app_l in Hat. exact Hat.
      * lia.
  - unfold good. rewrite off_plus, HS, Hc.
    replace (off i + 3 + CE.code_size (firstn n (skipn (S i) all)) - S (off i) - 2)
      with (CE.code_size (firstn n (skipn (S i) all))) by lia.
    split; [lia|]. split.
    + replace (S (off i)) with (off i + 1) by lia. eapply has_at_nth; [exact Hat|reflexivity].
    + replace (S (S (off i))) with (off i + 2) by lia. eapply has_at_nth; [exact Hat|reflexivity].
Qed.

Lemma patch_step s j P P' p :
  St s j P -> good X (off j) p -> (forall q, In q P -> q = p \/ In q P') ->
  exists s', patch_jump p s = COk (tt, s') /\ St s' j P' /\ rest s' = rest s.
Proof.
  intros (Hc & Hk & Ha) (G1 & G2 & G3) Hsub. unfold cpos in Hc.
  destruct (patch_jump_ok p s) as (s' & E & (R & K & C)).
  { rewrite Hc. pose proof (off_le_all j). pose proof size_bound. lia. }
  exists s'. split; auto. split; [|exact R]. unfold St, cpos, kpos. rewrite C, K, !set_nth_length.
  split; [exact Hc|]. split; [exact Hk|].
  eapply agree_patch; eauto; try lia; rewrite Hc; assumption.
Qed.

Lemma patch_jumps_step j P' : forall l s P,
  Forall (good X (off j)) l -> St s j P -> (forall q, In q P -> In q l \/ In q P') ->
  exists s', patch_jumps l s = COk (tt, s') /\ St s' j P' /\ rest s' = rest s.
Proof.
  induction l as [|p r IH]; intros s P HF HS Hsub; simpl.
  - exists s. split; auto. split; auto. destruct HS as (Hc & Hk & Ha). split; [exact Hc|]. split; [exact Hk|].
    eapply agree_weaken; eauto. intros q Hq. destruct (Hsub q Hq) as [[]|]; auto.
  - inversion HF; subst.
    destruct (patch_step s j P (r ++ P') p HS H1) as (s1 & E1 & HS1 & R1).
    { intros q Hq. destruct (Hsub q Hq) as [[->|Hr]|Hp]; auto; right; apply in_or_app; auto. }
    destruct (IH s1 (r ++ P') H2 HS1) as (s2 & E2 & HS2 & R2).
    { intros q Hq. apply in_app_or in Hq. exact Hq. }
    exists s2. rewrite (cbind_ok _ _ _ _ _ E1). split; auto. split; auto. congruence.
Qed.

Lemma loop_step s i P n l :
  nth_error all i = Some (CE.ILoop n) -> 1 <= n <= S i -> St s i P ->
  exists s', emit_loop (off (S i - n)) l s = COk (tt, s') /\ St s' (S i) P /\ rest s' = rest s.
Proof.
  intros H Hn (Hc & Hk & Ha). unfold cpos in Hc.
  pose proof (off_S _ _ H) as HS. cbn [CE.isize] in HS.
  assert (Hd : off (S i) = off (S i - n) + CE.code_size (firstn n (skipn (S i - n) all))).
  { rewrite <- off_plus. f_equal. lia. }
  assert (Hm : off (S i - n) <= off i) by (apply off_mono; lia).
  assert (Heq : length (scode s) + 1 - off (S i - n) + 2 = CE.code_size (firstn n (skipn (S i - n) all))) by lia.
  destruct (emit_loop_ext (off (S i - n)) l s) as (s' & E & Hx).
  { rewrite Heq. pose proof (off_le_all (S i)). pose proof size_bound. lia. }
  exists s'. split; auto. eapply St_step; eauto.
  - eapply kpos_none; eauto.
  - cbn [CE.asm_instr]. rewrite Heq in Hx. exact Hx.
Qed.

(* ================================================================== *)
(* expressions                                                          *)

Lemma St_set_line s l i P : St s i P -> St (mkS (s_cur s) (s_outer s) (s_classes s) l) i P.
Proof. exact (fun H => H). Qed.

(* [m] returns [a] and behaves as the instruction list [is] of the fragment compiler, whatever jumps are pending *)
Definition EmitsR {A} (env : CE.cenv) (m : C A) (is : list CE.instr) (a : A) : Prop :=
  forall s i P, at_ i is -> St s i P -> envrel s env ->
    exists s', m s = COk (a, s') /\ St s' (i + length is) P /\ rest s' = rest s.

Lemma EmitsR_bind {A B} env (m : C A) (k : A -> C B) is1 is2 a b :
  EmitsR env m is1 a -> EmitsR env (k a) is2 b -> EmitsR env (cbind m k) (is1 ++ is2) b.
Proof.
  intros H1 H2 s i P Hat HS He. apply at_app in Hat. destruct Hat as [A1 A2].
  destruct (H1 s i P A1 HS He) as (s1 & E1 & S1 & R1).
  destruct (H2 s1 _ P A2 S1 (envrel_rest _ _ _ R1 He)) as (s2 & E2 & S2 & R2).
  exists s2. rewrite (cbind_ok _ _ _ _ _ E1). split; auto. rewrite app_length, Nat.add_assoc. split; auto. congruence.
Qed.

Lemma EmitsR_ret {A} env (a : A) : EmitsR env (cret a) [] a.
Proof. intros s i P _ HS _. exists s. simpl. rewrite Nat.add_0_r. auto. Qed.

Lemma EmitsR_eq {A} env (m m' : C A) is a : (forall s, m s = m' s) -> EmitsR env m' is a -> EmitsR env m is a.
Proof. intros E H s i P Hat HS He. rewrite E. apply H; auto. Qed.

Lemma emits_op env o l : EmitsR env (emit_op o l) [CE.IOp o] tt.
Proof.
  intros s i P Hat HS _. apply at_cons in Hat. destruct Hat as [Hn _].
  destruct (op_step s i P o l Hn HS) as (s' & E & S' & R). exists s'. simpl. rewrite Nat.add_1_r. auto.
Qed.

Lemma emits_op8 env o n l : EmitsR env (emit_op8 o n l) [CE.IOp8 o n] tt.
Proof.
  intros s i P Hat HS _. apply at_cons in Hat. destruct Hat as [Hn _].
  destruct (op8_step s i P o n l Hn HS) as (s' & E & S' & R). exists s'. simpl. rewrite Nat.add_1_r. auto.
Qed.

Lemma emits_ops env ops l : EmitsR env (emit_ops ops l) (map CE.IOp ops) tt.
Proof.
  induction ops as [|o r IH]; simpl. apply EmitsR_ret.
  change (CE.IOp o :: map CE.IOp r) with ([CE.IOp o] ++ map CE.IOp r).
  eapply EmitsR_bind; [apply emits_op|exact IH].
Qed.

Lemma emits_constant env c l : cplain c -> EmitsR env (emit_constant (conv c) l) [CE.IConst c] tt.
Proof.
  intros Hp s i P Hat HS _. apply at_cons in Hat. destruct Hat as [Hn _].
  unfold emit_constant. rewrite (cbind_ok _ _ _ _ _ (set_line_step l s)).
  apply (St_set_line s l) in HS. destruct HS as (Hc & Hk & Ha).
  destruct (mkconst_step _ i _ c Hn eq_refl Hp Hk) as (g & s1 & E1 & R1 & C1 & K1 & I1).
  rewrite (cbind_ok _ _ _ _ _ E1).
  destruct (const16_step s1 i P _ c OpConstant g l Hn eq_refl eq_refl I1) as (s2 & E2 & S2 & R2); auto.
  { unfold cpos in *. rewrite C1. exact Hc. }
  { rewrite C1. exact Ha. }
  exists s2. simpl. rewrite Nat.add_1_r. split; auto. split; auto. rewrite R2, R1. reflexivity.
Qed.

(* a variable: the three instruction shapes of named_variable *)
Definition var_get_code (env : CE.cenv) (x : name) : list CE.instr :=
  match CE.resolve env x with Some k => [CE.IOp8 OpGetLocal k] | None => [CE.IGlobal OpGetGlobal x] end.

Lemma resolve_cases env x : CE.not_pending env x = true ->
  (exists k, CE.resolve_local env x = CE.LFound k /\ CE.resolve env x = Some k) \/
  (CE.resolve_local env x = CE.LNone /\ CE.resolve env x = None).
Proof.
  unfold CE.not_pending, CE.resolve. destruct (CE.resolve_local env x); intros H; try discriminate; eauto.
Qed.

(* `x` resolved as a global by make_constant at instruction index i (a Touch, or the Get itself) *)
Lemma resolve_global_step env x l s i ins :
  envrel s env -> name_ok x = true -> CE.resolve_local env x = CE.LNone ->
  nth_error all i = Some ins -> CE.instr_const ins = Some (CE.CStr x) -> kpos s i ->
  exists g s', resolve_variable x l s = COk ((OpGetGlobal, OpSetGlobal, g), s') /\ rest s' = rest s /\
               scode s' = scode s /\ kpos s' (S i) /\ CE.const_index (tblat (S i)) (CE.CStr x) = Some (N.to_nat g).
Proof.
  intros He Hx Hr Hn Hc Hk. rewrite (resolve_variable_global _ _ _ l He Hx Hr).
  destruct (mkconst_step (mkS (s_cur s) (s_outer s) (s_classes s) l) i ins (CE.CStr x) Hn Hc I Hk)
    as (g & s1 & E1 & R1 & C1 & K1 & I1).
  exists g, s1. rewrite (cbind_ok _ _ _ _ _ E1). auto.
Qed.

(* Set/Get of a global whose name constant was allotted earlier (index g) *)
Lemma global16_step s j P o x g l i0 :
  nth_error all j = Some (CE.IGlobal o x) -> i0 <= j ->
  CE.const_index (tblat i0) (CE.CStr x) = Some (N.to_nat g) -> St s j P ->
  exists s', emit_op16 o g l s = COk (tt, s') /\ St s' (S j) P /\ rest s' = rest s.
Proof.
  intros Hn Hle Hi (Hc & Hk & Ha).
  pose proof (tblat_index_mono _ _ _ _ Hle Hi) as Hj.
  assert (Hle' : i0 <= S j) by lia. pose proof (tblat_index_mono _ _ _ _ Hle' Hi) as HSj.
  eapply const16_step; eauto; try reflexivity.
  eapply kpos_known; eauto. reflexivity.
Qed.

Lemma emits_var_get env x l :
  name_ok x = true -> CE.not_pending env x = true -> EmitsR env (named_get x l) (var_get_code env x) tt.
Proof.
  intros Hx Hnp s i P Hat HS He. unfold named_get, var_get_code in *.
  destruct (resolve_cases _ _ Hnp) as [(k & Hr & Hres)|[Hr Hres]]; rewrite Hres in *.
  - rewrite (cbind_ok _ _ _ _ _ (resolve_variable_local _ _ _ l _ He Hx Hr)).
    apply (emits_op8 env OpGetLocal k l); auto.
  - apply at_cons in Hat. destruct Hat as [Hn _]. destruct HS as (Hc & Hk & Ha).
    destruct (resolve_global_step _ _ l _ _ _ He Hx Hr Hn eq_refl Hk) as (g & s1 & E1 & R1 & C1 & K1 & I1).
    rewrite (cbind_ok _ _ _ _ _ E1). cbn [emit_variable_op is_op8].
    destruct (const16_step s1 i P _ (CE.CStr x) OpGetGlobal g l Hn eq_refl eq_refl I1) as (s2 & E2 & S2 & R2); auto.
    { unfold cpos in *. rewrite C1. exact Hc. }
    { rewrite C1. exact Ha. }
    exists s2. simpl. rewrite Nat.add_1_r. split; auto. split; auto. rewrite R2, R1. reflexivity.
Qed.

Definition Pe (e : lexpr) : Prop :=
  forall env, lok_e e = true -> CE.expr_ok env (erase_expr e) = true ->
    EmitsR env (cexpr e) (CE.cexpr env (erase_expr e)) tt.
Definition Pes (es : lexprs) : Prop :=
  forall env, lok_es es = true -> forallb (CE.expr_ok env) (erase_exprs es) = true ->
    EmitsR env (cargs es) (flat_map (CE.cexpr env) (erase_exprs es)) (CE.nlen (erase_exprs es)).
Definition Pps (ps : lparts) : Prop :=
  forall env, lok_ps ps = true -> interp_ok env (erase_parts ps) = true ->
    EmitsR env (cparts ps) (interp_code env (erase_parts ps)) (CE.nlen (erase_parts ps)).

Ltac andb_split :=
  repeat match goal with
         | H : _ && _ = true |- _ => apply andb_prop in H; destruct H
         end.

Lemma case_unary op e l : Pe e -> Pe (LUnary op e l).
Proof.
  intros IH env Hl Hok. simpl in *. rewrite unop_code_ops.
  eapply EmitsR_bind; [apply IH; auto|apply emits_op].
Qed.

Lemma case_binary op a b l : Pe a -> Pe b -> Pe (LBinary op a b l).
Proof.
  intros IHa IHb env Hl Hok. simpl in *. andb_split. rewrite binop_code_ops.
  eapply EmitsR_bind; [apply IHa; auto|]. eapply EmitsR_bind; [apply IHb; auto|apply emits_ops].
Qed.

Lemma case_range a b l : Pe a -> Pe b -> Pe (LRange a b l).
Proof.
  intros IHa IHb env Hl Hok. simpl in *. andb_split.
  eapply EmitsR_bind; [apply IHa; auto|]. eapply EmitsR_bind; [apply IHb; auto|apply emits_op].
Qed.

Lemma case_index a b l : Pe a -> Pe b -> Pe (LIndex a b l).
Proof.
  intros IHa IHb env Hl Hok. simpl in *. andb_split.
  eapply EmitsR_bind; [apply IHa; auto|]. eapply EmitsR_bind; [apply IHb; auto|apply emits_op].
Qed.

Lemma case_setindex o i e l : Pe o -> Pe i -> Pe e -> Pe (LSetIndex o i e l).
Proof.
  intros IHo IHi IHe env Hl Hok. simpl in *. andb_split.
  eapply EmitsR_bind; [apply IHo; auto|]. eapply EmitsR_bind; [apply IHi; auto|].
  eapply EmitsR_bind; [apply IHe; auto|apply emits_op].
Qed.

Lemma nlen_le {A} (l : list A) : (length l <=? 255) = true -> (CE.nlen l <= 255)%N.
Proof. intros H. apply Nat.leb_le in H. unfold CE.nlen. lia. Qed.

Lemma emits_check env n l msg : (n <= 255)%N -> EmitsR env (check_count n l msg) [] tt.
Proof. intros H. eapply EmitsR_eq; [intros s; apply check_count_ok; exact H|apply EmitsR_ret]. Qed.

Lemma case_call f args l : Pe f -> Pes args -> Pe (LCall f args l).
Proof.
  intros IHf IHa env Hl Hok. simpl in *. andb_split.
  eapply EmitsR_bind; [apply IHf; auto|]. eapply EmitsR_bind; [apply IHa; auto|].
  rewrite <- (app_nil_l [CE.IOp8 OpCall _]).
  eapply EmitsR_bind; [apply emits_check; apply nlen_le; auto|apply emits_op8].
Qed.

Lemma case_tuple es l : Pes es -> Pe (LTuple es l).
Proof.
  intros IHa env Hl Hok. simpl in *. andb_split.
  eapply EmitsR_bind; [apply IHa; auto|].
  rewrite <- (app_nil_l [CE.IOp8 OpBuildTuple _]).
  eapply EmitsR_bind; [apply emits_check; apply nlen_le; auto|apply emits_op8].
Qed.

Lemma case_vec es l : Pes es -> Pe (LVec es l).
Proof.
  intros IHa env Hl Hok. simpl in *. andb_split.
  eapply EmitsR_bind; [apply IHa; auto|].
  rewrite <- (app_nil_l [CE.IOp8 OpBuildVec _]).
  eapply EmitsR_bind; [apply emits_check; apply nlen_le; auto|apply emits_op8].
Qed.

Lemma case_interp ps l : Pps ps -> Pe (LInterp ps l).
Proof.
  intros IH env Hl Hok. cbn [erase_expr lok_e] in *. rewrite expr_ok_interp in Hok. rewrite cexpr_interp.
  andb_split. cbn [cexpr].
  eapply EmitsR_bind; [apply IH; auto|].
  rewrite <- (app_nil_l [CE.IOp8 OpBuildString _]).
  eapply EmitsR_bind; [apply emits_check; apply nlen_le; auto|apply emits_op8].
Qed.

Lemma nlen_cons {A} (x : A) r : CE.nlen (x :: r) = (CE.nlen r + 1)%N.
Proof. unfold CE.nlen. simpl length. lia. Qed.

Lemma case_enil : Pes LENil.
Proof. intros env _ _. simpl. apply EmitsR_ret. Qed.

Lemma case_econs e r : Pe e -> Pes r -> Pes (LECons e r).
Proof.
  intros IHe IHr env Hl Hok. simpl in *. andb_split. rewrite nlen_cons.
  eapply EmitsR_bind; [apply IHe; auto|].
  rewrite <- (app_nil_r (flat_map _ _)).
  eapply EmitsR_bind; [apply IHr; auto|apply EmitsR_ret].
Qed.

Lemma case_pnil : Pps LPNil.
Proof. intros env _ _. simpl. apply EmitsR_ret. Qed.

Lemma case_pstr l s r : Pps r -> Pps (LPStr l s r).
Proof.
  intros IHr env Hl Hok. simpl in *. andb_split. rewrite nlen_cons.
  change (CE.IConst (CE.CStr s) :: interp_code env (erase_parts r)) with ([CE.IConst (CE.CStr s)] ++ interp_code env (erase_parts r)).
  eapply EmitsR_bind; [apply (emits_constant env (CE.CStr s)); exact I|].
  rewrite <- (app_nil_r (interp_code _ _)).
  eapply EmitsR_bind; [apply IHr; auto|apply EmitsR_ret].
Qed.

Lemma case_pexpr e l r : Pe e -> Pps r -> Pps (LPExpr e l r).
Proof.
  intros IHe IHr env Hl Hok. simpl in *. andb_split. rewrite nlen_cons.
  eapply EmitsR_bind; [apply IHe; auto|].
  change (CE.IOp OpFormatString :: interp_code env (erase_parts r)) with ([CE.IOp OpFormatString] ++ interp_code env (erase_parts r)).
  eapply EmitsR_bind; [apply emits_op|].
  rewrite <- (app_nil_r (interp_code _ _)).
  eapply EmitsR_bind; [apply IHr; auto|apply EmitsR_ret].
Qed.

(* ---------- && and || : back-patched forward jumps ---------- *)
Lemma case_and a lop b : Pe a -> Pe b -> Pe (LAnd a lop b).
Proof.
  intros IHa IHb env Hl Hok. simpl in *.
  apply andb_prop in Hl. destruct Hl as [La Lb]. apply andb_prop in Hok. destruct Hok as [Oa Ob].
  intros s i P Hat HS He.
  apply at_app in Hat. destruct Hat as [A1 A2].
  destruct (IHa env La Oa s i P A1 HS He) as (s1 & E1 & S1 & R1).
  rewrite (cbind_ok _ _ _ _ _ E1).
  set (j := i + length (CE.cexpr env (erase_expr a))) in *.
  apply at_cons in A2. destruct A2 as [Nj A2]. apply at_cons in A2. destruct A2 as [Np A2].
  destruct (jump_step s1 j P _ _ lop Nj S1) as (s2 & p & E2 & S2 & R2 & G).
  rewrite (cbind_ok _ _ _ _ _ E2).
  destruct (op_step s2 (S j) (p :: P) _ lop Np S2) as (s3 & E3 & S3 & R3).
  rewrite (cbind_ok _ _ _ _ _ E3).
  assert (He3 : envrel s3 env) by (eapply envrel_rest; [|exact He]; congruence).
  destruct (IHb env Lb Ob s3 (S (S j)) (p :: P) A2 S3 He3) as (s4 & E4 & S4 & R4).
  rewrite (cbind_ok _ _ _ _ _ E4).
  replace (S j + S (length (CE.cexpr env (erase_expr b)))) with (S (S j) + length (CE.cexpr env (erase_expr b))) in G by lia.
  destruct (patch_step s4 _ (p :: P) P p S4 G) as (s5 & E5 & S5 & R5).
  { intros q [->|Hq]; auto. }
  exists s5. split; auto. split; [|congruence].
  rewrite app_length. simpl length. replace (i + (length (CE.cexpr env (erase_expr a)) + S (S (length (CE.cexpr env (erase_expr b))))))
    with (S (S j) + length (CE.cexpr env (erase_expr b))) by (unfold j; lia). exact S5.
Qed.

Lemma case_or a lop b : Pe a -> Pe b -> Pe (LOr a lop b).
Proof.
  intros IHa IHb env Hl Hok. simpl in *.
  apply andb_prop in Hl. destruct Hl as [La Lb]. apply andb_prop in Hok. destruct Hok as [Oa Ob].
  intros s i P Hat HS He.
  apply at_app in Hat. destruct Hat as [A1 A2].
  destruct (IHa env La Oa s i P A1 HS He) as (s1 & E1 & S1 & R1).
  rewrite (cbind_ok _ _ _ _ _ E1).
  set (j := i + length (CE.cexpr env (erase_expr a))) in *.
  apply at_cons in A2. destruct A2 as [Nj A2]. apply at_cons in A2. destruct A2 as [Nj2 A2].
  apply at_cons in A2. destruct A2 as [Np A2].
  destruct (jump_step s1 j P _ _ lop Nj S1) as (s2 & p1 & E2 & S2 & R2 & G1).
  rewrite (cbind_ok _ _ _ _ _ E2).
  destruct (jump_step s2 (S j) (p1 :: P) _ _ lop Nj2 S2) as (s3 & p2 & E3 & S3 & R3 & G2).
  rewrite (cbind_ok _ _ _ _ _ E3).
  replace (S j + 1) with (S (S j)) in G1 by lia.
  destruct (patch_step s3 _ (p2 :: p1 :: P) (p2 :: P) p1 S3 G1) as (s4 & E4 & S4 & R4).
  { intros q [->|[->|Hq]]; simpl; auto. }
  rewrite (cbind_ok _ _ _ _ _ E4).
  destruct (op_step s4 (S (S j)) (p2 :: P) _ lop Np S4) as (s5 & E5 & S5 & R5).
  rewrite (cbind_ok _ _ _ _ _ E5).
  assert (He5 : envrel s5 env) by (eapply envrel_rest; [|exact He]; congruence).
  destruct (IHb env Lb Ob s5 (S (S (S j))) (p2 :: P) A2 S5 He5) as (s6 & E6 & S6 & R6).
  rewrite (cbind_ok _ _ _ _ _ E6).
  replace (S (S j) + S (length (CE.cexpr env (erase_expr b)))) with (S (S (S j)) + length (CE.cexpr env (erase_expr b))) in G2 by lia.
  destruct (patch_step s6 _ (p2 :: P) P p2 S6 G2) as (s7 & E7 & S7 & R7).
  { intros q [->|Hq]; auto. }
  exists s7. split; auto. split; [|congruence].
  rewrite app_length. simpl length.
  replace (i + (length (CE.cexpr env (erase_expr a)) + S (S (S (length (CE.cexpr env (erase_expr b)))))))
    with (S (S (S j)) + length (CE.cexpr env (erase_expr b))) by (unfold j; lia). exact S7.
Qed.

(* ---------- variables ---------- *)
Lemma case_var l x : Pe (LVar l x).
Proof.
  intros env Hl Hok. simpl in *. apply (emits_var_get env x l); auto.
Qed.

Lemma case_assign x e l : Pe e -> Pe (LAssign x e l).
Proof.
  intros IH env Hl Hok. cbn [lok_e erase_expr CE.expr_ok cexpr CE.cexpr] in *.
  apply andb_prop in Hl. destruct Hl as [Hx Hle]. apply andb_prop in Hok. destruct Hok as [Hnp Hoke].
  destruct (resolve_cases _ _ Hnp) as [(k & Hr & Hres)|[Hr Hres]]; rewrite Hres.
  - intros s i P Hat HS He.
    rewrite (cbind_ok _ _ _ _ _ (resolve_variable_local _ _ _ l _ He Hx Hr)).
    revert s i P Hat HS He. change (EmitsR env (cexpr e ;;; emit_variable_op OpSetLocal k l)
      (CE.cexpr env (erase_expr e) ++ [CE.IOp8 OpSetLocal k]) tt).
    eapply EmitsR_bind; [apply IH; auto|apply emits_op8].
  - intros s i P Hat HS He. apply at_cons in Hat. destruct Hat as [Hn Hat].
    destruct HS as (Hc & Hk & Ha).
    destruct (resolve_global_step _ _ l _ _ _ He Hx Hr Hn eq_refl Hk) as (g & s1 & E1 & R1 & C1 & K1 & I1).
    rewrite (cbind_ok _ _ _ _ _ E1).
    assert (S1 : St s1 (S i) P).
    { split; [|split; [exact K1|rewrite C1; exact Ha]]. unfold cpos in *. rewrite C1, (off_S _ _ Hn). simpl. lia. }
    apply at_app in Hat. destruct Hat as [A1 A2]. apply at_cons in A2. destruct A2 as [Nj _].
    destruct (IH env Hle Hoke s1 (S i) P A1 S1 (envrel_rest _ _ _ R1 He)) as (s2 & E2 & S2 & R2).
    rewrite (cbind_ok _ _ _ _ _ E2). cbn [emit_variable_op is_op8].
    destruct (global16_step s2 _ P OpSetGlobal x g l (S i) Nj ltac:(lia) I1 S2) as (s3 & E3 & S3 & R3).
    exists s3. split; auto. split; [|congruence].
    simpl length. rewrite app_length. simpl length.
    replace (i + S (length (CE.cexpr env (erase_expr e)) + 1)) with (S (S i + length (CE.cexpr env (erase_expr e)))) by lia.
    exact S3.
Qed.

Lemma compound_code_ops op : is_compound_op op = true -> CE.compound_code op = map CE.IOp (binop_ops op).
Proof. destruct op; simpl; try discriminate; reflexivity. Qed.

Lemma emit_compound_eq op l : is_compound_op op = true -> emit_compound op l = emit_ops (binop_ops op) l.
Proof. intros H. unfold emit_compound. rewrite H. reflexivity. Qed.

Lemma is_compound_agree op : CE.is_compound_op op = is_compound_op op.
Proof. destruct op; reflexivity. Qed.

Lemma case_compound x op lop e l : Pe e -> Pe (LCompound x op lop e l).
Proof.
  intros IH env Hl Hok. cbn [lok_e erase_expr CE.expr_ok cexpr CE.cexpr] in *.
  apply andb_prop in Hl. destruct Hl as [Hx Hle]. apply andb_prop in Hok. destruct Hok as [Hnp Hoke].
  apply andb_prop in Hnp. destruct Hnp as [Hnp Hop].
  rewrite is_compound_agree in Hop. rewrite (compound_code_ops _ Hop).
  destruct (resolve_cases _ _ Hnp) as [(k & Hr & Hres)|[Hr Hres]]; rewrite Hres.
  - intros s i P Hat HS He.
    rewrite (cbind_ok _ _ _ _ _ (resolve_variable_local _ _ _ lop _ He Hx Hr)).
    revert s i P Hat HS He.
    change (EmitsR env (emit_variable_op OpGetLocal k lop ;;; cexpr e ;;; emit_compound op l ;;; emit_variable_op OpSetLocal k l)
      ([CE.IOp8 OpGetLocal k] ++ CE.cexpr env (erase_expr e) ++ map CE.IOp (binop_ops op) ++ [CE.IOp8 OpSetLocal k]) tt).
    eapply EmitsR_bind; [apply emits_op8|]. eapply EmitsR_bind; [apply IH; auto|].
    eapply EmitsR_bind; [|apply emits_op8].
    rewrite (emit_compound_eq _ l Hop). apply emits_ops.
  - intros s i P Hat HS He. apply at_cons in Hat. destruct Hat as [Hn Hat].
    destruct HS as (Hc & Hk & Ha).
    destruct (resolve_global_step _ _ lop _ _ _ He Hx Hr Hn eq_refl Hk) as (g & s1 & E1 & R1 & C1 & K1 & I1).
    rewrite (cbind_ok _ _ _ _ _ E1). cbn [emit_variable_op is_op8].
    destruct (const16_step s1 i P _ (CE.CStr x) OpGetGlobal g lop Hn eq_refl eq_refl I1) as (s2 & E2 & S2 & R2); auto.
    { unfold cpos in *. rewrite C1. exact Hc. }
    { rewrite C1. exact Ha. }
    rewrite (cbind_ok _ _ _ _ _ E2).
    apply at_app in Hat. destruct Hat as [A1 A2]. apply at_app in A2. destruct A2 as [A2 A3].
    apply at_cons in A3. destruct A3 as [Nj _].
    assert (He2 : envrel s2 env) by (eapply envrel_rest; [|exact He]; congruence).
    destruct (IH env Hle Hoke s2 (S i) P A1 S2 He2) as (s3 & E3 & S3 & R3).
    rewrite (cbind_ok _ _ _ _ _ E3). rewrite (emit_compound_eq _ l Hop).
    assert (He3 : envrel s3 env) by (eapply envrel_rest; [|exact He2]; congruence).
    destruct (emits_ops env (binop_ops op) l s3 _ P A2 S3 He3) as (s4 & E4 & S4 & R4).
    rewrite (cbind_ok _ _ _ _ _ E4).
    destruct (global16_step s4 _ P OpSetGlobal x g l (S i) Nj ltac:(lia) I1 S4) as (s5 & E5 & S5 & R5).
    exists s5. split; auto. split; [|congruence].
    simpl length. rewrite !app_length. simpl length.
    match goal with |- St _ ?a _ => match type of S5 with St _ ?b _ => replace a with b by lia end end.
    exact S5.
Qed.

(* ---------- all expressions of the fragment ---------- *)
Theorem cexpr_bridge :
  (forall e, Pe e) /\ (forall es, Pes es) /\ (forall ps, Pps ps).
Proof.
  assert (H : (forall e, Pe e) /\ (forall es, Pes es) /\ (forall ps, Pps ps) /\
              (forall k : lkvs, True) /\ (forall s : lstmt, True) /\ (forall l : lstmts, True) /\ (forall m : lmethods, True)).
  { apply lsyntax_mutind; try (intros; exact I);
      try (intros; intros env Hl Hok; simpl in Hl; discriminate).
    - intros l env _ _. apply emits_op.
    - intros l env _ _. apply emits_op.
    - intros l env _ _. apply emits_op.
    - intros l x env Hl _. simpl in *. apply (emits_constant env (CE.CNum x)). exact Hl.
    - intros l s0 env _ _. simpl. apply (emits_constant env (CE.CStr s0)). exact I.
    - intros. apply case_interp; auto.
    - intros. apply case_var.
    - intros. apply case_assign; auto.
    - intros. apply case_compound; auto.
    - intros. apply case_unary; auto.
    - intros. apply case_binary; auto.
    - intros. apply case_and; auto.
    - intros. apply case_or; auto.
    - intros. apply case_range; auto.
    - intros. apply case_call; auto.
    - intros. apply case_index; auto.
    - intros. apply case_setindex; auto.
    - intros. apply case_tuple; auto.
    - intros. apply case_vec; auto.
    - apply case_enil.
    - intros. apply case_econs; auto.
    - apply case_pnil.
    - intros. apply case_pstr; auto.
    - intros. apply case_pexpr; auto. }
  tauto.
Qed.

(* ================================================================== *)
(* statements                                                           *)

Definition misc (s : cstate) : Prop :=
  k_kind (s_cur s) = KScript /\ k_in_try (s_cur s) = false /\ k_try_depth (s_cur s) = 0 /\
  (k_arity (s_cur s) = 1%N /\ k_upvalues (s_cur s) = [] /\ k_name (s_cur s) = []).
Definition senv (s : cstate) (env : CE.cenv) : Prop :=
  s_outer s = [] /\ lrel (k_locals (s_cur s)) (CE.clocals env) /\ CE.cpending env = None /\
  k_scope (s_cur s) = CE.cdepth env.

(* ghost: for every open loop (innermost first) its start byte, its scope depth, its EXIT byte *)
Definition lstack := list (nat * nat * nat).
Definition looprel (s : cstate) (stack : lstack) : Prop :=
  k_loops (s_cur s) = map (fun t : nat * nat * nat => (fst (fst t), snd (fst t), 0)) stack /\
  Forall2 (fun b (t : nat * nat * nat) => Forall (good X (snd t)) b) (k_breaks (s_cur s)) stack.
Definition pending (s : cstate) : list nat := concat (k_breaks (s_cur s)).
Definition loopcond (env : CE.cenv) (stack : lstack) (i cont E : nat) : Prop :=
  forall d nl, CE.cloop env = Some (d, nl) ->
    exists LS rst, stack = (LS, d, E) :: rst /\ cont <= i /\ LS = off (i - cont).

Record Post (s : cstate) (i : nat) (Q : list nat) (env : CE.cenv) (stack : lstack) : Prop := mkPost {
  po_st : St s i (Q ++ pending s);
  po_env : senv s env;
  po_loop : looprel s stack;
  po_misc : misc s }.

Lemma senv_envrel s env : senv s env -> envrel s env.
Proof. intros (H1 & H2 & H3 & H4). split; auto. exists (k_locals (s_cur s)). rewrite H3. auto. Qed.

Lemma Post_rest s s' i i' Q Q' env stack :
  rest s' = rest s -> St s' i' (Q' ++ pending s) -> Post s i Q env stack -> Post s' i' Q' env stack.
Proof.
  intros R HS [_ (E1 & E2 & E3 & E4) [L1 L2] (M1 & M2 & M3 & M4)].
  pose proof (rest_cur _ _ R) as Rc.
  split.
  - unfold pending. rewrite (restc_breaks _ _ Rc). exact HS.
  - split; [rewrite (rest_outer _ _ R); auto|]. rewrite (restc_locals _ _ Rc), (restc_scope _ _ Rc). auto.
  - split; [rewrite (restc_loops _ _ Rc); auto|rewrite (restc_breaks _ _ Rc); auto].
  - unfold misc. rewrite (restc_kind _ _ Rc), (restc_in_try _ _ Rc), (restc_try_depth _ _ Rc), (restc_arity _ _ Rc), (restc_upvalues _ _ Rc), (restc_name _ _ Rc). auto.
Qed.

Lemma lift_emits env m is s i Q stack :
  EmitsR env m is tt -> at_ i is -> Post s i Q env stack ->
  exists s', m s = COk (tt, s') /\ Post s' (i + length is) Q env stack.
Proof.
  intros HE Hat HP. destruct (HE s i _ Hat (po_st _ _ _ _ _ HP) (senv_envrel _ _ (po_env _ _ _ _ _ HP))) as (s' & E & S' & R).
  exists s'. split; auto. eapply Post_rest; eauto.
Qed.

Lemma Post_set_line s l i Q env stack :
  Post s i Q env stack -> Post (mkS (s_cur s) (s_outer s) (s_classes s) l) i Q env stack.
Proof. intros [H1 H2 H3 H4]. split; assumption. Qed.

Definition Ps (st : lstmt) : Prop :=
  forall env brk cont s i Q stack,
    lok_s st = true -> CE.stmt_ok env (erase_stmt st) = true -> dinv env ->
    at_ i (CE.cstmt true env brk cont (erase_stmt st)) ->
    Post s i Q env stack ->
    loopcond env stack i cont (off (i + CE.slen env (erase_stmt st) + brk)) ->
    exists s', cstmt st s = COk (tt, s') /\
               Post s' (i + CE.slen env (erase_stmt st)) Q (CE.env_after env (erase_stmt st)) stack.

Definition Pss (ss : lstmts) : Prop :=
  forall env brk cont s i Q stack,
    lok_ss ss = true -> CE.stmts_ok env (erase_stmts ss) = true -> dinv env ->
    at_ i (CE.cstmts true env brk cont (erase_stmts ss)) ->
    Post s i Q env stack ->
    loopcond env stack i cont (off (i + CE.slens env (erase_stmts ss) + brk)) ->
    exists s', cstmts ss s = COk (tt, s') /\
               Post s' (i + CE.slens env (erase_stmts ss)) Q (CP.envs_after env (erase_stmts ss)) stack.

Lemma Pe_all e : Pe e. Proof. apply cexpr_bridge. Qed.

(* ---------- expression statement ---------- *)
Lemma case_sexpr e l : Ps (LSExpr e l).
Proof.
  intros env brk cont s i Q stack Hl Hok Hd Hat HP HL. cbn [lok_s erase_stmt CE.stmt_ok CE.cstmt CE.slen CE.env_after cstmt] in *.
  destruct (lift_emits env (cexpr e ;;; emit_op OpPop l) _ s i Q stack
              (EmitsR_bind _ _ _ _ _ _ _ (Pe_all e env Hl Hok) (emits_op env OpPop l)) Hat HP) as (s' & E & HP').
  exists s'. split; auto. rewrite app_length in HP'. simpl length in HP'.
  replace (i + S (length (CE.cexpr env (erase_expr e)))) with (i + (length (CE.cexpr env (erase_expr e)) + 1)) by lia.
  exact HP'.
Qed.

(* ---------- var ---------- *)
Lemma stmt_ok_var_local env x init d :
  CE.cdepth env = S d -> CE.stmt_ok env (SVar 0%N x init) = true ->
  CE.declared_here (S d) (CE.clocals env) x = false /\ length (CE.clocals env) < 256 /\
  match init with Some e => CE.expr_ok (CE.with_pending env x) e = true | None => True end.
Proof.
  intros Hd H. cbn [CE.stmt_ok] in H. rewrite Hd in H.
  apply andb_prop in H. destruct H as [H H3]. apply andb_prop in H. destruct H as [H1 H2].
  apply negb_true_iff in H1. apply Nat.ltb_lt in H2. repeat split; auto. destruct init; auto.
Qed.

Lemma locals_not_max (KL : list klocal) : length KL < 256 -> Nat.eqb (length KL) LOCALS_MAX = false.
Proof. intros H. apply Nat.eqb_neq. unfold LOCALS_MAX. lia. Qed.

(* the state after `declare_variable x` in a scope: x is the pending local *)
Lemma declare_local s i Q env stack x l d :
  Post s i Q env stack -> CE.cdepth env = S d ->
  CE.declared_here (S d) (CE.clocals env) x = false -> length (CE.clocals env) < 256 ->
  exists s1, parse_variable x l s = COk (0%N, s1) /\ s_outer s1 = [] /\
             St s1 i (Q ++ pending s1) /\ envrel s1 (CE.with_pending env x) /\
             k_locals (s_cur s1) = mkKL x None false :: k_locals (s_cur s) /\ k_scope (s_cur s1) = S d /\
             looprel s1 stack /\ misc s1.
Proof.
  intros [HS (E1 & E2 & E3 & E4) HLp HM] Hd Hdecl Hlen.
  rewrite Hd in E4.
  eexists. split.
  - apply (parse_variable_local x l s d E4).
    + rewrite (lrel_declared _ _ x (S d) E2) by lia. exact Hdecl.
    + apply locals_not_max. rewrite (lrel_length _ _ E2). exact Hlen.
  - split; [exact E1|]. split; [exact HS|]. split.
    { split; [exact E1|]. exists (k_locals (s_cur s)). split; [reflexivity|exact E2]. }
    split; [reflexivity|]. split; [exact E4|]. split; [exact HLp|exact HM].
Qed.

Lemma case_svar x lname lsemi : Ps (LSVar x lname lsemi).
Proof.
  intros env brk cont s i Q stack Hl Hok Hd Hat HP HL.
  cbn [erase_stmt cstmt] in *.
  rewrite (cbind_ok _ _ _ _ _ (set_line_step lname s)).
  set (s0 := mkS (s_cur s) (s_outer s) (s_classes s) lname).
  assert (HP0 : Post s0 i Q env stack) by (apply Post_set_line; exact HP).
  destruct (CE.cdepth env) as [|d] eqn:Ed.
  - (* global *)
    cbn [CE.cstmt CE.slen CE.env_after] in *. rewrite Ed in *.
    destruct HP0 as [HS HE HLp HM]. pose proof HE as (E1 & E2 & E3 & E4). rewrite Ed in E4.
    apply at_cons in Hat. destruct Hat as [N0 Hat]. apply at_cons in Hat. destruct Hat as [N1 Hat].
    apply at_cons in Hat. destruct Hat as [N2 _].
    destruct HS as (Hc & Hk & Ha).
    destruct (mkconst_step s0 i _ (CE.CStr x) N0 eq_refl I Hk) as (g & s1 & X1 & R1 & C1 & K1 & I1).
    rewrite (cbind_ok _ _ _ _ _ (eq_trans (parse_variable_global x lname s0 E4) X1)). cbv beta.
    assert (S1 : St s1 (S i) (Q ++ pending s0)).
    { split; [|split; [exact K1|rewrite C1; exact Ha]]. unfold cpos in *. rewrite C1, (off_S _ _ N0). simpl. lia. }
    destruct (op_step s1 (S i) _ OpNil lname N1 S1) as (s2 & X2 & S2 & R2).
    rewrite (cbind_ok _ _ _ _ _ X2). cbv beta.
    assert (E4' : k_scope (s_cur s2) = 0).
    { rewrite (restc_scope _ _ (rest_cur _ _ R2)), (restc_scope _ _ (rest_cur _ _ R1)). exact E4. }
    rewrite (define_variable_global g lsemi s2 E4').
    destruct (global16_step s2 (S (S i)) _ OpDefineGlobal x g lsemi (S i) N2 ltac:(lia) I1 S2) as (s3 & X3 & S3 & R3).
    exists s3. split; auto.
    replace (i + 3) with (S (S (S i))) by lia.
    eapply Post_rest; [| |exact (mkPost _ _ _ _ _ (conj Hc (conj Hk Ha)) HE HLp HM)]; [congruence|exact S3].
  - (* local *)
    cbn [CE.cstmt CE.slen CE.env_after] in *. rewrite Ed in *.
    destruct (stmt_ok_var_local env x None d Ed Hok) as (Hdecl & Hlen & _).
    destruct (declare_local s0 i Q env stack x lname d HP0 Ed Hdecl Hlen) as (s1 & X1 & R1 & S1 & He1 & KL1 & Sc1 & Lp1 & M1).
    rewrite (cbind_ok _ _ _ _ _ X1).
    apply at_cons in Hat. destruct Hat as [N0 _].
    destruct (op_step s1 i _ OpNil lname N0 S1) as (s2 & X2 & S2 & R2).
    rewrite (cbind_ok _ _ _ _ _ X2). cbv beta.
    pose proof (rest_cur _ _ R2) as Rc2.
    rewrite (define_variable_local 0%N lsemi s2 d x (k_locals (s_cur s0))).
    2:{ rewrite (restc_scope _ _ Rc2). exact Sc1. }
    2:{ rewrite (restc_locals _ _ Rc2). exact KL1. }
    eexists. split; [reflexivity|].
    destruct HP0 as [_ (E1 & E2 & E3 & E4) _ _]. destruct Lp1 as [L1 L2]. destruct M1 as (M1 & M2 & M3 & M4).
    replace (i + 1) with (S i) by lia.
    split.
    + unfold pending. cbn [s_cur k_breaks with_locals]. rewrite (restc_breaks _ _ Rc2). exact S2.
    + split; [cbn [s_outer]; rewrite (rest_outer _ _ R2); exact R1|].
      cbn [s_cur k_locals k_scope with_locals CE.add_local CE.clocals CE.cpending CE.cdepth].
      split; [rewrite Ed; apply lrel_cons; exact E2|]. split; [reflexivity|].
      rewrite (restc_scope _ _ Rc2), Sc1, Ed. reflexivity.
    + split; cbn [s_cur k_loops k_breaks with_locals]; [rewrite (restc_loops _ _ Rc2); exact L1|rewrite (restc_breaks _ _ Rc2); exact L2].
    + unfold misc. cbn [s_cur k_kind k_in_try k_try_depth k_arity k_upvalues k_name with_locals].
      rewrite (restc_kind _ _ Rc2), (restc_in_try _ _ Rc2), (restc_try_depth _ _ Rc2), (restc_arity _ _ Rc2), (restc_upvalues _ _ Rc2), (restc_name _ _ Rc2). auto.
Qed.

Lemma case_svarinit x e lsemi : Ps (LSVarInit x e lsemi).
Proof.
  intros env brk cont s i Q stack Hl Hok Hd Hat HP HL.
  cbn [erase_stmt cstmt lok_s] in *.
  destruct (CE.cdepth env) as [|d] eqn:Ed.
  - (* global *)
    cbn [CE.cstmt CE.slen CE.env_after CE.stmt_ok] in *. rewrite Ed in *.
    pose proof HP as [HS HE HLp HM]. pose proof HE as (E1 & E2 & E3 & E4). rewrite Ed in E4.
    apply at_cons in Hat. destruct Hat as [N0 Hat]. apply at_app in Hat. destruct Hat as [A1 A2].
    apply at_cons in A2. destruct A2 as [N2 _].
    destruct HS as (Hc & Hk & Ha).
    destruct (mkconst_step s i _ (CE.CStr x) N0 eq_refl I Hk) as (g & s1 & X1 & R1 & C1 & K1 & I1).
    rewrite (cbind_ok _ _ _ _ _ (eq_trans (parse_variable_global x lsemi s E4) X1)). cbv beta.
    assert (S1 : St s1 (S i) (Q ++ pending s)).
    { split; [|split; [exact K1|rewrite C1; exact Ha]]. unfold cpos in *. rewrite C1, (off_S _ _ N0). simpl. lia. }
    assert (He1 : envrel s1 env) by (eapply envrel_rest; [exact R1|apply senv_envrel; exact HE]).
    destruct (Pe_all e env Hl Hok s1 (S i) _ A1 S1 He1) as (s2 & X2 & S2 & R2).
    rewrite (cbind_ok _ _ _ _ _ X2). cbv beta.
    assert (E4' : k_scope (s_cur s2) = 0).
    { rewrite (restc_scope _ _ (rest_cur _ _ R2)), (restc_scope _ _ (rest_cur _ _ R1)). exact E4. }
    rewrite (define_variable_global g lsemi s2 E4').
    destruct (global16_step s2 _ _ OpDefineGlobal x g lsemi (S i) N2 ltac:(lia) I1 S2) as (s3 & X3 & S3 & R3).
    exists s3. split; auto.
    eapply Post_rest; [| |exact HP]; [congruence|].
    replace (i + S (S (length (CE.cexpr env (erase_expr e))))) with (S (S i + length (CE.cexpr env (erase_expr e)))) by lia.
    exact S3.
  - (* local *)
    cbn [CE.cstmt CE.slen CE.env_after] in *. rewrite Ed in *.
    destruct (stmt_ok_var_local env x (Some (erase_expr e)) d Ed Hok) as (Hdecl & Hlen & Hoke).
    destruct (declare_local s i Q env stack x lsemi d HP Ed Hdecl Hlen) as (s1 & X1 & O1 & S1 & He1 & KL1 & Sc1 & Lp1 & M1).
    rewrite (cbind_ok _ _ _ _ _ X1). cbv beta.
    destruct (Pe_all e (CE.with_pending env x) Hl Hoke s1 i _ Hat S1 He1) as (s2 & X2 & S2 & R2).
    rewrite (cbind_ok _ _ _ _ _ X2). cbv beta.
    pose proof (rest_cur _ _ R2) as Rc2.
    rewrite (define_variable_local 0%N lsemi s2 d x (k_locals (s_cur s))).
    2:{ rewrite (restc_scope _ _ Rc2). exact Sc1. }
    2:{ rewrite (restc_locals _ _ Rc2). exact KL1. }
    eexists. split; [reflexivity|].
    destruct HP as [_ (E1 & E2 & E3 & E4) _ _]. destruct Lp1 as [L1 L2]. destruct M1 as (M1 & M2 & M3 & M4).
    split.
    + unfold pending. cbn [s_cur k_breaks with_locals]. rewrite (restc_breaks _ _ Rc2). exact S2.
    + split; [cbn [s_outer]; rewrite (rest_outer _ _ R2); exact O1|].
      cbn [s_cur k_locals k_scope with_locals CE.add_local CE.clocals CE.cpending CE.cdepth].
      split; [rewrite Ed; apply lrel_cons; exact E2|]. split; [reflexivity|].
      rewrite (restc_scope _ _ Rc2), Sc1, Ed. reflexivity.
    + split; cbn [s_cur k_loops k_breaks with_locals]; [rewrite (restc_loops _ _ Rc2); exact L1|rewrite (restc_breaks _ _ Rc2); exact L2].
    + unfold misc. cbn [s_cur k_kind k_in_try k_try_depth k_arity k_upvalues k_name with_locals].
      rewrite (restc_kind _ _ Rc2), (restc_in_try _ _ Rc2), (restc_try_depth _ _ Rc2), (restc_arity _ _ Rc2), (restc_upvalues _ _ Rc2), (restc_name _ _ Rc2). auto.
Qed.

(* ---------- statement lists ---------- *)
Lemma case_snil : Pss LSNil.
Proof.
  intros env brk cont s i Q stack _ _ _ _ HP _. exists s. cbn. rewrite Nat.add_0_r. auto.
Qed.

Lemma case_scons st r : Ps st -> Pss r -> Pss (LSCons st r).
Proof.
  intros IHs IHr env brk cont s i Q stack Hl Hok Hd Hat HP HL.
  cbn [lok_ss erase_stmts CE.stmts_ok CE.cstmts CE.slens cstmts] in *.
  apply andb_prop in Hl. destruct Hl as [Hl1 Hl2]. apply andb_prop in Hok. destruct Hok as [Hok1 Hok2].
  apply at_app in Hat. destruct Hat as [A1 A2]. rewrite CP.cstmt_length in A2.
  set (x := erase_stmt st) in *. set (rr := erase_stmts r) in *.
  destruct (IHs env _ cont s i Q stack Hl1 Hok1 Hd A1 HP) as (s1 & X1 & HP1).
  { intros d nl Hc. destruct (HL d nl Hc) as (LS & rst & H1 & H2 & H3). exists LS, rst. split; [|auto].
    rewrite H1. do 3 f_equal. unfold x. lia. }
  rewrite (cbind_ok _ _ _ _ _ X1). cbv beta.
  destruct (IHr (CE.env_after env x) brk _ s1 _ Q stack Hl2 Hok2 (dinv_after _ _ Hd) A2 HP1) as (s2 & X2 & HP2).
  { intros d nl Hc. assert (Hc' : CE.cloop env = Some (d, nl)).
    { destruct x; try exact Hc. cbn [CE.env_after] in Hc. destruct (CE.cdepth env); exact Hc. }
    destruct (HL d nl Hc') as (LS & rst & H1 & H2 & H3). exists LS, rst. split; [|split; [lia|]].
    - rewrite H1. do 3 f_equal. unfold x, rr. lia.
    - rewrite H3. f_equal. unfold x, rr. lia. }
  exists s2. split; auto.
  unfold CP.envs_after. cbn [fold_left]. fold (CP.envs_after (CE.env_after env x) rr).
  rewrite Nat.add_assoc. exact HP2.
Qed.

(* ---------- blocks: begin_scope; statements; end_scope ---------- *)
Lemma block_ok t lend : Pss t ->
  forall env brk cont s i Q stack,
    lok_ss t = true -> CE.stmts_ok (CE.begin_scope env) (erase_stmts t) = true -> dinv env ->
    at_ i (CE.cblock true env brk cont (erase_stmts t)) ->
    Post s i Q env stack ->
    loopcond env stack i cont (off (i + CE.blen env (erase_stmts t) + brk)) ->
    exists s0 s1 s',
      begin_scope s = COk (tt, s0) /\ cstmts t s0 = COk (tt, s1) /\ end_scope lend s1 = COk (tt, s') /\
      Post s' (i + CE.blen env (erase_stmts t)) Q env stack.
Proof.
  intros IH env brk cont s i Q stack Hl Hok Hd Hat HP HL.
  unfold CE.cblock in Hat. apply at_app in Hat. destruct Hat as [A1 A2]. rewrite CP.cstmts_len in A2.
  unfold CE.blen in *.
  set (s0 := mkS (with_scope (s_cur s) (S (k_scope (s_cur s)))) (s_outer s) (s_classes s) (s_line s)).
  pose proof HP as [HS (E1 & E2 & E3 & E4) HLp HM].
  assert (HP0 : Post s0 i Q (CE.begin_scope env) stack).
  { split; [exact HS| |exact HLp|exact HM]. split; [exact E1|]. split; [exact E2|]. split; [exact E3|].
    unfold s0. cbn [s_cur k_scope with_scope CE.begin_scope CE.cdepth]. rewrite E4. reflexivity. }
  destruct (IH (CE.begin_scope env) ((CE.count_decls (erase_stmts t)) + brk) cont s0 i Q stack Hl Hok (dinv_begin _ Hd) A1 HP0) as (s1 & X1 & HP1).
  { intros d nl Hc. destruct (HL d nl Hc) as (LS & rst & H1 & H2 & H3). exists LS, rst. split; [|auto].
    rewrite H1. do 3 f_equal. lia. }
  destruct (envs_after_shape (erase_stmts t) (CE.begin_scope env)) as (nd & B1 & B2 & B3 & B4 & B5 & B6).
  { cbn. congruence. }
  cbn [CE.begin_scope CE.clocals CE.cdepth CE.cloop CE.cpending] in B1, B3, B4, B5, B6.
  pose proof HP1 as [S1 (F1 & F2 & F3 & F4) Lp1 M1].
  rewrite B4 in F4. rewrite B1 in F2.
  assert (Hcnt : CE.count_above (CE.cdepth env) (nd ++ CE.clocals env) = (CE.count_decls (erase_stmts t))).
  { rewrite count_above_decls; auto. }
  assert (Hops : scope_end_ops (pred (k_scope (s_cur s1))) (k_locals (s_cur s1)) = repeat OpPop (CE.count_decls (erase_stmts t))).
  { rewrite F4. cbn [pred]. rewrite (lrel_scope_end _ _ _ F2), Hcnt. reflexivity. }
  set (s1' := mkS (with_scope (s_cur s1) (pred (k_scope (s_cur s1)))) (s_outer s1) (s_classes s1) (s_line s1)).
  assert (S1' : St s1' (i + CE.slens (CE.begin_scope env) (erase_stmts t)) (Q ++ pending s1)) by exact S1.
  assert (He1' : envrel s1' (CP.envs_after (CE.begin_scope env) (erase_stmts t))) by exact (senv_envrel _ _ (po_env _ _ _ _ _ HP1)).
  rewrite <- map_repeat_pop in A2.
  destruct (emits_ops (CP.envs_after (CE.begin_scope env) (erase_stmts t)) (repeat OpPop (CE.count_decls (erase_stmts t))) lend s1' _ _ A2 S1' He1') as (s2 & X2 & S2 & R2).
  rewrite map_length, repeat_length in S2.
  pose proof (rest_cur _ _ R2) as Rc2.
  exists s0, s1. eexists. split; [reflexivity|]. split; [exact X1|]. split.
  { rewrite end_scope_eq. cbv zeta. rewrite Hops. fold s1'. rewrite (cbind_ok _ _ _ _ _ X2). cbv beta. rewrite upd_eq. reflexivity. }
  rewrite repeat_length.
  destruct Lp1 as [L1 L2]. destruct M1 as (M1 & M2 & M3 & M4).
  split.
  - unfold pending. cbn [s_cur k_breaks with_locals]. rewrite (restc_breaks _ _ Rc2). cbn [s1' s_cur k_breaks with_scope].
    rewrite Nat.add_assoc. exact S2.
  - split; [cbn [s_outer]; rewrite (rest_outer _ _ R2); exact F1|].
    cbn [s_cur k_locals k_scope with_locals].
    split; [|split; [exact E3|]].
    + rewrite (restc_locals _ _ Rc2). cbn [s1' s_cur k_locals with_scope]. rewrite <- B2.
      apply lrel_skipn; [exact F2|]. eapply lrel_nonempty; exact E2.
    + rewrite (restc_scope _ _ Rc2). cbn [s1' s_cur k_scope with_scope]. rewrite F4. reflexivity.
  - split; cbn [s_cur k_loops k_breaks with_locals].
    + rewrite (restc_loops _ _ Rc2). exact L1.
    + rewrite (restc_breaks _ _ Rc2). exact L2.
  - unfold misc. cbn [s_cur k_kind k_in_try k_try_depth k_arity k_upvalues k_name with_locals].
    rewrite (restc_kind _ _ Rc2), (restc_in_try _ _ Rc2), (restc_try_depth _ _ Rc2), (restc_arity _ _ Rc2), (restc_upvalues _ _ Rc2), (restc_name _ _ Rc2). auto.
Qed.

Lemma case_block b lend : Pss b -> Ps (LSBlock b lend).
Proof.
  intros IH env brk cont s i Q stack Hl Hok Hd Hat HP HL.
  cbn [lok_s erase_stmt cstmt CE.env_after] in *. rewrite CP.cstmt_block in Hat. rewrite CP.slen_block in *.
  rewrite CP.stmt_ok_block in Hok.
  destruct (block_ok b lend IH env brk cont s i Q stack Hl Hok Hd Hat HP HL) as (s0 & s1 & s' & X0 & X1 & X2 & HP').
  exists s'. rewrite (cbind_ok _ _ _ _ _ X0). cbv beta. rewrite (cbind_ok _ _ _ _ _ X1). cbv beta. auto.
Qed.

(* ---------- if / else ---------- *)
Definition if_prefix (c : lexpr) (lcond : N) (t : lstmts) (lthen : N) (rest : nat -> C unit) : C unit :=
  cexpr c ;;;
  then_jump <- emit_jump OpJumpIfFalse lcond ;;
  emit_op OpPop lcond ;;;
  begin_scope ;;; cstmts t ;;; end_scope lthen ;;;
  else_jump <- emit_jump OpJump lthen ;;
  patch_jump then_jump ;;;
  emit_op OpPop lthen ;;;
  rest else_jump.

Lemma if_core c lcond t lthen el tail : Pss t ->
  forall env brk cont s i Q stack,
    lok_e c = true -> lok_ss t = true ->
    CE.expr_ok env (erase_expr c) = true -> CE.stmts_ok (CE.begin_scope env) (erase_stmts t) = true -> dinv env ->
    at_ i (CE.cexpr env (erase_expr c) ++ CE.IJump OpJumpIfFalse (CE.blen env (erase_stmts t) + 2) :: CE.IOp OpPop ::
           CE.cblock true env (2 + el + brk) (cont + length (CE.cexpr env (erase_expr c)) + 2) (erase_stmts t) ++
           CE.IJump OpJump (S el) :: CE.IOp OpPop :: tail) ->
    Post s i Q env stack ->
    loopcond env stack i cont
      (off (i + (length (CE.cexpr env (erase_expr c)) + 2 + CE.blen env (erase_stmts t) + 2 + el) + brk)) ->
    exists s7 p2,
      (forall rest, if_prefix c lcond t lthen rest s = rest p2 s7) /\
      Post s7 (i + (length (CE.cexpr env (erase_expr c)) + 2 + CE.blen env (erase_stmts t) + 2)) (p2 :: Q) env stack /\
      good X (off (i + (length (CE.cexpr env (erase_expr c)) + 2 + CE.blen env (erase_stmts t) + 2) + el)) p2 /\
      at_ (i + (length (CE.cexpr env (erase_expr c)) + 2 + CE.blen env (erase_stmts t) + 2)) tail.
Proof.
  intros IH env brk cont s i Q stack Lc Lt Oc Ot Hd Hat HP HL.
  set (cc := CE.cexpr env (erase_expr c)) in *. set (tl := CE.blen env (erase_stmts t)) in *.
  apply at_app in Hat. destruct Hat as [A1 A2].
  apply at_cons in A2. destruct A2 as [Nj A2]. apply at_cons in A2. destruct A2 as [Np A2].
  apply at_app in A2. destruct A2 as [A3 A4]. rewrite CP.cblock_len in A4. fold tl in A4.
  apply at_cons in A4. destruct A4 as [Nk A4]. apply at_cons in A4. destruct A4 as [Np2 A5].
  (* condition *)
  destruct (lift_emits env (cexpr c) cc s i Q stack (Pe_all c env Lc Oc) A1 HP) as (s1 & X1 & HP1).
  set (j := i + length cc) in *.
  (* then_jump *)
  destruct (jump_step s1 j _ _ _ lcond Nj (po_st _ _ _ _ _ HP1)) as (s2 & p1 & X2 & S2 & R2 & G1).
  assert (HP2 : Post s2 (S j) (p1 :: Q) env stack) by (eapply Post_rest; [exact R2|exact S2|exact HP1]).
  destruct (lift_emits env (emit_op OpPop lcond) [CE.IOp OpPop] s2 (S j) (p1 :: Q) stack (emits_op env OpPop lcond) (at_one _ _ Np) HP2)
    as (s3 & X3 & HP3).
  simpl length in HP3. replace (S j + 1) with (S (S j)) in HP3 by lia.
  (* the then block *)
  destruct (block_ok t lthen IH env (2 + el + brk) (cont + length cc + 2) s3 (S (S j)) (p1 :: Q) stack Lt Ot Hd A3 HP3)
    as (s4 & s5 & s6 & X4 & X5 & X6 & HP6).
  { intros d nl Hc. destruct (HL d nl Hc) as (LS & rst & H1 & H2 & H3). exists LS, rst. split; [|split; [unfold j; lia|]].
    - rewrite H1. do 3 f_equal. unfold j, tl. lia.
    - rewrite H3. f_equal. unfold j. lia. }
  fold tl in HP6. set (k := S (S j) + tl) in *.
  (* else_jump *)
  destruct (jump_step s6 k _ _ _ lthen Nk (po_st _ _ _ _ _ HP6)) as (s7 & p2 & X7 & S7 & R7 & G2).
  assert (HP7 : Post s7 (S k) (p2 :: p1 :: Q) env stack) by (eapply Post_rest; [exact R7|exact S7|exact HP6]).
  (* patch then_jump *)
  replace (S j + (tl + 2)) with (S k) in G1 by (unfold k; lia).
  destruct (patch_step s7 (S k) _ ((p2 :: Q) ++ pending s7) p1 (po_st _ _ _ _ _ HP7) G1) as (s8 & X8 & S8 & R8).
  { intros q [->|[->|Hq]]; simpl; auto. }
  assert (HP8 : Post s8 (S k) (p2 :: Q) env stack) by (eapply Post_rest; [exact R8|exact S8|exact HP7]).
  destruct (lift_emits env (emit_op OpPop lthen) [CE.IOp OpPop] s8 (S k) (p2 :: Q) stack (emits_op env OpPop lthen) (at_one _ _ Np2) HP8)
    as (s9 & X9 & HP9).
  simpl length in HP9.
  assert (Hidx : i + (length cc + 2 + tl + 2) = S k + 1) by (unfold k, j; lia).
  exists s9, p2. split; [|split; [|split]].
  - intros rest. unfold if_prefix.
    rewrite (cbind_ok _ _ _ _ _ X1). cbv beta. rewrite (cbind_ok _ _ _ _ _ X2). cbv beta.
    rewrite (cbind_ok _ _ _ _ _ X3). cbv beta. rewrite (cbind_ok _ _ _ _ _ X4). cbv beta.
    rewrite (cbind_ok _ _ _ _ _ X5). cbv beta. rewrite (cbind_ok _ _ _ _ _ X6). cbv beta.
    rewrite (cbind_ok _ _ _ _ _ X7). cbv beta. rewrite (cbind_ok _ _ _ _ _ X8). cbv beta.
    rewrite (cbind_ok _ _ _ _ _ X9). reflexivity.
  - rewrite Hidx. exact HP9.
  - rewrite Hidx. replace (S k + 1 + el) with (S k + S el) by lia. exact G2.
  - rewrite Hidx. replace (S k + 1) with (S (S k)) by lia. exact A5.
Qed.

Lemma case_if c lcond t lthen : Pss t -> Ps (LSIf c lcond t lthen).
Proof.
  intros IH env brk cont s i Q stack Hl Hok Hd Hat HP HL.
  cbn [lok_s erase_stmt CE.env_after] in *. rewrite CP.cstmt_if in Hat. rewrite CP.slen_if in *. rewrite CP.stmt_ok_if in Hok.
  apply andb_prop in Hl. destruct Hl as [Lc Lt]. apply andb_prop in Hok. destruct Hok as [Hok _].
  apply andb_prop in Hok. destruct Hok as [Oc Ot].
  destruct (if_core c lcond t lthen 0 [] IH env brk cont s i Q stack Lc Lt Oc Ot Hd Hat HP HL) as (s7 & p2 & X & HP7 & G & _).
  change (cstmt (LSIf c lcond t lthen)) with (if_prefix c lcond t lthen (fun p => patch_jump p)). rewrite X.
  rewrite !Nat.add_0_r in *.
  destruct (patch_step s7 _ _ (Q ++ pending s7) p2 (po_st _ _ _ _ _ HP7) G) as (s8 & X8 & S8 & R8).
  { intros q Hq. simpl in Hq. destruct Hq as [->|Hq]; auto. }
  exists s8. split; auto. eapply Post_rest; [exact R8|exact S8|exact HP7].
Qed.

Lemma stmt_ok_else env s' :
  match s' with SBlock _ _ | SIf _ _ _ _ => CE.stmt_ok env s' | _ => false end = true -> CE.stmt_ok env s' = true.
Proof. destruct s'; auto; discriminate. Qed.
Lemma stmt_else_env env s' :
  match s' with SBlock _ _ | SIf _ _ _ _ => CE.stmt_ok env s' | _ => false end = true -> CE.env_after env s' = env.
Proof. destruct s'; try discriminate; reflexivity. Qed.

Lemma case_ifelse c lcond t lthen e : Pss t -> Ps e -> Ps (LSIfElse c lcond t lthen e).
Proof.
  intros IH IHe env brk cont s i Q stack Hl Hok Hd Hat HP HL.
  cbn [lok_s erase_stmt CE.env_after] in *. rewrite CP.cstmt_if in Hat. rewrite CP.slen_if in *. rewrite CP.stmt_ok_if in Hok.
  apply andb_prop in Hl. destruct Hl as [Hl Le]. apply andb_prop in Hl. destruct Hl as [Lc Lt].
  apply andb_prop in Hok. destruct Hok as [Hok Oe]. pose proof (stmt_else_env _ _ Oe) as Hea. apply stmt_ok_else in Oe.
  apply andb_prop in Hok. destruct Hok as [Oc Ot].
  destruct (if_core c lcond t lthen (CE.slen env (erase_stmt e)) _ IH env brk cont s i Q stack Lc Lt Oc Ot Hd Hat HP HL)
    as (s7 & p2 & X & HP7 & G & A5).
  change (cstmt (LSIfElse c lcond t lthen e)) with (if_prefix c lcond t lthen (fun p => cstmt e ;;; patch_jump p)). rewrite X.
  set (m := i + (length (CE.cexpr env (erase_expr c)) + 2 + CE.blen env (erase_stmts t) + 2)) in *.
  destruct (IHe env brk _ s7 m (p2 :: Q) stack Le Oe Hd A5 HP7) as (s8 & X8 & HP8).
  { intros d nl Hc. destruct (HL d nl Hc) as (LS & rst & H1 & H2 & H3). exists LS, rst. split; [|split; [unfold m; lia|]].
    - rewrite H1. do 3 f_equal. unfold m. lia.
    - rewrite H3. f_equal. unfold m. lia. }
  rewrite (cbind_ok _ _ _ _ _ X8). cbv beta.
  rewrite Hea in HP8.
  replace (m + CE.slen env (erase_stmt e)) with (m + CE.slen env (erase_stmt e) + 0) in HP8 by lia.
  destruct (patch_step s8 _ _ (Q ++ pending s8) p2 (po_st _ _ _ _ _ HP8)) as (s9 & X9 & S9 & R9).
  { rewrite Nat.add_0_r. exact G. }
  { intros q Hq. simpl in Hq. destruct Hq as [->|Hq]; auto. }
  exists s9. split; auto.
  replace (i + (length (CE.cexpr env (erase_expr c)) + 2 + CE.blen env (erase_stmts t) + 2 + CE.slen env (erase_stmt e)))
    with (m + CE.slen env (erase_stmt e) + 0) by (unfold m; lia).
  eapply Post_rest; [exact R9|exact S9|exact HP8].
Qed.

(* ---------- while ---------- *)
Lemma Post_push_loop s i Q env stack : Post s i Q env stack -> Post s i Q (CE.push_loop env) stack.
Proof. intros [H1 H2 H3 H4]. split; assumption. Qed.
Lemma Post_unpush_loop s i Q env stack : Post s i Q (CE.push_loop env) stack -> Post s i Q env stack.
Proof. intros [H1 H2 H3 H4]. split; assumption. Qed.

Lemma case_while c lcond b lend : Pss b -> Ps (LSWhile c lcond b lend).
Proof.
  intros IH env brk cont s i Q stack Hl Hok Hd Hat HP HL.
  cbn [lok_s erase_stmt CE.env_after cstmt] in *. rewrite CP.cstmt_while in Hat. rewrite CP.slen_while in *.
  rewrite CP.stmt_ok_while in Hok.
  apply andb_prop in Hl. destruct Hl as [Lc Lb]. apply andb_prop in Hok. destruct Hok as [Oc Ob].
  set (cc := CE.cexpr env (erase_expr c)) in *. set (bl := CE.blen (CE.push_loop env) (erase_stmts b)) in *.
  apply at_app in Hat. destruct Hat as [A1 A2].
  apply at_cons in A2. destruct A2 as [Nj A2]. apply at_cons in A2. destruct A2 as [Np A2].
  apply at_app in A2. destruct A2 as [A3 A4]. rewrite CP.cblock_len in A4. fold bl in A4.
  apply at_cons in A4. destruct A4 as [Nl A4]. apply at_cons in A4. destruct A4 as [Np2 _].
  set (j := i + length cc) in *. set (k := S (S j) + bl) in *.
  set (Ew := off (S (S k))).
  pose proof HP as [HS (E1 & E2 & E3 & E4) [L1 L2] (M1 & M2 & M3 & M4)].
  pose proof HS as (Hc & Hk & Ha). unfold cpos, scode in Hc.
  (* push_loop; code_len *)
  set (s0 := mkS (with_loops (s_cur s) ((length (k_code (s_cur s)), k_scope (s_cur s), k_try_depth (s_cur s)) :: k_loops (s_cur s))
                             ([] :: k_breaks (s_cur s))) (s_outer s) (s_classes s) (s_line s)).
  assert (X0 : push_loop s = COk (tt, s0)) by reflexivity.
  assert (X0' : code_len s0 = COk (off i, s0)) by (unfold code_len, s0; cbn [s_cur k_code with_loops]; rewrite Hc; reflexivity).
  set (stack' := (off i, CE.cdepth env, Ew) :: stack).
  assert (HP0 : Post s0 i Q env stack').
  { split; [exact HS|split; [exact E1|split; [exact E2|split; [exact E3|exact E4]]]| |split; [exact M1|split; [exact M2|split; [exact M3|exact M4]]]].
    split; unfold s0, stack'; cbn [s_cur k_loops k_breaks with_loops map fst snd].
    - rewrite Hc, E4, M3, L1. reflexivity.
    - constructor; [constructor|exact L2]. }
  rewrite (cbind_ok _ _ _ _ _ X0). cbv beta. rewrite (cbind_ok _ _ _ _ _ X0'). cbv beta.
  (* condition, exit_jump, Pop *)
  destruct (lift_emits env (cexpr c) cc s0 i Q stack' (Pe_all c env Lc Oc) A1 HP0) as (s1 & X1 & HP1).
  rewrite (cbind_ok _ _ _ _ _ X1). cbv beta. fold j in HP1.
  destruct (jump_step s1 j _ _ _ lcond Nj (po_st _ _ _ _ _ HP1)) as (s2 & p1 & X2 & S2 & R2 & G1).
  rewrite (cbind_ok _ _ _ _ _ X2). cbv beta.
  assert (HP2 : Post s2 (S j) (p1 :: Q) env stack') by (eapply Post_rest; [exact R2|exact S2|exact HP1]).
  destruct (lift_emits env (emit_op OpPop lcond) [CE.IOp OpPop] s2 (S j) (p1 :: Q) stack' (emits_op env OpPop lcond) (at_one _ _ Np) HP2)
    as (s3 & X3 & HP3).
  rewrite (cbind_ok _ _ _ _ _ X3). cbv beta.
  simpl length in HP3. replace (S j + 1) with (S (S j)) in HP3 by lia.
  (* body *)
  destruct (block_ok b lend IH (CE.push_loop env) 2 (length cc + 2) s3 (S (S j)) (p1 :: Q) stack' Lb Ob (dinv_loop _ Hd) A3
              (Post_push_loop _ _ _ _ _ HP3)) as (s4 & s5 & s6 & X4 & X5 & X6 & HP6).
  { intros d nl Hcl. cbn [CE.push_loop CE.cloop] in Hcl. inversion Hcl; subst d nl. exists (off i), stack.
    split; [|split; [unfold j; lia|]].
    - unfold stack', Ew. do 3 f_equal. fold bl. unfold k. lia.
    - f_equal. unfold j. lia. }
  rewrite (cbind_ok _ _ _ _ _ X4). cbv beta. rewrite (cbind_ok _ _ _ _ _ X5). cbv beta.
  rewrite (cbind_ok _ _ _ _ _ X6). cbv beta. fold bl in HP6. fold k in HP6.
  (* Loop *)
  assert (Hki : S k - (length cc + 2 + bl + 1) = i) by (unfold k, j; lia).
  destruct (loop_step s6 k _ _ lend Nl ltac:(unfold k, j; lia) (po_st _ _ _ _ _ HP6)) as (s7 & X7 & S7 & R7).
  rewrite Hki in X7. rewrite (cbind_ok _ _ _ _ _ X7). cbv beta.
  assert (HP7 : Post s7 (S k) (p1 :: Q) (CE.push_loop env) stack') by (eapply Post_rest; [exact R7|exact S7|exact HP6]).
  (* patch exit_jump *)
  replace (S j + (bl + 2)) with (S k) in G1 by (unfold k; lia).
  destruct (patch_step s7 (S k) _ (Q ++ pending s7) p1 (po_st _ _ _ _ _ HP7) G1) as (s8 & X8 & S8 & R8).
  { intros q Hq. simpl in Hq. destruct Hq as [->|Hq]; auto. }
  rewrite (cbind_ok _ _ _ _ _ X8). cbv beta.
  assert (HP8 : Post s8 (S k) Q env stack') by (apply Post_unpush_loop; eapply Post_rest; [exact R8|exact S8|exact HP7]).
  destruct (lift_emits env (emit_op OpPop lend) [CE.IOp OpPop] s8 (S k) Q stack' (emits_op env OpPop lend) (at_one _ _ Np2) HP8)
    as (s9 & X9 & HP9).
  rewrite (cbind_ok _ _ _ _ _ X9). cbv beta.
  simpl length in HP9. replace (S k + 1) with (S (S k)) in HP9 by lia.
  (* pop_loop *)
  destruct HP9 as [S9 (F1 & F2 & F3 & F4) [K1 K2] (N1 & N2 & N3 & N4)].
  unfold stack' in K1, K2. cbn [map fst snd] in K1.
  inversion K2 as [|bnew t0 brest st0 Hnew Hrest Eb Es]. subst t0 st0. cbn [snd] in Hnew.
  unfold pop_loop, cbind at 1, cur. rewrite <- Eb. rewrite (cbind_ok _ _ _ _ _ (upd_eq _ _)). cbv beta.
  set (s9' := mkS (with_loops (s_cur s9) (tl (k_loops (s_cur s9))) (tl (k_breaks (s_cur s9)))) (s_outer s9) (s_classes s9) (s_line s9)).
  assert (S9' : St s9' (S (S k)) (Q ++ bnew ++ concat brest)).
  { unfold pending in S9. rewrite <- Eb in S9. exact S9. }
  destruct (patch_jumps_step (S (S k)) (Q ++ concat brest) (rev bnew) s9' _ (Forall_rev Hnew) S9') as (s10 & X10 & S10 & R10).
  { intros q Hq. apply in_app_or in Hq. destruct Hq as [Hq|Hq]; [right; apply in_or_app; auto|].
    apply in_app_or in Hq. destruct Hq as [Hq|Hq]; [left; apply in_rev in Hq; exact Hq|right; apply in_or_app; auto]. }
  exists s10. split; [exact X10|].
  pose proof (rest_cur _ _ R10) as Rc.
  replace (i + (length cc + 2 + bl + 2)) with (S (S k)) by (unfold k, j; lia).
  split.
  - unfold pending. rewrite (restc_breaks _ _ Rc). unfold s9'. cbn [s_cur k_breaks with_loops]. rewrite <- Eb. cbn [tl]. exact S10.
  - split; [rewrite (rest_outer _ _ R10); exact F1|].
    rewrite (restc_locals _ _ Rc), (restc_scope _ _ Rc). auto.
  - split.
    + rewrite (restc_loops _ _ Rc). unfold s9'. cbn [s_cur k_loops with_loops]. rewrite K1. reflexivity.
    + rewrite (restc_breaks _ _ Rc). unfold s9'. cbn [s_cur k_breaks with_loops]. rewrite <- Eb. exact Hrest.
  - unfold misc. rewrite (restc_kind _ _ Rc), (restc_in_try _ _ Rc), (restc_try_depth _ _ Rc), (restc_arity _ _ Rc), (restc_upvalues _ _ Rc), (restc_name _ _ Rc). auto.
Qed.

(* ---------- break / continue ---------- *)
Lemma case_break l : Ps (LSBreak l).
Proof.
  intros env brk cont s i Q stack Hl Hok Hd Hat HP HL.
  cbn [erase_stmt CE.stmt_ok CE.cstmt CE.slen CE.env_after cstmt] in *.
  destruct (CE.cloop env) as [[d nl]|] eqn:Ecl; [|discriminate].
  destruct (HL d nl Ecl) as (LS & rst & Est & Hci & HLS).
  pose proof HP as [HS (E1 & E2 & E3 & E4) [L1 L2] (M1 & M2 & M3 & M4)].
  rewrite Est in L1, L2. cbn [map fst snd] in L1.
  inversion L2 as [|b0 t0 brest st0 Hb0 Hrest Eb Es]. subst t0 st0. cbn [snd] in Hb0.
  unfold cbind at 1, cur. rewrite L1.
  rewrite (cbind_ok _ _ _ _ _ (emit_exc_handler_pops_none 0 l s M3)). cbv beta.
  assert (Hops : scope_end_ops d (k_locals (s_cur s)) = repeat OpPop (CE.loop_pops env)).
  { rewrite (lrel_scope_end _ _ d E2). unfold CE.loop_pops. rewrite Ecl. reflexivity. }
  set (n := CE.loop_pops env) in *.
  apply at_app in Hat. destruct Hat as [A1 A2]. rewrite CP.pops_length in A2. fold n in A2.
  apply at_cons in A2. destruct A2 as [Nj _].
  rewrite <- map_repeat_pop in A1.
  destruct (lift_emits env (emit_ops (repeat OpPop n) l) _ s i Q stack (emits_ops env _ l) A1 HP) as (s1 & X1 & HP1).
  rewrite map_length, repeat_length in HP1.
  rewrite <- Hops in X1. rewrite (cbind_ok _ _ _ _ _ (emit_scope_end_keep _ _ _ _ X1)). cbv beta.
  destruct (jump_step s1 (i + n) _ _ _ l Nj (po_st _ _ _ _ _ HP1)) as (s2 & p & X2 & S2 & R2 & G).
  rewrite (cbind_ok _ _ _ _ _ X2). cbv beta.
  pose proof (rest_cur _ _ R2) as Rc2.
  destruct HP1 as [_ (F1 & F2 & F3 & F4) [K1 K2] (N1 & N2 & N3 & N4)].
  rewrite Est in K1, K2. inversion K2 as [|b1 t1 brest1 st1 Hb1 Hrest1 Eb1 Es1]. subst t1 st1. cbn [snd] in Hb1.
  unfold push_break. rewrite upd_eq. rewrite (restc_breaks _ _ Rc2), <- Eb1.
  eexists. split; [reflexivity|].
  replace (i + S n) with (S (i + n)) by lia.
  assert (HG : good X (off (i + S n + brk)) p).
  { replace (i + S n + brk) with (S (i + n) + brk) by lia. exact G. }
  split.
  - unfold pending. cbn [s_cur k_breaks with_loops concat].
    destruct S2 as (C2 & KK2 & A2'). split; [exact C2|]. split; [exact KK2|].
    eapply agree_weaken; [exact A2'|]. unfold pending. rewrite <- Eb1. cbn [concat].
    intros q Hq. simpl in Hq. destruct Hq as [->|Hq].
    + apply in_or_app. right. left. reflexivity.
    + apply in_app_or in Hq. destruct Hq as [Hq|Hq]; apply in_or_app; [left; exact Hq|right; right; exact Hq].
  - split; [cbn [s_outer]; rewrite (rest_outer _ _ R2); exact F1|].
    cbn [s_cur k_locals k_scope with_loops]. rewrite (restc_locals _ _ Rc2), (restc_scope _ _ Rc2). auto.
  - split; cbn [s_cur k_loops k_breaks with_loops].
    + rewrite (restc_loops _ _ Rc2), Est. exact K1.
    + rewrite Est. constructor; [|exact Hrest1]. cbn [snd]. constructor; [exact HG|exact Hb1].
  - unfold misc. cbn [s_cur k_kind k_in_try k_try_depth k_arity k_upvalues k_name with_loops].
    rewrite (restc_kind _ _ Rc2), (restc_in_try _ _ Rc2), (restc_try_depth _ _ Rc2), (restc_arity _ _ Rc2), (restc_upvalues _ _ Rc2), (restc_name _ _ Rc2). auto.
Qed.

Lemma case_continue l : Ps (LSContinue l).
Proof.
  intros env brk cont s i Q stack Hl Hok Hd Hat HP HL.
  cbn [erase_stmt CE.stmt_ok CE.cstmt CE.slen CE.env_after cstmt] in *.
  destruct (CE.cloop env) as [[d nl]|] eqn:Ecl; [|discriminate].
  destruct (HL d nl Ecl) as (LS & rst & Est & Hci & HLS).
  pose proof HP as [HS (E1 & E2 & E3 & E4) [L1 L2] (M1 & M2 & M3 & M4)].
  rewrite Est in L1. cbn [map fst snd] in L1.
  unfold cbind at 1, cur. rewrite L1.
  rewrite (cbind_ok _ _ _ _ _ (emit_exc_handler_pops_none 0 l s M3)). cbv beta.
  assert (Hops : scope_end_ops d (k_locals (s_cur s)) = repeat OpPop (CE.loop_pops env)).
  { rewrite (lrel_scope_end _ _ d E2). unfold CE.loop_pops. rewrite Ecl. reflexivity. }
  set (n := CE.loop_pops env) in *.
  apply at_app in Hat. destruct Hat as [A1 A2]. rewrite CP.pops_length in A2. fold n in A2.
  apply at_cons in A2. destruct A2 as [Nj _].
  rewrite <- map_repeat_pop in A1.
  destruct (lift_emits env (emit_ops (repeat OpPop n) l) _ s i Q stack (emits_ops env _ l) A1 HP) as (s1 & X1 & HP1).
  rewrite map_length, repeat_length in HP1.
  rewrite <- Hops in X1. rewrite (cbind_ok _ _ _ _ _ (emit_scope_end_keep _ _ _ _ X1)). cbv beta.
  assert (Hki : S (i + n) - (cont + n + 1) = i - cont) by lia.
  destruct (loop_step s1 (i + n) _ _ l Nj ltac:(lia) (po_st _ _ _ _ _ HP1)) as (s2 & X2 & S2 & R2).
  rewrite Hki, <- HLS in X2.
  exists s2. split; [exact X2|].
  replace (i + S n) with (S (i + n)) by lia.
  eapply Post_rest; [exact R2|exact S2|exact HP1].
Qed.

(* ---------- all statements of the fragment ---------- *)
Theorem cstmt_bridge : (forall st, Ps st) /\ (forall ss, Pss ss).
Proof.
  assert (H : (forall e : lexpr, True) /\ (forall es : lexprs, True) /\ (forall ps : lparts, True) /\
              (forall k : lkvs, True) /\ (forall st, Ps st) /\ (forall ss, Pss ss) /\ (forall m : lmethods, True)).
  { apply lsyntax_mutind; try (intros; exact I);
      try (intros; intros env brk cont s i Q stack Hl Hok; simpl in Hl; discriminate).
    - intros. apply case_sexpr.
    - intros. apply case_svar.
    - intros. apply case_svarinit.
    - intros. apply case_block; auto.
    - intros. apply case_if; auto.
    - intros. apply case_ifelse; auto.
    - intros. apply case_while; auto.
    - intros. apply case_break.
    - intros. apply case_continue.
    - apply case_snil.
    - intros. apply case_scons; auto. }
  tauto.
Qed.

End Bridge.

(* ================================================================== *)
(* the whole script                                                     *)

Lemma emit_return_script l s s2 s3 :
  k_kind (s_cur s) = KScript -> k_in_try (s_cur s) = false ->
  emit_op OpNil l s = COk (tt, s2) -> emit_op OpReturn l s2 = COk (tt, s3) ->
  emit_return l s = COk (tt, s3).
Proof.
  intros H1 H2 X2 X3. unfold emit_return. unfold cbind at 1. unfold cur. rewrite H1, H2. cbn [fk_eqb cwhen].
  rewrite (cbind_ok _ _ _ _ _ X2). cbv beta. unfold cbind at 1, cret. exact X3.
Qed.

Definition prog_code (lp : lprogram) : list CE.instr := CE.cprogram true (erase_stmts (fst lp)).

(* ITEM 1 of the brief: for EVERY script of the C05 statement fragment, FullCompile's script function is the assembly
   of what the fragment compiler emits: same code bytes, same constant table.
   Side conditions: [lok_ss] (variable names are non-empty and not the keyword `self`, number literals are not NaN /
   negative - true of every parser output), [program_ok] (the fragment, and no compile error), [fits] (code < 64 KiB,
   <= 65536 constants: otherwise FullCompile - like compiler.rs - reports an error). *)
Theorem full_compile_stmt_bridge lp :
  lok_ss (fst lp) = true -> CE.program_ok (erase_stmts (fst lp)) = true -> CE.fits (prog_code lp) = true ->
  exists f, compile_program lp = COk f /\
            f_code f = CE.assemble (prog_code lp) /\
            f_consts f = map conv (CE.const_table (prog_code lp)) /\
            f_arity f = 1%N /\ f_upvalues f = 0%N /\ f_name f = [].
Proof.
  intros Hl Hok Hfits. set (all := prog_code lp) in *.
  destruct (cstmt_bridge all Hfits) as [_ HSS].
  set (p := erase_stmts (fst lp)) in *.
  assert (Hall : all = CE.cstmts true CE.cenv0 0 0 p ++ [CE.IOp OpNil; CE.IOp OpReturn]) by reflexivity.
  destruct (HSS (fst lp) CE.cenv0 0 0 init_state 0 [] [] Hl Hok) as (s1 & X1 & HP1).
  { repeat constructor. }
  { exists [CE.IOp OpNil; CE.IOp OpReturn]. exact Hall. }
  { split.
    - split; [reflexivity|]. split; [split; [reflexivity|constructor]|apply agree_nil].
    - split; [reflexivity|]. split; [apply lrel_base|]. split; reflexivity.
    - split; [reflexivity|constructor].
    - repeat split. }
  { intros d nl Hc. discriminate. }
  fold p in HP1. cbn [Nat.add] in HP1. rewrite <- (CP.cstmts_len true CE.cenv0 0 0 p) in HP1.
  set (n := length (CE.cstmts true CE.cenv0 0 0 p)) in *.
  destruct HP1 as [S1 (F1 & F2 & F3 & F4) [K1 K2] (M1 & M2 & M3 & M4)].
  cbn [map] in K1. inversion K2 as [Eb|]. unfold pending in S1. rewrite <- Eb in S1. cbn [concat app] in S1.
  assert (N1 : nth_error all n = Some (CE.IOp OpNil)).
  { rewrite Hall. unfold n. rewrite nth_error_app2 by lia. rewrite Nat.sub_diag. reflexivity. }
  assert (N2 : nth_error all (S n) = Some (CE.IOp OpReturn)).
  { rewrite Hall. unfold n. rewrite nth_error_app2 by lia. replace (S _ - _) with 1 by lia. reflexivity. }
  destruct (op_step all s1 n [] OpNil (snd lp) N1 S1) as (s2 & X2 & S2 & R2).
  destruct (op_step all s2 (S n) [] OpReturn (snd lp) N2 S2) as (s3 & X3 & S3 & R3).
  pose proof (emit_return_script (snd lp) s1 s2 s3 M1 M2 X2 X3) as X4.
  assert (O3 : s_outer s3 = []).
  { rewrite (rest_outer _ _ R3), (rest_outer _ _ R2). exact F1. }
  unfold compile_program. rewrite (cbind_ok _ _ _ _ _ X1). cbv beta.
  unfold finalise_compiler. rewrite (cbind_ok _ _ _ _ _ X4). cbv beta. rewrite O3.
  eexists. split; [reflexivity|].
  assert (Hlen : S (S n) = length all) by (rewrite Hall, app_length; simpl; unfold n; lia).
  destruct S3 as (C3 & [KK3 _] & A3). unfold cpos in C3.
  pose proof (eq_trans (rest_cur _ _ R3) (rest_cur _ _ R2)) as Rc. destruct M4 as (I1 & I2 & I3).
  cbn [func_of_comp f_code f_consts f_arity f_upvalues f_name]. split; [|split; [|split; [|split]]].
  - apply agree_done; [exact A3|]. rewrite X_length. unfold scode in C3. rewrite C3. unfold off. rewrite Hlen, firstn_all. reflexivity.
  - rewrite KK3. unfold tblat. rewrite Hlen, firstn_all. reflexivity.
  - rewrite (restc_arity _ _ Rc). exact I1.
  - rewrite (restc_upvalues _ _ Rc), I2. reflexivity.
  - rewrite (restc_name _ _ Rc). exact I3.
Qed.
Print Assumptions full_compile_stmt_bridge.

(* ---------- corollary: the C05 correctness theorem about FullCompile's output ---------- *)
From YV Require ExprSem FragVM.

(* the function [f] FullCompile built IS the assembly of the symbolic fragment code [c] (the fragment VM, FragVM.v,
   executes symbolic instructions; [CE.assemble] / [CE.const_table] are the representation map to bytes) *)
Definition asm_of (f : func) (c : list CE.instr) : Prop :=
  f_code f = CE.assemble c /\ f_consts f = map conv (CE.const_table c).

(* `C05_compile_program_correct` (= `C05_compile_stmt_correct` applied to the whole script) restated: the code that
   runs on the fragment VM is the code whose assembly FullCompile outputs - for every script of the fragment *)
Theorem full_compile_stmt_correct : forall fuel lp s' o,
  lok_ss (fst lp) = true -> CE.program_ok (erase_stmts (fst lp)) = true -> CE.fits (prog_code lp) = true ->
  ExprSem.run_program fuel (erase_stmts (fst lp)) = (s', o) ->
  exists f, compile_program lp = COk f /\ asm_of f (prog_code lp) /\
    match o with
    | ExprSem.ONormal =>
      exists k stk, FragVM.run_vm k (prog_code lp) FragVM.vstate0
                    = FragVM.VDone (FragVM.mkVS (S (length (CE.cstmts true CE.cenv0 0 0 (erase_stmts (fst lp))))) stk (ExprSem.wd s'))
    | ExprSem.OErr e => exists k, FragVM.run_vm k (prog_code lp) FragVM.vstate0 = FragVM.VErr e (ExprSem.wd s')
    | ExprSem.OBreak | ExprSem.OContinue => False
    | ExprSem.OFuel => True
    end.
Proof.
  intros fuel lp s' o Hl Hok Hfits Hrun.
  destruct (full_compile_stmt_bridge lp Hl Hok Hfits) as (f & E & Hc & Hk & _).
  exists f. split; [exact E|]. split; [split; assumption|].
  exact (CP.compile_program_correct fuel (erase_stmts (fst lp)) s' o Hok Hrun).
Qed.
Print Assumptions full_compile_stmt_correct.

(* ---------- the statement-level theorem, in context ---------- *)
Lemma code_at_at all pc l : CP.code_at all pc l -> at_ all pc l.
Proof. intros (pre & post & -> & <-). exists post. rewrite skipn_len_app. reflexivity. Qed.

(* `C05_compile_stmt_correct` itself (a statement anywhere inside any code `all`) with FullCompile: from every
   compiler state that stands at instruction index pc of `all` (Post: code so far = the final bytes except at pending
   jumps, locals / scope depth / loops as in env), FullCompile's cstmt emits exactly the bytes `CE.assemble all` has for
   the statement - AND running `all` on the fragment VM from pc executes the statement as the reference evaluator does. *)
Theorem full_compile_stmt_correct_at :
  forall all fuel st depth s s' o env brk cont pc sigma Q stack,
  CE.fits all = true -> lok_s st = true ->
  ExprSem.exec_stmt fuel depth (erase_stmt st) s = (s', o) ->
  CE.stmt_ok env (erase_stmt st) = true -> CP.env_inv env -> CE.cdepth env = depth ->
  CP.env_match env (ExprSem.locals s) ->
  CP.code_at all pc (CE.cstmt true env brk cont (erase_stmt st)) ->
  Post all sigma pc Q env stack ->
  loopcond all env stack pc cont (off all (pc + CE.slen env (erase_stmt st) + brk)) ->
  (exists sigma', cstmt st sigma = COk (tt, sigma') /\
                  Post all sigma' (pc + CE.slen env (erase_stmt st)) Q (CE.env_after env (erase_stmt st)) stack) /\
  let start := FragVM.mkVS pc (CP.vals (ExprSem.locals s)) (ExprSem.wd s) in
  let len := CE.slen env (erase_stmt st) in
  match o with
  | ExprSem.ONormal =>
    CP.star all start (FragVM.mkVS (pc + len) (CP.vals (ExprSem.locals s')) (ExprSem.wd s')) /\
    CP.env_match (CE.env_after env (erase_stmt st)) (ExprSem.locals s') /\ CP.grows (ExprSem.locals s) (ExprSem.locals s')
  | ExprSem.OBreak =>
    exists d nl, CE.cloop env = Some (d, nl) /\
      CP.star all start (FragVM.mkVS (pc + len + brk) (CP.vals (ExprSem.keep_last nl (ExprSem.locals s'))) (ExprSem.wd s')) /\
      CP.grows (ExprSem.locals s) (ExprSem.locals s')
  | ExprSem.OContinue =>
    exists d nl, CE.cloop env = Some (d, nl) /\
      CP.star all start (FragVM.mkVS (pc - cont) (CP.vals (ExprSem.keep_last nl (ExprSem.locals s'))) (ExprSem.wd s')) /\
      CP.grows (ExprSem.locals s) (ExprSem.locals s')
  | ExprSem.OErr e => CP.raises all start e (ExprSem.wd s')
  | ExprSem.OFuel => True
  end.
Proof.
  intros all fuel st depth s s' o env brk cont pc sigma Q stack Hfits Hl Hex Hok Hinv Hdep Hm Hat HP HL.
  split.
  - destruct (cstmt_bridge all Hfits) as [HS _].
    apply (HS st env brk cont sigma pc Q stack Hl Hok (proj1 Hinv) (code_at_at _ _ _ Hat) HP HL).
  - apply (CP.compile_stmt_correct fuel (erase_stmt st) depth s s' o env brk cont all pc Hex Hok Hinv Hdep Hm Hat).
    intros d nl Hc. destruct (HL d nl Hc) as (LS & rst & _ & Hle & _). exact Hle.
Qed.
Print Assumptions full_compile_stmt_correct_at.

(* `C05_compile_expr_correct` in context, with FullCompile: an expression anywhere inside any code `all`, in any
   environment, with any jumps still pending *)
Theorem full_compile_expr_correct_at :
  forall all env e pc t s sigma P,
  CE.fits all = true -> lok_e e = true ->
  CE.expr_ok env (erase_expr e) = true -> CP.env_match env (ExprSem.locals s) ->
  CP.code_at all pc (CE.cexpr env (erase_expr e)) ->
  St all sigma pc P -> envrel sigma env ->
  (exists sigma', cexpr e sigma = COk (tt, sigma') /\
                  St all sigma' (pc + length (CE.cexpr env (erase_expr e))) P /\ rest sigma' = rest sigma) /\
  match ExprSem.eval_expr (erase_expr e) s with
  | (s', ExprSem.Ok v) =>
    CP.star all (FragVM.mkVS pc (t ++ CP.vals (ExprSem.locals s)) (ExprSem.wd s))
                (FragVM.mkVS (pc + length (CE.cexpr env (erase_expr e))) (v :: t ++ CP.vals (ExprSem.locals s')) (ExprSem.wd s')) /\
    CP.names (ExprSem.locals s') = CP.names (ExprSem.locals s)
  | (s', ExprSem.Er x) => CP.raises all (FragVM.mkVS pc (t ++ CP.vals (ExprSem.locals s)) (ExprSem.wd s)) x (ExprSem.wd s')
  end.
Proof.
  intros all env e pc t s sigma P Hfits Hl Hok Hm Hat HS He. split.
  - destruct (cexpr_bridge all Hfits) as [HE _].
    exact (HE e env Hl Hok sigma pc P (code_at_at _ _ _ Hat) HS He).
  - exact (CP.compile_expr_correct env (erase_expr e) all pc t s Hok Hm Hat).
Qed.
Print Assumptions full_compile_expr_correct_at.

(* ---------- the hypotheses are satisfiable (non-vacuity) ---------- *)
From YV Require Parser.
Example full_compile_stmt_bridge_nonvacuous :
  exists lp f,
    lparse_source (bs "var a = 1; var b = 0; while a < 10 && b != 3 { var t = a * 2; if t > 6 || a == 2 { b += 1; continue; } else if t == 4 { break; } a = a + 1; { var u = t; a += u; print(""x${a}y"", [u, (t, a)][0]); } }")
      = Parser.POk lp /\
    lok_ss (fst lp) = true /\ CE.program_ok (erase_stmts (fst lp)) = true /\ CE.fits (prog_code lp) = true /\
    compile_program lp = COk f /\ Nat.leb 150 (length (f_code f)) = true /\ Nat.leb 5 (length (f_consts f)) = true.
Proof.
  eexists. eexists. split; [vm_compute; reflexivity|].
  split; [vm_compute; reflexivity|]. split; [vm_compute; reflexivity|]. split; [vm_compute; reflexivity|].
  split; [vm_compute; reflexivity|]. split; vm_compute; reflexivity.
Qed.
