(* FullCompile-Bridge, item 3 (C06): proofs.  Definitions: FullBridgeC06Defs.v.

   PART 1  the executable check is sound: `bridge_C06 p = "same"` means that FullCompile accepts `tr_prog p` and that
           its function tree DECODES to exactly the function table of `compile_scope the_cfg p`; hence the stage-5
           correctness theorem holds for the decoded output of the full compiler on every program on which the check
           says "same" (`C06_full_compile_scope_correct_stage5_validated`), with a concrete non-trivial example.
   PART 2  towards the unconditional statement: see the comment at its head for what is proved and the exact gap. *)
From Coq Require Import Strings.Byte Strings.String Strings.Ascii.
From Coq Require Import List NArith ZArith Bool Arith Lia.
From Coq Require Import Floats.SpecFloat.
From YV Require Import Show Utf8 Num Ast Bytecode ParseLoc FullCompile FullBridgeC06Defs.
From YV Require Upvalues Cells ScopeLang ScopeComp ScopeSim ScopeDefs2 ScopeDefsN ScopeDefs5 ScopeComp5 ScopeRun ScopeStage5.
Import ListNotations.
Local Open Scope nat_scope.
Local Open Scope list_scope.

(* ------------------------------------------------------------------------------------------ *)
(* PART 1 *)

Lemma descs_eqb_eq : forall a b, descs_eqb a b = true -> a = b.
Proof.
  induction a as [|[x i] a IH]; intros [|[y j] b] H; cbn in H; try discriminate; [reflexivity|].
  apply andb_prop in H as [H H3]. apply andb_prop in H as [H1 H2].
  apply Bool.eqb_prop in H1. apply Nat.eqb_eq in H2. subst. f_equal. now apply IH.
Qed.

Lemma gname_eqb_eq : forall a b, gname_eqb a b = true -> a = b.
Proof. intros [x| |] [y| |] H; cbn in H; try discriminate; try reflexivity. apply Nat.eqb_eq in H. now subst. Qed.

Lemma meth_eqb_eq : forall a b, meth_eqb a b = true -> a = b.
Proof. intros [] [] H; cbn in H; try discriminate; reflexivity. Qed.

Lemma instr_eqb_eq : forall a b, instr_eqb a b = true -> a = b.
Proof.
  intros a b H; destruct a, b; cbn in H; try discriminate; try reflexivity;
    try (apply Nat.eqb_eq in H; now subst);
    try (apply N.eqb_eq in H; now subst);
    try (apply gname_eqb_eq in H; now subst);
    try (apply andb_prop in H as [H1 H2]).
  - apply meth_eqb_eq in H1. apply Nat.eqb_eq in H2. now subst.
  - apply Nat.eqb_eq in H1. apply descs_eqb_eq in H2. now subst.
  - apply Nat.eqb_eq in H1. apply Nat.eqb_eq in H2. now subst.
Qed.

Lemma code_eqb_eq : forall a b, code_eqb a b = true -> a = b.
Proof.
  induction a as [|x a IH]; intros [|y b] H; cbn in H; try discriminate; [reflexivity|].
  apply andb_prop in H as [H1 H2]. apply instr_eqb_eq in H1. subst. f_equal. now apply IH.
Qed.

Lemma func_eqb_eq : forall a b, func_eqb a b = true -> a = b.
Proof.
  intros [c1 a1 u1] [c2 a2 u2] H. unfold func_eqb in H. cbn in H.
  apply andb_prop in H as [H H3]. apply andb_prop in H as [H1 H2].
  apply code_eqb_eq in H1. apply Nat.eqb_eq in H2. apply Nat.eqb_eq in H3. now subst.
Qed.

Lemma funs_eqb_eq : forall a b, funs_eqb a b = true -> a = b.
Proof.
  induction a as [|x a IH]; intros [|y b] H; cbn in H; try discriminate; [reflexivity|].
  apply andb_prop in H as [H1 H2]. apply func_eqb_eq in H1. subst. f_equal. now apply IH.
Qed.

Local Open Scope string_scope.

(* what "same" means *)
Theorem bridge_same_sound : forall cf frag p lp, bridge_with cf frag p lp = "same" ->
  frag = true /\ repr_ok p = true /\
  exists funs f, SC.compile_scope cf p = Some funs /\ compile_program lp = COk f /\ decode_tree f = Some funs.
Proof.
  intros cf frag p lp. unfold bridge_with.
  destruct frag; cbn [negb]; [|discriminate].
  destruct (repr_ok p); cbn [negb]; [|discriminate].
  destruct (SC.compile_scope cf p) as [funs|]; destruct (compile_program lp) as [f|l m]; try discriminate.
  destruct (decode_tree f) as [funs'|] eqn:Ed; [|discriminate].
  destruct (funs_eqb funs' funs) eqn:Ee; [|discriminate]. intros _.
  apply funs_eqb_eq in Ee. subst funs'. repeat split. exists funs, f. auto.
Qed.

(* Translation validation: for EVERY program on which the check evaluates to "same", the stage-5 theorem is a statement
   about the decoded output of the FULL compiler model.  (The check is run on every generated program of the
   fragment, see notes/FullBridge-C06.md; `bridge_C06 p = "same"` is a closed boolean-like computation.) *)
Theorem C06_full_compile_scope_correct_stage5_validated : forall p fuel st en c,
  bridge_C06 p = "same" ->
  SL.exec_list fuel p [] true SL.s_empty = (st, en, c) -> (c = SL.CNorm \/ exists v, c = SL.CThrow v) ->
  exists f funs, compile_program (tr_prog p) = COk f /\ decode_tree f = Some funs /\
    exists n, forall k, SC.Gen.run_funs SC.bk_m ScopeRun.the_cfg (n + k) funs = SL.eval_cells_fuel fuel p.
Proof.
  intros p fuel st en c Hb He Hc.
  apply bridge_same_sound in Hb as (Hfrag & _ & funs & f & Hcs & Hcp & Hd).
  exists f, funs. split; [exact Hcp|]. split; [exact Hd|].
  exact (ScopeStage5.compile_scope_correct_stage5 ScopeRun.the_cfg p funs fuel st en c eq_refl eq_refl eq_refl Hfrag Hcs He Hc).
Qed.

Print Assumptions bridge_same_sound.
Print Assumptions C06_full_compile_scope_correct_stage5_validated.

(* the same for FullCompile run on the located parser's reading of the rendered SOURCE TEXT *)
Theorem C06_full_compile_scope_correct_stage5_validated_source : forall p fuel st en c,
  bridge_C06_render p = "same" ->
  SL.exec_list fuel p [] true SL.s_empty = (st, en, c) -> (c = SL.CNorm \/ exists v, c = SL.CThrow v) ->
  exists lp f funs, lparse_source (bs (SL.render p)) = Parser.POk lp /\
    compile_program lp = COk f /\ decode_tree f = Some funs /\
    exists n, forall k, SC.Gen.run_funs SC.bk_m ScopeRun.the_cfg (n + k) funs = SL.eval_cells_fuel fuel p.
Proof.
  intros p fuel st en c Hb He Hc. unfold bridge_C06_render in Hb.
  destruct (lparse_source (bs (SL.render p))) as [lp|l k m|] eqn:Ep; try discriminate.
  apply bridge_same_sound in Hb as (Hfrag & _ & funs & f & Hcs & Hcp & Hd).
  exists lp, f, funs. split; [reflexivity|]. split; [exact Hcp|]. split; [exact Hd|].
  exact (ScopeStage5.compile_scope_correct_stage5 ScopeRun.the_cfg p funs fuel st en c eq_refl eq_refl eq_refl Hfrag Hcs He Hc).
Qed.

Print Assumptions C06_full_compile_scope_correct_stage5_validated_source.

(* A non-trivial program on which everything is satisfied: a closure (v4) capturing a block local (v3) that is written
   after the capture, a `for` loop left by `break` (with a local to pop) and re-entered by `continue`, a try / catch
   whose handler reads the closure - plus, from ScopeStage5.v, the seven-function `stage5_example`. *)
Definition bridge_example : SL.prog :=
  [ SL.SDecl 20 (SL.ELit 0);
    SL.SLoop 1 5
      [ SL.SDecl 2 (SL.EAdd (SL.EVar 1) (SL.ELit 10));
        SL.SIf (SL.EVar 1) (SL.ELit 1) [SL.SContinue] [];
        SL.STry
          [ SL.SDecl 3 (SL.ELit 7);
            SL.SLam 4 [5] [SL.SAssign 3 (SL.EAdd (SL.EVar 3) (SL.EVar 5)); SL.SReturn (SL.EAdd (SL.EVar 3) (SL.EVar 2))];
            SL.SAssign 20 (SL.EVar 4);
            SL.SAssign 3 (SL.EAdd (SL.EVar 3) (SL.ELit 2));
            SL.SThrow (SL.ECall 4 [SL.ELit 100]) ]
          8 [ SL.SPrint (SL.EVar 8); SL.SPrint (SL.ECall 20 [SL.ELit 1]) ];
        SL.SIf (SL.ELit 2) (SL.EVar 1) [SL.SDecl 6 (SL.ELit 1); SL.SBreak] [] ];
    SL.SPrint (SL.ECall 20 [SL.ELit 0]) ].

Example bridge_example_same :
  in_stage5 bridge_example = true /\ repr_ok bridge_example = true /\
  bridge_C06 bridge_example = "same" /\ bridge_C06_render bridge_example = "same" /\
  (exists f funs, compile_program (tr_prog bridge_example) = COk f /\
                  SC.compile_scope ScopeRun.the_cfg bridge_example = Some funs /\
                  decode_tree f = Some funs /\ length funs = 2 /\
                  map SC.f_nups funs = [2; 0]) /\
  SL.eval_cells bridge_example = SC.run_m ScopeRun.the_cfg bridge_example /\
  bridge_C06 ScopeStage5.stage5_example = "same" /\ bridge_C06_render ScopeStage5.stage5_example = "same".
Proof.
  split; [vm_compute; reflexivity|]. split; [vm_compute; reflexivity|].
  split; [vm_compute; reflexivity|]. split; [vm_compute; reflexivity|].
  split.
  - destruct (compile_program (tr_prog bridge_example)) as [f|l m] eqn:Ef; [|vm_compute in Ef; discriminate].
    destruct (SC.compile_scope ScopeRun.the_cfg bridge_example) as [funs|] eqn:Es; [|vm_compute in Es; discriminate].
    exists f, funs. split; [reflexivity|]. split; [reflexivity|].
    vm_compute in Ef. inversion Ef; subst f. vm_compute in Es. inversion Es; subst funs.
    repeat split; vm_compute; reflexivity.
  - repeat split; vm_compute; reflexivity.
Qed.

(* what the example prints (Spec = machine), for the record *)
Example bridge_example_outcome : SL.eval_cells bridge_example = "120|121|121|122|122|123|123#ok".
Proof. vm_compute. reflexivity. Qed.
