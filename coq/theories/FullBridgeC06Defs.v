(* FullCompile-Bridge, item 3 (C06): definitions.

   The C06 fragment compiler `ScopeComp.compile_scope` (mini-language of ScopeLang.v, abstract instructions
   `ScopeComp.instr` with real byte sizes, flat function table in finalise order) against the full compiler model
   `FullCompile.compile_program` (located syntax of ParseLoc.v, function TREE with code bytes + constant tables).

     tr_prog      : ScopeLang.prog -> ParseLoc.lprogram        the program as FullCompile's input (all lines 0)
     enc_instr    : encoding of one ScopeComp instruction into bytes, relative to a constant table
     dec_code     : the decoder (opcode + operands; constant index -> the constant -> IConst n / IGetGlobal g / ...;
                    Closure idx -> number of the child function in finalise order)
     decode_tree  : FullCompile.func -> option (list ScopeComp.func)   (post-order = finalise order, arity - 1)
     bridge_C06   : the executable check  "same" / "DIFF" / "notfrag" / "cerr" / "rej" / "norepr"

   DEFINITIONS ONLY (proofs: FullBridgeC06.v). *)
From Coq Require Import Strings.Byte Strings.String Strings.Ascii.
From Coq Require Import List NArith ZArith Bool Arith.
From Coq Require Import Floats.SpecFloat.
From YV Require Import Show Utf8 Num Ast Bytecode Scanner Parser ParseLoc FullCompile.
From YV Require Upvalues Cells ScopeLang ScopeComp ScopeSim ScopeDefs2 ScopeDefsN ScopeDefs5 ScopeRun.
Import ListNotations.
Local Open Scope nat_scope.
Local Open Scope list_scope.

Module SL := ScopeLang.
Module SC := ScopeComp.

(* ------------------------------------------------------------------------------------------ *)
(* (a) the translation.  Concrete syntax = ScopeLang.render:
       ELit n            n                          (a Num token -> the f64 nearest to n)
       EVar x            v<x>
       EAdd a b          (a + b)
       ECall f args      v<f>(args)
       SDecl x e         var v<x> = e;
       SAssign x e       v<x> = e;                  (an expression statement)
       SPrint e          print(e);                  (a call of the global `print`)
       SFun f ps b       fn v<f>(ps) { b }
       SLam x ps b       var v<x> = |ps| { b };
       SLoop i n b       for v<i> in 0..n { b }
       SIf a c t e       if a < c { t } else { e }
       STry b x h        try { b } catch v<x> { h }
       SFiber b          Fiber.new(|| { b }).call();
       SVPush v e        v<v>.push(e);
   Every line number is 0 (ScopeComp has no line table). *)

Definition tr_name (x : SL.name) : list byte := bs (SL.vname x).
Definition tr_num (n : N) : spec_float := f64_of_Z (Z.of_N n).

Definition n_print : list byte := bs "print".
Definition n_fiber : list byte := bs "Fiber".
Definition n_iter : list byte := bs "iter".
Definition n_push : list byte := bs "push".
Definition n_new : list byte := bs "new".
Definition n_call : list byte := bs "call".

Fixpoint tr_expr (e : SL.expr) : lexpr :=
  let tr_args := fix go (l : list SL.expr) : lexprs :=
    match l with [] => LENil | a :: r => LECons (tr_expr a) (go r) end in
  match e with
  | SL.ELit n => LNum 0 (tr_num n)
  | SL.EVar x => LVar 0 (tr_name x)
  | SL.EAdd a b => LBinary BAdd (tr_expr a) (tr_expr b) 0
  | SL.ECall f args => LCall (LVar 0 (tr_name f)) (tr_args args) 0
  | SL.EVecNew => LVec LENil 0
  | SL.ECallIdx v k args =>
      LCall (LIndex (LVar 0 (tr_name v)) (LNum 0 (tr_num (N.of_nat k))) 0) (tr_args args) 0
  end.

Fixpoint tr_args (l : list SL.expr) : lexprs :=
  match l with [] => LENil | a :: r => LECons (tr_expr a) (tr_args r) end.

Fixpoint tr_stmt (s : SL.stmt) : lstmt :=
  let tr_list := fix go (l : list SL.stmt) : lstmts :=
    match l with [] => LSNil | a :: r => LSCons (tr_stmt a) (go r) end in
  match s with
  | SL.SDecl x e => LSVarInit (tr_name x) (tr_expr e) 0
  | SL.SAssign x e => LSExpr (LAssign (tr_name x) (tr_expr e) 0) 0
  | SL.SPrint e => LSExpr (LCall (LVar 0 n_print) (LECons (tr_expr e) LENil) 0) 0
  | SL.SExpr e => LSExpr (tr_expr e) 0
  | SL.SBlock b => LSBlock (tr_list b) 0
  | SL.SFun f ps b => LSFn (tr_name f) (map tr_name ps) (tr_list b) 0
  | SL.SLam x ps b => LSVarInit (tr_name x) (LLambdaB (map tr_name ps) (tr_list b) 0) 0
  | SL.SLoop i n b =>
      LSFor (tr_name i) 0 (LRange (LNum 0 (tr_num 0)) (LNum 0 (tr_num (N.of_nat n))) 0) 0 (tr_list b) 0
  | SL.SIf a c t e =>
      LSIfElse (LBinary BLt (tr_expr a) (tr_expr c) 0) 0 (tr_list t) 0 (LSBlock (tr_list e) 0)
  | SL.SBreak => LSBreak 0
  | SL.SContinue => LSContinue 0
  | SL.SReturn e => LSReturnE (tr_expr e) 0
  | SL.SThrow e => LSThrow (tr_expr e) 0
  | SL.STry b x h => LSTryC 0 (tr_list b) 0 (tr_name x) (tr_list h) 0
  | SL.SFiber b =>
      LSExpr (LInvoke (LInvoke (LVar 0 n_fiber) n_new (LECons (LLambdaB [] (tr_list b) 0) LENil) 0) n_call LENil 0) 0
  | SL.SVPush v e => LSExpr (LInvoke (LVar 0 (tr_name v)) n_push (LECons (tr_expr e) LENil) 0) 0
  end.

Fixpoint tr_list (l : list SL.stmt) : lstmts :=
  match l with [] => LSNil | a :: r => LSCons (tr_stmt a) (tr_list r) end.

Definition tr_prog (p : SL.prog) : lprogram := (tr_list p, 0%N).

(* ------------------------------------------------------------------------------------------ *)
(* reading constants back *)

(* decimal digits *)
Definition digit_of (b : byte) : option N :=
  let n := Byte.to_N b in
  if (N.leb 48 n && N.leb n 57)%bool then Some (n - 48)%N else None.

Fixpoint un_digits (l : list byte) (acc : N) : option N :=
  match l with
  | [] => Some acc
  | b :: r => match digit_of b with Some d => un_digits r (acc * 10 + d)%N | None => None end
  end.

(* a name constant of the constant table -> the global it names: print, Fiber, v<digits> *)
Definition un_name (s : list byte) : option SC.gname :=
  if bytes_eqb s n_print then Some SC.GPrint
  else if bytes_eqb s n_fiber then Some SC.GFiber
  else match s with
       | x76 :: (d :: _) as ds => match un_digits ds 0%N with Some n => Some (SC.GUser (N.to_nat n)) | None => None end
       | _ => None
       end.

Definition un_user (s : list byte) : option SL.name :=
  match un_name s with Some (SC.GUser x) => Some x | _ => None end.

Definition un_meth (s : list byte) : option SC.meth :=
  if bytes_eqb s n_iter then Some SC.MIter
  else if bytes_eqb s n_push then Some SC.MPush
  else if bytes_eqb s n_new then Some SC.MNew
  else if bytes_eqb s n_call then Some SC.MCall
  else None.

(* a number constant -> the natural number it is (None: negative, fractional, infinite, NaN) *)
Definition un_num (x : spec_float) : option N :=
  match x with
  | S754_zero _ => Some 0%N
  | S754_finite false m e =>
      match e with
      | Z0 => Some (Npos m)
      | Zpos p => Some (Npos m * 2 ^ Npos p)%N
      | Zneg p => let d := (2 ^ Npos p)%N in
                  if N.eqb (N.modulo (Npos m) d) 0 then Some (Npos m / d)%N else None
      end
  | _ => None
  end.

(* ------------------------------------------------------------------------------------------ *)
(* (b) the encoding of one instruction.  `kidx c` = an index at which the constant table holds (a constant equal
   to) c; `fidx fn` = the index at which it holds the function whose number (finalise order) is fn.  Both are
   parameters: FullCompile's constant table de-duplicates and interleaves names / numbers / functions, so the
   indices are not a function of the instruction alone. *)
Definition u16le (n : nat) : list N := [N.modulo (N.of_nat n) 256; N.div (N.of_nat n) 256]%N.
Definition opb (o : opcode) : N := N_of_opcode o.

Definition gname_bytes (g : SC.gname) : list byte :=
  match g with SC.GUser x => tr_name x | SC.GPrint => n_print | SC.GFiber => n_fiber end.
Definition meth_bytes (m : SC.meth) : list byte :=
  match m with SC.MIter => n_iter | SC.MPush => n_push | SC.MNew => n_new | SC.MCall => n_call end.

Definition enc_desc (d : bool * nat) : list N := [if fst d then 1%N else 0%N; N.of_nat (snd d)].

Definition enc_instr (kidx : const -> nat) (fidx : nat -> nat) (i : SC.instr) : list N :=
  match i with
  | SC.IConst n => opb OpConstant :: u16le (kidx (KNum (tr_num n)))
  | SC.INil => [opb OpNil]
  | SC.IPop => [opb OpPop]
  | SC.IGetLocal k => [opb OpGetLocal; N.of_nat k]
  | SC.ISetLocal k => [opb OpSetLocal; N.of_nat k]
  | SC.IGetGlobal g => opb OpGetGlobal :: u16le (kidx (KStr (gname_bytes g)))
  | SC.IDefineGlobal x => opb OpDefineGlobal :: u16le (kidx (KStr (tr_name x)))
  | SC.ISetGlobal x => opb OpSetGlobal :: u16le (kidx (KStr (tr_name x)))
  | SC.IGetUpvalue k => [opb OpGetUpvalue; N.of_nat k]
  | SC.ISetUpvalue k => [opb OpSetUpvalue; N.of_nat k]
  | SC.IAdd => [opb OpAdd]
  | SC.ILess => [opb OpLess]
  | SC.IJump o => opb OpJump :: u16le o
  | SC.IJumpIfFalse o => opb OpJumpIfFalse :: u16le o
  | SC.IJumpIfStopIter o => opb OpJumpIfStopIter :: u16le o
  | SC.ILoop o => opb OpLoop :: u16le o
  | SC.ICall n => [opb OpCall; N.of_nat n]
  | SC.IInvoke m n => opb OpInvoke :: u16le (kidx (KStr (meth_bytes m))) ++ [N.of_nat n]
  | SC.IClosure fn ds => opb OpClosure :: u16le (fidx fn) ++ flat_map enc_desc ds
  | SC.ICloseUpvalue => [opb OpCloseUpvalue]
  | SC.IReturn => [opb OpReturn]
  | SC.IBuildRange => [opb OpBuildRange]
  | SC.IBuildVec n => [opb OpBuildVec; N.of_nat n]
  | SC.IIterNext => [opb OpIterNext]
  | SC.IGetItem => [opb OpGetItem]
  | SC.IPushExc a b => opb OpPushExcHandler :: u16le a ++ u16le b
  | SC.IPopExc => [opb OpPopExcHandler]
  | SC.IThrow => [opb OpThrow]
  end.

Definition enc_code (kidx : const -> nat) (fidx : nat -> nat) (c : list SC.instr) : list N :=
  flat_map (enc_instr kidx fidx) c.

(* ------------------------------------------------------------------------------------------ *)
(* (b') the decoder.  ks = the function's constant table; fm = for every constant index the number (finalise order)
   of the function stored there (0 where the constant is not a function). *)
Definition u16 (lo hi : N) : nat := N.to_nat (lo + 256 * hi).

Fixpoint read_descs (n : nat) (c : list N) : option (list (bool * nat) * list N) :=
  match n with
  | 0 => Some ([], c)
  | S n' =>
      match c with
      | il :: ix :: r =>
          match (if N.eqb il 1 then Some true else if N.eqb il 0 then Some false else None), read_descs n' r with
          | Some b, Some (ds, r') => Some ((b, N.to_nat ix) :: ds, r')
          | _, _ => None
          end
      | _ => None
      end
  end.

Definition kstr (ks : list const) (i : nat) : option (list byte) :=
  match nth_error ks i with Some (KStr s) => Some s | _ => None end.
Definition knum (ks : list const) (i : nat) : option N :=
  match nth_error ks i with Some (KNum x) => un_num x | _ => None end.
Definition kfun (ks : list const) (i : nat) : option func :=
  match nth_error ks i with Some (KFun g) => Some g | _ => None end.

Definition omap {A B} (f : A -> B) (o : option A) : option B :=
  match o with Some a => Some (f a) | None => None end.
Definition obind {A B} (o : option A) (f : A -> option B) : option B :=
  match o with Some a => f a | None => None end.

(* one instruction: the instruction and the bytes after it *)
Definition dec1 (ks : list const) (fm : list nat) (c : list N) : option (SC.instr * list N) :=
  match c with
  | [] => None
  | op :: r =>
    match opcode_of_N op, r with
    | Some OpNil, _ => Some (SC.INil, r)
    | Some OpPop, _ => Some (SC.IPop, r)
    | Some OpAdd, _ => Some (SC.IAdd, r)
    | Some OpLess, _ => Some (SC.ILess, r)
    | Some OpCloseUpvalue, _ => Some (SC.ICloseUpvalue, r)
    | Some OpReturn, _ => Some (SC.IReturn, r)
    | Some OpBuildRange, _ => Some (SC.IBuildRange, r)
    | Some OpIterNext, _ => Some (SC.IIterNext, r)
    | Some OpGetItem, _ => Some (SC.IGetItem, r)
    | Some OpPopExcHandler, _ => Some (SC.IPopExc, r)
    | Some OpThrow, _ => Some (SC.IThrow, r)
    | Some OpGetLocal, a :: r' => Some (SC.IGetLocal (N.to_nat a), r')
    | Some OpSetLocal, a :: r' => Some (SC.ISetLocal (N.to_nat a), r')
    | Some OpGetUpvalue, a :: r' => Some (SC.IGetUpvalue (N.to_nat a), r')
    | Some OpSetUpvalue, a :: r' => Some (SC.ISetUpvalue (N.to_nat a), r')
    | Some OpCall, a :: r' => Some (SC.ICall (N.to_nat a), r')
    | Some OpBuildVec, a :: r' => Some (SC.IBuildVec (N.to_nat a), r')
    | Some OpJump, lo :: hi :: r' => Some (SC.IJump (u16 lo hi), r')
    | Some OpJumpIfFalse, lo :: hi :: r' => Some (SC.IJumpIfFalse (u16 lo hi), r')
    | Some OpJumpIfStopIter, lo :: hi :: r' => Some (SC.IJumpIfStopIter (u16 lo hi), r')
    | Some OpLoop, lo :: hi :: r' => Some (SC.ILoop (u16 lo hi), r')
    | Some OpConstant, lo :: hi :: r' =>
        omap (fun n => (SC.IConst n, r')) (knum ks (u16 lo hi))
    | Some OpGetGlobal, lo :: hi :: r' =>
        omap (fun g => (SC.IGetGlobal g, r')) (obind (kstr ks (u16 lo hi)) un_name)
    | Some OpDefineGlobal, lo :: hi :: r' =>
        omap (fun x => (SC.IDefineGlobal x, r')) (obind (kstr ks (u16 lo hi)) un_user)
    | Some OpSetGlobal, lo :: hi :: r' =>
        omap (fun x => (SC.ISetGlobal x, r')) (obind (kstr ks (u16 lo hi)) un_user)
    | Some OpInvoke, lo :: hi :: n :: r' =>
        omap (fun m => (SC.IInvoke m (N.to_nat n), r')) (obind (kstr ks (u16 lo hi)) un_meth)
    | Some OpPushExcHandler, a0 :: a1 :: b0 :: b1 :: r' => Some (SC.IPushExc (u16 a0 a1) (u16 b0 b1), r')
    | Some OpClosure, lo :: hi :: r' =>
        obind (kfun ks (u16 lo hi)) (fun g =>
        omap (fun dr : list (bool * nat) * list N => (SC.IClosure (nth (u16 lo hi) fm 0) (fst dr), snd dr))
             (read_descs (N.to_nat (f_upvalues g)) r'))
    | _, _ => None
    end
  end.

Fixpoint dec_code (fuel : nat) (ks : list const) (fm : list nat) (c : list N) : option (list SC.instr) :=
  match fuel with
  | 0 => None
  | S fu =>
    match c with
    | [] => Some []
    | _ => match dec1 ks fm c with
           | Some (i, r) => omap (cons i) (dec_code fu ks fm r)
           | None => None
           end
    end
  end.

(* the function tree, flattened in the order ScopeComp numbers functions (= finalise order = post-order over the
   KFun constants, a function after the functions of its own constant table); `base` = number of the first function
   of this subtree.  Arity: FullCompile counts slot 0 (starts at 1), ScopeComp counts parameters. *)
Fixpoint dec_func (f : func) (base : nat) {struct f} : option (list SC.func) :=
  match f with
  | MkFunc a u _ code ks _ =>
    let walk :=
      (fix go (l : list const) (base : nat) {struct l} : option (list SC.func * list nat) :=
         match l with
         | [] => Some ([], [])
         | KFun g :: r =>
             match dec_func g base with
             | Some lg =>
                 match go r (base + length lg) with
                 | Some (fs, fm) => Some (lg ++ fs, (base + length lg - 1) :: fm)
                 | None => None
                 end
             | None => None
             end
         | _ :: r =>
             match go r base with
             | Some (fs, fm) => Some (fs, 0 :: fm)
             | None => None
             end
         end) ks base in
    match walk with
    | Some (children, fm) =>
        match dec_code (S (length code)) ks fm code with
        | Some is => Some (children ++ [SC.mkFunc is (N.to_nat a - 1) (N.to_nat u)])
        | None => None
        end
    | None => None
    end
  end.

(* dec_func's inner loop as a function of its own (dec_func_unfold in FullBridgeC06.v): the constants of one table, left to right: the functions below it (each subtree flattened) and, per constant index,
   the number of the function stored there *)
Fixpoint dec_consts (l : list const) (base : nat) {struct l} : option (list SC.func * list nat) :=
  match l with
  | [] => Some ([], [])
  | KFun g :: r =>
      match dec_func g base with
      | Some lg =>
          match dec_consts r (base + length lg) with
          | Some (fs, fm) => Some (lg ++ fs, (base + length lg - 1) :: fm)
          | None => None
          end
      | None => None
      end
  | _ :: r =>
      match dec_consts r base with
      | Some (fs, fm) => Some (fs, 0 :: fm)
      | None => None
      end
  end.

Definition decode_tree (f : func) : option (list SC.func) := dec_func f 0.

(* ------------------------------------------------------------------------------------------ *)
(* side conditions that make the representation change loss-free for a given program: every literal is a number
   that f64 holds exactly and every name survives the round trip through its spelling.  (Both hold for every
   literal < 2^53 and every name; they are stated as decidable conditions on the program.) *)
Definition lit_ok (n : N) : bool :=
  match un_num (tr_num n) with Some m => N.eqb m n | None => false end.
Definition name_ok (x : SL.name) : bool :=
  match un_name (tr_name x) with Some (SC.GUser y) => Nat.eqb y x | _ => false end.

Fixpoint expr_repr_ok (e : SL.expr) : bool :=
  match e with
  | SL.ELit n => lit_ok n
  | SL.EVar x => name_ok x
  | SL.EAdd a b => expr_repr_ok a && expr_repr_ok b
  | SL.ECall f args => name_ok f && forallb expr_repr_ok args
  | SL.EVecNew => true
  | SL.ECallIdx v k args => name_ok v && lit_ok (N.of_nat k) && forallb expr_repr_ok args
  end.

Fixpoint stmt_repr_ok (s : SL.stmt) : bool :=
  match s with
  | SL.SDecl x e | SL.SAssign x e | SL.SVPush x e => name_ok x && expr_repr_ok e
  | SL.SPrint e | SL.SExpr e | SL.SReturn e | SL.SThrow e => expr_repr_ok e
  | SL.SBlock b | SL.SFiber b => forallb stmt_repr_ok b
  | SL.SFun f ps b | SL.SLam f ps b => name_ok f && forallb name_ok ps && forallb stmt_repr_ok b
  | SL.SLoop i n b => name_ok i && lit_ok 0 && lit_ok (N.of_nat n) && forallb stmt_repr_ok b
  | SL.SIf a c t e => expr_repr_ok a && expr_repr_ok c && forallb stmt_repr_ok t && forallb stmt_repr_ok e
  | SL.SBreak | SL.SContinue => true
  | SL.STry b x h => name_ok x && forallb stmt_repr_ok b && forallb stmt_repr_ok h
  end.

Definition repr_ok (p : SL.prog) : bool := forallb stmt_repr_ok p.

(* ------------------------------------------------------------------------------------------ *)
(* (e) the executable check *)
Definition gname_eqb (a b : SC.gname) : bool :=
  match a, b with
  | SC.GUser x, SC.GUser y => Nat.eqb x y
  | SC.GPrint, SC.GPrint | SC.GFiber, SC.GFiber => true
  | _, _ => false
  end.
Definition meth_eqb (a b : SC.meth) : bool :=
  match a, b with
  | SC.MIter, SC.MIter | SC.MPush, SC.MPush | SC.MNew, SC.MNew | SC.MCall, SC.MCall => true
  | _, _ => false
  end.
Fixpoint descs_eqb (a b : list (bool * nat)) : bool :=
  match a, b with
  | [], [] => true
  | (x, i) :: a', (y, j) :: b' => Bool.eqb x y && Nat.eqb i j && descs_eqb a' b'
  | _, _ => false
  end.
Definition instr_eqb (a b : SC.instr) : bool :=
  match a, b with
  | SC.IConst x, SC.IConst y => N.eqb x y
  | SC.INil, SC.INil | SC.IPop, SC.IPop | SC.IAdd, SC.IAdd | SC.ILess, SC.ILess
  | SC.ICloseUpvalue, SC.ICloseUpvalue | SC.IReturn, SC.IReturn | SC.IBuildRange, SC.IBuildRange
  | SC.IIterNext, SC.IIterNext | SC.IGetItem, SC.IGetItem | SC.IPopExc, SC.IPopExc | SC.IThrow, SC.IThrow => true
  | SC.IGetLocal x, SC.IGetLocal y | SC.ISetLocal x, SC.ISetLocal y
  | SC.IGetUpvalue x, SC.IGetUpvalue y | SC.ISetUpvalue x, SC.ISetUpvalue y
  | SC.IJump x, SC.IJump y | SC.IJumpIfFalse x, SC.IJumpIfFalse y | SC.IJumpIfStopIter x, SC.IJumpIfStopIter y
  | SC.ILoop x, SC.ILoop y | SC.ICall x, SC.ICall y | SC.IBuildVec x, SC.IBuildVec y
  | SC.IDefineGlobal x, SC.IDefineGlobal y | SC.ISetGlobal x, SC.ISetGlobal y => Nat.eqb x y
  | SC.IGetGlobal x, SC.IGetGlobal y => gname_eqb x y
  | SC.IInvoke m x, SC.IInvoke k y => meth_eqb m k && Nat.eqb x y
  | SC.IClosure f d, SC.IClosure g e => Nat.eqb f g && descs_eqb d e
  | SC.IPushExc a1 b1, SC.IPushExc a2 b2 => Nat.eqb a1 a2 && Nat.eqb b1 b2
  | _, _ => false
  end.
Fixpoint code_eqb (a b : list SC.instr) : bool :=
  match a, b with
  | [], [] => true
  | x :: a', y :: b' => instr_eqb x y && code_eqb a' b'
  | _, _ => false
  end.
Definition func_eqb (a b : SC.func) : bool :=
  code_eqb (SC.f_code a) (SC.f_code b) && Nat.eqb (SC.f_arity a) (SC.f_arity b) && Nat.eqb (SC.f_nups a) (SC.f_nups b).
Fixpoint funs_eqb (a b : list SC.func) : bool :=
  match a, b with
  | [], [] => true
  | x :: a', y :: b' => func_eqb x y && funs_eqb a' b'
  | _, _ => false
  end.

Definition in_stage5 (p : SL.prog) : bool := forallb (ScopeDefs5.stmt7 true false true false) p.

(* the check against an arbitrary located program (tr_prog p, or the parser's reading of `render p`) *)
Local Open Scope string_scope.
Definition bridge_with (cf : SC.cfg) (frag : bool) (p : SL.prog) (lp : lprogram) : string :=
  if negb frag then "notfrag" else
  if negb (repr_ok p) then "norepr" else
  match SC.compile_scope cf p, compile_program lp with
  | Some funs, COk f =>
      match decode_tree f with
      | Some funs' => if funs_eqb funs' funs then "same" else "DIFF"
      | None => "DIFF"
      end
  | Some _, CErr _ _ => "cerr"
  | None, CErr _ _ => "rej"
  | None, COk _ => "DIFF"
  end.

(* stage-5 fragment, configuration read off the current sources, FullCompile on tr_prog p *)
Definition bridge_C06 (p : SL.prog) : string := bridge_with ScopeRun.the_cfg (in_stage5 p) p (tr_prog p).

(* the same on the whole mini-language (fibers, vectors, return / break inside try: compile_scope may then reject
   what FullCompile accepts - reported as DIFF) *)
Definition bridge_C06_any (p : SL.prog) : string := bridge_with ScopeRun.the_cfg true p (tr_prog p).

(* ... and with FullCompile run on what the located PARSER makes of the rendered source text (ties tr_prog to the
   concrete syntax: same outcome as bridge_C06 whenever parse (render p) and tr_prog p agree up to line numbers) *)
Definition bridge_C06_render (p : SL.prog) : string :=
  match lparse_source (bs (SL.render p)) with
  | POk lp => bridge_with ScopeRun.the_cfg (in_stage5 p) p lp
  | PErr _ _ _ => "parse"
  | POutOfFuel => "fuel"
  end.

(* wire entries for the driver (programs in the wire format of ScopeLang.decode_prog, as tools/props/C06.py sends them) *)
Definition bridge_C06_wire (w : string) : string := ScopeRun.with_prog w bridge_C06.
Definition bridge_C06_render_wire (w : string) : string := ScopeRun.with_prog w bridge_C06_render.
Definition bridge_C06_any_wire (w : string) : string := ScopeRun.with_prog w bridge_C06_any.
