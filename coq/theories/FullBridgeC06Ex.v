(* FullCompile-Bridge, item 3 (C06): the hypotheses of the unconditional (`sup`) bridge theorem are satisfiable by programs
   that exercise if / else, try / catch and closures together (no `for` loop: see notes/FullBridge-C06.md). *)
From Coq Require Import List NArith Bool Arith String.
From YV Require Import FullCompile FullBridgeC06Defs FullBridgeC06Full FullBridgeC06Repr.
From YV Require ScopeLang ScopeComp ScopeDefs5 ScopeRun ScopeStage5.
Import ListNotations.

(* the witness of the unwind refutation (ScopeStage5.v): a closure over the first local of a try block, written after
   the capture, read in the catch clause *)
Example sup_unwind_witness :
  forallb sup ScopeStage5.unwind_witness = true /\ forallb stmt_small ScopeStage5.unwind_witness = true /\
  exists funs f, SC.compile_scope ScopeRun.the_cfg ScopeStage5.unwind_witness = Some funs /\
                 compile_program (tr_prog ScopeStage5.unwind_witness) = COk f /\ decode_tree f = Some funs.
Proof.
  split; [reflexivity|]. split; [vm_compute; reflexivity|].
  destruct (SC.compile_scope ScopeRun.the_cfg ScopeStage5.unwind_witness) as [funs|] eqn:Es; [|vm_compute in Es; discriminate].
  destruct (compile_program (tr_prog ScopeStage5.unwind_witness)) as [f|l m] eqn:Ef; [|vm_compute in Ef; discriminate].
  exists funs, f. split; [reflexivity|]. split; [reflexivity|].
  exact (bridge_C06_sup_partial ScopeRun.the_cfg eq_refl ScopeStage5.unwind_witness funs f eq_refl eq_refl eq_refl
           (repr_ok_small ScopeStage5.unwind_witness ltac:(vm_compute; reflexivity)) Es Ef).
Qed.

(* if / else inside a function inside a try block, a nested try whose catch clause throws again, a closure created in a
   catch clause that captures the catch variable, else-if chains as nested ifs *)
Definition sup_example2 : SL.prog :=
  [ SL.SLam 20 [] [SL.SReturn (SL.ELit 0)];
    SL.SFun 1 [2] [ SL.SIf (SL.EVar 2) (SL.ELit 1)
                      [ SL.SDecl 3 (SL.ELit 5); SL.SLam 4 [] [SL.SAssign 3 (SL.EAdd (SL.EVar 3) (SL.ELit 1)); SL.SReturn (SL.EVar 3)];
                        SL.SAssign 20 (SL.EVar 4); SL.SThrow (SL.EAdd (SL.EVar 3) (SL.ELit 100)) ]
                      [ SL.SIf (SL.EVar 2) (SL.ELit 2) [SL.SReturn (SL.ELit 7)] [] ];
                    SL.SReturn (SL.ECall 20 []) ];
    SL.STry [ SL.SPrint (SL.ECall 1 [SL.ELit 1]);
              SL.STry [ SL.SPrint (SL.ECall 1 [SL.ELit 0]) ]
                      8 [ SL.SPrint (SL.EVar 8); SL.SLam 9 [] [SL.SReturn (SL.EVar 8)]; SL.SAssign 20 (SL.EVar 9);
                          SL.SThrow (SL.EAdd (SL.EVar 8) (SL.ELit 1)) ] ]
            10 [ SL.SPrint (SL.EVar 10); SL.SPrint (SL.ECall 20 []) ];
    SL.SPrint (SL.ECall 1 [SL.ELit 5]) ].

Example sup_example2_ok :
  forallb sup sup_example2 = true /\ forallb (ScopeDefs5.stmt7 true false true false) sup_example2 = true /\
  forallb stmt_small sup_example2 = true /\
  (exists funs f, SC.compile_scope ScopeRun.the_cfg sup_example2 = Some funs /\ List.length funs = 5 /\
                  compile_program (tr_prog sup_example2) = COk f /\ decode_tree f = Some funs) /\
  SL.eval_cells sup_example2 = SC.run_m ScopeRun.the_cfg sup_example2.
Proof.
  split; [reflexivity|]. split; [reflexivity|]. split; [vm_compute; reflexivity|]. split; [|vm_compute; reflexivity].
  destruct (SC.compile_scope ScopeRun.the_cfg sup_example2) as [funs|] eqn:Es; [|vm_compute in Es; discriminate].
  destruct (compile_program (tr_prog sup_example2)) as [f|l m] eqn:Ef; [|vm_compute in Ef; discriminate].
  exists funs, f. split; [reflexivity|]. split; [vm_compute in Es; inversion Es; subst funs; reflexivity|]. split; [reflexivity|].
  exact (bridge_C06_sup_partial ScopeRun.the_cfg eq_refl sup_example2 funs f eq_refl eq_refl eq_refl
           (repr_ok_small sup_example2 ltac:(vm_compute; reflexivity)) Es Ef).
Qed.

Eval vm_compute in (SL.eval_cells sup_example2).

(* the unconditional theorem for the whole stage-5 fragment, on the example of FullBridgeC06.v: a closure over a try-block
   local written after the capture, a `for` loop with `continue` and a `break` that pops a local, try / catch *)
From YV Require FullBridgeC06.
Example stage5_bridge_example :
  exists funs f, SC.compile_scope ScopeRun.the_cfg FullBridgeC06.bridge_example = Some funs /\
                 compile_program (tr_prog FullBridgeC06.bridge_example) = COk f /\ decode_tree f = Some funs.
Proof.
  destruct (SC.compile_scope ScopeRun.the_cfg FullBridgeC06.bridge_example) as [funs|] eqn:Es; [|vm_compute in Es; discriminate].
  destruct (compile_program (tr_prog FullBridgeC06.bridge_example)) as [f|l m] eqn:Ef; [|vm_compute in Ef; discriminate].
  exists funs, f. split; [reflexivity|]. split; [reflexivity|].
  exact (bridge_C06_stage5 ScopeRun.the_cfg FullBridgeC06.bridge_example funs f eq_refl eq_refl eq_refl
           (repr_ok_small FullBridgeC06.bridge_example ltac:(vm_compute; reflexivity)) Es Ef).
Qed.
